//go:build verif_c03

package main

import (
	"fmt"
	"strings"
)

// C03: a rejected SetLocal/SetRemoteDescription leaves negotiation state unchanged.

// direct oracle: every set call that returned an error left the signaling
// state and the four descriptions as they were and emitted no event.
// The signature names the cause: side and error class of the call.
func c03Oracle(tr *sigTrace) (Verdict, int, int) {
	rejected, valid := 0, 0
	for i, s := range tr.Steps {
		if !s.isSet() {
			continue
		}
		if s.Err == "ok" {
			valid++
			continue
		}
		rejected++
		if !s.unchanged() {
			what := s.describe(i) + fmt.Sprintf("; before: pendingLocal %v currentLocal %v pendingRemote %v currentRemote %v; after: %v %v %v %v; events %v",
				s.Prev[0], s.Prev[1], s.Prev[2], s.Prev[3], s.Now[0], s.Now[1], s.Now[2], s.Now[3], s.Events)
			return Fail(fmt.Sprintf("%s-%s-error-after-transition", sigSideName(s.Op.K), strings.ToLower(s.Err)), what), rejected, valid
		}
		if len(s.Events) > 0 {
			return Fail(fmt.Sprintf("%s-%s-error-with-state-event", sigSideName(s.Op.K), strings.ToLower(s.Err)), s.describe(i)), rejected, valid
		}
	}
	for k := 0; k < 2; k++ {
		if len(tr.Late[k]) > 0 {
			return Fail("state-event-without-state-change", fmt.Sprintf("pc%d: events %v arrived outside any state change", k, tr.Late[k])), rejected, valid
		}
	}
	return Pass("", false), rejected, valid
}

func c03Run(c sigCase) (V, Verdict) {
	tr := sigExec(c)
	v, rej, _ := c03Oracle(tr)
	if v.OK {
		v.NonTrivial = rej > 0
		classes := map[string]bool{}
		for _, s := range tr.Steps {
			if s.isSet() && s.Err != "ok" {
				classes[s.Err] = true
			}
		}
		v.Class = fmt.Sprintf("rejected%d/classes%d", min(rej, 4), len(classes))
	}
	sigNote(c, tr, &v)
	return tr.V(), v
}

// c03Prefix brings pc0 into the state and prepares the texts a valid next call
// would carry: natL (own last created), natR (the peer's last created).
func c03Prefix(state int, renegotiation bool) (ops []sigOp, natL, natR int) {
	if renegotiation {
		ops = c01Exchange(ops, 1, false)
	}
	n := len(ops)
	switch state {
	case ssStable, ssClosed:
		ops = append(ops, sigOp{K: sigCreateOffer, PC: 1}, sigOp{K: sigCreateOffer, PC: 0})
		natR, natL = n, n+1
		if state == ssClosed {
			ops = append(ops, sigOp{K: sigClose, PC: 0})
		}
	case ssHLO, ssHRP:
		ops = append(ops, sigOp{K: sigCreateOffer, PC: 0}, sigOp{K: sigSetLocal, PC: 0, Ty: tyOffer, Ref: n},
			sigOp{K: sigSetRemote, PC: 1, Ty: tyOffer, Ref: n}, sigOp{K: sigCreateAnswer, PC: 1})
		natL, natR = n, n+3
		if state == ssHRP {
			ops = append(ops, sigOp{K: sigSetLocal, PC: 1, Ty: tyPranswer, Ref: n + 3},
				sigOp{K: sigSetRemote, PC: 0, Ty: tyPranswer, Ref: n + 3})
		}
	case ssHRO, ssHLP:
		ops = append(ops, sigOp{K: sigCreateOffer, PC: 1}, sigOp{K: sigSetLocal, PC: 1, Ty: tyOffer, Ref: n},
			sigOp{K: sigSetRemote, PC: 0, Ty: tyOffer, Ref: n}, sigOp{K: sigCreateAnswer, PC: 0})
		natR, natL = n, n+3
		if state == ssHLP {
			ops = append(ops, sigOp{K: sigSetLocal, PC: 0, Ty: tyPranswer, Ref: n + 3})
		}
	}
	return ops, natL, natR
}

// every reachable state x side x type x mutation class, then the call that
// would have been valid in the original state and an attempt to answer
func c03Classes() []sigCase {
	var out []sigCase
	for _, reneg := range []bool{false, true} {
		for _, state := range []int{ssStable, ssHLO, ssHRO, ssHLP, ssHRP, ssClosed} {
			pre, natL, natR := c03Prefix(state, reneg)
			for _, side := range []int{sigSetLocal, sigSetRemote} {
				nat := natR
				if side == sigSetLocal {
					nat = natL
				}
				for ty := 0; ty <= 5; ty++ {
					for mut := 0; mut < mutCount; mut++ {
						ops := append([]sigOp{}, pre...)
						ops = append(ops, sigOp{K: side, PC: 0, Ty: ty, Ref: nat, Mut: mut})
						// the valid continuation of the original state
						switch state {
						case ssStable:
							ops = append(ops, sigOp{K: sigSetRemote, PC: 0, Ty: tyOffer, Ref: natR})
						case ssHLO, ssHRP:
							ops = append(ops, sigOp{K: sigSetRemote, PC: 0, Ty: tyAnswer, Ref: natR})
						case ssHRO, ssHLP:
							ops = append(ops, sigOp{K: sigSetLocal, PC: 0, Ty: tyAnswer, Ref: natL})
						}
						k := len(ops)
						ops = append(ops, sigOp{K: sigCreateAnswer, PC: 0}, sigOp{K: sigSetLocal, PC: 0, Ty: tyAnswer, Ref: k})
						out = append(out, sigCase{Cfg: [2]int{len(out) % 3, (len(out) / 3) % 3}, Ops: ops})
					}
				}
			}
		}
	}
	return out
}

// senders that cannot start under the negotiated answer (codec of a bound track dropped)
func c03SendCases() []sigCase {
	// pc0 offers; pc1 answers
	ex := func(nosend int) []sigOp {
		return []sigOp{{K: sigCreateOffer, PC: 0}, {K: sigSetLocal, PC: 0, Ty: tyOffer, Ref: 0},
			{K: sigSetRemote, PC: 1, Ty: tyOffer, Ref: 0}, {K: sigCreateAnswer, PC: 1, Mut: nosend + 1},
			{K: sigSetLocal, PC: 1, Ty: tyAnswer, Ref: 3}, {K: sigSetRemote, PC: 0, Ty: tyAnswer, Ref: 3}}
	}
	again := []sigOp{{K: sigSetLocal, PC: 1, Ty: tyAnswer, Ref: 3}, {K: sigSetRemote, PC: 0, Ty: tyAnswer, Ref: 3},
		{K: sigCreateOffer, PC: 1}, {K: sigSetLocal, PC: 1, Ty: tyOffer, Ref: 8}}
	return []sigCase{
		// local witness (c03_local_full_refuted): H264-only offerer, answerer holds a VP8 track
		{Cfg: [2]int{4, 3}, Ops: ex(1)},
		{Cfg: [2]int{4, 3}, Ops: append(ex(1), again...)},
		// remote: the offerer holds the VP8 track, the H264-only peer's answer drops VP8
		{Cfg: [2]int{3, 4}, Ops: ex(0)},
		{Cfg: [2]int{3, 4}, Ops: append(ex(0), again...)},
		// controls: same shapes, compatible codecs
		{Cfg: [2]int{3, 2}, Ops: ex(-1)},
		{Cfg: [2]int{2, 3}, Ops: ex(-1)},
	}
}

// the steps that run after setDescription and can fail, one scenario each
// (witnesses of c03_remote_classes_refuted / c03_local_classes_refuted), with controls
func c03PostCases() []sigCase {
	noAgent := func(pc int) sigOp { return sigOp{K: sigDeclare, PC: pc, Ref: -1, Mut: traitNoAgent} }
	sticky := func(pc int) sigOp { return sigOp{K: sigDeclare, PC: pc, Ref: -1, Mut: traitStickyTrack} }
	var out []sigCase
	for cfg := 0; cfg < 3; cfg++ {
		out = append(out,
			// Codec, first negotiation: the peer's offer plus an audio section with unreadable formats;
			// then the valid offer (now an invalid edge), an answer attempt
			sigCase{Cfg: [2]int{cfg, cfg}, Ops: []sigOp{{K: sigCreateOffer, PC: 1}, {K: sigSetRemote, PC: 0, Ty: tyOffer, Ref: 0, Mut: mutBadCodec},
				{K: sigSetRemote, PC: 0, Ty: tyOffer, Ref: 0}, {K: sigCreateAnswer, PC: 0}, {K: sigSetLocal, PC: 0, Ty: tyAnswer, Ref: 3}}},
			// Codec, renegotiation, as offer and as answer
			sigCase{Cfg: [2]int{cfg, cfg}, Ops: append(c01Exchange(nil, 1, false), sigOp{K: sigCreateOffer, PC: 1},
				sigOp{K: sigSetRemote, PC: 0, Ty: tyOffer, Ref: 6, Mut: mutBadCodec}, sigOp{K: sigSetRemote, PC: 0, Ty: tyOffer, Ref: 6})},
			sigCase{Cfg: [2]int{cfg, cfg}, Ops: []sigOp{{K: sigCreateOffer, PC: 0}, {K: sigSetLocal, PC: 0, Ty: tyOffer, Ref: 0},
				{K: sigSetRemote, PC: 1, Ty: tyOffer, Ref: 0}, {K: sigCreateAnswer, PC: 1},
				{K: sigSetRemote, PC: 0, Ty: tyAnswer, Ref: 3, Mut: mutBadCodec}, {K: sigSetRemote, PC: 0, Ty: tyAnswer, Ref: 3}}},
			// Gather: no agent, SetLocalDescription({offer, ""}) before any CreateOffer (JSEP 5.4
			// substitutes the empty last offer); then CreateOffer (refused), the same call again
			sigCase{Cfg: [2]int{cfg, 0}, Ops: []sigOp{noAgent(0), {K: sigSetLocal, PC: 0, Ty: tyOffer, Ref: -1},
				{K: sigCreateOffer, PC: 0}, {K: sigSetLocal, PC: 0, Ty: tyOffer, Ref: -1}}},
			// Gather on the answering side: remote offer applied, CreateAnswer refused,
			// SetLocalDescription({answer, ""}) completes the exchange and fails
			sigCase{Cfg: [2]int{cfg, cfg}, Ops: []sigOp{noAgent(0), {K: sigCreateOffer, PC: 1}, {K: sigSetRemote, PC: 0, Ty: tyOffer, Ref: 1},
				{K: sigCreateAnswer, PC: 0}, {K: sigSetLocal, PC: 0, Ty: tyAnswer, Ref: -1}, {K: sigCreateOffer, PC: 0}}},
			// AddRemoteCandidate: no agent, the peer's offer with one valid candidate line;
			// control: the same on an ordinary connection
			sigCase{Cfg: [2]int{cfg, cfg}, Ops: []sigOp{noAgent(0), {K: sigCreateOffer, PC: 1}, {K: sigSetRemote, PC: 0, Ty: tyOffer, Ref: 1, Mut: mutGoodCandidate},
				{K: sigSetRemote, PC: 0, Ty: tyOffer, Ref: 1}}},
			sigCase{Cfg: [2]int{cfg, cfg}, Ops: []sigOp{{K: sigCreateOffer, PC: 1}, {K: sigSetRemote, PC: 0, Ty: tyOffer, Ref: 0, Mut: mutGoodCandidate},
				{K: sigCreateAnswer, PC: 0}, {K: sigSetLocal, PC: 0, Ty: tyAnswer, Ref: 2}}},
		)
	}
	// Stop: pc0 holds a track that refuses Unbind and has sent; the peer's next offer,
	// every section inactive, makes SetRemoteDescription stop the transceiver.
	// control: the unmutated offer; the inactive offer on a connection with an ordinary track
	for _, mut := range []int{mutInactive, mutNone} {
		ops := c01Exchange([]sigOp{sticky(0)}, 0, false) // ops 1..6, pc0 offers
		out = append(out, sigCase{Cfg: [2]int{0, 2}, Ops: append(ops, sigOp{K: sigCreateOffer, PC: 1},
			sigOp{K: sigSetRemote, PC: 0, Ty: tyOffer, Ref: 7, Mut: mut}, sigOp{K: sigSetRemote, PC: 0, Ty: tyOffer, Ref: 7})})
	}
	out = append(out, sigCase{Cfg: [2]int{3, 2}, Ops: append(c01Exchange(nil, 0, false), sigOp{K: sigCreateOffer, PC: 1},
		sigOp{K: sigSetRemote, PC: 0, Ty: tyOffer, Ref: 6, Mut: mutInactive}, sigOp{K: sigSetRemote, PC: 0, Ty: tyOffer, Ref: 6})})
	return out
}

func init() {
	allMuts := []int{mutGarbage, mutNoMid, mutNoUfrag, mutNoPwd, mutNoFingerprint, mutBadFingerprint, mutBadCandidate,
		mutBadCodec, mutGoodCandidate, mutInactive}
	Register(Spec[sigCase]{
		ID: "C03", Suite: "classes", CoqImports: []string{"Check.C03"},
		CoqType: "list Check.C01.hop", CoqRun: "Check.C03.run",
		Parallel:   8,
		Exhaustive: c03Classes,
		Run:        c03Run, Coq: sigCoq, Shrink: sigShrink,
	})
	Register(Spec[sigCase]{
		ID: "C03", Suite: "send", CoqImports: []string{"Check.C03"},
		CoqType: "list Check.C01.hop", CoqRun: "Check.C03.run",
		Exhaustive: c03SendCases,
		Run:        c03Run, Coq: sigCoq,
	})
	Register(Spec[sigCase]{
		ID: "C03", Suite: "post", CoqImports: []string{"Check.C03"},
		CoqType: "list Check.C01.hop", CoqRun: "Check.C03.run",
		Exhaustive: c03PostCases,
		Run:        c03Run, Coq: sigCoq,
	})
	Register(Spec[sigCase]{
		ID: "C03", Suite: "hist", CoqImports: []string{"Check.C03"},
		CoqType: "list Check.C01.hop", CoqRun: "Check.C03.run",
		Quick: 500, Thorough: 8000, Parallel: 8,
		Corpus: func() []sigCase {
			// witnesses of c03_remote_full_refuted / c03_remote_classes_refuted: a fresh
			// connection given the peer's offer with one thing removed
			var out []sigCase
			for _, m := range allMuts[1:7] {
				out = append(out, sigCase{Ops: []sigOp{{K: sigCreateOffer, PC: 1}, {K: sigSetRemote, PC: 0, Ty: tyOffer, Ref: 0, Mut: m},
					{K: sigSetRemote, PC: 0, Ty: tyOffer, Ref: 0}}})
			}
			return out
		},
		Gen: func(r *Rand, i int) sigCase {
			return sigGenHistory(r, 12, allMuts, i%4 == 3)
		},
		Run: c03Run, Coq: sigCoq, Shrink: sigShrink,
	})
}
