//go:build verif_c03

package main

import (
	"fmt"
	"strings"
)

// C03: a rejected SetLocal/SetRemoteDescription leaves negotiation state unchanged.

// direct oracle: every set call that returned an error left the signaling
// state and the four descriptions as they were and emitted no event.
// The signature names the cause: side and error class of the call.
func c03Oracle(tr *sigTrace) (Verdict, int, int) {
	rejected, valid := 0, 0
	for i, s := range tr.Steps {
		if !s.isSet() {
			continue
		}
		if s.Err == "ok" {
			valid++
			continue
		}
		rejected++
		if !s.unchanged() {
			what := s.describe(i) + fmt.Sprintf("; before: pendingLocal %v currentLocal %v pendingRemote %v currentRemote %v; after: %v %v %v %v; events %v",
				s.Prev[0], s.Prev[1], s.Prev[2], s.Prev[3], s.Now[0], s.Now[1], s.Now[2], s.Now[3], s.Events)
			return Fail(fmt.Sprintf("%s-%s-error-after-transition", sigSideName(s.Op.K), strings.ToLower(s.Err)), what), rejected, valid
		}
		if len(s.Events) > 0 {
			return Fail(fmt.Sprintf("%s-%s-error-with-state-event", sigSideName(s.Op.K), strings.ToLower(s.Err)), s.describe(i)), rejected, valid
		}
	}
	for k := 0; k < 2; k++ {
		if len(tr.Late[k]) > 0 {
			return Fail("state-event-without-state-change", fmt.Sprintf("pc%d: events %v arrived outside any state change", k, tr.Late[k])), rejected, valid
		}
	}
	return Pass("", false), rejected, valid
}

func c03Run(c sigCase) (V, Verdict) {
	tr := sigExec(c)
	v, rej, _ := c03Oracle(tr)
	if v.OK {
		v.NonTrivial = rej > 0
		classes := map[string]bool{}
		for _, s := range tr.Steps {
			if s.isSet() && s.Err != "ok" {
				classes[s.Err] = true
			}
		}
		v.Class = fmt.Sprintf("rejected%d/classes%d", min(rej, 4), len(classes))
	}
	sigNote(c, tr, &v)
	return tr.V(), v
}

// c03Prefix brings pc0 into the state and prepares the texts a valid next call
// would carry: natL (own last created), natR (the peer's last created).
func c03Prefix(state int, renegotiation bool) (ops []sigOp, natL, natR int) {
	if renegotiation {
		ops = c01Exchange(ops, 1, false)
	}
	n := len(ops)
	switch state {
	case ssStable, ssClosed:
		ops = append(ops, sigOp{K: sigCreateOffer, PC: 1}, sigOp{K: sigCreateOffer, PC: 0})
		natR, natL = n, n+1
		if state == ssClosed {
			ops = append(ops, sigOp{K: sigClose, PC: 0})
		}
	case ssHLO, ssHRP:
		ops = append(ops, sigOp{K: sigCreateOffer, PC: 0}, sigOp{K: sigSetLocal, PC: 0, Ty: tyOffer, Ref: n},
			sigOp{K: sigSetRemote, PC: 1, Ty: tyOffer, Ref: n}, sigOp{K: sigCreateAnswer, PC: 1})
		natL, natR = n, n+3
		if state == ssHRP {
			ops = append(ops, sigOp{K: sigSetLocal, PC: 1, Ty: tyPranswer, Ref: n + 3},
				sigOp{K: sigSetRemote, PC: 0, Ty: tyPranswer, Ref: n + 3})
		}
	case ssHRO, ssHLP:
		ops = append(ops, sigOp{K: sigCreateOffer, PC: 1}, sigOp{K: sigSetLocal, PC: 1, Ty: tyOffer, Ref: n},
			sigOp{K: sigSetRemote, PC: 0, Ty: tyOffer, Ref: n}, sigOp{K: sigCreateAnswer, PC: 0})
		natR, natL = n, n+3
		if state == ssHLP {
			ops = append(ops, sigOp{K: sigSetLocal, PC: 0, Ty: tyPranswer, Ref: n + 3})
		}
	}
	return ops, natL, natR
}

// every reachable state x side x type x mutation class, then the call that
// would have been valid in the original state and an attempt to answer
func c03Classes() []sigCase {
	var out []sigCase
	for _, reneg := range []bool{false, true} {
		for _, state := range []int{ssStable, ssHLO, ssHRO, ssHLP, ssHRP, ssClosed} {
			pre, natL, natR := c03Prefix(state, reneg)
			for _, side := range []int{sigSetLocal, sigSetRemote} {
				nat := natR
				if side == sigSetLocal {
					nat = natL
				}
				for ty := 0; ty <= 5; ty++ {
					for mut := 0; mut < mutCount; mut++ {
						ops := append([]sigOp{}, pre...)
						ops = append(ops, sigOp{K: side, PC: 0, Ty: ty, Ref: nat, Mut: mut})
						// the valid continuation of the original state
						switch state {
						case ssStable:
							ops = append(ops, sigOp{K: sigSetRemote, PC: 0, Ty: tyOffer, Ref: natR})
						case ssHLO, ssHRP:
							ops = append(ops, sigOp{K: sigSetRemote, PC: 0, Ty: tyAnswer, Ref: natR})
						case ssHRO, ssHLP:
							ops = append(ops, sigOp{K: sigSetLocal, PC: 0, Ty: tyAnswer, Ref: natL})
						}
						k := len(ops)
						ops = append(ops, sigOp{K: sigCreateAnswer, PC: 0}, sigOp{K: sigSetLocal, PC: 0, Ty: tyAnswer, Ref: k})
						out = append(out, sigCase{Cfg: [2]int{len(out) % 3, (len(out) / 3) % 3}, Ops: ops})
					}
				}
			}
		}
	}
	return out
}

// senders that cannot start under the negotiated answer (codec of a bound track dropped)
func c03SendCases() []sigCase {
	// pc0 offers; pc1 answers
	ex := func(nosend int) []sigOp {
		return []sigOp{{K: sigCreateOffer, PC: 0}, {K: sigSetLocal, PC: 0, Ty: tyOffer, Ref: 0},
			{K: sigSetRemote, PC: 1, Ty: tyOffer, Ref: 0}, {K: sigCreateAnswer, PC: 1, Mut: nosend + 1},
			{K: sigSetLocal, PC: 1, Ty: tyAnswer, Ref: 3}, {K: sigSetRemote, PC: 0, Ty: tyAnswer, Ref: 3}}
	}
	again := []sigOp{{K: sigSetLocal, PC: 1, Ty: tyAnswer, Ref: 3}, {K: sigSetRemote, PC: 0, Ty: tyAnswer, Ref: 3},
		{K: sigCreateOffer, PC: 1}, {K: sigSetLocal, PC: 1, Ty: tyOffer, Ref: 8}}
	return []sigCase{
		// local witness (c03_local_full_refuted): H264-only offerer, answerer holds a VP8 track
		{Cfg: [2]int{4, 3}, Ops: ex(1)},
		{Cfg: [2]int{4, 3}, Ops: append(ex(1), again...)},
		// remote: the offerer holds the VP8 track, the H264-only peer's answer drops VP8
		{Cfg: [2]int{3, 4}, Ops: ex(0)},
		{Cfg: [2]int{3, 4}, Ops: append(ex(0), again...)},
		// controls: same shapes, compatible codecs
		{Cfg: [2]int{3, 2}, Ops: ex(-1)},
		{Cfg: [2]int{2, 3}, Ops: ex(-1)},
	}
}

func init() {
	allMuts := []int{mutGarbage, mutNoMid, mutNoUfrag, mutNoPwd, mutNoFingerprint, mutBadFingerprint, mutBadCandidate}
	Register(Spec[sigCase]{
		ID: "C03", Suite: "classes", CoqImports: []string{"Check.C03"},
		CoqType: "list Check.C01.hop", CoqRun: "Check.C03.run",
		Parallel:   8,
		Exhaustive: c03Classes,
		Run:        c03Run, Coq: sigCoq, Shrink: sigShrink,
	})
	Register(Spec[sigCase]{
		ID: "C03", Suite: "send", CoqImports: []string{"Check.C03"},
		CoqType: "list Check.C01.hop", CoqRun: "Check.C03.run",
		Exhaustive: c03SendCases,
		Run:        c03Run, Coq: sigCoq,
	})
	Register(Spec[sigCase]{
		ID: "C03", Suite: "hist", CoqImports: []string{"Check.C03"},
		CoqType: "list Check.C01.hop", CoqRun: "Check.C03.run",
		Quick: 500, Thorough: 8000, Parallel: 8,
		Corpus: func() []sigCase {
			// witnesses of c03_remote_full_refuted / c03_remote_classes_refuted: a fresh
			// connection given the peer's offer with one thing removed
			var out []sigCase
			for _, m := range allMuts[1:] {
				out = append(out, sigCase{Ops: []sigOp{{K: sigCreateOffer, PC: 1}, {K: sigSetRemote, PC: 0, Ty: tyOffer, Ref: 0, Mut: m},
					{K: sigSetRemote, PC: 0, Ty: tyOffer, Ref: 0}}})
			}
			return out
		},
		Gen: func(r *Rand, i int) sigCase {
			return sigGenHistory(r, 12, allMuts, i%4 == 3)
		},
		Run: c03Run, Coq: sigCoq, Shrink: sigShrink,
	})
}
