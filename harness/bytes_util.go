//go:build verif_c25 || verif_c26 || verif_c28 || verif_c29

package main

import "strings"

// Byte strings are printed as Gallina [list Byte.byte] literals (see
// coq/Common/BytesUtil.v): far cheaper for coqc to parse than hex strings.

const hexdigits = "0123456789abcdef"

// CoqBytes renders b as [x90; x61; ...] : list Byte.byte.
func CoqBytes(b []byte) string {
	var sb strings.Builder
	sb.Grow(5*len(b) + 2)
	sb.WriteByte('[')
	for i, c := range b {
		if i > 0 {
			sb.WriteByte(';')
		}
		sb.WriteByte('x')
		sb.WriteByte(hexdigits[c>>4])
		sb.WriteByte(hexdigits[c&15])
	}
	sb.WriteByte(']')
	return sb.String()
}

// VBy is an observation value equal to VHex(b) on the Coq side, printed as
// (vby [..]).
type VBy []byte

func (v VBy) Coq() string { return "(vby " + CoqBytes(v) + ")" }
