//go:build verif_c19

package main

// C19: data channels deliver exactly once, in order, intact; in-band channels
// appear remotely with the same parameters.
//
// suite "params" (no network): DataChannel.open on one SCTPTransport and
//   acceptDataChannels on the other, joined by an in-memory datagram pipe; the
//   whole type-case x boundary-value grid, raw DCEP opens, and the
//   CreateDataChannel argument check.
// suite "conn" (connected): real PeerConnection pairs over loopback, random
//   channels and message scripts.

import (
	"context"
	"encoding/hex"
	"errors"
	"fmt"
	"io"
	"net"
	"sort"
	"strings"
	"sync"
	"time"

	"github.com/pion/datachannel"
	"github.com/pion/logging"
	"github.com/pion/sctp"
	"github.com/pion/webrtc/v4"
)

// ---------- in-memory datagram pipe (no sockets) ----------

type memAddr struct{}

func (memAddr) Network() string { return "mem" }
func (memAddr) String() string  { return "mem" }

type memConn struct {
	in     chan []byte
	out    chan []byte
	closed chan struct{}
	peer   *memConn
	once   sync.Once
}

func newMemPipe() (*memConn, *memConn) {
	ab, ba := make(chan []byte, 4096), make(chan []byte, 4096)
	a := &memConn{in: ba, out: ab, closed: make(chan struct{})}
	b := &memConn{in: ab, out: ba, closed: make(chan struct{})}
	a.peer, b.peer = b, a
	return a, b
}

func (c *memConn) Read(p []byte) (int, error) {
	select {
	case b := <-c.in:
		return copy(p, b), nil
	case <-c.closed:
		return 0, io.EOF
	}
}

func (c *memConn) Write(p []byte) (int, error) {
	cp := append([]byte(nil), p...)
	select {
	case <-c.closed:
		return 0, io.ErrClosedPipe
	case <-c.peer.closed:
		return len(p), nil // datagram semantics: lost
	case c.out <- cp:
		return len(p), nil
	}
}
func (c *memConn) Close() error                     { c.once.Do(func() { close(c.closed) }); return nil }
func (c *memConn) LocalAddr() net.Addr              { return memAddr{} }
func (c *memConn) RemoteAddr() net.Addr             { return memAddr{} }
func (c *memConn) SetDeadline(time.Time) error      { return nil }
func (c *memConn) SetReadDeadline(time.Time) error  { return nil }
func (c *memConn) SetWriteDeadline(time.Time) error { return nil }

// ---------- suite "params" ----------

type c19Param struct {
	Mode     int    `json:"mode"` // 0 ortc open->accept, 1 raw DCEP dial->accept, 2 CreateDataChannel check
	Ordered  bool   `json:"ordered"`
	MR       int    `json:"mr"`   // maxRetransmits, -1 = nil
	MPLT     int    `json:"mplt"` // maxPacketLifeTime, -1 = nil
	LabelLen int    `json:"label_len"`
	Label    string `json:"label"` // used when LabelLen == 0
	Protocol string `json:"protocol"`
	RawType  int    `json:"raw_type"`
	RawRel   int64  `json:"raw_rel"`
	// Before: something that makes one Accept fail on the receiving transport,
	// sent on another stream first: "oversize" (DATA_CHANNEL_OPEN > 8192 bytes),
	// "badtype" (channel type 0x7f), "data-first" (a data message on a stream
	// that has no channel). The channel of the case must still be announced.
	Before string `json:"before,omitempty"`
}

func (p c19Param) label() string {
	if p.LabelLen > 0 {
		return strings.Repeat("L", p.LabelLen)
	}
	return p.Label
}

func u16ptr(v int) *uint16 {
	if v < 0 {
		return nil
	}
	x := uint16(v)
	return &x
}

func c19Getters(d *webrtc.DataChannel) V {
	opt := func(p *uint16) V {
		if p == nil {
			return VL{}
		}
		return VL{VZ(int64(*p))}
	}
	return VL{VS(c19Text(d.Label())), VS(c19Text(d.Protocol())),
		VB(d.Ordered()), opt(d.MaxRetransmits()), opt(d.MaxPacketLifeTime()), VB(d.Negotiated())}
}

// c19Text projects a label/protocol for the model comparison: hex when short,
// otherwise hex prefix + length + digest (the model treats it as opaque; the
// direct oracle compares the full strings)
func c19Text(s string) string {
	if len(s) <= 24 {
		return hex.EncodeToString([]byte(s))
	}
	return fmt.Sprintf("%s~%d~%d", hex.EncodeToString([]byte(s[:16])), len(s), fnv62([]byte(s)))
}

func quietLF() *logging.DefaultLoggerFactory {
	lf := logging.NewDefaultLoggerFactory()
	lf.DefaultLogLevel = logging.LogLevelDisabled
	return lf
}

// second, independent transcription of the channel-type table (RFC 8832 5.1)
func c19TypeOf(ordered bool, mr, mplt int) (typ int, rel int64) {
	typ = 0x00
	switch {
	case mr >= 0:
		typ, rel = 0x01, int64(mr)
	case mplt >= 0:
		typ, rel = 0x02, int64(mplt)
	}
	if !ordered {
		typ |= 0x80
	}
	return typ, rel
}

func samePtr(p *uint16, v int) bool {
	if p == nil {
		return v < 0
	}
	return v >= 0 && int(*p) == v
}

func c19ParamRun(in c19Param) (V, Verdict) {
	label := in.label()
	if in.Mode == 2 {
		return c19CreateCheck(in, label)
	}
	se := webrtc.SettingEngine{}
	se.LoggerFactory = quietLF()
	api := webrtc.NewAPI(webrtc.WithSettingEngine(se))
	ca, cb := newMemPipe()
	ta, tb := api.NewSCTPTransport(nil), api.NewSCTPTransport(nil)
	defer func() { _ = ta.Stop(); _ = tb.Stop(); _ = ca.Close(); _ = cb.Close() }()
	got := make(chan *webrtc.DataChannel, 4)
	tb.OnDataChannel(func(d *webrtc.DataChannel) { got <- d })
	acceptDied := make(chan error, 1)
	tb.OnClose(func(err error) {
		select {
		case acceptDied <- err:
		default:
		}
	})
	acceptErr := make(chan error, 4) // a single Accept failed; the loop goes on
	tb.OnError(func(err error) {
		select {
		case acceptErr <- err:
		default:
		}
	})
	errs := make(chan error, 2)
	go func() { errs <- ta.VerifStartOver(ca) }()
	go func() { errs <- tb.VerifStartOver(cb) }()
	for i := 0; i < 2; i++ {
		select {
		case err := <-errs:
			if err != nil {
				return VS("setup"), Fail("sctp-association-over-pipe-failed", err.Error())
			}
		case <-time.After(10 * time.Second):
			return VS("setup"), Fail("sctp-association-over-pipe-timeout", "no association after 10 s")
		}
	}
	id := uint16(4)
	var obs VL
	bothSet := in.MR >= 0 && in.MPLT >= 0
	class := ""
	if in.Before != "" {
		var err error
		switch in.Before {
		case "oversize":
			_, err = datachannel.Dial(ta.VerifAssociation(), 6, &datachannel.Config{
				ChannelType: datachannel.ChannelTypeReliable, Priority: datachannel.ChannelPriorityNormal,
				Label: strings.Repeat("B", 9000), LoggerFactory: quietLF()})
		case "badtype":
			_, err = datachannel.Dial(ta.VerifAssociation(), 6, &datachannel.Config{
				ChannelType: datachannel.ChannelType(0x7f), Priority: datachannel.ChannelPriorityNormal,
				Label: "bad", LoggerFactory: quietLF()})
		case "data-first":
			var st *sctp.Stream
			if st, err = ta.VerifAssociation().OpenStream(6, sctp.PayloadTypeWebRTCString); err == nil {
				_, err = st.WriteSCTP([]byte("early"), sctp.PayloadTypeWebRTCString)
			}
		}
		if err != nil {
			return VS("before"), Fail("disturbing-open-could-not-be-sent", err.Error())
		}
		select { // the receiving side has seen (and refused) it
		case <-acceptErr:
		case e := <-acceptDied:
			return VS("accept-ended"), Fail("failed-open-ends-accept-loop",
				fmt.Sprintf("after a %s open acceptDataChannels ended (%v): no later in-band channel can appear", in.Before, e))
		case <-time.After(8 * time.Second):
			return VS("before"), Fail("disturbing-open-not-noticed", in.Before)
		}
	}
	switch in.Mode {
	case 0:
		d, err := api.NewDataChannel(ta, &webrtc.DataChannelParameters{
			Label: label, Protocol: in.Protocol, ID: &id, Ordered: in.Ordered,
			MaxRetransmits: u16ptr(in.MR), MaxPacketLifeTime: u16ptr(in.MPLT),
		})
		if err != nil {
			return VS("open-error"), Fail("ortc-open-failed", err.Error())
		}
		t, r, ok := d.VerifDCEPConfig()
		if !ok {
			return VS("no-config"), Fail("open-left-no-datachannel", "dataChannel nil after open")
		}
		obs = VL{VZ(int64(t)), VZ(int64(r))}
		wt, wr := c19TypeOf(in.Ordered, in.MR, in.MPLT)
		if int(t) != wt || int64(r) != wr {
			return obs, Fail("open-channel-type-or-reliability-wrong",
				fmt.Sprintf("open computed type %#x rel %d, RFC 8832 table says %#x %d", t, r, wt, wr))
		}
		class = fmt.Sprintf("ortc/type%#02x", wt)
		if bothSet {
			class = "ortc/both-limits"
		}
	case 1:
		_, err := datachannel.Dial(ta.VerifAssociation(), id, &datachannel.Config{
			ChannelType: datachannel.ChannelType(in.RawType), ReliabilityParameter: uint32(in.RawRel),
			Priority: datachannel.ChannelPriorityNormal, Label: label, Protocol: in.Protocol,
			LoggerFactory: quietLF(),
		})
		if err != nil {
			return VS("dial-error"), Fail("raw-dial-failed", err.Error())
		}
		class = fmt.Sprintf("raw/type%#02x", in.RawType)
	}
	var remote *webrtc.DataChannel
	oversize := len(label)+len(in.Protocol) > c19DCEPOpenBudget
	select {
	case remote = <-got:
	case err := <-acceptErr: // this open was refused, the loop goes on
		if in.Mode == 1 && !c19ValidType(in.RawType) {
			return append(obs, VL{}), Pass("raw/invalid-type-refused", false)
		}
		if oversize {
			return append(obs, VL{}), Fail("dcep-open-over-8192-bytes-not-announced",
				fmt.Sprintf("Accept failed (%v) instead of announcing the channel: label %d bytes + protocol %d bytes + 12 > 8192",
					err, len(label), len(in.Protocol)))
		}
		return append(obs, VL{}), Fail("accept-failed-on-valid-open",
			fmt.Sprintf("Accept failed (%v): label %d bytes, protocol %d bytes", err, len(label), len(in.Protocol)))
	case err := <-acceptDied:
		return append(obs, VL{}), Fail("failed-open-ends-accept-loop",
			fmt.Sprintf("acceptDataChannels ended (%v): label %d bytes, protocol %d bytes", err, len(label), len(in.Protocol)))
	case <-time.After(8 * time.Second):
		return append(obs, VL{}), Fail("in-band-channel-not-announced",
			fmt.Sprintf("no OnDataChannel within 8 s: label %d bytes, protocol %d bytes", len(label), len(in.Protocol)))
	}
	obs = append(obs, VL{c19Getters(remote)})
	// direct oracle: the remote channel reports what was asked for
	var want struct {
		ordered  bool
		mr, mplt int
	}
	if in.Mode == 0 {
		want.ordered, want.mr, want.mplt = in.Ordered, in.MR, in.MPLT
		if bothSet {
			want.mplt = -1 // documented: maxRetransmits wins in open's switch
		}
	} else {
		want.ordered = in.RawType&0x80 == 0
		want.mr, want.mplt = -1, -1
		switch in.RawType & 0x7f {
		case 1:
			want.mr = int(uint16(in.RawRel))
		case 2:
			want.mplt = int(uint16(in.RawRel))
		}
	}
	switch {
	case remote.Label() != label:
		return obs, Fail("remote-label-differs", fmt.Sprintf("label %q arrived as %q", trunc(label), trunc(remote.Label())))
	case remote.Protocol() != in.Protocol:
		return obs, Fail("remote-protocol-differs", fmt.Sprintf("protocol %q arrived as %q", in.Protocol, remote.Protocol()))
	case remote.Ordered() != want.ordered:
		return obs, Fail("remote-ordered-differs", fmt.Sprintf("ordered %v arrived as %v", want.ordered, remote.Ordered()))
	case !samePtr(remote.MaxRetransmits(), want.mr):
		return obs, Fail("remote-maxretransmits-differs", fmt.Sprintf("maxRetransmits %d arrived as %v", want.mr, remote.MaxRetransmits()))
	case !samePtr(remote.MaxPacketLifeTime(), want.mplt):
		return obs, Fail("remote-maxpacketlifetime-differs", fmt.Sprintf("maxPacketLifeTime %d arrived as %v", want.mplt, remote.MaxPacketLifeTime()))
	case remote.Negotiated():
		return obs, Fail("remote-negotiated-set", "an in-band channel reports negotiated=true remotely")
	case remote.ID() == nil || *remote.ID() != id:
		return obs, Fail("remote-id-differs", "stream id differs")
	}
	if in.Before != "" {
		class = "after-" + in.Before + "/" + class
	}
	v := Pass(class, true)
	return obs, v
}

func trunc(s string) string {
	if len(s) > 24 {
		return s[:24] + fmt.Sprintf("...(%d)", len(s))
	}
	return s
}

func c19ValidType(t int) bool {
	switch t {
	case 0x00, 0x80, 0x01, 0x81, 0x02, 0x82:
		return true
	}
	return false
}

func c19CreateCheck(in c19Param, label string) (V, Verdict) {
	se := webrtc.SettingEngine{}
	se.LoggerFactory = quietLF()
	se.SetInterfaceFilter(func(string) bool { return false })
	se.SetNetworkTypes([]webrtc.NetworkType{webrtc.NetworkTypeUDP4})
	api := webrtc.NewAPI(webrtc.WithSettingEngine(se))
	pc, err := api.NewPeerConnection(webrtc.Configuration{})
	if err != nil {
		panic(err)
	}
	defer func() { _ = pc.Close() }()
	ord := in.Ordered
	proto := in.Protocol
	d, err := pc.CreateDataChannel(label, &webrtc.DataChannelInit{
		Ordered: &ord, MaxRetransmits: u16ptr(in.MR), MaxPacketLifeTime: u16ptr(in.MPLT), Protocol: &proto,
	})
	both := in.MR >= 0 && in.MPLT >= 0
	if err != nil {
		cls := "other"
		if errors.Is(err, webrtc.ErrRetransmitsOrPacketLifeTime) {
			cls = "retransmits-or-packet-lifetime"
		}
		obs := VL{VS("err"), VS(cls)}
		if !both {
			return obs, Fail("create-refused-legal-parameters", err.Error())
		}
		if cls == "other" {
			return obs, Fail("create-both-limits-wrong-error", err.Error())
		}
		return obs, Pass("create/both-limits-refused", true)
	}
	obs := VL{VS("ok"), c19Getters(d)}
	if both {
		return obs, Fail("create-accepts-both-limits", "CreateDataChannel accepted maxRetransmits and maxPacketLifeTime together")
	}
	if d.Label() != label || d.Protocol() != proto || d.Ordered() != ord ||
		!samePtr(d.MaxRetransmits(), in.MR) || !samePtr(d.MaxPacketLifeTime(), in.MPLT) || d.Negotiated() {
		return obs, Fail("create-getters-differ", "local channel does not report the requested parameters")
	}
	return obs, Pass("create/ok", true)
}

func c19ParamCoq(in c19Param) string {
	if in.Mode == 1 && !c19ValidType(in.RawType) {
		return "" // pion/datachannel refuses the type before acceptDataChannels sees it
	}
	if len(in.label())+len(in.Protocol) > c19DCEPOpenBudget {
		return "" // outside the DCEP carriage contract (see known finding)
	}
	return fmt.Sprintf("(Pin %d %s %s %s %s %s %d %d)", in.Mode, CoqBool(in.Ordered), CoqZ(int64(in.MR)),
		CoqZ(int64(in.MPLT)), CoqString(c19Text(in.label())), CoqString(c19Text(in.Protocol)), in.RawType, in.RawRel)
}

// pion/datachannel reads the DATA_CHANNEL_OPEN into an 8192-byte buffer; the
// message is 12 bytes of header + label + protocol
const c19DCEPOpenBudget = 8192 - 12

func c19ParamCases() []c19Param {
	var out []c19Param
	vals := []int{-1, 0, 1, 2, 255, 256, 32767, 32768, 65534, 65535}
	for _, ord := range []bool{true, false} {
		for _, mr := range vals {
			for _, mplt := range vals {
				out = append(out, c19Param{Mode: 0, Ordered: ord, MR: mr, MPLT: mplt, Label: "l", Protocol: "p"})
				out = append(out, c19Param{Mode: 2, Ordered: ord, MR: mr, MPLT: mplt, Label: "l", Protocol: "p"})
			}
		}
	}
	// label / protocol shapes (empty, non-ASCII, long up to the DCEP budget)
	labels := []c19Param{
		{Label: "", Protocol: ""}, {Label: "x", Protocol: ""}, {Label: "", Protocol: "y"},
		{Label: "gr\xc3\xbc\xc3\x9fe \xe2\x82\xac", Protocol: "\x00\x01\xff"},
		{LabelLen: 255}, {LabelLen: 256}, {LabelLen: 4000, Protocol: strings.Repeat("P", 4000)},
		{LabelLen: c19DCEPOpenBudget - 1, Protocol: "p"},
	}
	for _, l := range labels {
		for _, t := range [][3]int{{1, -1, -1}, {0, 7, -1}, {1, -1, 9}} {
			l.Mode, l.Ordered, l.MR, l.MPLT = 0, t[0] == 1, t[1], t[2]
			out = append(out, l)
		}
	}
	// raw DCEP: every type byte class x reliability incl. values above 16 bits
	for _, t := range []int{0x00, 0x80, 0x01, 0x81, 0x02, 0x82, 0x03, 0x7f, 0x83, 0xff} {
		for _, r := range []int64{0, 1, 65535, 65536, 65537, 70000, 1 << 31, 1<<32 - 1} {
			out = append(out, c19Param{Mode: 1, RawType: t, RawRel: r, Label: "raw", Protocol: "q", MR: -1, MPLT: -1})
		}
	}
	return out
}

// ---------- suite "conn" ----------

type c19Msg struct {
	Size int    `json:"size"`
	Text bool   `json:"text"`
	Seed uint64 `json:"seed"`
}

func (m c19Msg) bytes() []byte { return NewRand(m.Seed).Bytes(m.Size) }

type c19Chan struct {
	Ordered      bool     `json:"ordered"`
	MR           int      `json:"mr"`
	MPLT         int      `json:"mplt"`
	Label        string   `json:"label"`
	LabelPad     int      `json:"label_pad"` // extra 'L' bytes appended to the label
	Protocol     string   `json:"protocol"`
	Negotiated   bool     `json:"negotiated"`
	ID           int      `json:"id"`            // stream id of a negotiated channel
	FromAnswerer bool     `json:"from_answerer"` // creating + sending side
	Late         bool     `json:"late"`          // created after the connection is up
	PreSend      bool     `json:"pre_send"`      // one Send while connecting (must be refused)
	CloseAfter   bool     `json:"close_after"`   // Close right after the last Send, then one more Send (must be refused)
	Msgs         []c19Msg `json:"msgs"`
	// the application on the two ends (in-band channels; ReplaceAt also negotiated ones)
	SendOnOpen bool `json:"send_on_open,omitempty"` // every message is sent as soon as the SENDER's channel is open (what an OnOpen callback does), not waiting for the receiver's side to open
	SlowMs     int  `json:"slow_ms,omitempty"`      // the receiver's OnDataChannel callback takes this long before it returns
	RegEarly   bool `json:"reg_early,omitempty"`    // OnMessage/OnOpen registered at the start of that callback; default: as its last statements
	ReplaceAt  int  `json:"replace_at,omitempty"`   // > 0: after that many messages the OnMessage handler replaces itself with a second handler
}

func (c c19Chan) label() string { return c.Label + strings.Repeat("L", c.LabelPad) }
func (c c19Chan) reliableOrdered() bool {
	return c.Ordered && c.MR < 0 && c.MPLT < 0
}

type c19Conn struct {
	Chans []c19Chan `json:"chans"`
	Shim  *e2eShim  `json:"shim,omitempty"`
}

type c19Got struct {
	data []byte
	text bool
	h    int // which OnMessage handler was invoked: 0 the first, 1 its replacement
}

type c19Recv struct {
	mu   sync.Mutex
	log  []c19Got
	tick chan struct{}
}

func (r *c19Recv) add(m webrtc.DataChannelMessage) { r.addBy(0, m) }

func (r *c19Recv) addBy(h int, m webrtc.DataChannelMessage) {
	r.mu.Lock()
	r.log = append(r.log, c19Got{append([]byte(nil), m.Data...), m.IsString, h})
	r.mu.Unlock()
	select {
	case r.tick <- struct{}{}:
	default:
	}
}
func (r *c19Recv) snapshot() []c19Got {
	r.mu.Lock()
	defer r.mu.Unlock()
	return append([]c19Got(nil), r.log...)
}

// the receiving application's OnMessage registration: one handler, or one that
// replaces itself mid-stream (from inside the handler, i.e. between two
// iterations of the read loop)
func c19Install(d *webrtc.DataChannel, r *c19ChanRun) {
	if r.spec.ReplaceAt <= 0 {
		d.OnMessage(r.recv.add)
		return
	}
	n := 0 // touched by the channel's read loop only
	d.OnMessage(func(m webrtc.DataChannelMessage) {
		r.recv.addBy(0, m)
		n++
		if n == r.spec.ReplaceAt {
			d.OnMessage(func(m webrtc.DataChannelMessage) { r.recv.addBy(1, m) })
		}
	})
}

// waitCount waits until n messages have been seen (explicit signal per
// message), the context ends, or - for channels that may legitimately lose
// messages - the quiet period passes without a new message.
func (r *c19Recv) waitCount(ctx context.Context, n int, quiet time.Duration) bool {
	for {
		r.mu.Lock()
		have := len(r.log)
		r.mu.Unlock()
		if have >= n {
			return true
		}
		var q <-chan time.Time
		if quiet > 0 {
			q = time.After(quiet)
		}
		select {
		case <-r.tick:
		case <-q:
			return false
		case <-ctx.Done():
			return false
		}
	}
}

func fnv62(b []byte) int64 {
	h := uint64(14695981039346656037)
	for _, x := range b {
		h ^= uint64(x)
		h *= 1099511628211
	}
	return int64(h & (1<<62 - 1))
}

func c19Proj(b []byte, text bool) V {
	pre := b
	if len(pre) > 8 {
		pre = pre[:8]
	}
	return VL{VS(hex.EncodeToString(pre)), VZ(int64(len(b))), VZ(fnv62(b)), VB(text)}
}
func c19ProjCoq(b []byte, text bool) string {
	pre := b
	if len(pre) > 8 {
		pre = pre[:8]
	}
	return fmt.Sprintf("(SSend %s %d %d %s)", CoqHex(pre), len(b), fnv62(b), CoqBool(text))
}

var c19PreMsg = c19Msg{Size: 5, Text: false, Seed: 0xbeef}
var c19PostMsg = c19Msg{Size: 7, Text: true, Seed: 0xcafe}

type c19ChanRun struct {
	spec     c19Chan
	local    *webrtc.DataChannel
	remote   *webrtc.DataChannel // receiver-side object (announced or pre-created)
	recv     *c19Recv
	opened   chan struct{}
	ropened  chan struct{}
	results  []bool
	accepted []c19Got
	fail     *Verdict
}

func c19ConnRun(in c19Conn) (V, Verdict) {
	ctx, cancel := context.WithTimeout(context.Background(), 40*time.Second)
	defer cancel()
	apiO, closeO := e2eAPI(e2eOpts{Shim: in.Shim}, 0)
	apiA, closeA := e2eAPI(e2eOpts{Shim: in.Shim}, 1)
	off, err := e2eNewPC(apiO, 0)
	if err != nil {
		panic(err)
	}
	ans, err := e2eNewPC(apiA, 1)
	if err != nil {
		panic(err)
	}
	defer func() { _ = off.Close(); _ = ans.Close(); closeO(); closeA() }()
	offConn, offBad := e2eConnWatch(off)
	ansConn, ansBad := e2eConnWatch(ans)

	runs := make([]*c19ChanRun, len(in.Chans))
	byLabel := map[string]*c19ChanRun{}
	for i, c := range in.Chans {
		runs[i] = &c19ChanRun{spec: c, recv: &c19Recv{tick: make(chan struct{}, 1)},
			opened: make(chan struct{}), ropened: make(chan struct{})}
		byLabel[c.label()] = runs[i]
	}
	var annMu sync.Mutex
	unexpected := []string{}
	announce := func(d *webrtc.DataChannel) {
		annMu.Lock()
		r := byLabel[d.Label()]
		if r == nil || r.spec.Negotiated || r.remote != nil {
			unexpected = append(unexpected, trunc(d.Label()))
			annMu.Unlock()
			return
		}
		r.remote = d
		annMu.Unlock()
		// the application's OnDataChannel callback: possibly slow, registering
		// its handlers first thing or as its last statements
		if r.spec.RegEarly {
			c19Install(d, r)
			d.OnOpen(func() { close(r.ropened) })
		}
		if r.spec.SlowMs > 0 {
			time.Sleep(time.Duration(r.spec.SlowMs) * time.Millisecond)
		}
		if !r.spec.RegEarly {
			c19Install(d, r)
			d.OnOpen(func() { close(r.ropened) })
		}
	}
	off.OnDataChannel(announce)
	ans.OnDataChannel(announce)
	// acceptDataChannels ending is reported through SCTPTransport.OnClose: an
	// explicit signal that no further in-band channel will be announced
	acceptDied := [2]chan struct{}{make(chan struct{}), make(chan struct{})}
	// a single failed Accept is reported through SCTPTransport.OnError
	acceptErr := [2]chan struct{}{make(chan struct{}), make(chan struct{})}
	for k, pc := range []*webrtc.PeerConnection{off, ans} {
		var once, onceE sync.Once
		ch, che := acceptDied[k], acceptErr[k]
		pc.SCTP().OnClose(func(error) { once.Do(func() { close(ch) }) })
		pc.SCTP().OnError(func(error) { onceE.Do(func() { close(che) }) })
	}

	create := func(r *c19ChanRun) error {
		c := r.spec
		ord, proto, neg := c.Ordered, c.Protocol, c.Negotiated
		init := &webrtc.DataChannelInit{Ordered: &ord, MaxRetransmits: u16ptr(c.MR),
			MaxPacketLifeTime: u16ptr(c.MPLT), Protocol: &proto, Negotiated: &neg}
		if neg {
			id := uint16(c.ID)
			init.ID = &id
		}
		snd, rcv := off, ans
		if c.FromAnswerer {
			snd, rcv = ans, off
		}
		d, err := snd.CreateDataChannel(c.label(), init)
		if err != nil {
			return err
		}
		r.local = d
		d.OnOpen(func() { close(r.opened) })
		if neg {
			rd, err := rcv.CreateDataChannel(c.label(), init)
			if err != nil {
				return err
			}
			annMu.Lock()
			r.remote = rd
			annMu.Unlock()
			c19Install(rd, r)
			rd.OnOpen(func() { close(r.ropened) })
		}
		if c.PreSend && !c.Late {
			r.results = append(r.results, d.Send(c19PreMsg.bytes()) == nil)
		}
		return nil
	}
	for _, r := range runs {
		if !r.spec.Late {
			if err := create(r); err != nil {
				return VS("create"), Fail("create-refused-legal-parameters", err.Error())
			}
		}
	}
	if err := e2eNegotiate(ctx, off, ans); err != nil {
		return VS("negotiate"), Fail("negotiation-failed", err.Error())
	}
	if err := e2eWait(ctx, "offerer connected", offConn, offBad); err != nil {
		return VS("connect"), Fail("pair-did-not-connect", err.Error())
	}
	if err := e2eWait(ctx, "answerer connected", ansConn, ansBad); err != nil {
		return VS("connect"), Fail("pair-did-not-connect", err.Error())
	}
	// the first early channel being open means SCTP is up: late channels open at once
	for _, r := range runs {
		if !r.spec.Late {
			select {
			case <-r.opened:
			case <-ctx.Done():
				return VS("open"), c19OpenFailure(r, "sender-side channel never opened")
			}
			break
		}
	}
	for _, r := range runs {
		if r.spec.Late {
			if err := create(r); err != nil {
				return VS("create"), Fail("create-refused-legal-parameters", err.Error())
			}
		}
	}

	var wg sync.WaitGroup
	for _, r := range runs {
		wg.Add(1)
		go func(r *c19ChanRun) {
			defer wg.Done()
			c := r.spec
			select {
			case <-r.opened:
			case <-ctx.Done():
				v := c19OpenFailure(r, "sender-side channel never opened")
				r.fail = &v
				return
			}
			rside := 1
			if c.FromAnswerer {
				rside = 0
			}
			died, refused := acceptDied[rside], acceptErr[rside]
			if c.Negotiated || len(c.label())+len(c.Protocol) <= c19DCEPOpenBudget {
				refused = nil // an Accept failure on that peer is about another channel
			}
			waitRemote := func() bool {
				for {
					select {
					case <-r.ropened:
						return true
					case <-refused:
						v := c19OpenFailure(r, "the receiver's Accept failed on this channel's DATA_CHANNEL_OPEN")
						r.fail = &v
						return false
					case <-died:
						// no further announcement will come; a channel that has been
						// announced already still opens (its OnOpen runs in its own goroutine)
						annMu.Lock()
						announced := r.remote != nil
						annMu.Unlock()
						if !announced {
							v := c19OpenFailure(r, "receiver's acceptDataChannels ended before announcing the channel")
							r.fail = &v
							return false
						}
						died = nil
					case <-ctx.Done():
						v := c19OpenFailure(r, "receiver-side channel never announced/opened")
						r.fail = &v
						return false
					}
				}
			}
			sendAll := func() bool {
				for _, m := range c.Msgs {
					b := m.bytes()
					var err error
					if m.Text {
						err = r.local.SendText(string(b))
					} else {
						err = r.local.Send(b)
					}
					r.results = append(r.results, err == nil)
					if err != nil {
						v := Fail("send-while-open-refused", fmt.Sprintf("Send of %d bytes on an open channel: %v", m.Size, err))
						r.fail = &v
						return false
					}
					r.accepted = append(r.accepted, c19Got{b, m.Text, 0})
				}
				return true
			}
			if c.SendOnOpen {
				// the sender's channel is open (for an in-band channel: the DCEP ACK is
				// back, which the receiver sends before its OnDataChannel callback runs)
				if !sendAll() || !waitRemote() {
					return
				}
			} else if !waitRemote() || !sendAll() {
				return
			}
			if c.CloseAfter {
				if err := r.local.Close(); err != nil {
					v := Fail("close-failed", err.Error())
					r.fail = &v
					return
				}
				r.results = append(r.results, r.local.SendText(string(c19PostMsg.bytes())) == nil)
			}
			if c.SendOnOpen && c.reliableOrdered() {
				// everything was written before the receiver's side opened: it is
				// queued there; a bounded wait keeps a loss from costing the whole deadline
				gctx, gcancel := context.WithTimeout(ctx, 15*time.Second)
				r.recv.waitCount(gctx, len(r.accepted), 0)
				gcancel()
				return
			}
			quiet := time.Duration(0)
			if c.MR >= 0 || c.MPLT >= 0 {
				quiet = 3 * time.Second // partially reliable: loss is allowed, stop when quiet
			}
			r.recv.waitCount(ctx, len(r.accepted), quiet)
		}(r)
	}
	wg.Wait()

	// ---- observation + direct oracle ----
	obs := make(VL, len(runs))
	verdict := Pass("", true)
	total, nmsg := 0, 0
	for i, r := range runs {
		c := r.spec
		if r.fail != nil {
			return VS("chan-failed"), *r.fail
		}
		got := r.recv.snapshot()
		var getters V = VL{}
		if !c.Negotiated {
			getters = VL{c19Getters(r.remote)}
		}
		res := make(VL, len(r.results))
		for k, b := range r.results {
			res[k] = VB(b)
		}
		var del, who V = VL{}, VL{}
		if c.reliableOrdered() {
			l, w := make(VL, len(got)), make(VL, len(got))
			for k, g := range got {
				l[k] = c19Proj(g.data, g.text)
				w[k] = VZ(int64(g.h))
			}
			del, who = l, w
		}
		obs[i] = VL{getters, res, del, who}
		if verdict.OK {
			if v := c19ChanOracle(i, r, got); !v.OK {
				verdict = v
			}
		}
		for _, m := range c.Msgs {
			total += m.Size
		}
		nmsg += len(c.Msgs)
	}
	annMu.Lock()
	if verdict.OK && len(unexpected) > 0 {
		verdict = Fail("unexpected-ondatachannel", fmt.Sprintf("OnDataChannel fired for %v", unexpected))
	}
	annMu.Unlock()
	if verdict.OK {
		verdict.NonTrivial = nmsg > 0
		kinds := map[string]bool{}
		for _, c := range in.Chans {
			k := "inband"
			if c.Negotiated {
				k = "negotiated"
			}
			if !c.reliableOrdered() {
				k += "-pr/unordered"
			}
			kinds[k] = true
		}
		ks := []string{}
		for k := range kinds {
			ks = append(ks, k)
		}
		sort.Strings(ks)
		shim := ""
		if in.Shim != nil {
			shim = "shim/"
		}
		verdict.Class = fmt.Sprintf("%s%dch/%s/%dKiB", shim, len(in.Chans), strings.Join(ks, "+"), (total+1023)/1024/64*64)
	}
	return obs, verdict
}

// a channel that never opens: the cause is named narrowly when its own
// DATA_CHANNEL_OPEN exceeds pion/datachannel's 8192-byte read buffer
func c19OpenFailure(r *c19ChanRun, what string) Verdict {
	c := r.spec
	if !c.Negotiated && len(c.label())+len(c.Protocol) > c19DCEPOpenBudget {
		return Fail("dcep-open-over-8192-bytes-not-announced",
			fmt.Sprintf("%s: label %d bytes + protocol %d bytes + 12 > 8192", what, len(c.label()), len(c.Protocol)))
	}
	return Fail("channel-did-not-open", fmt.Sprintf("%s (label %s)", what, trunc(c.label())))
}

// the property restated on what the receiver saw
func c19ChanOracle(i int, r *c19ChanRun, got []c19Got) Verdict {
	c := r.spec
	// send results: refused before open and after close, accepted while open
	want := []bool{}
	if c.PreSend && !c.Late {
		want = append(want, false)
	}
	for range c.Msgs {
		want = append(want, true)
	}
	if c.CloseAfter {
		want = append(want, false)
	}
	if len(want) != len(r.results) {
		return Fail("send-results-count", fmt.Sprintf("channel %d: %d results for %d calls", i, len(r.results), len(want)))
	}
	for k := range want {
		if want[k] != r.results[k] {
			if !want[k] {
				return Fail("send-accepted-while-not-open", fmt.Sprintf("channel %d call %d returned nil outside the open state", i, k))
			}
			return Fail("send-while-open-refused", fmt.Sprintf("channel %d call %d", i, k))
		}
	}
	if !c.Negotiated {
		d := r.remote
		switch {
		case d.Label() != c.label():
			return Fail("remote-label-differs", fmt.Sprintf("channel %d: %q vs %q", i, trunc(c.label()), trunc(d.Label())))
		case d.Protocol() != c.Protocol:
			return Fail("remote-protocol-differs", fmt.Sprintf("channel %d: %q vs %q", i, c.Protocol, d.Protocol()))
		case d.Ordered() != c.Ordered:
			return Fail("remote-ordered-differs", fmt.Sprintf("channel %d", i))
		case !samePtr(d.MaxRetransmits(), c.MR):
			return Fail("remote-maxretransmits-differs", fmt.Sprintf("channel %d: want %d", i, c.MR))
		case !samePtr(d.MaxPacketLifeTime(), c.MPLT):
			return Fail("remote-maxpacketlifetime-differs", fmt.Sprintf("channel %d: want %d", i, c.MPLT))
		case d.Negotiated():
			return Fail("remote-negotiated-set", fmt.Sprintf("channel %d", i))
		case d.ID() == nil || r.local.ID() == nil || *d.ID() != *r.local.ID():
			return Fail("remote-id-differs", fmt.Sprintf("channel %d", i))
		}
	}
	// a replaced OnMessage handler: the first ReplaceAt invocations are the
	// first handler's, every later one the second's
	for k, g := range got {
		wantH := 0
		if c.ReplaceAt > 0 && k >= c.ReplaceAt {
			wantH = 1
		}
		if g.h != wantH {
			if wantH == 1 {
				return Fail("replaced-onmessage-handler-still-invoked", fmt.Sprintf("channel %d: delivery %d went to the handler replaced after %d messages", i, k, c.ReplaceAt))
			}
			return Fail("message-delivered-to-wrong-handler", fmt.Sprintf("channel %d: delivery %d went to handler %d", i, k, g.h))
		}
	}
	exp := r.accepted
	same := func(a, b c19Got) bool { return a.text == b.text && string(a.data) == string(b.data) }
	if c.reliableOrdered() {
		for k := 0; k < len(got) && k < len(exp); k++ {
			if same(got[k], exp[k]) {
				continue
			}
			if string(got[k].data) == string(exp[k].data) {
				return Fail("message-flag-differs", fmt.Sprintf("channel %d message %d (%d bytes): isString %v sent, %v delivered",
					i, k, len(exp[k].data), exp[k].text, got[k].text))
			}
			for j := range exp {
				if j != k && same(got[k], exp[j]) {
					if j < k {
						return Fail("message-duplicated-or-late", fmt.Sprintf("channel %d position %d carries message %d", i, k, j))
					}
					return Fail("message-reordered-or-lost", fmt.Sprintf("channel %d position %d carries message %d", i, k, j))
				}
			}
			return Fail("message-bytes-differ", fmt.Sprintf("channel %d message %d: %d bytes sent, %d delivered, contents differ",
				i, k, len(exp[k].data), len(got[k].data)))
		}
		if len(got) > len(exp) {
			return Fail("delivered-more-than-sent", fmt.Sprintf("channel %d: %d sent, %d delivered", i, len(exp), len(got)))
		}
		if len(got) < len(exp) {
			sig := "message-not-delivered"
			if c.CloseAfter {
				sig = "close-after-send-drops-messages"
			}
			if c.SendOnOpen && !c.Negotiated {
				// sent on the open channel while the receiving side was still being set up
				sig = "messages-sent-before-receiver-side-open-dropped"
				if c.SlowMs > 0 {
					sig = "messages-sent-during-ondatachannel-callback-dropped"
				}
			}
			return Fail(sig, fmt.Sprintf("channel %d: %d sent while open, %d delivered before the deadline (first missing: %d bytes)",
				i, len(exp), len(got), len(exp[len(got)].data)))
		}
		return Pass("", true)
	}
	// other kinds: each delivered message is one of the sent ones, at most
	// once, intact; ordered kinds keep the order; reliable kinds lose nothing
	used := make([]bool, len(exp))
	last := -1
	for k, g := range got {
		found := -1
		for j := range exp {
			if !used[j] && same(g, exp[j]) && (!c.Ordered || j > last) {
				found = j
				break
			}
		}
		if found < 0 {
			return Fail("pr-delivered-message-not-sent-or-out-of-order",
				fmt.Sprintf("channel %d position %d (%d bytes, ordered=%v)", i, k, len(g.data), c.Ordered))
		}
		used[found] = true
		last = found
	}
	if c.MR < 0 && c.MPLT < 0 && len(got) != len(exp) {
		return Fail("message-not-delivered", fmt.Sprintf("channel %d (reliable unordered): %d sent, %d delivered", i, len(exp), len(got)))
	}
	return Pass("", true)
}

func c19ConnCoq(in c19Conn) string {
	chans := make([]string, len(in.Chans))
	for i, c := range in.Chans {
		if !c.Negotiated && len(c.label())+len(c.Protocol) > c19DCEPOpenBudget {
			return "" // outside the DCEP carriage contract (known finding)
		}
		var script []string
		if c.PreSend && !c.Late {
			script = append(script, c19ProjCoq(c19PreMsg.bytes(), false))
		}
		script = append(script, "SOpen")
		for _, m := range c.Msgs {
			script = append(script, c19ProjCoq(m.bytes(), m.Text))
		}
		if c.CloseAfter {
			script = append(script, "SClose", c19ProjCoq(c19PostMsg.bytes(), true))
		}
		sched := 0 // when the messages reach the receiver relative to its OnDataChannel callback
		if c.SendOnOpen && !c.Negotiated {
			sched = 2
			if c.RegEarly {
				sched = 1
			}
		}
		chans[i] = fmt.Sprintf("(Cin %s %s %s %s %s %s %s %d %d)", CoqBool(c.Ordered), CoqZ(int64(c.MR)), CoqZ(int64(c.MPLT)),
			CoqString(c19Text(c.label())), CoqString(c19Text(c.Protocol)), CoqBool(c.Negotiated), CoqList(script), sched, max(c.ReplaceAt, 0))
	}
	return CoqList(chans)
}

var c19Sizes = []int{0, 1, 2, 3, 100, 1023, 1150, 1200, 1201, 1300, 4096, 16383, 16384, 16385, 65534, 65535, 65536}

func c19GenConn(r *Rand, i int, shim bool) c19Conn {
	n := r.Range(1, 3)
	var out c19Conn
	slow := false
	budget := 600 * 1024
	for k := 0; k < n; k++ {
		c := c19Chan{Ordered: true, MR: -1, MPLT: -1, Label: fmt.Sprintf("c%d-%s", k, Pick(r, []string{"", "chat", "gr\xc3\xbc\xc3\x9f", "a b"})),
			Protocol: Pick(r, []string{"", "p", "proto/1.0", "\xe2\x82\xac"})}
		switch r.Intn(8) { // mostly reliable ordered: the kind the property speaks about
		case 0:
			c.Ordered = false
		case 1:
			c.MR = Pick(r, []int{0, 1, 5, 65535})
			c.Ordered = r.Bool()
		case 2:
			c.MPLT = Pick(r, []int{1, 100, 1000, 65535})
			c.Ordered = r.Bool()
		}
		if r.Chance(1, 6) {
			c.LabelPad = Pick(r, []int{200, 1000, 4000})
		}
		c.Negotiated = r.Chance(1, 3)
		if c.Negotiated {
			c.ID = 100 + 2*k + r.Intn(2)*50
		}
		c.FromAnswerer = k > 0 && r.Bool() // the offer needs a channel of its own
		c.Late = k > 0 && r.Chance(1, 3)
		c.PreSend = r.Chance(1, 2)
		c.CloseAfter = r.Chance(1, 4)
		nm := r.Range(1, 12)
		for j := 0; j < nm; j++ {
			var sz int
			switch r.Intn(4) {
			case 0:
				sz = Pick(r, c19Sizes)
			case 1:
				sz = r.Intn(64)
			case 2:
				sz = r.Intn(4000)
			default:
				sz = r.Intn(65537)
			}
			if sz > budget {
				sz = r.Intn(64)
			}
			budget -= sz
			c.Msgs = append(c.Msgs, c19Msg{Size: sz, Text: r.Bool(), Seed: r.U64() >> 12})
		}
		// the applications: send as soon as the sender's side is open; replace the
		// handler mid-stream; and - rarely, it costs seconds - a slow OnDataChannel
		// callback on the receiving side (at most one per case: the accept loop
		// handles one announcement at a time)
		if !c.Negotiated && c.reliableOrdered() && r.Chance(1, 3) {
			c.SendOnOpen = true
			c.CloseAfter = false
			c.RegEarly = r.Chance(1, 3)
			if !slow && r.Chance(1, 3) {
				slow = true
				c.SlowMs = r.Range(2500, 3000)
			} else if r.Chance(1, 2) {
				c.SlowMs = r.Range(1, 300)
			}
		}
		if c.reliableOrdered() && len(c.Msgs) > 1 && r.Chance(1, 4) {
			c.ReplaceAt = r.Range(1, len(c.Msgs))
		}
		out.Chans = append(out.Chans, c)
	}
	if shim {
		out.Shim = &e2eShim{Seed: r.U64() >> 12, MaxDelay: time.Duration(r.Range(1, 8)) * time.Millisecond, HoldPct: r.Range(10, 60)}
	}
	return out
}

func c19ConnShrink(in c19Conn) []c19Conn {
	var out []c19Conn
	for i := range in.Chans {
		if in.Chans[i].SlowMs >= 1000 {
			// every run costs the callback's seconds (and a failing one its grace
			// period): only drop the other channels and halve the messages
			if len(in.Chans) > 1 {
				ch := in.Chans[i]
				ch.Late, ch.FromAnswerer = false, false
				out = append(out, c19Conn{Shim: in.Shim, Chans: []c19Chan{ch}})
			}
			if n := len(in.Chans[i].Msgs); n > 1 {
				c := c19Conn{Shim: in.Shim, Chans: append([]c19Chan{}, in.Chans...)}
				ch := c.Chans[i]
				ch.Msgs = append([]c19Msg{}, ch.Msgs[:n/2]...)
				if ch.ReplaceAt > len(ch.Msgs) {
					ch.ReplaceAt = 0
				}
				c.Chans[i] = ch
				out = append(out, c)
			}
			return out
		}
	}
	for i := range in.Chans {
		if len(in.Chans) > 1 && !(i == 0 && in.Chans[1].Late) {
			c := c19Conn{Shim: in.Shim}
			c.Chans = append(append([]c19Chan{}, in.Chans[:i]...), in.Chans[i+1:]...)
			c.Chans[0].Late = false
			c.Chans[0].FromAnswerer = false
			out = append(out, c)
		}
	}
	for i := range in.Chans {
		for j := range in.Chans[i].Msgs {
			c := c19Conn{Shim: in.Shim, Chans: append([]c19Chan{}, in.Chans...)}
			ch := c.Chans[i]
			ch.Msgs = append(append([]c19Msg{}, ch.Msgs[:j]...), ch.Msgs[j+1:]...)
			c.Chans[i] = ch
			out = append(out, c)
		}
	}
	if in.Shim != nil {
		out = append(out, c19Conn{Chans: in.Chans})
	}
	return out
}

func init() {
	Register(Spec[c19Param]{
		ID: "C19", Suite: "params", CoqImports: []string{"Check.C19"},
		CoqType: "Check.C19.pin", CoqRun: "Check.C19.run_params",
		Corpus: func() []c19Param {
			return []c19Param{
				// DATA_CHANNEL_OPEN larger than pion/datachannel's 8192-byte read buffer
				{Mode: 0, Ordered: true, MR: -1, MPLT: -1, LabelLen: c19DCEPOpenBudget, Protocol: "p"},
				{Mode: 0, Ordered: false, MR: 3, MPLT: -1, LabelLen: 20000, Protocol: "proto"},
				// fixed: one failed Accept used to end acceptDataChannels for good
				{Mode: 0, Ordered: true, MR: -1, MPLT: -1, Label: "after", Protocol: "p", Before: "oversize"},
				{Mode: 0, Ordered: false, MR: 2, MPLT: -1, Label: "after", Protocol: "p", Before: "badtype"},
				{Mode: 0, Ordered: true, MR: -1, MPLT: 50, Label: "after", Protocol: "p", Before: "data-first"},
			}
		},
		Exhaustive: c19ParamCases,
		Run:        c19ParamRun, Coq: c19ParamCoq, Parallel: 8, Timeout: 40 * time.Second,
	})
	connType := "list Check.C19.cin"
	Register(Spec[c19Conn]{
		ID: "C19", Suite: "conn", CoqImports: []string{"Check.C19"},
		CoqType: connType, CoqRun: "Check.C19.run_conn",
		Quick: 24, Thorough: 300, Parallel: 8, Timeout: 60 * time.Second,
		Corpus: c19ConnCorpus,
		Gen:    func(r *Rand, i int) c19Conn { return c19GenConn(r, i, false) },
		Shrink: c19ConnShrink,
		Run:    c19ConnRun, Coq: c19ConnCoq,
	})
	// the same through a delaying / reordering packet shim under both ICE
	// sockets: SCTP must still deliver each reliable ordered channel in order
	Register(Spec[c19Conn]{
		ID: "C19", Suite: "connshim", CoqImports: []string{"Check.C19"},
		CoqType: connType, CoqRun: "Check.C19.run_conn",
		Quick: 6, Thorough: 150, Parallel: 8, Timeout: 90 * time.Second,
		Gen:    func(r *Rand, i int) c19Conn { return c19GenConn(r, i, true) },
		Shrink: c19ConnShrink,
		Run:    c19ConnRun, Coq: c19ConnCoq,
	})
}

func c19ConnCorpus() []c19Conn {
	m := func(size int, text bool, seed uint64) c19Msg { return c19Msg{Size: size, Text: text, Seed: seed} }
	return []c19Conn{
		// the boundary sizes, both flags, one in-band reliable ordered channel
		{Chans: []c19Chan{{Ordered: true, MR: -1, MPLT: -1, Label: "c0-bounds", Protocol: "p", PreSend: true,
			Msgs: []c19Msg{m(0, false, 1), m(0, true, 2), m(1, true, 3), m(1, false, 4), m(65535, false, 5),
				m(65536, true, 6), m(16384, false, 7), m(1200, true, 8), m(0, false, 9)}}}},
		// negotiated + in-band from the answerer + a late channel, close after send
		{Chans: []c19Chan{
			{Ordered: true, MR: -1, MPLT: -1, Label: "c0-neg", Negotiated: true, ID: 7, Msgs: []c19Msg{m(10, true, 1), m(70, false, 2)}},
			{Ordered: true, MR: -1, MPLT: -1, Label: "c1-ans", Protocol: "x", FromAnswerer: true, CloseAfter: true,
				Msgs: []c19Msg{m(3000, true, 3), m(0, true, 4), m(40000, false, 5)}},
			{Ordered: false, MR: 0, MPLT: -1, Label: "c2-late", Late: true, Msgs: []c19Msg{m(5, false, 6)}}}},
		// a slow OnDataChannel callback (registers its handlers as its last
		// statements, after 3 s) while the remote peer sends from its OnOpen
		{Chans: []c19Chan{{Ordered: true, MR: -1, MPLT: -1, Label: "c0-slow-late", Protocol: "p", SendOnOpen: true, SlowMs: 3000,
			Msgs: []c19Msg{m(10, true, 1), m(0, false, 2), m(1200, true, 3), m(20000, false, 4), m(3, true, 5), m(3, true, 6),
				m(70000, false, 7), m(1, true, 8), m(5, false, 9), m(900, true, 10)}}}},
		// the same with the handlers registered first thing, replaced after 4
		// messages, and a second channel announced behind the slow one
		{Chans: []c19Chan{
			{Ordered: true, MR: -1, MPLT: -1, Label: "c0-slow-early", SendOnOpen: true, SlowMs: 2600, RegEarly: true, ReplaceAt: 4,
				Msgs: []c19Msg{m(10, true, 1), m(11, false, 2), m(12, true, 3), m(13, false, 4), m(14, true, 5), m(15, true, 6)}},
			{Ordered: true, MR: -1, MPLT: -1, Label: "c1-behind", Protocol: "q", SendOnOpen: true, ReplaceAt: 1,
				Msgs: []c19Msg{m(100, false, 7), m(0, true, 8), m(4000, false, 9)}}}},
		// quick callback, messages sent on the sender's open from the answerer, handler replaced at once
		{Chans: []c19Chan{
			{Ordered: true, MR: -1, MPLT: -1, Label: "c0-first", Msgs: []c19Msg{m(1, true, 1)}},
			{Ordered: true, MR: -1, MPLT: -1, Label: "c1-ans-onopen", FromAnswerer: true, SendOnOpen: true, SlowMs: 50, ReplaceAt: 1,
				Msgs: []c19Msg{m(16384, true, 2), m(16385, false, 3), m(2, true, 4)}}}},
		// witness of the known finding: DATA_CHANNEL_OPEN above 8192 bytes
		{Chans: []c19Chan{
			{Ordered: true, MR: -1, MPLT: -1, Label: "c0-ok", Msgs: []c19Msg{m(4, false, 1)}},
			{Ordered: true, MR: -1, MPLT: -1, Label: "c1-big", LabelPad: 9000, Late: true, Msgs: []c19Msg{m(4, false, 2)}}}},
	}
}
