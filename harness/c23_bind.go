//go:build verif_c23

package main

// C23, suite "bind" (no network): which payload type a TrackLocalStaticRTP
// writes.  A track of the needle's RTPCodecCapability is bound - through the
// real Bind - to a TrackLocalContext whose CodecParameters() is the haystack
// (the sender's negotiated codec list), one packet is written through the
// binding, and codecParametersFuzzySearch is asked directly as well.  The
// haystacks are codec tables in which one family has several variants that
// differ only in their fmtp line (RegisterDefaultCodecs' own table among
// them); the needles are entries of the table and neighbours of them: one
// byte of profile-level-id changed, parameters permuted, hex digits in upper
// case, a parameter missing, another profile-id.

import (
	"fmt"
	"strings"
	"sync"

	"github.com/pion/interceptor"
	"github.com/pion/rtp"
	"github.com/pion/webrtc/v4"
)

type c23Cdc struct {
	PT       int    `json:"pt"`
	Mime     string `json:"mime"`
	Clock    int    `json:"clock"`
	Channels int    `json:"channels"`
	Fmtp     string `json:"fmtp"`
}

type c23BindIn struct {
	SSRC   uint32   `json:"ssrc"`
	Needle c23Cdc   `json:"needle"`
	Hay    []c23Cdc `json:"hay"`
	Note   string   `json:"note,omitempty"` // how the needle relates to the table (input class)
}

func (c c23Cdc) params() webrtc.RTPCodecParameters {
	return webrtc.RTPCodecParameters{
		RTPCodecCapability: webrtc.RTPCodecCapability{MimeType: c.Mime, ClockRate: uint32(c.Clock), Channels: uint16(c.Channels), SDPFmtpLine: c.Fmtp},
		PayloadType:        webrtc.PayloadType(c.PT),
	}
}

// ---- a TrackLocalContext of our own

type c23Writer struct {
	mu   sync.Mutex
	hdrs []rtp.Header
}

func (w *c23Writer) WriteRTP(h *rtp.Header, payload []byte) (int, error) {
	w.mu.Lock()
	w.hdrs = append(w.hdrs, h.Clone())
	w.mu.Unlock()
	return len(payload), nil
}
func (w *c23Writer) Write(b []byte) (int, error) { return len(b), nil }

type c23Ctx struct {
	codecs []webrtc.RTPCodecParameters
	ssrc   webrtc.SSRC
	w      *c23Writer
}

func (c *c23Ctx) CodecParameters() []webrtc.RTPCodecParameters           { return c.codecs }
func (c *c23Ctx) HeaderExtensions() []webrtc.RTPHeaderExtensionParameter { return nil }
func (c *c23Ctx) SSRC() webrtc.SSRC                                      { return c.ssrc }
func (c *c23Ctx) SSRCRetransmission() webrtc.SSRC                        { return 0 }
func (c *c23Ctx) SSRCForwardErrorCorrection() webrtc.SSRC                { return 0 }
func (c *c23Ctx) WriteStream() webrtc.TrackLocalWriter                   { return c.w }
func (c *c23Ctx) ID() string                                             { return "c23-bind" }
func (c *c23Ctx) RTCPReader() interceptor.RTCPReader                     { return nil }

// ---- run

func c23BindRun(in c23BindIn) (V, Verdict) {
	needle := in.Needle.params()
	hay := make([]webrtc.RTPCodecParameters, len(in.Hay))
	for i, h := range in.Hay {
		hay[i] = h.params()
	}
	found, class := webrtc.VerifC23FuzzySearch(needle, hay)

	track, err := webrtc.NewTrackLocalStaticRTP(needle.RTPCodecCapability, "track", "stream")
	if err != nil {
		panic(err)
	}
	w := &c23Writer{}
	bound, bindErr := track.Bind(&c23Ctx{codecs: hay, ssrc: webrtc.SSRC(in.SSRC), w: w})
	var written V = VL{}
	wirePT := -1
	if bindErr == nil {
		if err := track.WriteRTP(&rtp.Packet{Header: rtp.Header{Version: 2, PayloadType: 0, SSRC: 0xdeadbeef, SequenceNumber: 7, Timestamp: 9},
			Payload: []byte{1, 2, 3}}); err != nil {
			return VS("write"), Fail("writertp-failed", err.Error())
		}
		w.mu.Lock()
		n := len(w.hdrs)
		var h rtp.Header
		if n > 0 {
			h = w.hdrs[0]
		}
		w.mu.Unlock()
		if n != 1 {
			return VS("write"), Fail("bound-track-wrote-other-than-one-packet", fmt.Sprintf("%d packets reached the write stream", n))
		}
		wirePT = int(h.PayloadType)
		written = VL{VL{VZ(int64(h.PayloadType)), VZ(int64(h.SSRC))}}
		if h.SSRC != in.SSRC {
			return VS("write"), Fail("packet-ssrc-differs-from-context", fmt.Sprintf("context SSRC %d, packet %d", in.SSRC, h.SSRC))
		}
		if h.SequenceNumber != 7 || h.Timestamp != 9 {
			return VS("write"), Fail("packet-header-field-differs", "sequence number / timestamp rewritten")
		}
	}
	obs := VL{VZ(int64(class)), VZ(int64(found.PayloadType)), written}
	desc := fmt.Sprintf("needle %s %q in %s", in.Needle.Mime, in.Needle.Fmtp, c23HayText(in.Hay))

	// Bind and the search it is built on agree
	switch {
	case (bindErr == nil) != (class != 0):
		return obs, Fail("bind-differs-from-fuzzy-search", fmt.Sprintf("%s: search class %d, Bind error %v", desc, class, bindErr))
	case bindErr == nil && (bound.PayloadType != found.PayloadType || wirePT != int(found.PayloadType)):
		return obs, Fail("bound-payload-type-not-the-fuzzy-search-result",
			fmt.Sprintf("%s: search PT %d, Bind returned %d, packet carries %d", desc, found.PayloadType, bound.PayloadType, wirePT))
	}

	// direct oracle: the payload type the list assigns to the track's codec -
	// the first entry of the same format (c23SameFormat: the harness's reading
	// of the payload format specifications); only if there is none, the first
	// entry of the same mime type / clock rate / channels; else no binding
	wantPT, wantClass := -1, 0
	name := ""
	if i := strings.IndexByte(in.Needle.Mime, '/'); i >= 0 {
		name = strings.ToLower(in.Needle.Mime[i+1:])
	}
	sameBase := func(h c23Cdc) bool {
		return strings.EqualFold(h.Mime, in.Needle.Mime) && h.Clock == in.Needle.Clock && h.Channels == in.Needle.Channels
	}
	for _, h := range in.Hay {
		if sameBase(h) && c23SameFormat(name, h.Fmtp, in.Needle.Fmtp) {
			wantPT, wantClass = h.PT, 2
			break
		}
	}
	if wantClass == 0 {
		for _, h := range in.Hay {
			if sameBase(h) {
				wantPT, wantClass = h.PT, 1
				break
			}
		}
	}
	switch {
	case wantClass == 0 && bindErr == nil:
		return obs, Fail("bound-without-a-matching-codec", fmt.Sprintf("%s: bound to PT %d", desc, wirePT))
	case wantClass != 0 && bindErr != nil:
		return obs, Fail("bind-refused-although-codec-negotiated", fmt.Sprintf("%s: %v (PT %d expected)", desc, bindErr, wantPT))
	case wantClass != 0 && wirePT != wantPT:
		sig := "bound-to-payload-type-of-another-codec"
		for _, h := range in.Hay {
			if h.PT == wirePT && sameBase(h) {
				sig = "bound-to-payload-type-of-another-fmtp-variant"
			}
		}
		return obs, Fail(sig, fmt.Sprintf("%s: packet carries PT %d, the list assigns %d to that format", desc, wirePT, wantPT))
	case class != wantClass && (name == "h264" || name == "vp9" || name == "av1"):
		// (for the other codecs "the same format" is looser in pion than the
		// harness's reading - parameters only one side names are ignored - so
		// only the payload type is judged there)
		return obs, Fail("match-class-differs", fmt.Sprintf("%s: search says %d, expected %d", desc, class, wantClass))
	}
	cl := in.Note
	if cl == "" {
		cl = "other"
	}
	return obs, Pass(fmt.Sprintf("%s/%s/class%d", name, cl, class), len(in.Hay) > 0)
}

func c23HayText(h []c23Cdc) string {
	parts := make([]string, len(h))
	for i, c := range h {
		parts[i] = fmt.Sprintf("%d:%s %q", c.PT, c.Mime, c.Fmtp)
	}
	return "[" + strings.Join(parts, ", ") + "]"
}

func c23BindCoq(in c23BindIn) string {
	hay := make([]string, len(in.Hay))
	for i, h := range in.Hay {
		if !c23Printable(h.Mime) || !c23Printable(h.Fmtp) {
			return ""
		}
		hay[i] = c23CdcCoq(h.params())
	}
	if !c23Printable(in.Needle.Mime) || !c23Printable(in.Needle.Fmtp) {
		return ""
	}
	return fmt.Sprintf("(%d, %s, %s)", in.SSRC, c23CdcCoq(in.Needle.params()), CoqList(hay))
}

// ---- tables

var (
	c23DefaultOnce  sync.Once
	c23DefaultVideo []c23Cdc
)

// the video table RegisterDefaultCodecs really registers, read back from a MediaEngine
func c23DefaultTable() []c23Cdc {
	c23DefaultOnce.Do(func() {
		me := &webrtc.MediaEngine{}
		if err := me.RegisterDefaultCodecs(); err != nil {
			panic(err)
		}
		_, _, _, _, video, _ := me.VerifC23EngineState()
		for _, c := range video {
			c23DefaultVideo = append(c23DefaultVideo, c23Cdc{int(c.PayloadType), c.MimeType, int(c.ClockRate), int(c.Channels), c.SDPFmtpLine})
		}
	})
	return c23DefaultVideo
}

func c23IsFamily(c c23Cdc, family string) bool { return strings.EqualFold(c.Mime, "video/"+family) }

// the profile-level-id of an fmtp line with byte k (0 profile_idc, 1 profile-iop, 2 level_idc) replaced
func c23ReplacePLIDByte(line string, k int, v byte) (string, bool) {
	const key = "profile-level-id="
	i := strings.Index(line, key)
	if i < 0 || len(line) < i+len(key)+6 {
		return "", false
	}
	at := i + len(key) + 2*k
	return line[:at] + fmt.Sprintf("%02x", v) + line[at+2:], true
}

var c23ByteValues = []byte{0x00, 0x42, 0x4d, 0x64, 0xe0, 0xc0, 0x80, 0x40, 0x0c, 0x1f, 0x28, 0x33, 0xff}

// every H264 entry of the default table with each single byte of its
// profile-level-id replaced by each of a few values; and every entry of the
// table as it stands
func c23BindExhaustive() []c23BindIn {
	tab := c23DefaultTable()
	var out []c23BindIn
	for _, e := range tab {
		n := e
		n.PT = 0
		out = append(out, c23BindIn{SSRC: 1000 + uint32(e.PT), Needle: n, Hay: tab, Note: "table-entry"})
		if !c23IsFamily(e, "h264") {
			continue
		}
		for k := 0; k < 3; k++ {
			for _, v := range c23ByteValues {
				line, ok := c23ReplacePLIDByte(e.Fmtp, k, v)
				if !ok || line == e.Fmtp {
					continue
				}
				m := n
				m.Fmtp = line
				out = append(out, c23BindIn{SSRC: 2000 + uint32(e.PT), Needle: m, Hay: tab,
					Note: []string{"profile-idc-byte-changed", "profile-iop-byte-changed", "level-byte-changed"}[k]})
			}
		}
	}
	return out
}

func c23BindCorpus() []c23BindIn {
	tab := c23DefaultTable()
	h := func(pm, plid string) c23Cdc {
		return c23Cdc{0, webrtc.MimeTypeH264, 90000, 0, "level-asymmetry-allowed=1;packetization-mode=" + pm + ";profile-level-id=" + plid}
	}
	two := []c23Cdc{{102, webrtc.MimeTypeH264, 90000, 0, h("1", "42001f").Fmtp}, {106, webrtc.MimeTypeH264, 90000, 0, h("1", "42e01f").Fmtp}}
	return []c23BindIn{
		// Constrained Baseline after Baseline in the table: its own payload type
		{SSRC: 1, Needle: h("1", "42e01f"), Hay: tab, Note: "table-entry"},
		{SSRC: 2, Needle: h("1", "42e01f"), Hay: two, Note: "table-entry"},
		{SSRC: 3, Needle: h("1", "42001f"), Hay: []c23Cdc{two[1], two[0]}, Note: "table-entry"},
		// only the other profile-iop is negotiated: a partial match at best
		{SSRC: 4, Needle: h("1", "42e01f"), Hay: two[:1], Note: "profile-iop-byte-changed"},
		// another level of the same profile is the same format
		{SSRC: 5, Needle: h("1", "42e028"), Hay: tab, Note: "level-byte-changed"},
		{SSRC: 6, Needle: c23Cdc{0, "video/h264", 90000, 0, "profile-level-id=42E01F;packetization-mode=1"}, Hay: tab, Note: "rewritten"},
		{SSRC: 7, Needle: c23Cdc{0, webrtc.MimeTypeVP9, 90000, 0, "profile-id=2"}, Hay: tab, Note: "table-entry"},
		{SSRC: 8, Needle: c23Cdc{0, webrtc.MimeTypeVP9, 90000, 0, ""}, Hay: tab, Note: "parameter-missing"},
		{SSRC: 9, Needle: c23Cdc{0, webrtc.MimeTypeVP9, 90000, 0, "profile-id=1"}, Hay: tab, Note: "other-profile"},
		{SSRC: 10, Needle: c23Cdc{0, "video/flexfec-03", 90000, 0, ""}, Hay: tab, Note: "codec-not-in-table"},
		{SSRC: 11, Needle: h("1", "42e01f"), Hay: nil, Note: "empty-table"},
	}
}

func c23BindGen(r *Rand, _ int) c23BindIn {
	def := c23DefaultTable()
	var tab []c23Cdc
	switch r.Intn(4) {
	case 0:
		tab = append(tab, def...)
	case 1: // the default table in another order, some entries left out
		for _, e := range def {
			if !r.Chance(1, 5) {
				tab = append(tab, e)
			}
		}
		for i := len(tab) - 1; i > 0; i-- {
			j := r.Intn(i + 1)
			tab[i], tab[j] = tab[j], tab[i]
		}
	default: // a family table: 2-6 variants that differ only in fmtp, random profile-level-ids
		pt := 96
		fam := Pick(r, []string{"h264", "h264", "h264", "vp9", "av1"})
		for i, n := 0, r.Range(2, 6); i < n; i++ {
			var line string
			switch fam {
			case "h264":
				plid := fmt.Sprintf("%02x%02x%02x", Pick(r, []byte{0x42, 0x4d, 0x64}), Pick(r, []byte{0x00, 0xe0, 0xc0, 0x0c, 0x40}), Pick(r, []byte{0x1f, 0x28, 0x33}))
				line = "level-asymmetry-allowed=1;packetization-mode=" + Pick(r, []string{"0", "1"}) + ";profile-level-id=" + plid
			case "vp9":
				line = Pick(r, []string{"profile-id=0", "profile-id=1", "profile-id=2", "profile-id=3", ""})
			default:
				line = Pick(r, []string{"", "profile=0", "profile=1", "profile=2;level-idx=5"})
			}
			mime := map[string]string{"h264": webrtc.MimeTypeH264, "vp9": webrtc.MimeTypeVP9, "av1": webrtc.MimeTypeAV1}[fam]
			tab = append(tab, c23Cdc{pt, mime, 90000, 0, line})
			pt += 2
		}
		if r.Bool() {
			tab = append([]c23Cdc{{120, webrtc.MimeTypeVP8, 90000, 0, ""}}, tab...)
		}
	}
	in := c23BindIn{SSRC: uint32(r.U64()), Hay: tab}
	if len(tab) == 0 {
		in.Needle = c23Cdc{0, webrtc.MimeTypeVP8, 90000, 0, ""}
		in.Note = "empty-table"
		return in
	}
	e := Pick(r, tab)
	if r.Chance(2, 3) { // aim at a family with variants
		var fams []c23Cdc
		for _, x := range tab {
			if c23IsFamily(x, "h264") || c23IsFamily(x, "vp9") {
				fams = append(fams, x)
			}
		}
		if len(fams) > 0 {
			e = Pick(r, fams)
		}
	}
	n := e
	n.PT = 0
	in.Note = "table-entry"
	switch r.Intn(8) {
	case 0, 1: // exactly one byte of profile-level-id differs
		k := r.Intn(3)
		if line, ok := c23ReplacePLIDByte(n.Fmtp, k, Pick(r, c23ByteValues)); ok && line != n.Fmtp {
			n.Fmtp = line
			in.Note = []string{"profile-idc-byte-changed", "profile-iop-byte-changed", "level-byte-changed"}[k]
		}
	case 2: // parameters permuted, key/hex case changed, blanks
		ps := strings.Split(n.Fmtp, ";")
		for i := len(ps) - 1; i > 0; i-- {
			j := r.Intn(i + 1)
			ps[i], ps[j] = ps[j], ps[i]
		}
		for i := range ps {
			if k, v, ok := strings.Cut(ps[i], "="); ok && r.Bool() {
				if strings.EqualFold(k, "profile-level-id") {
					v = strings.ToUpper(v)
				}
				ps[i] = strings.ToUpper(k[:1]) + k[1:] + "=" + v
			}
			if r.Chance(1, 3) {
				ps[i] = " " + ps[i]
			}
		}
		n.Fmtp = strings.Join(ps, ";")
		in.Note = "rewritten"
	case 3: // one parameter missing
		ps := strings.Split(n.Fmtp, ";")
		if len(ps) > 0 && n.Fmtp != "" {
			k := r.Intn(len(ps))
			ps = append(ps[:k:k], ps[k+1:]...)
			n.Fmtp = strings.Join(ps, ";")
			in.Note = "parameter-missing"
		}
	case 4: // another packetization-mode / profile-id
		switch {
		case strings.Contains(n.Fmtp, "packetization-mode=1"):
			n.Fmtp = strings.Replace(n.Fmtp, "packetization-mode=1", "packetization-mode=0", 1)
		case strings.Contains(n.Fmtp, "packetization-mode=0"):
			n.Fmtp = strings.Replace(n.Fmtp, "packetization-mode=0", "packetization-mode=1", 1)
		case strings.Contains(n.Fmtp, "profile-id="):
			n.Fmtp = "profile-id=" + Pick(r, []string{"0", "1", "2", "3"})
		}
		in.Note = "other-mode-or-profile"
	case 5: // a malformed profile-level-id
		if i := strings.Index(n.Fmtp, "profile-level-id="); i >= 0 {
			n.Fmtp = n.Fmtp[:i] + "profile-level-id=" + Pick(r, []string{"", "42", "zz001f", "42e01", "42e0", "0x42e01f"})
			in.Note = "malformed-profile-level-id"
		}
	case 6: // the mime type in another letter case
		n.Mime = Pick(r, []string{strings.ToLower(n.Mime), strings.ToUpper(n.Mime)})
		in.Note = "mime-case"
	}
	in.Needle = n
	return in
}

func c23BindShrink(in c23BindIn) []c23BindIn {
	var out []c23BindIn
	for i := range in.Hay {
		c := in
		c.Hay = append(append([]c23Cdc{}, in.Hay[:i]...), in.Hay[i+1:]...)
		out = append(out, c)
	}
	return out
}

func init() {
	Register(Spec[c23BindIn]{
		ID: "C23", Suite: "bind", CoqImports: []string{"Check.C23"},
		CoqType: "Z * Check.C23.cdc * list Check.C23.cdc", CoqRun: "Check.C23.run_bind",
		Quick: 400, Thorough: 6000,
		Corpus: c23BindCorpus, Exhaustive: c23BindExhaustive, Gen: c23BindGen,
		Run: c23BindRun, Coq: c23BindCoq, Shrink: c23BindShrink,
	})
}
