//go:build verif_c40

package main

// C40: concurrent use of PeerConnection is race-free and deadlock-free -- PARTIAL.
//
// suites
//   lockgraph  runs the translator tools/lockgraph on $VERIF_REPO, writes
//              coq/Gen/LockGraph.v (and has coqc check it), and hands the edge
//              list to the verified ranking checker through the generic case
//              file; the Go side computes the same layering independently.
//   stress     runtime observation: the calls the property lists, from many
//              goroutines, against a serialized signalling exchange, with a
//              watchdog (every call returns). No model.
//
// The race-detector clause is not addressed by this check.

import (
	"encoding/json"
	"fmt"
	"os"
	"os/exec"
	"path/filepath"
	"sort"
	"strings"
	"sync"
	"sync/atomic"
	"time"

	"github.com/pion/webrtc/v4"
	"github.com/pion/webrtc/v4/pkg/media"
)

// ---------- lockgraph ----------

type c40Witness struct {
	Func string `json:"func"`
	Pos  string `json:"pos"`
	Via  string `json:"via"`
}
type c40Edge struct {
	From      string       `json:"from"`
	To        string       `json:"to"`
	Witnesses []c40Witness `json:"witnesses"`
	Count     int          `json:"count"`
}
type c40Unfollowed struct {
	Func string   `json:"func"`
	Pos  string   `json:"pos"`
	Kind string   `json:"kind"`
	Call string   `json:"call"`
	Held []string `json:"held"`
}
type c40Graph struct {
	Repo            string              `json:"repo"`
	Packages        []string            `json:"packages"`
	Functions       int                 `json:"functions"`
	Classes         map[string]string   `json:"classes"`
	Edges           []c40Edge           `json:"edges"`
	UnfollowedHeld  []c40Unfollowed     `json:"unfollowed_under_lock"`
	UnfollowedTotal int                 `json:"unfollowed_total"`
	Unknown         []string            `json:"unclassified_lock_operations"`
	ReturnsHolding  map[string][]string `json:"returns_holding"`
}

// the mutexes DESIGN.md names; a rename makes the extraction (and this check) stale
var c40Named = []string{
	"PeerConnection.mu", "SCTPTransport.lock", "DataChannel.mu", "RTPTransceiver.mu", "RTPSender.mu",
	"RTPReceiver.mu", "operations.mu", "ICEGatherer.lock", "ICEGatherer.candidatePoolLock", "MediaEngine.mu",
	"Mux.lock", "DTLSTransport.lock", "ICETransport.lock", "TrackRemote.mu",
}

func c40Root() string {
	if r := os.Getenv("VERIF_ROOT"); r != "" {
		return r
	}
	for i, a := range os.Args {
		if a == "--out" && i+1 < len(os.Args) {
			if abs, err := filepath.Abs(os.Args[i+1]); err == nil {
				return filepath.Dir(filepath.Dir(abs)) // <root>/build/C40
			}
		}
	}
	exe, _ := os.Executable()
	return filepath.Dir(filepath.Dir(exe)) // <root>/build/h_C40
}

func c40Repo() string {
	if r := os.Getenv("VERIF_REPO"); r != "" {
		return r
	}
	return "/repo"
}

type c40Input struct {
	Locks []string `json:"locks"` // index = lock id
	Edges [][2]int `json:"edges"`
	Names []string `json:"edge_names"` // "A -> B" per edge, for the replay file
}

var (
	c40Once   sync.Once
	c40G      *c40Graph
	c40Err    error
	c40Input0 c40Input
)

func c40Extract() (*c40Graph, c40Input, error) {
	c40Once.Do(func() {
		root := c40Root()
		tool := filepath.Join(root, "build", "lockgraph")
		build := exec.Command("go", "build", "-o", tool, ".")
		build.Dir = filepath.Join(root, "tools", "lockgraph")
		if out, err := build.CombinedOutput(); err != nil {
			c40Err = fmt.Errorf("building tools/lockgraph: %v\n%s", err, out)
			return
		}
		run := exec.Command(tool, "-repo", c40Repo())
		var stderr strings.Builder
		run.Stderr = &stderr
		out, err := run.Output()
		if err != nil {
			c40Err = fmt.Errorf("lockgraph on %s: %v\n%s", c40Repo(), err, stderr.String())
			return
		}
		g := &c40Graph{}
		if err := json.Unmarshal(out, g); err != nil {
			c40Err = err
			return
		}
		c40G = g
		_ = os.MkdirAll(filepath.Join(root, "build", "C40"), 0o755)
		_ = os.WriteFile(filepath.Join(root, "build", "C40", "lockgraph.json"), out, 0o644)
		// lock ids: sorted class names (declared classes first, then anything else that shows up)
		seen := map[string]bool{}
		var locks []string
		for c := range g.Classes {
			seen[c] = true
			locks = append(locks, c)
		}
		for _, e := range g.Edges {
			for _, n := range []string{e.From, e.To} {
				if !seen[n] {
					seen[n] = true
					locks = append(locks, n)
				}
			}
		}
		sort.Strings(locks)
		id := map[string]int{}
		for i, l := range locks {
			id[l] = i
		}
		in := c40Input{Locks: locks}
		for _, e := range g.Edges {
			in.Edges = append(in.Edges, [2]int{id[e.From], id[e.To]})
			in.Names = append(in.Names, e.From+" -> "+e.To)
		}
		c40Input0 = in
		c40Err = c40WriteGen(root, g, in)
	})
	return c40G, c40Input0, c40Err
}

// c40Comment makes a string safe inside a Coq comment.
func c40Comment(s string) string {
	s = strings.ReplaceAll(s, "(*", "( *")
	s = strings.ReplaceAll(s, "*)", "* )")
	return strings.ReplaceAll(s, "\"", "'")
}

// c40WriteGen regenerates coq/Gen/LockGraph.v and has coqc check it.
func c40WriteGen(root string, g *c40Graph, in c40Input) error {
	var b strings.Builder
	b.WriteString("(* GENERATED by harness/c40.go from tools/lockgraph on every run of the C40 check.\n")
	b.WriteString("   \"Acquired while held\" edges between the mutex fields (lock classes, all\n")
	b.WriteString("   instances of a type merged) of github.com/pion/webrtc/v4 and internal/mux.\n")
	b.WriteString("   Not followed: calls through interfaces / function values / into other modules. *)\n")
	b.WriteString("From Coq Require Import List Arith.\nImport ListNotations.\nFrom Verif Require Import Model.LockOrder Proofs.LockOrder.\n\n")
	b.WriteString("(* lock ids *)\n")
	for i, l := range in.Locks {
		fmt.Fprintf(&b, "(* %2d  %s *)\n", i, l)
	}
	b.WriteString("\nDefinition generated_edges : list (lock * lock) := [\n")
	for i, e := range in.Edges {
		sep := ";"
		if i == len(in.Edges)-1 {
			sep = ""
		}
		w := ""
		if ws := g.Edges[i].Witnesses; len(ws) > 0 {
			w = " in " + ws[0].Func
			if ws[0].Via != "" {
				w += " via " + ws[0].Via
			}
		}
		fmt.Fprintf(&b, "  (%d, %d)%s  (* %s%s *)\n", e[0], e[1], sep, in.Names[i], c40Comment(w))
	}
	b.WriteString("].\n\n")
	b.WriteString("Lemma generated_has_ranking : find_ranking generated_edges <> None.\nProof. vm_compute. discriminate. Qed.\n\n")
	b.WriteString("Lemma generated_edges_ranked : exists rk, forall a b, In (a, b) generated_edges -> rank_of rk a < rank_of rk b.\n")
	b.WriteString("Proof.\n  destruct (find_ranking generated_edges) as [rk|] eqn:E.\n  - exists rk. apply find_ranking_sound. exact E.\n  - exfalso. apply generated_has_ranking. exact E.\nQed.\n\n")
	// exclusions: what the translator does not follow, while some lock is held
	kinds := map[string]int{}
	for _, u := range g.UnfollowedHeld {
		kinds[u.Kind]++
	}
	var ks []string
	for k := range kinds {
		ks = append(ks, k)
	}
	sort.Strings(ks)
	fmt.Fprintf(&b, "(* calls made while a lock is held (directly or in a caller) that are not followed: %d\n", len(g.UnfollowedHeld))
	for _, k := range ks {
		fmt.Fprintf(&b, "     %-50s %d\n", k, kinds[k])
	}
	b.WriteString("   the complete list with positions is build/C40/lockgraph.json; below, the direct\n   interface / function-value calls under a lock (callbacks, handlers, loggers): *)\n")
	for _, u := range g.UnfollowedHeld {
		if u.Kind == "external" || strings.Contains(u.Call, "(reached through") {
			continue
		}
		fmt.Fprintf(&b, "(* %-10s %s: %s holding %s *)\n", strings.SplitN(u.Kind, " ", 2)[0], c40Comment(u.Func), c40Comment(u.Call), strings.Join(u.Held, ","))
	}
	dir := filepath.Join(root, "coq", "Gen")
	if err := os.MkdirAll(dir, 0o755); err != nil {
		return err
	}
	path := filepath.Join(dir, "LockGraph.v")
	if old, err := os.ReadFile(path); err != nil || string(old) != b.String() {
		if err := os.WriteFile(path, []byte(b.String()), 0o644); err != nil {
			return err
		}
	}
	return nil
}

// c40Layer: longest-path layering by repeated relaxation, the same procedure as
// Model/LockOrder.v find_ranking, written independently; ok=false on a cycle.
func c40Layer(n int, edges [][2]int) (rk []int, ok bool) {
	bound := 1
	for _, e := range edges {
		for _, v := range e {
			if v+1 > bound {
				bound = v + 1
			}
		}
	}
	_ = n
	rk = make([]int, bound)
	for round := 0; round <= bound; round++ {
		for _, e := range edges {
			if rk[e[1]] <= rk[e[0]] {
				rk[e[1]] = rk[e[0]] + 1
			}
		}
	}
	for _, e := range edges {
		if rk[e[0]] >= rk[e[1]] {
			return nil, false
		}
	}
	return rk, true
}

// c40Cycle finds one cycle (as lock names) by depth-first search.
func c40Cycle(in c40Input) []string {
	adj := map[int][]int{}
	for _, e := range in.Edges {
		adj[e[0]] = append(adj[e[0]], e[1])
	}
	color := map[int]int{}
	var stack []int
	var found []int
	var dfs func(v int) bool
	dfs = func(v int) bool {
		color[v] = 1
		stack = append(stack, v)
		for _, w := range adj[v] {
			if color[w] == 1 {
				for i, x := range stack {
					if x == w {
						found = append(append([]int{}, stack[i:]...), w)
						return true
					}
				}
			}
			if color[w] == 0 && dfs(w) {
				return true
			}
		}
		stack = stack[:len(stack)-1]
		color[v] = 2
		return false
	}
	for v := range in.Locks {
		if color[v] == 0 && dfs(v) {
			break
		}
	}
	names := make([]string, len(found))
	for i, v := range found {
		names[i] = in.Locks[v]
	}
	return names
}

func c40RunGraph(in c40Input) (V, Verdict) {
	g, _, err := c40Extract()
	if err != nil {
		return VS("error"), Fail("lock-graph-extraction-failed", err.Error())
	}
	rk, ok := c40Layer(len(in.Locks), in.Edges)
	obs := VL{VB(ok), VInts(rk)}
	if !ok {
		cyc := c40Cycle(in)
		return obs, Fail("lock-order-cycle:"+strings.Join(cyc, "->"), "the acquired-while-held graph has a cycle: "+strings.Join(cyc, " -> ")+" (witnesses in build/C40/lockgraph.json)")
	}
	for _, name := range c40Named {
		if _, ok := g.Classes[name]; !ok {
			return obs, Fail("named-lock-not-found:"+name, "the mutex field "+name+" named in DESIGN.md was not found by the translator")
		}
	}
	if len(g.Unknown) > 0 {
		return obs, Fail("lock-operation-unclassified", strings.Join(g.Unknown, ", "))
	}
	if len(in.Edges) < 10 || g.Functions < 300 {
		return obs, Fail("lock-graph-degenerate", fmt.Sprintf("%d edges from %d functions", len(in.Edges), g.Functions))
	}
	// the generated Coq file must check
	root := c40Root()
	cmd := exec.Command("timeout", "600", "coqc", "-Q", filepath.Join(root, "coq"), "Verif", "-w", "-all",
		filepath.Join(root, "coq", "Gen", "LockGraph.v"))
	if out, err := cmd.CombinedOutput(); err != nil {
		return obs, Fail("generated-lock-graph-rejected-by-coq", string(out))
	}
	v := Pass(fmt.Sprintf("locks%d/edges%d/unfollowed-under-lock%d", len(in.Locks), len(in.Edges), len(g.UnfollowedHeld)), true)
	return obs, v
}

// ---------- stress ----------

type c40StressCase struct {
	Workers int    `json:"workers"`
	Rounds  int    `json:"rounds"` // signalling exchanges
	Seed    uint64 `json:"seed"`
}

func c40RunStress(c c40StressCase) (V, Verdict) {
	signalOnly(true)
	me := &webrtc.MediaEngine{}
	if err := me.RegisterDefaultCodecs(); err != nil {
		panic(err)
	}
	me2 := &webrtc.MediaEngine{}
	_ = me2.RegisterDefaultCodecs()
	a, err := newQuietAPI(me).NewPeerConnection(webrtc.Configuration{})
	if err != nil {
		panic(err)
	}
	b, err := newQuietAPI(me2).NewPeerConnection(webrtc.Configuration{})
	if err != nil {
		panic(err)
	}
	var inFlight sync.Map // goroutine index -> name of the call it is in
	var calls atomic.Int64
	var panicked atomic.Value
	stop := make(chan struct{})
	var wg sync.WaitGroup
	do := func(w int, name string, f func()) {
		inFlight.Store(w, name+" since "+time.Now().Format("15:04:05.000"))
		f()
		inFlight.Delete(w)
		calls.Add(1)
	}
	// the signalling goroutine: serialized exchanges, a offers
	sigDone := make(chan struct{})
	go func() {
		defer close(sigDone)
		for i := 0; i < c.Rounds; i++ {
			var offer, answer webrtc.SessionDescription
			var err error
			do(-1, "CreateOffer", func() { offer, err = a.CreateOffer(nil) })
			if err != nil {
				continue
			}
			do(-1, "SetLocalDescription(offer)", func() { err = a.SetLocalDescription(offer) })
			if err != nil {
				continue
			}
			do(-1, "SetRemoteDescription(offer)", func() { err = b.SetRemoteDescription(offer) })
			if err != nil {
				do(-1, "rollback", func() { _ = a.SetLocalDescription(webrtc.SessionDescription{Type: webrtc.SDPTypeRollback}) })
				continue
			}
			do(-1, "CreateAnswer", func() { answer, err = b.CreateAnswer(nil) })
			if err != nil {
				continue
			}
			do(-1, "SetLocalDescription(answer)", func() { err = b.SetLocalDescription(answer) })
			if err != nil {
				continue
			}
			do(-1, "SetRemoteDescription(answer)", func() { _ = a.SetRemoteDescription(answer) })
		}
	}()
	for w := 0; w < c.Workers; w++ {
		w := w
		wg.Add(1)
		go func() {
			defer wg.Done()
			defer func() {
				if p := recover(); p != nil {
					panicked.Store(fmt.Sprint(p))
				}
			}()
			r := NewRand(c.Seed*1000003 + uint64(w))
			track, _ := webrtc.NewTrackLocalStaticSample(webrtc.RTPCodecCapability{MimeType: webrtc.MimeTypeVP8},
				fmt.Sprintf("v%d", w), fmt.Sprintf("s%d", w))
			var senders []*webrtc.RTPSender
			for n := 0; ; n++ {
				select {
				case <-stop:
					return
				default:
				}
				switch r.Intn(16) {
				case 0:
					do(w, "AddTrack", func() {
						if s, err := a.AddTrack(track); err == nil {
							senders = append(senders, s)
						}
					})
				case 1:
					if len(senders) > 0 {
						s := senders[len(senders)-1]
						senders = senders[:len(senders)-1]
						do(w, "RemoveTrack", func() { _ = a.RemoveTrack(s) })
					}
				case 2:
					if n < 40 {
						do(w, "AddTransceiverFromKind", func() { _, _ = a.AddTransceiverFromKind(webrtc.RTPCodecTypeAudio) })
					}
				case 3:
					if n < 40 {
						do(w, "AddTransceiverFromTrack", func() { _, _ = a.AddTransceiverFromTrack(track) })
					}
				case 4:
					if n < 60 {
						do(w, "CreateDataChannel", func() { _, _ = a.CreateDataChannel(fmt.Sprintf("d%d-%d", w, n), nil) })
					}
				case 5:
					do(w, "GetTransceivers", func() { _ = a.GetTransceivers() })
				case 6:
					do(w, "GetSenders", func() { _ = a.GetSenders() })
				case 7:
					do(w, "GetReceivers", func() { _ = a.GetReceivers() })
				case 8:
					do(w, "state getters", func() {
						_ = a.SignalingState()
						_ = a.ConnectionState()
						_ = a.ICEConnectionState()
						_ = a.ICEGatheringState()
					})
				case 9:
					do(w, "description getters", func() {
						_ = a.LocalDescription()
						_ = a.RemoteDescription()
						_ = a.CurrentLocalDescription()
						_ = a.PendingLocalDescription()
						_ = a.CurrentRemoteDescription()
						_ = a.PendingRemoteDescription()
					})
				case 10:
					do(w, "GetStats", func() { _ = a.GetStats() })
				case 11:
					do(w, "WriteSample", func() { _ = track.WriteSample(media.Sample{Data: []byte{1, 2, 3}, Duration: time.Millisecond}) })
				case 12:
					do(w, "GetStats(b)", func() { _ = b.GetStats() })
				case 13:
					do(w, "sender/transceiver getters", func() {
						for _, t := range a.GetTransceivers() {
							_ = t.Direction()
							_ = t.Mid()
							if s := t.Sender(); s != nil {
								_ = s.GetParameters()
								_ = s.Track()
							}
							if rc := t.Receiver(); rc != nil {
								_ = rc.GetParameters()
							}
						}
					})
				default:
					time.Sleep(time.Duration(r.Intn(200)) * time.Microsecond)
				}
			}
		}()
	}
	verdict := Pass(fmt.Sprintf("workers%d/rounds%d", c.Workers, c.Rounds), true)
	stuck := func(what string) Verdict {
		var names []string
		inFlight.Range(func(k, v any) bool { names = append(names, fmt.Sprintf("%v:%v", k, v)); return true })
		sort.Strings(names)
		sig := "call-never-returns"
		if len(names) > 0 {
			sig += ":" + strings.SplitN(strings.SplitN(names[0], ":", 2)[1], " since", 2)[0]
		}
		return Fail(sig, what+"; calls in flight: "+strings.Join(names, "; "))
	}
	select {
	case <-sigDone:
	case <-time.After(60 * time.Second):
		verdict = stuck("the signalling goroutine did not finish within 60 s")
	}
	close(stop)
	workersDone := make(chan struct{})
	go func() { wg.Wait(); close(workersDone) }()
	if verdict.OK {
		select {
		case <-workersDone:
		case <-time.After(30 * time.Second):
			verdict = stuck("a worker did not return from its call within 30 s")
		}
	}
	// Close, concurrently from two goroutines, while getters still run
	if verdict.OK {
		closed := make(chan struct{}, 2)
		go func() { _ = a.Close(); closed <- struct{}{} }()
		go func() { _ = a.GracefulClose(); closed <- struct{}{} }()
		_ = a.GetStats()
		for i := 0; i < 2 && verdict.OK; i++ {
			select {
			case <-closed:
			case <-time.After(30 * time.Second):
				verdict = Fail("call-never-returns:Close", "Close/GracefulClose after the stress did not return within 30 s")
			}
		}
		done := make(chan struct{})
		go func() { _ = b.GracefulClose(); close(done) }()
		select {
		case <-done:
		case <-time.After(30 * time.Second):
			if verdict.OK {
				verdict = Fail("call-never-returns:Close", "GracefulClose of the answerer did not return within 30 s")
			}
		}
	}
	if p, ok := panicked.Load().(string); ok && verdict.OK {
		verdict = Fail("panic-under-concurrent-use", p)
	}
	if verdict.OK {
		verdict.Key = fmt.Sprintf("%d/%d/%d", c.Workers, c.Rounds, c.Seed)
	}
	return VL{VB(verdict.OK), VZ(0)}, verdict
}

func init() {
	Register(Spec[c40Input]{
		ID: "C40", Suite: "lockgraph", CoqImports: []string{"Check.C40"},
		CoqType: "list (Z * Z)", CoqRun: "Check.C40.run",
		Parallel: 1, Timeout: 900 * time.Second,
		Corpus: func() []c40Input {
			_, in, err := c40Extract()
			if err != nil {
				// the failure is reported by Run
				return []c40Input{{}}
			}
			return []c40Input{in}
		},
		Run: c40RunGraph,
		Coq: func(in c40Input) string {
			parts := make([]string, len(in.Edges))
			for i, e := range in.Edges {
				parts[i] = fmt.Sprintf("(%d, %d)", e[0], e[1])
			}
			return CoqList(parts)
		},
	})
	Register(Spec[c40StressCase]{
		ID: "C40", Suite: "stress", CoqImports: []string{"Check.C40"},
		CoqType: "unit", CoqRun: "Check.C40.run_stress",
		Coq:   func(c40StressCase) string { return "tt" },
		Quick: 6, Thorough: 200, Parallel: 2, Timeout: 300 * time.Second,
		Gen: func(r *Rand, i int) c40StressCase {
			return c40StressCase{Workers: r.Range(2, 8), Rounds: r.Range(3, 12), Seed: r.U64() % 1000000}
		},
		Run: c40RunStress,
	})
}
