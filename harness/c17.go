//go:build verif_c17

package main

import (
	"fmt"
	"strings"

	"github.com/pion/webrtc/v4"
	"github.com/pion/webrtc/v4/internal/fmtp"
)

// C17: fmtp.Parse(...).Match symmetric, independent of the mime type's letter
// case, reflexive on the default codec table.

type c17Desc struct {
	Mime  string `json:"mime"`
	Clock uint32 `json:"clock"`
	Ch    uint16 `json:"ch"`
	Line  string `json:"line"`
}

type c17Case struct {
	A       c17Desc  `json:"a"`
	B       c17Desc  `json:"b"`
	Variant string   `json:"variant"` // A's mime with the case of letters changed
	Probes  []string `json:"probes"`  // keys looked up in Parse(A)
}

func (d c17Desc) parse() fmtp.FMTP { return fmtp.Parse(d.Mime, d.Clock, d.Ch, d.Line) }

func c17Kind(m string) string {
	switch {
	case strings.EqualFold(m, "video/h264"):
		return "h264"
	case strings.EqualFold(m, "video/vp9"):
		return "vp9"
	case strings.EqualFold(m, "video/av1"):
		return "av1"
	}
	return "generic"
}

func c17Run(c c17Case) (V, Verdict) {
	fa, fb := c.A.parse(), c.B.parse()
	av := c.A
	av.Mime = c.Variant
	fv := av.parse()
	mab, mba := fa.Match(fb), fb.Match(fa)
	mvb, mbv := fv.Match(fb), fb.Match(fv)

	probes := make(VL, len(c.Probes))
	for i, k := range c.Probes {
		if v, ok := fa.Parameter(k); ok {
			probes[i] = VL{vsx(v)}
		} else {
			probes[i] = VL{}
		}
	}
	obs := VL{VB(mab), VB(mba), VB(mvb), VB(mbv), vsx(fa.MimeType()), probes}

	// direct oracle: the property's two universal clauses on this pair
	ka, kb := c17Kind(c.A.Mime), c17Kind(c.B.Mime)
	sameMime := strings.EqualFold(c.A.Mime, c.B.Mime)
	class := ka + "-" + kb
	if ka == kb && (ka != "generic" || sameMime) {
		if mab {
			class = ka + "/match"
		} else {
			class = ka + "/nomatch"
		}
	}
	if !isASCII(c.A.Mime) || !isASCII(c.B.Mime) {
		class = "nonascii:" + class
	}
	v := Pass(class, ka == kb && (ka != "generic" || sameMime))
	switch {
	case mab != mba:
		// cause, not symptom: the two mime types are equal under EqualFold's
		// Unicode folding but their ToLower forms (the keys of the default
		// clock-rate / channel tables) differ
		if sameMime && strings.ToLower(c.A.Mime) != strings.ToLower(c.B.Mime) {
			v = Fail("mime-unicode-fold-vs-tolower",
				fmt.Sprintf("%q(%d,%d).Match(%q(%d,%d))=%v but the reverse is %v", c.A.Mime, c.A.Clock, c.A.Ch,
					c.B.Mime, c.B.Clock, c.B.Ch, mab, mba))
		} else {
			v = Fail("match-asymmetric", fmt.Sprintf("A.Match(B)=%v, B.Match(A)=%v", mab, mba))
		}
	case mvb != mab || mbv != mba:
		v = Fail("match-depends-on-mime-case",
			fmt.Sprintf("mime %q vs %q: A.Match(B)=%v A'.Match(B)=%v B.Match(A)=%v B.Match(A')=%v",
				c.A.Mime, c.Variant, mab, mvb, mba, mbv))
	}
	return obs, v
}

func c17CoqDesc(d c17Desc) string {
	return fmt.Sprintf("(%s, %s, %s, %s)", coqStr(d.Mime), coqN(uint64(d.Clock)), coqN(uint64(d.Ch)), coqStr(d.Line))
}

func c17Coq(c c17Case) string {
	if !isASCII(c.A.Mime) || !isASCII(c.B.Mime) || !isASCII(c.Variant) || !isASCII(c.A.Line) || !isASCII(c.B.Line) {
		return "" // Unicode folding is outside the model
	}
	for _, p := range c.Probes {
		if !isASCII(p) {
			return ""
		}
	}
	return fmt.Sprintf("(%s, %s, %s, %s)", c17CoqDesc(c.A), c17CoqDesc(c.B), coqStr(c.Variant), coqStrList(c.Probes))
}

// ---------- generation ----------

var c17Mimes = []string{
	"audio/opus", "audio/PCMU", "audio/PCMA", "audio/G722", "audio/telephone-event", "audio/red",
	"video/VP8", "video/H264", "video/H265", "video/VP9", "video/AV1", "video/rtx", "video/flexfec-03",
	"video/ulpfec", "video/h264x", "video/vp", "audio/h264", "", "x",
}
var c17Clocks = []uint32{0, 0, 8000, 48000, 90000, 90000, 16000, 1, 4294967295}
var c17Chans = []uint16{0, 0, 1, 2, 6, 65535}
var c17PLIDs = []string{"42001f", "42e01f", "42E01F", "42e034", "4d001f", "4D001F", "64001f", "640032",
	"42", "4200", "42001", "zz001f", "42001f00", "", "42 01f", "4200zz"}
var c17Spaces = []string{"", "", "", " ", "  ", "\t", " \t", "\n", "\r\n", "\v", "\f"}
var c17ProbeKeys = []string{"apt", "packetization-mode", "profile-level-id", "profile-id", "profile",
	"level-asymmetry-allowed", "minptime", "useinbandfec", "stereo", "a", "b", "", "Apt", "PROFILE-ID", "x-y", "level-idx"}

type c17KV struct{ k, v string }

func c17Params(r *Rand, mime string) []c17KV {
	var kv []c17KV
	add := func(k, v string) { kv = append(kv, c17KV{k, v}) }
	switch c17Kind(mime) {
	case "h264":
		if !r.Chance(1, 8) {
			add("packetization-mode", Pick(r, []string{"0", "1", "1", "1", "", "01", "2"}))
		}
		if !r.Chance(1, 8) {
			add("profile-level-id", Pick(r, c17PLIDs))
		}
		if r.Bool() {
			add("level-asymmetry-allowed", "1")
		}
	case "vp9":
		if !r.Chance(1, 3) {
			add("profile-id", Pick(r, []string{"0", "0", "1", "2", "00", ""}))
		}
	case "av1":
		if !r.Chance(1, 3) {
			add("profile", Pick(r, []string{"0", "0", "1", "2", "00", ""}))
		}
		if r.Chance(1, 3) {
			add("level-idx", Pick(r, []string{"5", "8"}))
		}
	default:
		switch {
		case strings.EqualFold(mime, "audio/opus"):
			if r.Bool() {
				add("minptime", Pick(r, []string{"10", "20"}))
			}
			if r.Bool() {
				add("useinbandfec", Pick(r, []string{"1", "0", "1"}))
			}
			if r.Chance(1, 4) {
				add("stereo", "1")
			}
		case strings.EqualFold(mime, "video/rtx"):
			if !r.Chance(1, 6) {
				add("apt", Pick(r, []string{"96", "96", "102", "98", "096", "+96", "x", ""}))
			}
		}
	}
	// generic extra keys, values differing by case only, duplicates (last wins)
	for n := r.Intn(3); n > 0; n-- {
		add(Pick(r, []string{"a", "b", "x-y", "profile-id", "apt", "profile"}), Pick(r, []string{"1", "2", "Abc", "abc", "ABC", "", "p=q", "x y"}))
	}
	if len(kv) > 1 && r.Chance(1, 3) { // shuffle
		for i := len(kv) - 1; i > 0; i-- {
			j := r.Intn(i + 1)
			kv[i], kv[j] = kv[j], kv[i]
		}
	}
	return kv
}

// c17Render writes parameters the way remote SDP may: free spacing, key case,
// empty segments, keys without '=', trailing separators.
func c17Render(r *Rand, kv []c17KV) string {
	var segs []string
	for _, p := range kv {
		k := p.k
		if r.Chance(1, 3) {
			k = flipCase(r, k)
		}
		seg := Pick(r, c17Spaces) + k
		switch {
		case p.v == "" && r.Bool():
			// bare key
		default:
			seg += "=" + p.v
		}
		seg += Pick(r, c17Spaces)
		segs = append(segs, seg)
		if r.Chance(1, 10) {
			segs = append(segs, Pick(r, c17Spaces))
		}
	}
	line := strings.Join(segs, ";")
	if r.Chance(1, 8) {
		line += ";"
	}
	return line
}

func c17GenDesc(r *Rand) (c17Desc, []c17KV) {
	mime := Pick(r, c17Mimes)
	if r.Chance(1, 3) {
		mime = flipCase(r, mime)
	}
	kv := c17Params(r, mime)
	return c17Desc{Mime: mime, Clock: Pick(r, c17Clocks), Ch: Pick(r, c17Chans), Line: c17Render(r, kv)}, kv
}

// c17Mutate derives B from A so that the comparison reaches the later stages.
func c17Mutate(r *Rand, a c17Desc, kv []c17KV) c17Desc {
	b := a
	if r.Bool() {
		b.Mime = flipCase(r, a.Mime)
	}
	switch r.Intn(4) {
	case 0:
		b.Clock = 0
	case 1:
		b.Clock = fmtpDefaultClock(a.Mime)
	case 2:
		b.Clock = Pick(r, c17Clocks)
	}
	switch r.Intn(4) {
	case 0:
		b.Ch = 0
	case 1:
		b.Ch = Pick(r, []uint16{1, 2})
	case 2:
		b.Ch = Pick(r, c17Chans)
	}
	kv2 := append([]c17KV{}, kv...)
	for n := r.Intn(3); n > 0 && len(kv2) > 0; n-- {
		i := r.Intn(len(kv2))
		switch r.Intn(4) {
		case 0: // drop
			kv2 = append(kv2[:i], kv2[i+1:]...)
		case 1: // case of the value
			kv2[i].v = flipCase(r, kv2[i].v)
		case 2: // other value
			kv2[i].v = Pick(r, []string{"0", "1", "2", "42e01f", "42001f", "42e034", "abc", "96"})
		case 3: // move to the end
			kv2 = append(append(kv2[:i:i], kv2[i+1:]...), kv2[i])
		}
	}
	b.Line = c17Render(r, kv2)
	return b
}

// the harness's own idea of the defaults (used only to steer generation)
func fmtpDefaultClock(m string) uint32 {
	switch strings.ToLower(m) {
	case "audio/opus":
		return 48000
	case "audio/pcmu", "audio/pcma":
		return 8000
	}
	return 90000
}

func c17Probes(r *Rand) []string {
	n := r.Range(2, 5)
	out := make([]string, n)
	for i := range out {
		out[i] = Pick(r, c17ProbeKeys)
	}
	return out
}

func c17Gen(r *Rand, _ int) c17Case {
	a, kv := c17GenDesc(r)
	var b c17Desc
	if r.Chance(3, 5) {
		b = c17Mutate(r, a, kv)
	} else {
		b, _ = c17GenDesc(r)
	}
	if r.Bool() {
		a, b = b, a
	}
	variant := flipCase(r, a.Mime)
	if r.Chance(1, 4) {
		variant = strings.ToUpper(a.Mime)
	}
	return c17Case{A: a, B: b, Variant: variant, Probes: c17Probes(r)}
}

// fixed vocabulary whose pairs are all compared: the default table plus the
// variations the matching rules distinguish
func c17Vocabulary() []c17Desc {
	var out []c17Desc
	me := &webrtc.MediaEngine{}
	if err := me.RegisterDefaultCodecs(); err != nil {
		panic(err)
	}
	seen := map[string]bool{}
	add := func(d c17Desc) {
		k := fmt.Sprintf("%q/%d/%d/%q", d.Mime, d.Clock, d.Ch, d.Line)
		if !seen[k] {
			seen[k] = true
			out = append(out, d)
		}
	}
	for _, typ := range []webrtc.RTPCodecType{webrtc.RTPCodecTypeAudio, webrtc.RTPCodecTypeVideo} {
		// the whole default table is compared in the defaults suite; here one
		// representative per matching rule keeps the pair count near 2000
		nrtx, nh264 := 0, 0
		for _, c := range me.VerifRegisteredCodecs(typ) {
			switch {
			case strings.EqualFold(c.MimeType, "video/rtx"):
				if nrtx++; nrtx > 2 {
					continue
				}
			case strings.EqualFold(c.MimeType, "video/h264"):
				if nh264++; nh264 > 4 {
					continue
				}
			}
			add(c17Desc{c.MimeType, c.ClockRate, c.Channels, c.SDPFmtpLine})
		}
	}
	for _, d := range []c17Desc{
		{"audio/opus", 0, 0, ""}, {"AUDIO/OPUS", 48000, 0, "useinbandfec=1"}, {"audio/opus", 48000, 1, ""},
		{"audio/opus", 90000, 2, ""}, {"audio/Opus", 0, 2, "minptime=20"}, {"audio/opus", 0, 0, "MINPTIME=10 ; useinbandfec=0"},
		{"audio/pcmu", 0, 0, ""}, {"audio/PCMU", 8000, 1, ""}, {"audio/PCMU", 90000, 0, ""}, {"audio/pcma", 0, 1, ""},
		{"audio/G722", 0, 0, ""}, {"audio/G722", 90000, 0, ""},
		{"video/vp8", 0, 0, ""}, {"video/VP8", 90000, 1, "x=1"}, {"video/VP8", 90000, 0, "X=1;x=2"}, {"video/VP8", 90000, 2, ""},
		{"video/H264", 90000, 0, ""}, {"video/h264", 0, 0, "packetization-mode=1"},
		{"VIDEO/H264", 1, 7, " profile-level-id=42E034;packetization-mode=1 "},
		{"video/H264", 90000, 0, "packetization-mode=1;profile-level-id=42"},
		{"video/H264", 90000, 0, "packetization-mode=1;profile-level-id=4200"},
		{"video/H264", 90000, 0, "packetization-mode=1;profile-level-id=42001"},
		{"video/H264", 90000, 0, "packetization-mode=1;profile-level-id=zz001f"},
		{"video/H264", 90000, 0, "packetization-mode=;profile-level-id=42001f"},
		{"video/H264", 90000, 0, "packetization-mode;profile-level-id=42001f"},
		{"video/H264", 90000, 0, "packetization-mode=0;packetization-mode=1;profile-level-id=640032;profile-level-id=42e01f"},
		{"video/VP9", 90000, 0, ""}, {"video/vp9", 0, 0, "profile-id=1"}, {"video/VP9", 8000, 2, "PROFILE-ID=2"},
		{"video/VP9", 90000, 0, "profile-id=00"}, {"video/VP9", 90000, 0, "profile-id"},
		{"video/AV1", 90000, 0, "profile=0"}, {"video/av1", 0, 0, "profile=1"}, {"video/AV1", 90000, 0, "level-idx=5;profile=2;tier=0"},
		{"video/rtx", 90000, 0, "apt=96;rtx-time=3000"}, {"video/RTX", 0, 0, "APT=96"}, {"video/rtx", 90000, 0, ""},
		{"video/rtx", 90000, 0, "apt=097"},
		{"video/flexfec-03", 90000, 0, "repair-window=10000000"},
		{"", 0, 0, ""}, {"video/H265", 0, 0, "a=B"}, {"video/h265", 90000, 0, "A=b;"},
	} {
		add(d)
	}
	return out
}

func c17Pairs() []c17Case {
	voc := c17Vocabulary()
	var out []c17Case
	for i, a := range voc {
		for j, b := range voc {
			r := NewRand(uint64(i)*1000003 + uint64(j))
			variant := flipCase(r, a.Mime)
			if (i+j)%3 == 0 {
				variant = strings.ToUpper(a.Mime)
			}
			out = append(out, c17Case{A: a, B: b, Variant: variant, Probes: []string{c17ProbeKeys[(i+j)%len(c17ProbeKeys)], c17ProbeKeys[(i*7+j)%len(c17ProbeKeys)]}})
		}
	}
	return out
}

func c17Shrink(c c17Case) []c17Case {
	var out []c17Case
	try := func(f func(x *c17Case)) {
		x := c
		x.Probes = append([]string{}, c.Probes...)
		f(&x)
		out = append(out, x)
	}
	if len(c.Probes) > 0 {
		try(func(x *c17Case) { x.Probes = nil })
	}
	for _, side := range []int{0, 1} {
		d := func(x *c17Case) *c17Desc {
			if side == 0 {
				return &x.A
			}
			return &x.B
		}
		cur := c.A
		if side == 1 {
			cur = c.B
		}
		if cur.Line != "" {
			try(func(x *c17Case) { d(x).Line = "" })
			segs := strings.Split(cur.Line, ";")
			for i := range segs {
				i := i
				try(func(x *c17Case) {
					d(x).Line = strings.Join(append(append([]string{}, segs[:i]...), segs[i+1:]...), ";")
				})
			}
		}
		if cur.Clock != 0 {
			try(func(x *c17Case) { d(x).Clock = 0 })
		}
		if cur.Ch != 0 {
			try(func(x *c17Case) { d(x).Ch = 0 })
		}
	}
	if c.Variant != c.A.Mime {
		try(func(x *c17Case) { x.Variant = x.A.Mime })
	}
	return out
}

// ---------- defaults suite ----------

func c17DefaultsRun(_ int) (V, Verdict) {
	me := &webrtc.MediaEngine{}
	if err := me.RegisterDefaultCodecs(); err != nil {
		panic(err)
	}
	verdict := Pass("defaults", true)
	var obs VL
	for _, typ := range []webrtc.RTPCodecType{webrtc.RTPCodecTypeAudio, webrtc.RTPCodecTypeVideo} {
		var l VL
		for _, c := range me.VerifRegisteredCodecs(typ) {
			f := fmtp.Parse(c.MimeType, c.ClockRate, c.Channels, c.SDPFmtpLine)
			g := fmtp.Parse(c.MimeType, c.ClockRate, c.Channels, c.SDPFmtpLine)
			if !f.Match(g) && verdict.OK {
				verdict = Fail("default-codec-does-not-match-itself",
					fmt.Sprintf("%s %d %d %q (pt %d)", c.MimeType, c.ClockRate, c.Channels, c.SDPFmtpLine, c.PayloadType))
			}
			l = append(l, VL{VS(c.MimeType), VZ(int64(c.ClockRate)), VZ(int64(c.Channels)), VS(c.SDPFmtpLine), VZ(int64(c.PayloadType))})
		}
		obs = append(obs, l)
	}
	return obs, verdict
}

func init() {
	imports := []string{"Common.CodecUtil", "Check.C17"}
	Register(Spec[int]{
		ID: "C17", Suite: "defaults", CoqImports: imports,
		CoqType: "Z", CoqRun: "Check.C17.run_defaults",
		Exhaustive: func() []int { return []int{0} },
		Run:        c17DefaultsRun,
		Coq:        func(int) string { return "0" },
	})
	Register(Spec[c17Case]{
		ID: "C17", Suite: "vocab", CoqImports: imports,
		CoqType: "Check.C17.desc_in * Check.C17.desc_in * string * list string", CoqRun: "Check.C17.run",
		Exhaustive: c17Pairs,
		Run:        c17Run, Coq: c17Coq, Shrink: c17Shrink, Parallel: 8,
	})
	Register(Spec[c17Case]{
		ID: "C17", Suite: "pairs", CoqImports: imports,
		CoqType: "Check.C17.desc_in * Check.C17.desc_in * string * list string", CoqRun: "Check.C17.run",
		Quick: 2000, Thorough: 60000, Parallel: 8,
		Corpus: func() []c17Case {
			return []c17Case{
				{A: c17Desc{"video/H264", 90000, 0, "packetization-mode=1;profile-level-id=42e01f"},
					B:       c17Desc{"VIDEO/h264", 0, 0, " Profile-Level-Id=42E034 ; PACKETIZATION-MODE=1"},
					Variant: "VIDEO/H264", Probes: []string{"profile-level-id", "packetization-mode"}},
				{A: c17Desc{"audio/opus", 0, 0, "useinbandfec=1"}, B: c17Desc{"AUDIO/OPUS", 48000, 2, "minptime=10;useinbandfec=1"},
					Variant: "Audio/Opus", Probes: []string{"useinbandfec", "minptime"}},
				{A: c17Desc{"video/rtx", 90000, 0, "apt=96;apt=97"}, B: c17Desc{"video/rtx", 0, 1, "\tAPT=97\t;"},
					Variant: "video/RTX", Probes: []string{"apt", ""}},
			}
		},
		Gen: c17Gen, Run: c17Run, Coq: c17Coq, Shrink: c17Shrink,
	})
	// non-ASCII mime types: outside the Coq model, direct oracle only
	Register(Spec[c17Case]{
		ID: "C17", Suite: "unicode", CoqImports: imports,
		CoqType: "Check.C17.desc_in * Check.C17.desc_in * string * list string", CoqRun: "Check.C17.run",
		Quick: 600, Thorough: 20000, Parallel: 8,
		Corpus: func() []c17Case {
			return []c17Case{
				// the design probe's witness: U+017F folds to 's' under EqualFold, ToLower keeps it
				{A: c17Desc{"audio/opuſ", 0, 0, ""}, B: c17Desc{"audio/opus", 48000, 0, ""}, Variant: "AUDIO/OPUſ"},
				{A: c17Desc{"audio/opuſ", 48000, 0, ""}, B: c17Desc{"audio/opus", 48000, 2, ""}, Variant: "audio/opuſ"},
				// U+212A (Kelvin sign) lowers to 'k' under both: no asymmetry
				{A: c17Desc{"audio/K", 0, 0, ""}, B: c17Desc{"audio/k", 90000, 0, ""}, Variant: "AUDIO/K"},
			}
		},
		Gen: func(r *Rand, i int) c17Case {
			c := c17Gen(r, i)
			sub := func(s string) string {
				s = strings.NewReplacer("s", "ſ", "S", "ſ", "k", "K", "K", "K").Replace(s)
				return s
			}
			switch r.Intn(3) {
			case 0:
				c.A.Mime = sub(Pick(r, []string{"audio/opus", "audio/OPUS", "video/ulpfec", "audio/speex", "video/k"}))
				c.B.Mime = strings.NewReplacer("ſ", "s", "K", "k").Replace(c.A.Mime)
			case 1:
				c.B.Mime = sub(Pick(r, []string{"audio/opus", "audio/OPUS", "audio/speex", "video/k"}))
				c.A.Mime = strings.NewReplacer("ſ", "S", "K", "K").Replace(c.B.Mime)
			default:
				c.A.Mime = sub(c.A.Mime)
				if r.Bool() {
					c.B.Mime = c.A.Mime
				}
			}
			if c.A.Mime == c.B.Mime && isASCII(c.A.Mime) {
				c.A.Mime = "audio/opuſ"
				c.B.Mime = "audio/opus"
			}
			c.A.Line, c.B.Line = "", ""
			if r.Bool() {
				c.A.Clock, c.B.Clock = 0, fmtpDefaultClock(strings.NewReplacer("ſ", "s").Replace(c.B.Mime))
			}
			c.Variant = flipCase(r, c.A.Mime)
			c.Probes = nil
			return c
		},
		Run: c17Run, Coq: c17Coq, Shrink: c17Shrink,
	})
}
