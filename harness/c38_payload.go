//go:build verif_c38

package main

// C38, second part: whole values through the struct coder of the model.
//
// Suites
//   statsval every Stats type, populated by reflection (every member: strings,
//            unsigned / signed integers, floats, bools, enums, slices, maps,
//            the omitempty pointer), through json.Marshal and
//            UnmarshalStatsJSON; the value that comes back is compared member
//            by member with the model's (Model/SerialStats.v over the shape
//            table generated from stats.go)
//   djson    json.Unmarshal of ARBITRARY JSON trees (unknown members, case
//            variants of names, duplicates, wrong kinds, null, fractions,
//            out-of-range numbers, non-objects) into SessionDescription and
//            ICECandidateInit: accepted value / error class vs the model,
//            plus an independent statement of which trees must be accepted

import (
	"bytes"
	"encoding/json"
	"errors"
	"fmt"
	"math"
	"math/big"
	"reflect"
	"sort"
	"strconv"
	"strings"

	"github.com/pion/webrtc/v4"
)

// an unsigned 64-bit quantity as a V integer
type c38VU uint64

func (v c38VU) Coq() string { return fmt.Sprintf("VZ %d", uint64(v)) }

// ---- a Go value as the model's gval (Gallina) and as the rendering of Check.C38.gval_V

func c38GvalCoq(v reflect.Value) string {
	switch v.Kind() {
	case reflect.String:
		return "(GStr " + coqHexS(v.String()) + ")"
	case reflect.Bool:
		return "(GBool " + CoqBool(v.Bool()) + ")"
	case reflect.Int, reflect.Int8, reflect.Int16, reflect.Int32, reflect.Int64:
		return "(GInt " + CoqZ(v.Int()) + ")"
	case reflect.Uint, reflect.Uint8, reflect.Uint16, reflect.Uint32, reflect.Uint64:
		return fmt.Sprintf("(GInt %d)", v.Uint())
	case reflect.Float64:
		return fmt.Sprintf("(GFlt %d)", math.Float64bits(v.Float()))
	case reflect.Slice:
		if v.IsNil() {
			return "(GSlice None)"
		}
		parts := make([]string, v.Len())
		for i := range parts {
			parts[i] = c38GvalCoq(v.Index(i))
		}
		return "(GSlice (Some " + CoqList(parts) + "))"
	case reflect.Map:
		if v.IsNil() {
			return "(GMap None)"
		}
		keys := v.MapKeys()
		sort.Slice(keys, func(i, j int) bool { return keys[i].String() < keys[j].String() })
		parts := make([]string, len(keys))
		for i, k := range keys {
			parts[i] = "(" + coqHexS(k.String()) + ", " + c38GvalCoq(v.MapIndex(k)) + ")"
		}
		return "(GMap (Some " + CoqList(parts) + "))"
	case reflect.Ptr:
		if v.IsNil() {
			return "(GPtr None)"
		}
		return "(GPtr (Some " + c38GvalCoq(v.Elem()) + "))"
	case reflect.Struct:
		var parts []string
		for i := 0; i < v.NumField(); i++ {
			if v.Type().Field(i).IsExported() {
				parts = append(parts, c38GvalCoq(v.Field(i)))
			}
		}
		return "(GStruct " + CoqList(parts) + ")"
	}
	panic("c38GvalCoq: unhandled kind " + v.Kind().String())
}

func c38GvalV(v reflect.Value) V {
	switch v.Kind() {
	case reflect.String:
		return VL{VS("s"), hexS(v.String())}
	case reflect.Bool:
		return VB(v.Bool())
	case reflect.Int, reflect.Int8, reflect.Int16, reflect.Int32, reflect.Int64:
		return VZ(v.Int())
	case reflect.Uint, reflect.Uint8, reflect.Uint16, reflect.Uint32, reflect.Uint64:
		return c38VU(v.Uint())
	case reflect.Float64:
		return VL{VS("f"), c38VU(math.Float64bits(v.Float()))}
	case reflect.Slice:
		if v.IsNil() {
			return VL{VS("nil-slice")}
		}
		xs := VL{}
		for i := 0; i < v.Len(); i++ {
			xs = append(xs, c38GvalV(v.Index(i)))
		}
		return VL{VS("slice"), xs}
	case reflect.Map:
		if v.IsNil() {
			return VL{VS("nil-map")}
		}
		keys := v.MapKeys()
		sort.Slice(keys, func(i, j int) bool { return keys[i].String() < keys[j].String() })
		xs := VL{}
		for _, k := range keys {
			xs = append(xs, VL{hexS(k.String()), c38GvalV(v.MapIndex(k))})
		}
		return VL{VS("map"), xs}
	case reflect.Ptr:
		if v.IsNil() {
			return VL{VS("nil-ptr")}
		}
		return VL{VS("ptr"), c38GvalV(v.Elem())}
	case reflect.Struct:
		xs := VL{}
		for i := 0; i < v.NumField(); i++ {
			if v.Type().Field(i).IsExported() {
				xs = append(xs, c38GvalV(v.Field(i)))
			}
		}
		return VL{VS("struct"), xs}
	}
	panic("c38GvalV: unhandled kind " + v.Kind().String())
}

// ---------------------------------------------------------------- statsval

func c38StatsErrClass(err error) string {
	cls := webrtc.VerifErrClass(err)
	switch {
	case cls == "unknown-type" && strings.HasPrefix(err.Error(), "kind:"):
		return "unknown-kind"
	case cls == "other" && (strings.HasPrefix(err.Error(), "unmarshal json type:") || strings.HasPrefix(err.Error(), "unmarshal json kind:")):
		return "holder"
	case cls == "other":
		return "unmarshal-member"
	}
	return cls
}

func c38StatsValRun(in c38StatsIn) (V, Verdict) {
	_, verdict := c38StatsRun(in) // the direct oracle: same Go type and reflect.DeepEqual
	v, _, _ := c38StatsBuild(in)
	enc, merr := json.Marshal(v.Interface())
	if merr != nil {
		return VS("marshal-error"), verdict
	}
	got, uerr := webrtc.UnmarshalStatsJSON(enc)
	if uerr != nil {
		return vResultErr(c38StatsErrClass(uerr)), verdict
	}
	return vResultOK(VL{VS(reflect.TypeOf(got).Name()), c38GvalV(reflect.ValueOf(got))}), verdict
}

func c38StatsValCoq(in c38StatsIn) string {
	v, _, _ := c38StatsBuild(in)
	return "(" + CoqString(in.GoType) + ", " + c38GvalCoq(v) + ")"
}

func c38StatsValCorpus() []c38StatsIn {
	out := c38StatsCorpus()
	out = append(out, c38StatsIn{GoType: "ICECandidateStats", Tag: "remote-candidate", Seed: 7, Mode: 1, Enums: []int{0}})
	// every type once with a random and once with an extreme payload
	seed := uint64(1000)
	for i := range c38Stats {
		d := &c38Stats[i]
		for mode := 1; mode <= 2; mode++ {
			seed++
			out = append(out, c38StatsIn{GoType: d.name, Tag: d.tags[0], Kind: d.kind, Seed: seed, Mode: mode,
				Enums: c38StatsEnums(d, NewRand(seed), false)})
		}
	}
	return out
}

// ---------------------------------------------------------------- djson

type c38T struct {
	T string   `json:"t"` // n b num s a o
	B bool     `json:"b,omitempty"`
	N string   `json:"n,omitempty"` // the number literal
	S string   `json:"s,omitempty"`
	A []c38T   `json:"a,omitempty"`
	O []c38TKV `json:"o,omitempty"`
}
type c38TKV struct {
	K string `json:"k"`
	V c38T   `json:"v"`
}

func tN() c38T             { return c38T{T: "n"} }
func tS(s string) c38T     { return c38T{T: "s", S: s} }
func tNum(l string) c38T   { return c38T{T: "num", N: l} }
func tO(kv ...c38TKV) c38T { return c38T{T: "o", O: kv} }
func tA(xs ...c38T) c38T   { return c38T{T: "a", A: xs} }

func (j c38T) text(b *bytes.Buffer) {
	switch j.T {
	case "n":
		b.WriteString("null")
	case "b":
		fmt.Fprintf(b, "%v", j.B)
	case "num":
		b.WriteString(j.N)
	case "s":
		q, _ := json.Marshal(j.S)
		b.Write(q)
	case "a":
		b.WriteByte('[')
		for i, x := range j.A {
			if i > 0 {
				b.WriteByte(',')
			}
			x.text(b)
		}
		b.WriteByte(']')
	case "o":
		b.WriteByte('{')
		for i, kv := range j.O {
			if i > 0 {
				b.WriteByte(',')
			}
			q, _ := json.Marshal(kv.K)
			b.Write(q)
			b.WriteByte(':')
			kv.V.text(b)
		}
		b.WriteByte('}')
	}
}

func c38IsIntLit(l string) bool {
	s := strings.TrimPrefix(l, "-")
	if s == "" {
		return false
	}
	for _, c := range s {
		if c < '0' || c > '9' {
			return false
		}
	}
	return true
}

// inModel: no "-0" literal (ParseUint rejects it, the model's integer view
// cannot tell it from 0) and no key with a non-ASCII case fold
func (j c38T) inModel() bool {
	switch j.T {
	case "num":
		return j.N != "-0"
	case "a":
		for _, x := range j.A {
			if !x.inModel() {
				return false
			}
		}
	case "o":
		for _, kv := range j.O {
			if strings.ContainsAny(kv.K, "\u212a\u017f") || !kv.V.inModel() {
				return false
			}
		}
	}
	return true
}

func (j c38T) coq() string {
	switch j.T {
	case "n":
		return "JvNull"
	case "b":
		return "(JvBool " + CoqBool(j.B) + ")"
	case "num":
		iv, fv := "None", "None"
		if c38IsIntLit(j.N) {
			z, _ := new(big.Int).SetString(j.N, 10)
			iv = "(Some (" + z.String() + "))"
		}
		if f, err := strconv.ParseFloat(j.N, 64); err == nil {
			fv = fmt.Sprintf("(Some %d)", math.Float64bits(f))
		}
		return "(JvNum (" + iv + ", " + fv + "))"
	case "s":
		return "(JvStr " + coqHexS(j.S) + ")"
	case "a":
		parts := make([]string, len(j.A))
		for i, x := range j.A {
			parts[i] = x.coq()
		}
		return "(JvArr " + CoqList(parts) + ")"
	}
	parts := make([]string, len(j.O))
	for i, kv := range j.O {
		parts[i] = "(" + coqHexS(kv.K) + ", " + kv.V.coq() + ")"
	}
	return "(JvObj " + CoqList(parts) + ")"
}

type c38DJIn struct {
	Target string `json:"target"` // sd | ci
	Tree   c38T   `json:"tree"`
}

// second transcription, from the documented behaviour of encoding/json and
// of SDPType.UnmarshalJSON: which trees decode without error
func c38DJExpect(in c38DJIn) bool {
	if in.Tree.T == "n" {
		return true
	}
	if in.Tree.T != "o" {
		return false
	}
	strOrNull := func(v c38T) bool { return v.T == "s" || v.T == "n" }
	for _, kv := range in.Tree.O {
		k := strings.ToLower(kv.K)
		ok := true
		switch in.Target {
		case "sd":
			switch k {
			case "type":
				ok = false
				if kv.V.T == "s" {
					switch strings.ToLower(kv.V.S) {
					case "offer", "pranswer", "answer", "rollback":
						ok = true
					}
				}
			case "sdp":
				ok = strOrNull(kv.V)
			}
		case "ci":
			switch k {
			case "candidate", "sdpmid", "usernamefragment":
				ok = strOrNull(kv.V)
			case "sdpmlineindex":
				ok = kv.V.T == "n"
				if kv.V.T == "num" && c38IsIntLit(kv.V.N) && !strings.HasPrefix(kv.V.N, "-") {
					z, _ := new(big.Int).SetString(kv.V.N, 10)
					ok = z.Cmp(big.NewInt(65535)) <= 0
				}
			}
		}
		if !ok {
			return false
		}
	}
	return true
}

func c38DJRun(in c38DJIn) (V, Verdict) {
	var b bytes.Buffer
	in.Tree.text(&b)
	var val any
	var again any
	switch in.Target {
	case "sd":
		val, again = &webrtc.SessionDescription{}, &webrtc.SessionDescription{}
	default:
		val, again = &webrtc.ICECandidateInit{}, &webrtc.ICECandidateInit{}
	}
	err := json.Unmarshal(b.Bytes(), val)
	expect := c38DJExpect(in)
	var obs V
	if err != nil {
		cls := webrtc.VerifErrClass(err)
		var te *json.UnmarshalTypeError
		var se *json.SyntaxError
		switch {
		case errors.As(err, &te):
			cls = "json-shape"
		case errors.As(err, &se):
			return VS("harness"), Fail("harness-djson-tree-not-valid-json", b.String())
		}
		obs = vResultErr(cls)
		if expect {
			return obs, Fail("decoder-rejects-well-formed-"+in.Target, fmt.Sprintf("%s -> %v", b.String(), err))
		}
		return obs, Pass("rejected/"+cls, false)
	}
	obs = vResultOK(c38GvalV(reflect.ValueOf(val).Elem()))
	if !expect {
		return obs, Fail("decoder-accepts-malformed-"+in.Target, fmt.Sprintf("%s -> %+v", b.String(), val))
	}
	// an accepted value must itself survive its encoding
	enc, merr := json.Marshal(val)
	var uerr error
	if merr == nil {
		uerr = json.Unmarshal(enc, again)
	}
	if merr != nil || uerr != nil || !reflect.DeepEqual(val, again) {
		if sd, ok := val.(*webrtc.SessionDescription); ok && sd.Type == webrtc.SDPType(0) && errors.Is(uerr, webrtc.ErrUnknownType) {
			return obs, Fail("unknown-enum-marshals-to-unparseable-string/SDPType",
				fmt.Sprintf("%s decodes to a SessionDescription of type 0, which re-encodes to %s and is rejected", b.String(), enc))
		}
		return obs, Fail("decoded-"+in.Target+"-does-not-roundtrip",
			fmt.Sprintf("%s decodes to %+v, re-encoded %s: err=%v/%v", b.String(), val, enc, merr, uerr))
	}
	return obs, Pass("accepted/"+in.Target, true)
}

var c38DJNums = []string{"0", "1", "7", "65535", "65536", "-1", "1.0", "1e2", "0.5", "1E400", "99999999999999999999", "12.5e-1", "300"}

func c38DJVariant(r *Rand, name string) string {
	switch r.Intn(8) {
	case 0:
		return strings.ToUpper(name)
	case 1:
		return strings.ToLower(name)
	case 2:
		return strings.ToUpper(name[:1]) + name[1:]
	case 3:
		return name + "x"
	}
	return name
}

func c38DJOdd(r *Rand, depth int) c38T {
	switch r.Intn(9) {
	case 0:
		return tN()
	case 1:
		return c38T{T: "b", B: r.Bool()}
	case 2, 3:
		return tNum(Pick(r, c38DJNums))
	case 4:
		if depth > 2 {
			return tA()
		}
		return tA(c38DJOdd(r, depth+1), tS("x"))
	case 5:
		if depth > 2 {
			return tO()
		}
		return tO(c38TKV{Pick(r, []string{"type", "sdp", "candidate", "k"}), c38DJOdd(r, depth+1)})
	case 6:
		return tS(Pick(r, []string{"offer", "Answer", "ROLLBACK", "pranswer", "unknown", "", "0"}))
	}
	return tS(c38Str(r))
}

func c38DJGen(r *Rand, _ int) c38DJIn {
	in := c38DJIn{Target: Pick(r, []string{"sd", "ci"})}
	if r.Chance(1, 25) {
		in.Tree = c38DJOdd(r, 0) // any top-level value
		return in
	}
	var kv []c38TKV
	add := func(name string, good func() c38T, p int) {
		if !r.Chance(p, 10) {
			return
		}
		v := good()
		if r.Chance(1, 7) {
			v = c38DJOdd(r, 0)
		}
		kv = append(kv, c38TKV{c38DJVariant(r, name), v})
	}
	sdType := func() c38T {
		return tS(Pick(r, []string{"offer", "pranswer", "answer", "rollback", "Offer", "ANSWER", "unknown", "bogus"}))
	}
	str := func() c38T { return tS(c38Str(r)) }
	strOrNull := func() c38T {
		if r.Chance(1, 4) {
			return tN()
		}
		return str()
	}
	idx := func() c38T {
		if r.Chance(1, 5) {
			return tN()
		}
		return tNum(Pick(r, c38DJNums))
	}
	rounds := 1
	if r.Chance(1, 6) {
		rounds = 2 // duplicate members
	}
	for i := 0; i < rounds; i++ {
		if in.Target == "sd" {
			add("type", sdType, 9)
			add("sdp", str, 8)
		} else {
			add("candidate", str, 8)
			add("sdpMid", strOrNull, 7)
			add("sdpMLineIndex", idx, 7)
			add("usernameFragment", strOrNull, 6)
		}
	}
	if r.Chance(1, 4) {
		kv = append(kv, c38TKV{Pick(r, []string{"other", "typ", "sdpMLine", "", "Candidates", "x-y"}), c38DJOdd(r, 0)})
	}
	for i := len(kv) - 1; i > 0; i-- {
		k := r.Intn(i + 1)
		kv[i], kv[k] = kv[k], kv[i]
	}
	in.Tree = tO(kv...)
	return in
}

func c38DJCorpus() []c38DJIn {
	both := func(t c38T) []c38DJIn { return []c38DJIn{{"sd", t}, {"ci", t}} }
	var out []c38DJIn
	out = append(out, both(tN())...)       // top-level null: no error, zero value
	out = append(out, both(tO())...)       // {}
	out = append(out, both(tA())...)       // wrong top-level kind
	out = append(out, both(tS("offer"))...)
	out = append(out,
		c38DJIn{"sd", tO(c38TKV{"type", tS("offer")}, c38TKV{"sdp", tS("v=0")})},
		c38DJIn{"sd", tO(c38TKV{"TYPE", tS("OFFER")}, c38TKV{"Sdp", tS("v=0")})},                 // names and value up to case
		c38DJIn{"sd", tO(c38TKV{"type", tN()})},                                                    // null into SDPType.UnmarshalJSON
		c38DJIn{"sd", tO(c38TKV{"type", tNum("1")})},                                               // number into SDPType.UnmarshalJSON
		c38DJIn{"sd", tO(c38TKV{"sdp", tNum("5")}, c38TKV{"type", tS("bogus")})},                   // saved type error, then abort
		c38DJIn{"sd", tO(c38TKV{"type", tS("bogus")}, c38TKV{"sdp", tNum("5")})},                   // abort first
		c38DJIn{"sd", tO(c38TKV{"type", tS("offer")}, c38TKV{"type", tS("answer")})},               // duplicate: last wins
		c38DJIn{"sd", tO(c38TKV{"sdp", tS("a")}, c38TKV{"sdp", tN()})},                             // null leaves the earlier value
		c38DJIn{"sd", tO(c38TKV{"sdp", tS("x")})},                                                  // type absent: SDPType(0) accepted
		c38DJIn{"ci", tO(c38TKV{"candidate", tS("c")}, c38TKV{"sdpMid", tS("0")}, c38TKV{"sdpMLineIndex", tNum("0")}, c38TKV{"usernameFragment", tS("u")})},
		c38DJIn{"ci", tO(c38TKV{"sdpMLineIndex", tNum("65535")})},
		c38DJIn{"ci", tO(c38TKV{"sdpMLineIndex", tNum("65536")})},
		c38DJIn{"ci", tO(c38TKV{"sdpMLineIndex", tNum("-1")})},
		c38DJIn{"ci", tO(c38TKV{"sdpMLineIndex", tNum("1.0")})},
		c38DJIn{"ci", tO(c38TKV{"sdpMLineIndex", tNum("1e2")})},
		c38DJIn{"ci", tO(c38TKV{"sdpMLineIndex", tS("1")})},
		c38DJIn{"ci", tO(c38TKV{"sdpMLineIndex", tNum("3")}, c38TKV{"SDPMLINEINDEX", tN()})},       // later null resets the pointer
		c38DJIn{"ci", tO(c38TKV{"sdpMid", tN()}, c38TKV{"sdpmid", tS("1")})},
		c38DJIn{"ci", tO(c38TKV{"candidate", tN()})},
		c38DJIn{"ci", tO(c38TKV{"candidate", tA(tS("x"))}, c38TKV{"unknown", tO(c38TKV{"candidate", tNum("1")})})},
	)
	return out
}

func init() {
	Register(Spec[c38StatsIn]{
		ID: "C38", Suite: "statsval", CoqImports: []string{"Model.SerialShape", "Check.C38"},
		CoqType: "string * Model.SerialShape.gval Z", CoqRun: "Check.C38.run_statsval",
		Quick: 150, Thorough: 3000, Parallel: 8,
		Corpus: c38StatsValCorpus,
		Gen:    c38StatsGen, Run: c38StatsValRun, Coq: c38StatsValCoq,
	})
	Register(Spec[c38DJIn]{
		ID: "C38", Suite: "djson", CoqImports: []string{"Model.SerialShape", "Model.SerialStats", "Check.C38"},
		CoqType: "string * Model.SerialShape.jv Model.SerialStats.cnum", CoqRun: "Check.C38.run_djson",
		Quick: 1200, Thorough: 12000,
		Corpus: c38DJCorpus, Gen: c38DJGen, Run: c38DJRun,
		Coq: func(in c38DJIn) string {
			if !in.Tree.inModel() {
				return ""
			}
			return "(" + CoqString(in.Target) + ", " + in.Tree.coq() + ")"
		},
	})
}

// ---------------------------------------------------------------- dstats
// UnmarshalStatsJSON on arbitrary trees: a real encoding of a populated Stats
// value, mutated (members replaced by values of another kind, renamed up to
// case, duplicated, dropped, unknown members added, type / kind rewritten)

func c38ParseTree(dec *json.Decoder) (c38T, error) {
	tok, err := dec.Token()
	if err != nil {
		return c38T{}, err
	}
	switch t := tok.(type) {
	case nil:
		return tN(), nil
	case bool:
		return c38T{T: "b", B: t}, nil
	case json.Number:
		return tNum(t.String()), nil
	case string:
		return tS(t), nil
	case json.Delim:
		if t == '[' {
			out := c38T{T: "a"}
			for dec.More() {
				x, err := c38ParseTree(dec)
				if err != nil {
					return c38T{}, err
				}
				out.A = append(out.A, x)
			}
			_, err := dec.Token()
			return out, err
		}
		out := c38T{T: "o"}
		for dec.More() {
			k, err := dec.Token()
			if err != nil {
				return c38T{}, err
			}
			x, err := c38ParseTree(dec)
			if err != nil {
				return c38T{}, err
			}
			out.O = append(out.O, c38TKV{k.(string), x})
		}
		_, err := dec.Token()
		return out, err
	}
	return c38T{}, fmt.Errorf("unexpected token %v", tok)
}

func c38TreeOf(b []byte) c38T {
	dec := json.NewDecoder(bytes.NewReader(b))
	dec.UseNumber()
	t, err := c38ParseTree(dec)
	if err != nil {
		panic("c38TreeOf: " + err.Error())
	}
	return t
}

type c38DSIn struct {
	Tree c38T `json:"tree"`
}

func c38DSRun(in c38DSIn) (V, Verdict) {
	var b bytes.Buffer
	in.Tree.text(&b)
	got, err := webrtc.UnmarshalStatsJSON(b.Bytes())
	if err != nil {
		var se *json.SyntaxError
		if errors.As(err, &se) {
			return VS("harness"), Fail("harness-dstats-tree-not-valid-json", b.String())
		}
		cls := c38StatsErrClass(err)
		return vResultErr(cls), Pass("rejected/"+cls, false)
	}
	obs := vResultOK(VL{VS(reflect.TypeOf(got).Name()), c38GvalV(reflect.ValueOf(got))})
	// an accepted Stats value must itself survive its encoding, as the same Go type
	enc, merr := json.Marshal(got)
	var again webrtc.Stats
	var uerr error
	if merr == nil {
		again, uerr = webrtc.UnmarshalStatsJSON(enc)
	}
	if merr != nil || uerr != nil || !reflect.DeepEqual(got, again) {
		if c, ok := got.(webrtc.ICECandidateStats); ok && c.CandidateType == webrtc.ICECandidateType(0) && uerr != nil {
			return obs, Fail("unknown-enum-marshals-to-unparseable-string/ICECandidateType",
				fmt.Sprintf("%.200s decodes to an ICECandidateStats with CandidateType 0, which re-encodes to a rejected object: %v", b.String(), uerr))
		}
		return obs, Fail("decoded-stats-does-not-roundtrip/"+reflect.TypeOf(got).Name(),
			fmt.Sprintf("%.300s decodes to %+v, re-encoded %.300s: err=%v/%v", b.String(), got, enc, merr, uerr))
	}
	return obs, Pass("accepted/"+reflect.TypeOf(got).Name(), true)
}

func c38DSMutate(r *Rand, t c38T) c38T {
	if t.T != "o" {
		return t
	}
	kv := append([]c38TKV(nil), t.O...)
	pick := func() int { return r.Intn(len(kv)) }
	for i, n := 0, r.Intn(4); i < n && len(kv) > 0; i++ {
		switch r.Intn(9) {
		case 0, 1: // a value of another kind
			kv[pick()].V = c38DJOdd(r, 0)
		case 2: // name up to case / near miss
			k := pick()
			kv[k].K = c38DJVariant(r, kv[k].K)
		case 3: // duplicate member, other value
			k := pick()
			v := kv[r.Intn(len(kv))].V
			if r.Bool() {
				v = c38DJOdd(r, 0)
			}
			kv = append(kv, c38TKV{kv[k].K, v})
		case 4: // drop
			k := pick()
			kv = append(kv[:k], kv[k+1:]...)
		case 5: // unknown member
			kv = append(kv, c38TKV{Pick(r, []string{"other", "typ", "kinds", "", "x-y"}), c38DJOdd(r, 0)})
		case 6: // the dispatch members
			for j := range kv {
				if kv[j].K == "type" && r.Bool() {
					kv[j].V = Pick(r, []c38T{tS(Pick(r, c38AllTags)), tN(), tNum("1"), tS("Codec")})
				}
				if kv[j].K == "kind" && r.Bool() {
					kv[j].V = Pick(r, []c38T{tS(Pick(r, c38AllKinds)), tN(), tNum("1"), tA()})
				}
			}
		case 7: // a member of a nested value
			k := pick()
			switch kv[k].V.T {
			case "a":
				kv[k].V.A = append(append([]c38T(nil), kv[k].V.A...), c38DJOdd(r, 1))
			case "o":
				kv[k].V.O = append(append([]c38TKV(nil), kv[k].V.O...), c38TKV{Pick(r, []string{"a", "messageInterleavingEnabled", "PARTIALRELIABILITYMODE", "cpu"}), c38DJOdd(r, 1)})
			default:
				kv[k].V = tNum(Pick(r, c38DJNums))
			}
		case 8: // swap two members
			a, b := pick(), pick()
			kv[a], kv[b] = kv[b], kv[a]
		}
	}
	return tO(kv...)
}

func c38DSBase(r *Rand) c38T {
	d := &c38Stats[r.Intn(len(c38Stats))]
	in := c38StatsIn{GoType: d.name, Tag: Pick(r, d.tags), Kind: d.kind, Seed: r.U64(), Mode: 1,
		Enums: c38StatsEnums(d, r, false)}
	if r.Chance(1, 8) {
		in.Mode = 2
	}
	v, _, _ := c38StatsBuild(in)
	enc, err := json.Marshal(v.Interface())
	if err != nil {
		panic(err)
	}
	return c38TreeOf(enc)
}

func c38DSGen(r *Rand, _ int) c38DSIn {
	if r.Chance(1, 40) {
		return c38DSIn{c38DJOdd(r, 0)}
	}
	return c38DSIn{c38DSMutate(r, c38DSBase(r))}
}

func c38DSCorpus() []c38DSIn {
	ty := func(s string) c38TKV { return c38TKV{"type", tS(s)} }
	return []c38DSIn{
		{tN()}, {tA()}, {tO()},
		{tO(c38TKV{"type", tNum("1")})},                                    // holder: type is no string
		{tO(c38TKV{"type", tN()})},                                         // null leaves ""
		{tO(c38TKV{"TYPE", tS("codec")})},                                  // holder member up to case
		{tO(ty("sender"), c38TKV{"kind", tNum("1")})},                      // kind holder fails
		{tO(ty("codec"), c38TKV{"kind", tNum("1")})},                       // kind not looked at
		{tO(ty("codec"), c38TKV{"clockRate", tNum("4294967295")}, c38TKV{"channels", tNum("255")})},
		{tO(ty("codec"), c38TKV{"clockRate", tNum("4294967296")})},
		{tO(ty("codec"), c38TKV{"channels", tNum("1.0")})},
		{tO(ty("codec"), c38TKV{"timestamp", tNum("1E400")})},
		{tO(ty("codec"), c38TKV{"timestamp", tNum("17")}, c38TKV{"timestamp", tN()})},
		{tO(ty("stream"), c38TKV{"trackIds", tA(tS("a"), tS("b"))}, c38TKV{"trackIds", tA(tN())})},        // element re-use
		{tO(ty("stream"), c38TKV{"trackIds", tA(tS("a"))}, c38TKV{"trackIds", tA()})},
		{tO(ty("stream"), c38TKV{"trackIds", tA(tS("a"), tNum("1"))})},
		{tO(ty("stream"), c38TKV{"trackIds", tN()})},
		{tO(ty("inbound-rtp"), c38TKV{"perDscpPacketsReceived", tO(c38TKV{"b", tNum("2")}, c38TKV{"a", tNum("1")}, c38TKV{"b", tNum("3")})})},
		{tO(ty("inbound-rtp"), c38TKV{"perDscpPacketsReceived", tO(c38TKV{"a", tNum("1")})}, c38TKV{"perDscpPacketsReceived", tO(c38TKV{"b", tNum("2")})})}, // maps merge
		{tO(ty("inbound-rtp"), c38TKV{"perDscpPacketsReceived", tO(c38TKV{"a", tNum("-1")})})},
		{tO(ty("outbound-rtp"), c38TKV{"qualityLimitationDurations", tO(c38TKV{"cpu", tNum("0.5")}, c38TKV{"", tNum("1e2")})})},
		{tO(ty("sctp-transport"), c38TKV{"metadata", tO(c38TKV{"messageInterleavingEnabled", c38T{T: "b", B: true}})},
			c38TKV{"metadata", tO(c38TKV{"partialReliabilityMode", tS("timed")})})},                      // pointee merges
		{tO(ty("sctp-transport"), c38TKV{"metadata", tO()}, c38TKV{"metadata", tN()})},
		{tO(ty("sctp-transport"), c38TKV{"metadata", tA()})},
		{tO(ty("transport"), c38TKV{"iceRole", tS("controlling")}, c38TKV{"dtlsState", tS("bogus")}, c38TKV{"iceState", tN()})},
		{tO(ty("transport"), c38TKV{"iceRole", tNum("1")})},
		{tO(ty("remote-candidate"), c38TKV{"candidateType", tS("bogus")}, c38TKV{"port", tS("x")})},   // abort
		{tO(ty("remote-candidate"), c38TKV{"port", tS("x")}, c38TKV{"candidateType", tS("bogus")})},   // saved, then abort
		{tO(ty("local-candidate"), c38TKV{"candidateType", tS("host")}, c38TKV{"port", tNum("-2147483648")}, c38TKV{"priority", tNum("2147483648")})},
		{tO(ty("local-candidate"), c38TKV{"candidateType", tS("host")})},
		{tO(ty("data-channel"), c38TKV{"state", tS("open")}, c38TKV{"dataChannelIdentifier", tNum("-1")})},
	}
}

func init() {
	Register(Spec[c38DSIn]{
		ID: "C38", Suite: "dstats", CoqImports: []string{"Model.SerialShape", "Model.SerialStats", "Check.C38"},
		CoqType: "Model.SerialShape.jv Model.SerialStats.cnum", CoqRun: "Check.C38.run_dstats",
		Quick: 500, Thorough: 6000,
		Corpus: c38DSCorpus, Gen: c38DSGen, Run: c38DSRun,
		Coq: func(in c38DSIn) string {
			if !in.Tree.inModel() {
				return ""
			}
			return in.Tree.coq()
		},
	})
}
