//go:build verif_c10

package main

import (
	"fmt"
	"strconv"
	"strings"

	"github.com/pion/webrtc/v4"
)

// C10: every generated m-section lists each payload type once; rtpmap / fmtp /
// rtcp-fb refer to listed payload types; an RTX entry's apt names a listed
// payload type; extmap ids are unique and within 1..14; each URI once.

// the oracle's own reading of "apt=<n>" in an fmtp value ("<pt> <params>")
func c10Apt(fmtpVal string) (string, bool) {
	f := strings.SplitN(fmtpVal, " ", 2)
	if len(f) < 2 {
		return "", false
	}
	return c15HasApt(cdc{Line: f[1]})
}

// source list of a section's transceiver: its preferences if it has any.
// ex == nil: a first offer, section i belongs to the i-th added transceiver.
func c10Source(r pcResult, ex *pcExchange, i int) []cdc {
	if ex != nil {
		if i < len(ex.Local) && ex.Local[i] >= 0 {
			return r.Added[ex.Local[i]].Prefs
		}
		return nil
	}
	if i < len(r.Added) {
		return r.Added[i].Prefs
	}
	return nil
}

// every offer the remote has sent up to and including exchange k
func c10OffersUpTo(r pcResult, k int) [][]rsec {
	var out [][]rsec
	for j := 0; j <= k && j < len(r.Exchanges); j++ {
		out = append(out, r.Exchanges[j].Offer)
	}
	return out
}

func c10CheckSection(c pcCase, r pcResult, k int, i int, s pcSection) (string, string) {
	var ex *pcExchange
	if c.Answer {
		ex = &r.Exchanges[k]
	}
	offers := c10OffersUpTo(r, k)
	listed := map[string]int{}
	for _, f := range s.Formats {
		listed[f]++
	}
	src := c10Source(r, ex, i)
	for f, n := range listed {
		if n > 1 {
			pt, _ := strconv.Atoi(f)
			same, zero := 0, 0
			for _, p := range src {
				if int(p.PT) == pt && p.PT != 0 {
					same++
				}
				if p.PT == 0 {
					zero++
				}
			}
			switch {
			case same > 1:
				return "codec-preferences-duplicate-pt", fmt.Sprintf("section %d lists payload type %s %d times (two preferences carry it)", i, f, n)
			case zero > 0 && same+zero > 1:
				return "codec-preferences-pt0-resolved-to-listed-pt", fmt.Sprintf("section %d lists payload type %s %d times (preferences with payload type 0 took a payload type already listed)", i, f, n)
			}
			if ex != nil && i < len(ex.Local) && ex.Local[i] < 0 {
				// transceiver created from a remote description: an offer lists one
				// codec (same name, clock, channels, fmtp-equivalent) under two payload types
				for _, offer := range offers {
					if i >= len(offer) {
						continue
					}
					off := offer[i].Codecs
					for a := range off {
						for b := a + 1; b < len(off); b++ {
							if off[a].PT != off[b].PT && strings.EqualFold(off[a].Name, off[b].Name) {
								return "remote-duplicate-codec-answered-under-one-pt", fmt.Sprintf("section %d lists payload type %s %d times; offered %v", i, f, n, off)
							}
						}
					}
				}
			}
			return "duplicate-payload-type", fmt.Sprintf("section %d lists payload type %s %d times: m= %v", i, f, n, s.Formats)
		}
	}
	for _, l := range s.Lines {
		pt := strings.SplitN(l.Val, " ", 2)[0]
		if listed[pt] == 0 {
			return "attribute-for-unlisted-payload-type", fmt.Sprintf("section %d: a=%s:%s but m= lists %v", i, l.Key, l.Val, s.Formats)
		}
	}
	for _, g := range pcGroups(s) {
		if !strings.EqualFold(g.Name, "rtx") {
			continue
		}
		apt, ok := "", false
		for _, l := range g.Lines {
			if l.Key == "fmtp" {
				apt, ok = c10Apt(l.Val)
			}
		}
		n, err := strconv.Atoi(apt)
		if !ok || err != nil || listed[strconv.Itoa(n)] == 0 {
			// cause: the apt names an entry that was itself an RTX without primary
			sig := "rtx-apt-not-listed"
			pool := src
			if len(pool) == 0 {
				pool = append(append([]cdc{}, c.Video...), c.Audio...)
				for _, offer := range offers {
					for _, rs := range offer {
						pool = append(pool, rs.intended()...)
					}
				}
			}
			for _, p := range pool {
				if err == nil && int(p.PT) == n && strings.EqualFold(p.Mime, "video/rtx") {
					sig = "rtx-apt-names-removed-rtx"
				}
			}
			return sig, fmt.Sprintf("section %d: rtx pt %s has apt %q, m= lists %v", i, g.PT, apt, s.Formats)
		}
	}
	ids, uris := map[int]int{}, map[string][]int{}
	for _, e := range s.Exts {
		ids[e.ID]++
		uris[e.URI] = append(uris[e.URI], e.ID)
	}
	for id, n := range ids {
		if n > 1 {
			return "extmap-id-duplicate", fmt.Sprintf("section %d: extmap id %d used %d times: %v", i, id, n, s.Exts)
		}
	}
	for uri, l := range uris {
		if len(l) > 1 {
			sig := "extmap-uri-duplicate"
			seen := map[int]bool{}
			for _, offer := range offers {
				for _, rs := range offer {
					for _, e := range rs.Exts {
						if e.URI == uri {
							seen[e.ID] = true
						}
					}
				}
			}
			if len(seen) > 1 {
				sig = "remote-extmap-remap-duplicates-uri"
			}
			return sig, fmt.Sprintf("section %d: %s at ids %v", i, uri, l)
		}
	}
	for id := range ids {
		if id < 1 || id > 14 {
			sig := "extmap-id-outside-1-14"
			for _, offer := range offers {
				for _, rs := range offer {
					for _, e := range rs.Exts {
						if e.ID == id {
							sig = "remote-extmap-id-outside-1-14-echoed"
						}
					}
				}
			}
			return sig, fmt.Sprintf("section %d: extmap id %d: %v", i, id, s.Exts)
		}
	}
	return "", ""
}

func c10Run(c pcCase) (V, Verdict) {
	r := pcRun(c)
	obs := pcObs(c, r)
	if r.Setup != "" {
		return VL{VS("setup"), VS(r.Setup)}, Fail("harness-setup", r.Setup)
	}
	scen := "offer"
	if c.Answer {
		scen = fmt.Sprintf("answer%d", len(c.Pre)+1)
	}
	v := Pass("", false)
	live, next := 0, 0
	check := func(k int, secs []pcSection) {
		for i, s := range secs {
			if s.Rejected {
				continue
			}
			live++
			next += len(s.Exts)
			if sig, what := c10CheckSection(c, r, k, i, s); sig != "" && v.OK {
				v = Fail(sig, fmt.Sprintf("exchange %d: %s", k, what))
			}
		}
	}
	last := r.Outcome
	if !c.Answer {
		check(0, r.Sections)
	} else {
		for k, ex := range r.Exchanges {
			last = ex.Outcome
			check(k, ex.Sections)
		}
	}
	if !v.OK {
		return obs, v
	}
	if last != "ok" {
		v.Class = scen + "/" + strings.SplitN(last, ":", 2)[0] + "-error"
		v.NonTrivial = live > 0
		return obs, v
	}
	v.NonTrivial = live > 0
	v.Class = fmt.Sprintf("%s/live%d/exts%d", scen, min(live, 6)/2*2, min(next, 9)/3*3)
	return obs, v
}

// ----- filterUnattachedRTX on its own -----

func c10FilterRun(in []cdc) (V, Verdict) {
	arg := paramsOf(in)
	before := fmt.Sprint(cdcsOf(arg))
	out := cdcsOf(webrtc.VerifFilterUnattachedRTX(arg))
	v := Pass(fmt.Sprintf("in%d/out%d", len(in), len(out)), len(out) != len(in))
	if fmt.Sprint(cdcsOf(arg)) != before {
		v = Fail("unattached-rtx-filter-modifies-callers-slice", fmt.Sprintf("argument %s became %v", before, cdcsOf(arg)))
	}
	for _, o := range out {
		if !strings.EqualFold(o.Mime, "video/rtx") || !v.OK {
			continue
		}
		apt, ok := c15HasApt(o)
		n, err := strconv.Atoi(apt)
		found := false
		for _, p := range out {
			found = found || (err == nil && int(p.PT) == n)
		}
		if !ok || !found {
			sig := "rtx-apt-not-listed"
			for _, p := range in {
				if err == nil && int(p.PT) == n && strings.EqualFold(p.Mime, "video/rtx") {
					sig = "rtx-apt-names-removed-rtx"
				}
			}
			v = Fail(sig, fmt.Sprintf("filter(%v) = %v: rtx pt %d has apt %q", in, out, o.PT, apt))
		}
	}
	return vcodecs(out), v
}

func c10Corpus(answer bool) []pcCase {
	vp8 := cdc{Mime: "video/VP8", Clock: 90000, PT: 96}
	vp9 := cdc{Mime: "video/VP9", Clock: 90000, Line: "profile-id=0", PT: 98}
	mid := "urn:ietf:params:rtp-hdrext:sdes:mid"
	if !answer {
		return []pcCase{
			// repaired (fix: filterUnattachedRTX works on a copy): an RTX without primary in the
			// registered table used to leave "96 98 98" on the m= line
			{Video: []cdc{vp8, {Mime: "video/rtx", Clock: 90000, Line: "apt=55", PT: 97}, vp9}, Multi: true,
				Locals: []pcTrans{{Kind: 2, Dir: 1}, {Kind: 2, Dir: 1}}},
			// two preferences under one payload type
			{Video: []cdc{vp8, vp9}, Multi: true,
				Locals: []pcTrans{{Kind: 2, Dir: 1, Prefs: []cdc{vp8, {Mime: "video/VP9", Clock: 90000, Line: "profile-id=0", PT: 96}}}}},
			// RTX whose apt names an RTX that has no primary
			{Video: []cdc{vp8, {Mime: "video/rtx", Clock: 90000, Line: "apt=99", PT: 97}, {Mime: "video/rtx", Clock: 90000, Line: "apt=97", PT: 100}}, Multi: true,
				Locals: []pcTrans{{Kind: 2, Dir: 1}}},
			// more header extensions for one kind than there are one-byte ids: the ones
			// beyond the 14th are left out
			{Video: []cdc{vp8}, Multi: true,
				Exts: func() []pcExtReg {
					var l []pcExtReg
					for i := 0; i < 17; i++ {
						l = append(l, pcExtReg{URI: fmt.Sprintf("urn:x:ext:%d", i), Kind: 2})
					}
					return l
				}(),
				Locals: []pcTrans{{Kind: 2, Dir: 1}}},
			// local id assignment: three extensions, both kinds
			{Video: []cdc{vp8}, Audio: []cdc{{Mime: "audio/opus", Clock: 48000, Ch: 2, PT: 111}}, Multi: true,
				Exts:   []pcExtReg{{URI: mid, Kind: 2}, {URI: mid, Kind: 1}, {URI: "urn:x:a", Kind: 2, Dirs: []int{1}}, {URI: "urn:x:b", Kind: 1}},
				Locals: []pcTrans{{Kind: 2, Dir: 1}, {Kind: 1, Dir: 1}, {Kind: 2, Dir: 2}}},
		}
	}
	return []pcCase{
		// remote extmap id 20 echoed
		{Video: []cdc{vp8}, Multi: true, Answer: true, Exts: []pcExtReg{{URI: mid, Kind: 2}},
			Remote: []rsec{{Kind: "video", Codecs: []rcodec{{Name: "VP8", Clock: 90000, PT: 96}}, Exts: []rext{{ID: 20, URI: mid}}}}},
		// same URI at ids 20 and 3 after a remote remap
		{Video: []cdc{vp8}, Multi: true, Answer: true, Exts: []pcExtReg{{URI: mid, Kind: 2}},
			Remote: []rsec{
				{Kind: "video", Codecs: []rcodec{{Name: "VP8", Clock: 90000, PT: 96}}, Exts: []rext{{ID: 20, URI: mid}}},
				{Kind: "video", Codecs: []rcodec{{Name: "VP8", Clock: 90000, PT: 96}}, Exts: []rext{{ID: 3, URI: mid}}}}},
		// repaired (fix: setCodecPreferencesFromRemoteDescription removes the matched media
		// engine codec): one codec offered under two payload types used to be answered "123 123"
		{Audio: []cdc{{Mime: "audio/telephone-event", Clock: 8000, PT: 101}}, Multi: true, Answer: true,
			Remote: []rsec{{Kind: "audio", Codecs: []rcodec{{Name: "telephone-event", Clock: 8000, PT: 123}, {Name: "telephone-event", Clock: 8000, PT: 124}}}}},
		// duplicate payload type through SetCodecPreferences
		{Video: []cdc{vp8, vp9}, Multi: true, Answer: true,
			Locals: []pcTrans{{Kind: 2, Dir: 1, Prefs: []cdc{vp8, {Mime: "video/VP9", Clock: 90000, Line: "profile-id=0", PT: 96}}}},
			Remote: []rsec{{Kind: "video", Codecs: []rcodec{{Name: "VP8", Clock: 90000, PT: 96}, {Name: "VP9", Clock: 90000, Line: "profile-id=0", PT: 98}}}}},
	}
}

func init() {
	imports := []string{"Common.CodecUtil", "Check.CodecIO", "Check.CodecPC", "Check.C10"}
	Register(Spec[pcCase]{
		ID: "C10", Suite: "offer", CoqImports: imports,
		CoqType: "Check.CodecPC.pc_case", CoqRun: "Check.CodecPC.run",
		Quick: 700, Thorough: 10000, Parallel: 8,
		Corpus: func() []pcCase { return c10Corpus(false) },
		Gen:    func(r *Rand, _ int) pcCase { return pcGen(r, false) },
		Run:    c10Run, Coq: pcCoq, Shrink: pcShrink,
	})
	Register(Spec[pcCase]{
		ID: "C10", Suite: "answer", CoqImports: imports,
		CoqType: "Check.CodecPC.pc_case", CoqRun: "Check.CodecPC.run",
		Quick: 900, Thorough: 12000, Parallel: 8,
		Corpus: func() []pcCase { return c10Corpus(true) },
		Gen:    func(r *Rand, _ int) pcCase { return pcGen(r, true) },
		Run:    c10Run, Coq: pcCoq, Shrink: pcShrink,
	})
	Register(Spec[[]cdc]{
		ID: "C10", Suite: "filter", CoqImports: imports,
		CoqType: "list codec_in", CoqRun: "Check.C10.run_filter",
		Quick: 1200, Thorough: 20000, Parallel: 8,
		Corpus: func() [][]cdc {
			return [][]cdc{
				{{Mime: "video/rtx", Clock: 90000, Line: "apt=99", PT: 97}, {Mime: "video/rtx", Clock: 90000, Line: "apt=97", PT: 98}},
				{{Mime: "video/VP8", Clock: 90000, PT: 96}, {Mime: "video/rtx", Clock: 90000, Line: "apt=55", PT: 97}, {Mime: "video/VP9", Clock: 90000, PT: 98}},
				{{Mime: "video/rtx", Clock: 90000, Line: "apt=97", PT: 97}},
			}
		},
		Gen: func(r *Rand, _ int) []cdc {
			l := genLocalTable(r, "video", 4)
			for i := range l {
				if strings.EqualFold(l[i].Mime, "video/rtx") {
					switch r.Intn(10) {
					case 0:
						l[i].Line = Pick(r, []string{"", "apt", "apt=", "apt=x", "apt=+96", "apt=-0", "apt=256", "APT=96;apt=97", " apt = 96"})
					case 1:
						l[i].Line = fmt.Sprintf("apt=%d", l[r.Intn(len(l))].PT) // may name an RTX, or itself
					case 2:
						l[i].Mime = Pick(r, []string{"video/RTX", "audio/rtx", "video/rtx2"})
					}
				}
			}
			if len(l) > 1 && r.Chance(1, 4) {
				i, j := r.Intn(len(l)), r.Intn(len(l))
				l[i], l[j] = l[j], l[i]
			}
			return l
		},
		Run: c10FilterRun,
		Coq: func(in []cdc) string {
			if !cdcsASCII(in) {
				return ""
			}
			return coqCodecs(in)
		},
		Shrink: func(in []cdc) [][]cdc {
			var out [][]cdc
			for i := range in {
				out = append(out, append(append([]cdc{}, in[:i]...), in[i+1:]...))
			}
			return out
		},
	})
}
