//go:build verif_c29

package main

// C29, suite "inflight" (direct oracle only, outside the Coq model): an Unbind
// (or several, or a Bind) arrives while a WriteRTP / Write on the same track is
// in flight.  C29 quantifies over inputs and sequential histories; this is
// concurrency beyond that quantifier, checked here against the property's own
// words because it is cheap and deterministic:
//
//   * the write is parked INSIDE the TrackLocalWriter of one binding (the
//     writer blocks on a gate after recording the delivery);
//   * another goroutine then unbinds a middle / the last / any binding(s);
//   * the harness waits until that goroutine has either returned or is blocked
//     on the track's lock (read from the Go runtime's goroutine wait state, not
//     from timing).  Blocked is the behaviour of the code as it is - the write
//     holds the read lock for the whole fan-out - and is correct;
//   * the gate opens, everything finishes.
//
// Oracle: a binding present for the whole write gets the packet exactly once; a
// binding gets it at most once in any case; a binding whose Unbind RETURNED
// gets nothing after that return; every delivery carries that binding's SSRC
// and payload type, the caller's other fields and payload; the caller's packet
// is unchanged.

import (
	"bytes"
	"fmt"
	"reflect"
	"runtime"
	"strconv"
	"strings"
	"sync"
	"sync/atomic"
	"time"

	"github.com/pion/rtp"
	"github.com/pion/webrtc/v4"
)

type c29Gate struct {
	N        int     `json:"n"`       // bindings, bound in order 0..n-1
	Gate     int     `json:"gate"`    // the binding whose writer parks the write
	Unbinds  []int   `json:"unbinds"` // unbound, in this order, by one other goroutine while the write is parked
	Rebind   bool    `json:"rebind"`  // that goroutine then binds a new context
	ViaWrite bool    `json:"via_write"`
	P        *c29Pkt `json:"p"`
}

type c29GCapture struct {
	w       int
	seq     int64 // global order of deliveries and Unbind returns
	hdr     rtp.Header
	rest    []byte
	payload []byte
}

type c29GLog struct {
	mu   sync.Mutex
	seq  atomic.Int64
	caps []c29GCapture
}

type c29GWriter struct {
	idx    int
	log    *c29GLog
	parked chan struct{} // non-nil: this is the gated writer
	gate   chan struct{}
	once   sync.Once
}

func (w *c29GWriter) WriteRTP(h *rtp.Header, payload []byte) (int, error) {
	w.log.mu.Lock()
	w.log.caps = append(w.log.caps, c29GCapture{w: w.idx, seq: w.log.seq.Add(1), hdr: h.Clone(), rest: c29Rest(h),
		payload: append([]byte{}, payload...)})
	w.log.mu.Unlock()
	if w.parked != nil {
		first := false
		w.once.Do(func() { first = true })
		if first {
			close(w.parked)
			<-w.gate
		}
	}
	return len(payload), nil
}
func (w *c29GWriter) Write(b []byte) (int, error) { panic("c29: Write not expected") }

func c29Goid() uint64 {
	var buf [64]byte
	n := runtime.Stack(buf[:], false)
	f := strings.Fields(string(buf[:n]))
	id, _ := strconv.ParseUint(f[1], 10, 64)
	return id
}

// c29GoState returns the wait state of goroutine gid ("" when it is gone).
func c29GoState(gid uint64) string {
	buf := make([]byte, 1<<16)
	for {
		n := runtime.Stack(buf, true)
		if n < len(buf) {
			buf = buf[:n]
			break
		}
		buf = make([]byte, 2*len(buf))
	}
	tag := fmt.Sprintf("goroutine %d [", gid)
	s := string(buf)
	i := strings.Index(s, tag)
	if i < 0 {
		return ""
	}
	s = s[i+len(tag):]
	j := strings.IndexAny(s, "],")
	if j < 0 {
		return ""
	}
	return s[:j]
}

// waits until the goroutine has finished ("done") or sits in a lock wait
// ("blocked"); "timeout" after 10 s
func c29DoneOrBlocked(done <-chan struct{}, gid *atomic.Uint64) string {
	deadline := time.Now().Add(10 * time.Second)
	seen := 0
	for time.Now().Before(deadline) {
		select {
		case <-done:
			return "done"
		default:
		}
		if g := gid.Load(); g != 0 {
			st := c29GoState(g)
			if strings.HasPrefix(st, "sync.") || st == "semacquire" {
				seen++
				if seen >= 3 { // the same wait three polls in a row
					return "blocked"
				}
			} else {
				seen = 0
			}
		}
		time.Sleep(200 * time.Microsecond)
	}
	return "timeout"
}

func c29GateRun(in c29Gate) (V, Verdict) {
	if in.N < 1 || in.Gate < 0 || in.Gate >= in.N || in.P == nil {
		panic("c29: case outside the harness domain")
	}
	track, err := webrtc.NewTrackLocalStaticRTP(c29Codec, "t", "s")
	if err != nil {
		panic(err)
	}
	log := &c29GLog{}
	parked, gate := make(chan struct{}), make(chan struct{})
	type bnd struct {
		ssrc uint32
		pt   int
		ctx  *c29GCtx
	}
	var bs []bnd
	mk := func(i int) bnd {
		w := &c29GWriter{idx: i, log: log}
		if i == in.Gate {
			w.parked, w.gate = parked, gate
		}
		b := bnd{ssrc: 0x1000 + uint32(i)*0x111, pt: 96 + i}
		b.ctx = &c29GCtx{c29Ctx{id: fmt.Sprintf("ctx-%d", i), ssrc: b.ssrc, w: nil,
			codecs: []webrtc.RTPCodecParameters{{RTPCodecCapability: c29Codec, PayloadType: webrtc.PayloadType(b.pt)}}}, w}
		return b
	}
	for i := 0; i < in.N; i++ {
		b := mk(i)
		if _, err := track.Bind(b.ctx); err != nil {
			panic(err)
		}
		bs = append(bs, b)
	}
	extra := mk(in.N) // bound during the write when Rebind

	p := in.P.build()
	before := p.Clone()
	beforeRaw := *p
	var raw, rawBefore []byte
	if in.ViaWrite {
		if raw, err = p.Marshal(); err != nil {
			panic(err)
		}
		rawBefore = append([]byte{}, raw...)
		// what the bindings must get is what Unmarshal makes of the bytes
		q := &rtp.Packet{}
		if err = q.Unmarshal(raw); err != nil {
			panic(err)
		}
		before = q
	}

	// W: the write
	wDone := make(chan struct{})
	var wErr error
	var wRetSeq int64
	go func() {
		defer close(wDone)
		if in.ViaWrite {
			_, wErr = track.Write(raw)
		} else {
			wErr = track.WriteRTP(p)
		}
		wRetSeq = log.seq.Add(1)
	}()
	select {
	case <-parked:
	case <-wDone:
		return VS("no-park"), Fail("static-write-missed-binding", fmt.Sprintf("the write returned without calling bound writer %d", in.Gate))
	case <-time.After(10 * time.Second):
		close(gate)
		return VS("stuck"), Fail("static-write-stuck", "the write neither reached the gated writer nor returned")
	}

	// U: unbinds (and a bind) while the write is parked inside writer Gate
	uDone := make(chan struct{})
	var ugid atomic.Uint64
	retSeq := make([]int64, len(in.Unbinds)) // 0 = not returned yet
	var retMu sync.Mutex
	var uErrs []error
	var bindRet int64
	go func() {
		defer close(uDone)
		ugid.Store(c29Goid())
		for k, id := range in.Unbinds {
			e := track.Unbind(&c29Ctx{id: fmt.Sprintf("ctx-%d", id)})
			retMu.Lock()
			retSeq[k] = log.seq.Add(1)
			uErrs = append(uErrs, e)
			retMu.Unlock()
		}
		if in.Rebind {
			_, _ = track.Bind(extra.ctx)
			retMu.Lock()
			bindRet = log.seq.Add(1)
			retMu.Unlock()
		}
	}()
	how := c29DoneOrBlocked(uDone, &ugid)
	if how == "timeout" {
		close(gate)
		return VS("stuck"), Fail("static-unbind-stuck", "the unbinding goroutine neither finished nor blocked on a lock")
	}
	// what had returned when the gate opened
	retMu.Lock()
	returnedAtGate := 0
	for _, s := range retSeq {
		if s != 0 {
			returnedAtGate++
		}
	}
	retMu.Unlock()
	gateSeq := log.seq.Add(1)
	close(gate)
	for _, ch := range []chan struct{}{wDone, uDone} {
		select {
		case <-ch:
		case <-time.After(10 * time.Second):
			return VS("stuck"), Fail("static-deadlock-after-gate", "write or unbind did not finish after the gate opened")
		}
	}

	// ---- direct oracle ----
	verdict := Verdict{}
	fail := func(sig, what string) {
		if verdict.Sig == "" {
			verdict = Fail(sig, what)
		}
	}
	if wErr != nil {
		fail("static-write-error", fmt.Sprintf("write returned %v, no writer fails", wErr))
	}
	if in.ViaWrite {
		if !bytes.Equal(raw, rawBefore) {
			fail("static-caller-packet-modified", "the caller's buffer changed during Write")
		}
	} else if !reflect.DeepEqual(p, before) || !reflect.DeepEqual(*p, beforeRaw) {
		fail("static-caller-packet-modified", fmt.Sprintf("caller's packet %+v became %+v", before, p))
	}
	// per binding: when (if) its Unbind returned
	unboundAt := map[int]int64{}
	bound := map[int]bool{}
	for i := 0; i < in.N; i++ {
		bound[i] = true
	}
	for k, id := range in.Unbinds {
		if id >= 0 && id < in.N && bound[id] {
			bound[id] = false
			unboundAt[id] = retSeq[k]
			if uErrs[k] != nil {
				fail("static-unbind-result", fmt.Sprintf("Unbind of bound ctx %d returned %v", id, uErrs[k]))
			}
		}
	}
	wantRest := c29Rest(&before.Header)
	effPad := before.Header.PaddingSize
	if effPad == 0 {
		effPad = before.PaddingSize
	}
	count := map[int]int{}
	all := append(append([]bnd{}, bs...), extra)
	obs := VL{VS(how), VZ(returnedAtGate)}
	for _, c := range log.caps {
		count[c.w]++
		b := all[c.w]
		at, isUnbound := unboundAt[c.w]
		switch {
		case c.w == in.N && !in.Rebind:
			fail("static-delivery-to-never-bound", "the spare context got a packet")
		case isUnbound && c.seq > at:
			fail("static-delivery-after-unbind-returned", fmt.Sprintf("writer %d got the packet after Unbind of its context had returned (write parked in writer %d, unbinds %v)", c.w, in.Gate, in.Unbinds))
		case count[c.w] > 1:
			fail("static-in-flight-write-delivered-twice", fmt.Sprintf("writer %d got the packet of one write %d times (write parked in writer %d, unbinds %v)", c.w, count[c.w], in.Gate, in.Unbinds))
		case c.hdr.SSRC != b.ssrc:
			fail("static-wrong-ssrc", fmt.Sprintf("writer %d got ssrc %d", c.w, c.hdr.SSRC))
		case int(c.hdr.PayloadType) != b.pt:
			fail("static-wrong-pt", fmt.Sprintf("writer %d got payload type %d", c.w, c.hdr.PayloadType))
		case !bytes.Equal(c.rest, wantRest):
			fail("static-field-changed", fmt.Sprintf("header %x, caller's %x (ssrc/pt/padding size zeroed)", c.rest, wantRest))
		case !bytes.Equal(c.payload, before.Payload):
			fail("static-payload-changed", fmt.Sprintf("payload %x, caller's %x", c.payload, before.Payload))
		case c.hdr.PaddingSize != effPad:
			fail("static-padding-size-lost", fmt.Sprintf("padding size %d, caller's %d", c.hdr.PaddingSize, effPad))
		}
		obs = append(obs, VZ(c.w))
	}
	for i := 0; i < in.N; i++ {
		at, isUnbound := unboundAt[i]
		// present for the whole write: never unbound, or its Unbind returned only after the write had returned
		if (!isUnbound || at > wRetSeq) && count[i] != 1 && verdict.Sig == "" {
			fail("static-write-missed-binding", fmt.Sprintf("writer %d was bound for the whole write and got the packet %d times (write parked in writer %d, unbinds %v)", i, count[i], in.Gate, in.Unbinds))
		}
	}
	_ = gateSeq
	_ = bindRet
	if verdict.Sig != "" {
		return obs, verdict
	}
	return obs, Pass(fmt.Sprintf("unbind-%s/n%d/unbinds%d", how, min(in.N, 4), min(len(in.Unbinds), 3)),
		in.N >= 2 && len(in.Unbinds) >= 1)
}

// the gated context hands out the gated writer
type c29GCtx struct {
	c29Ctx
	gw *c29GWriter
}

func (c *c29GCtx) WriteStream() webrtc.TrackLocalWriter { return c.gw }

func init() {
	plain := &c29Pkt{PT: 96, Seq: 7, TS: 90000, SSRC: 42, Payload: []byte{1, 2, 3}}
	Register(Spec[c29Gate]{
		ID: "C29", Suite: "inflight",
		Quick: 120, Thorough: 3000,
		Corpus: func() []c29Gate {
			return []c29Gate{
				// the seeded change's witnesses: a middle binding unbound (the last one would get the packet
				// twice), the last binding unbound (it would get the packet after Unbind returned)
				{N: 3, Gate: 0, Unbinds: []int{1}, P: plain},
				{N: 3, Gate: 0, Unbinds: []int{2}, P: plain},
				{N: 4, Gate: 1, Unbinds: []int{2, 3}, Rebind: true, P: plain},
			}
		},
		Exhaustive: func() []c29Gate { // every (bindings, gate, one unbind) up to 5 bindings
			var out []c29Gate
			for n := 2; n <= 5; n++ {
				for g := 0; g < n; g++ {
					for u := 0; u < n; u++ {
						out = append(out, c29Gate{N: n, Gate: g, Unbinds: []int{u}, ViaWrite: (n+g+u)%3 == 0, P: plain})
					}
				}
			}
			return out
		},
		Gen: func(r *Rand, i int) c29Gate {
			in := c29Gate{N: r.Range(2, 7), Rebind: r.Chance(1, 3), ViaWrite: r.Chance(1, 3), P: c29GenPkt(r)}
			in.Gate = r.Intn(in.N)
			if r.Chance(2, 3) && in.Gate > 0 {
				in.Gate = r.Intn(in.Gate) // early gate: most of the fan-out still to come
			}
			for _, k := range permPrefixC29(r, in.N, r.Range(1, min(3, in.N))) {
				in.Unbinds = append(in.Unbinds, k)
			}
			if in.ViaWrite { // Write takes marshalled bytes: only what survives Marshal/Unmarshal
				in.P.PPad = 0
				if in.P.HPad == 0 {
					in.P.PadFlag = false
				}
			}
			return in
		},
		Run: c29GateRun,
		Shrink: func(in c29Gate) []c29Gate {
			var out []c29Gate
			for i := range in.Unbinds {
				c := in
				c.Unbinds = append(append([]int{}, in.Unbinds[:i]...), in.Unbinds[i+1:]...)
				out = append(out, c)
			}
			if in.Rebind {
				c := in
				c.Rebind = false
				out = append(out, c)
			}
			return out
		},
	})
}

func permPrefixC29(r *Rand, n, k int) []int {
	idx := make([]int, n)
	for i := range idx {
		idx[i] = i
	}
	for i := 0; i < k; i++ {
		j := i + r.Intn(n-i)
		idx[i], idx[j] = idx[j], idx[i]
	}
	return idx[:k]
}
