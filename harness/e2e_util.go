//go:build verif_c19 || verif_c23

package main

// Connected-mode helpers shared by C19 and C23: real in-process
// PeerConnection pairs over the loopback interface (host candidates on
// 127.0.0.1 only, no mDNS, UDP4 only), non-trickle signalling, explicit
// completion signals everywhere (no sleep-and-hope).

import (
	"context"
	"crypto/ecdsa"
	"crypto/elliptic"
	"crypto/rand"
	"errors"
	"fmt"
	"net"
	"sync"
	"time"

	"github.com/pion/ice/v4"
	"github.com/pion/interceptor"
	"github.com/pion/logging"
	"github.com/pion/webrtc/v4"
)

// e2eShim, when non-nil, describes the delaying/reordering packet shim that
// both peers' ICE sockets go through (thorough tier).
type e2eShim struct {
	Seed     uint64
	MaxDelay time.Duration // each datagram is delayed by a random 0..MaxDelay
	HoldPct  int           // percentage of datagrams that get the random delay (others pass at once)
}

type e2eOpts struct {
	Media        *webrtc.MediaEngine
	Interceptors *interceptor.Registry
	Shim         *e2eShim
}

var (
	e2eCertOnce sync.Once
	e2eCerts    [2]webrtc.Certificate
)

func e2eCertificates() [2]webrtc.Certificate {
	e2eCertOnce.Do(func() {
		for i := range e2eCerts {
			key, err := ecdsa.GenerateKey(elliptic.P256(), rand.Reader)
			if err != nil {
				panic(err)
			}
			cert, err := webrtc.GenerateCertificate(key)
			if err != nil {
				panic(err)
			}
			e2eCerts[i] = *cert
		}
	})
	return e2eCerts
}

// e2eAPI builds an API for one peer. The returned closer releases the shim
// socket when one is in use.
func e2eAPI(o e2eOpts, side int) (*webrtc.API, func()) {
	se := webrtc.SettingEngine{}
	lf := logging.NewDefaultLoggerFactory()
	lf.DefaultLogLevel = logging.LogLevelDisabled
	se.LoggerFactory = lf
	se.SetICEMulticastDNSMode(ice.MulticastDNSModeDisabled)
	se.SetNetworkTypes([]webrtc.NetworkType{webrtc.NetworkTypeUDP4})
	se.SetInterfaceFilter(func(name string) bool { return name == "lo" })
	se.SetIncludeLoopbackCandidate(true)
	closer := func() {}
	if o.Shim != nil {
		pc, err := net.ListenUDP("udp4", &net.UDPAddr{IP: net.IPv4(127, 0, 0, 1)})
		if err != nil {
			panic(err)
		}
		sh := newShimConn(pc, o.Shim, uint64(side))
		mux := ice.NewUDPMuxDefault(ice.UDPMuxParams{UDPConn: sh, Logger: lf.NewLogger("mux")})
		se.SetICEUDPMux(mux)
		closer = func() { _ = mux.Close(); _ = sh.Close() }
	}
	opts := []func(*webrtc.API){webrtc.WithSettingEngine(se)}
	if o.Media != nil {
		opts = append(opts, webrtc.WithMediaEngine(o.Media))
	}
	ir := o.Interceptors
	if ir == nil {
		ir = &interceptor.Registry{}
	}
	opts = append(opts, webrtc.WithInterceptorRegistry(ir))
	return webrtc.NewAPI(opts...), closer
}

func e2eNewPC(api *webrtc.API, side int) (*webrtc.PeerConnection, error) {
	certs := e2eCertificates()
	return api.NewPeerConnection(webrtc.Configuration{Certificates: []webrtc.Certificate{certs[side]}})
}

// e2eNegotiate runs one complete non-trickle offer/answer exchange.
func e2eNegotiate(ctx context.Context, off, ans *webrtc.PeerConnection) error {
	offer, err := off.CreateOffer(nil)
	if err != nil {
		return fmt.Errorf("CreateOffer: %w", err)
	}
	g := webrtc.GatheringCompletePromise(off)
	if err = off.SetLocalDescription(offer); err != nil {
		return fmt.Errorf("offerer SetLocalDescription: %w", err)
	}
	select {
	case <-g:
	case <-ctx.Done():
		return errors.New("offerer gathering did not complete")
	}
	if err = ans.SetRemoteDescription(*off.LocalDescription()); err != nil {
		return fmt.Errorf("answerer SetRemoteDescription: %w", err)
	}
	answer, err := ans.CreateAnswer(nil)
	if err != nil {
		return fmt.Errorf("CreateAnswer: %w", err)
	}
	g = webrtc.GatheringCompletePromise(ans)
	if err = ans.SetLocalDescription(answer); err != nil {
		return fmt.Errorf("answerer SetLocalDescription: %w", err)
	}
	select {
	case <-g:
	case <-ctx.Done():
		return errors.New("answerer gathering did not complete")
	}
	if err = off.SetRemoteDescription(*ans.LocalDescription()); err != nil {
		return fmt.Errorf("offerer SetRemoteDescription: %w", err)
	}
	return nil
}

// e2eConnWatch returns a channel closed when pc reaches connected; it must be
// installed before negotiation starts.
func e2eConnWatch(pc *webrtc.PeerConnection) (connected <-chan struct{}, failed <-chan struct{}) {
	c := make(chan struct{})
	f := make(chan struct{})
	var co, fo sync.Once
	pc.OnConnectionStateChange(func(s webrtc.PeerConnectionState) {
		switch s {
		case webrtc.PeerConnectionStateConnected:
			co.Do(func() { close(c) })
		case webrtc.PeerConnectionStateFailed, webrtc.PeerConnectionStateClosed:
			fo.Do(func() { close(f) })
		default:
		}
	})
	return c, f
}

func e2eWait(ctx context.Context, what string, ok <-chan struct{}, bad <-chan struct{}) error {
	select {
	case <-ok:
		return nil
	case <-bad:
		return fmt.Errorf("%s: connection failed/closed", what)
	case <-ctx.Done():
		return fmt.Errorf("%s: not reached before the case deadline", what)
	}
}

// ---------- delaying / reordering net.PacketConn ----------

// shimConn delays outgoing datagrams by a seeded random amount, which
// reorders them on the wire. Nothing is dropped or duplicated: the transports
// above (ICE/DTLS/SCTP/SRTP) see an unreliable-order, loss-free network.
type shimConn struct {
	*net.UDPConn
	cfg  *e2eShim
	mu   sync.Mutex
	rng  *Rand
	wg   sync.WaitGroup
	done chan struct{}
}

func newShimConn(c *net.UDPConn, cfg *e2eShim, salt uint64) *shimConn {
	return &shimConn{UDPConn: c, cfg: cfg, rng: NewRand(cfg.Seed*2654435761 + salt), done: make(chan struct{})}
}

func (s *shimConn) WriteTo(p []byte, addr net.Addr) (int, error) {
	s.mu.Lock()
	hold := s.rng.Intn(100) < s.cfg.HoldPct
	var d time.Duration
	if hold && s.cfg.MaxDelay > 0 {
		d = time.Duration(s.rng.Intn(int(s.cfg.MaxDelay)))
	}
	s.mu.Unlock()
	if d == 0 {
		return s.UDPConn.WriteTo(p, addr)
	}
	cp := append([]byte(nil), p...)
	s.wg.Add(1)
	go func() {
		defer s.wg.Done()
		t := time.NewTimer(d)
		defer t.Stop()
		select {
		case <-t.C:
			_, _ = s.UDPConn.WriteTo(cp, addr)
		case <-s.done:
		}
	}()
	return len(p), nil
}

func (s *shimConn) Close() error {
	select {
	case <-s.done:
	default:
		close(s.done)
	}
	err := s.UDPConn.Close()
	s.wg.Wait()
	return err
}
