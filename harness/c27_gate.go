//go:build verif_c27

package main

// C27, suite "gate": the application-supplied MatchFunc as a scheduling point.
//
// The "order" suite steers the reader and the NewEndpoint calls through the
// verifhook yield points, so it can only interleave at the places where a
// yield point sits.  A change that moves work OUT of NewEndpoint's critical
// section opens a window in which no yield point exists.  The match function,
// however, is code the application hands to the Mux, and the Mux calls it at
// exactly the places that matter (once per queued datagram in NewEndpoint,
// once per registered endpoint in dispatch).  In this suite the match
// functions of the endpoints block on gates at chosen calls while the harness
// feeds further datagrams and starts further NewEndpoint calls; no hook is
// installed at all.
//
// A case is a script.  After every operation the harness waits until every
// actor (the Mux's reader goroutine, each NewEndpoint caller) has returned, is
// idle, sits in a gate, or is blocked on the Mux's lock.  "Blocked on the
// lock" is read from the Go runtime's wait state of the goroutine plus its
// innermost non-sync frame (runtime.Stack), not from a grace period: on the
// unchanged code matching and flushing happen under m.lock, so a datagram that
// arrives while a NewEndpoint caller sits in its gate makes the reader block,
// which is correct.  Whether the other actors block or progress is recorded in
// the class histogram and is not judged.
//
// Direct oracle, the property's words on what the endpoints read at the end
// (all gates open, every endpoint created, a MatchAll collector created last):
//   - no datagram is read by two endpoints, none is read twice, none by an
//     endpoint of another class;
//   - what an endpoint reads is in arrival order (a datagram queued before the
//     endpoint existed is never read after one that arrived later);
//   - every datagram of a class that has an endpoint is read by that endpoint
//     (at most 12 datagrams per case: the pending cap of 15 is never reached);
//     the collector reads exactly the datagrams no endpoint's class covers.
// The final buffers do not depend on the linearisation (Properties/C27.v
// c27_order_quiescent), so they are also compared with the model's run of one
// complete schedule (Check/C27.v run_gate).

import (
	"bytes"
	"fmt"
	"io"
	"net"
	"runtime"
	"strconv"
	"strings"
	"sync"
	"sync/atomic"
	"time"

	"github.com/pion/webrtc/v4/internal/mux"
)

// ---------- case ----------

type c27GEp struct {
	Kind    int  `json:"kind"`  // 0 DTLS, 1 SRTP, 2 SRTCP (pairwise different)
	GateTag int  `json:"gate"`  // the match function blocks when shown the datagram of this send index; -1 never
	Ctx     int  `json:"ctx"`   // 0 only inside NewEndpoint (caller's goroutine), 1 only inside dispatch (reader), 2 both
	Every   bool `json:"every"` // false: the first such call only; true: every such call
}

type c27GOp struct {
	Op  int `json:"op"` // 0 send a datagram of class Arg (3 = no class); 1 start NewEndpoint of endpoint Arg; 2 let one gated call of endpoint Arg pass
	Arg int `json:"arg"`
}

type c27GateIn struct {
	Eps []c27GEp `json:"eps"`
	Ops []c27GOp `json:"ops"`
}

// the datagram of send index tag: the tag is byte 2 for every class
func c27GPacket(class, tag int) []byte {
	switch class {
	case 0:
		return []byte{22, 0xfe, byte(tag), 0}
	case 1:
		return []byte{0x80, 0x60, byte(tag), 0}
	case 2:
		return []byte{0x80, 0xc8, byte(tag), 0}
	}
	return []byte{1, 0, byte(tag), 0}
}

// ---------- a conn the harness feeds one datagram at a time ----------

type c27GConn struct {
	mu      sync.Mutex
	cond    *sync.Cond
	q       [][]byte
	closed  bool
	waiting bool // the reader is inside Read and there is nothing to hand out
	rgid    atomic.Uint64
	epoch   *atomic.Int64
}

func (c *c27GConn) Read(p []byte) (int, error) {
	if c.rgid.Load() == 0 {
		c.rgid.Store(goid())
	}
	c.mu.Lock()
	defer c.mu.Unlock()
	for len(c.q) == 0 && !c.closed {
		c.waiting = true
		c.epoch.Add(1)
		c.cond.Wait()
	}
	c.waiting = false
	c.epoch.Add(1)
	if len(c.q) == 0 {
		return 0, io.EOF
	}
	b := c.q[0]
	c.q = c.q[1:]
	return copy(p, b), nil
}

func (c *c27GConn) push(b []byte) {
	c.mu.Lock()
	c.q = append(c.q, b)
	c.waiting = false
	c.epoch.Add(1)
	c.cond.Broadcast()
	c.mu.Unlock()
}

func (c *c27GConn) idle() bool {
	c.mu.Lock()
	defer c.mu.Unlock()
	return c.waiting && len(c.q) == 0
}

func (c *c27GConn) Close() error {
	c.mu.Lock()
	c.closed = true
	c.cond.Broadcast()
	c.mu.Unlock()
	return nil
}
func (c *c27GConn) Write(p []byte) (int, error)      { return len(p), nil }
func (c *c27GConn) LocalAddr() net.Addr              { return nil }
func (c *c27GConn) RemoteAddr() net.Addr             { return nil }
func (c *c27GConn) SetDeadline(time.Time) error      { return nil }
func (c *c27GConn) SetReadDeadline(time.Time) error  { return nil }
func (c *c27GConn) SetWriteDeadline(time.Time) error { return nil }

// ---------- goroutine inspection ----------

// c27GLockWait reports whether goroutine gid is parked in a mutex wait whose
// innermost frame outside sync/runtime is a method of mux.Mux, i.e. it waits
// for m.lock.
func c27GLockWait(gid uint64) bool {
	buf := make([]byte, 1<<16)
	for {
		n := runtime.Stack(buf, true)
		if n < len(buf) {
			buf = buf[:n]
			break
		}
		buf = make([]byte, 2*len(buf))
	}
	head := []byte("goroutine " + strconv.FormatUint(gid, 10) + " [")
	i := bytes.Index(buf, head)
	for i > 0 && buf[i-1] != '\n' {
		j := bytes.Index(buf[i+1:], head)
		if j < 0 {
			return false
		}
		i += 1 + j
	}
	if i < 0 {
		return false
	}
	blk := buf[i+len(head):]
	if e := bytes.Index(blk, []byte("\n\n")); e >= 0 {
		blk = blk[:e]
	}
	lines := strings.Split(string(blk), "\n")
	st := lines[0]
	if !(strings.HasPrefix(st, "sync.Mutex.Lock") || strings.HasPrefix(st, "sync.RWMutex.") || strings.HasPrefix(st, "semacquire")) {
		return false
	}
	for _, l := range lines[1:] {
		if strings.HasPrefix(l, "\t") { // file:line of the frame above
			continue
		}
		if strings.HasPrefix(l, "sync.") || strings.HasPrefix(l, "internal/sync.") || strings.HasPrefix(l, "runtime.") ||
			strings.HasPrefix(l, "internal/runtime/") {
			continue
		}
		return strings.Contains(l, "/internal/mux.(*Mux).")
	}
	return false
}

// ---------- one run ----------

type c27GRun struct {
	in      c27GateIn
	conn    *c27GConn
	m       *mux.Mux
	epoch   atomic.Int64
	permits []chan struct{}
	waiting []atomic.Int32 // calls blocked in the gate of endpoint i
	passed  []atomic.Int32
	hits    []atomic.Int32
	firedMu sync.Mutex
	fired   []bool
	inGate  []atomic.Int32 // per actor (0 reader, i+1 creator i): blocked in some gate
	started []bool
	done    []atomic.Bool
	cgid    []atomic.Uint64
	eps     []*mux.Endpoint
	allOpen bool
	sends   int
}

const c27GStuck = 10 * time.Second

func (r *c27GRun) matcher(i int) mux.MatchFunc {
	ep := r.in.Eps[i]
	base := c27Matchers[ep.Kind]
	return func(b []byte) bool {
		res := base(b)
		if ep.GateTag < 0 || len(b) < 3 || int(b[2]) != ep.GateTag {
			return res
		}
		actor, ctx := i+1, 0
		if goid() == r.conn.rgid.Load() {
			actor, ctx = 0, 1
		}
		if ep.Ctx != 2 && ep.Ctx != ctx {
			return res
		}
		if !ep.Every {
			r.firedMu.Lock()
			was := r.fired[i]
			r.fired[i] = true
			r.firedMu.Unlock()
			if was {
				return res
			}
		}
		r.hits[i].Add(1)
		r.waiting[i].Add(1)
		r.inGate[actor].Add(1)
		r.epoch.Add(1)
		<-r.permits[i]
		r.inGate[actor].Add(-1)
		r.waiting[i].Add(-1)
		r.epoch.Add(1)
		r.passed[i].Add(1)
		return res
	}
}

// status of an actor: "off" (NewEndpoint not started), "done", "idle" (reader
// waiting for the next datagram), "gate", "lock", "running"
func (r *c27GRun) status(actor int) string {
	if actor > 0 {
		if !r.started[actor-1] {
			return "off"
		}
		if r.done[actor-1].Load() {
			return "done"
		}
	}
	if r.inGate[actor].Load() > 0 {
		return "gate"
	}
	if actor == 0 && r.conn.idle() {
		return "idle"
	}
	gid := r.conn.rgid.Load()
	if actor > 0 {
		gid = r.cgid[actor-1].Load()
	}
	if gid == 0 {
		return "running"
	}
	for k := 0; k < 3; k++ { // the same wait three polls in a row
		if !c27GLockWait(gid) {
			return "running"
		}
		time.Sleep(100 * time.Microsecond)
	}
	if r.inGate[actor].Load() > 0 {
		return "gate"
	}
	return "lock"
}

// settle waits until every actor is stable and nothing moved during two
// consecutive looks; it returns the statuses ("" on timeout)
func (r *c27GRun) settle() []string {
	deadline := time.Now().Add(c27GStuck)
	var prev []string
	prevEpoch := int64(-1)
	for time.Now().Before(deadline) {
		e0 := r.epoch.Load()
		cur := make([]string, len(r.in.Eps)+1)
		stable := true
		for a := range cur {
			cur[a] = r.status(a)
			if cur[a] == "running" {
				stable = false
			}
		}
		if stable && r.epoch.Load() == e0 {
			if prev != nil && prevEpoch == e0 && strings.Join(prev, ",") == strings.Join(cur, ",") {
				return cur
			}
			prev, prevEpoch = cur, e0
			continue
		}
		prev = nil
		time.Sleep(50 * time.Microsecond)
	}
	return nil
}

func (r *c27GRun) startEp(i int) {
	r.started[i] = true
	r.epoch.Add(1)
	f := r.matcher(i)
	go func() {
		r.cgid[i].Store(goid())
		r.eps[i] = r.m.NewEndpoint(f)
		r.done[i].Store(true)
		r.epoch.Add(1)
	}()
}

// open lets one gated call of endpoint i pass; when a call is blocked there
// now, it waits until that call has left the gate
func (r *c27GRun) open(i int) bool {
	w, p := r.waiting[i].Load(), r.passed[i].Load()
	r.permits[i] <- struct{}{}
	if w == 0 {
		return true
	}
	deadline := time.Now().Add(c27GStuck)
	for r.passed[i].Load() == p {
		if time.Now().After(deadline) {
			return false
		}
		runtime.Gosched()
	}
	return true
}

func c27GateRun(in c27GateIn) (V, Verdict) {
	k := len(in.Eps)
	r := &c27GRun{in: in, permits: make([]chan struct{}, k), waiting: make([]atomic.Int32, k), passed: make([]atomic.Int32, k),
		hits: make([]atomic.Int32, k), fired: make([]bool, k), inGate: make([]atomic.Int32, k+1), started: make([]bool, k),
		done: make([]atomic.Bool, k), cgid: make([]atomic.Uint64, k), eps: make([]*mux.Endpoint, k)}
	for i := range r.permits {
		r.permits[i] = make(chan struct{}, 256)
	}
	r.conn = &c27GConn{epoch: &r.epoch}
	r.conn.cond = sync.NewCond(&r.conn.mu)
	r.m = mux.NewMux(mux.Config{Conn: r.conn, BufferSize: 1500, LoggerFactory: c27Logger()})

	var verdict Verdict
	fail := func(sig, what string) {
		if verdict.Sig == "" {
			verdict = Fail(sig, what)
		}
	}
	// everything the script did not do: open every gate for good, create the
	// remaining endpoints, wait, then the collector
	finish := func() {
		if !r.allOpen {
			r.allOpen = true
			for _, ch := range r.permits {
				close(ch)
			}
		}
	}
	defer finish()

	var sent [][]byte
	classOfSend := []int{}
	lockWaitSeen, progressWhileGated, gatedSeen := false, false, false
	queuedBeforeCreate := false
	if st := r.settle(); st == nil {
		fail("mux-actor-stuck", "the reader never asked the conn for a datagram")
	}
	for step, op := range in.Ops {
		if verdict.Sig != "" {
			break
		}
		// who sits in a NewEndpoint gate before this operation
		creatorGated := false
		for i := 0; i < k; i++ {
			if r.started[i] && !r.done[i].Load() && r.inGate[i+1].Load() > 0 {
				creatorGated = true
			}
		}
		switch op.Op {
		case 0:
			if len(sent) >= 12 {
				continue
			}
			p := c27GPacket(op.Arg, len(sent))
			sent = append(sent, p)
			classOfSend = append(classOfSend, op.Arg)
			for i := 0; i < k; i++ {
				if in.Eps[i].Kind == op.Arg && !r.started[i] {
					queuedBeforeCreate = true
				}
			}
			r.conn.push(p)
		case 1:
			if op.Arg < 0 || op.Arg >= k || r.started[op.Arg] {
				continue
			}
			r.startEp(op.Arg)
		case 2:
			if op.Arg < 0 || op.Arg >= k {
				continue
			}
			if !r.open(op.Arg) {
				fail("mux-actor-stuck", fmt.Sprintf("step %d: the gated call did not resume after its gate was opened", step))
			}
		default:
			continue
		}
		before := r.epoch.Load()
		st := r.settle()
		if st == nil {
			fail("mux-actor-stuck", fmt.Sprintf("step %d (%+v): an actor neither finished nor blocked within %s", step, op, c27GStuck))
			break
		}
		_ = before
		for a, s := range st {
			if s == "lock" {
				lockWaitSeen = true
			}
			if s == "gate" {
				gatedSeen = true
			}
			// an operation other than opening a gate completed (the reader consumed the
			// datagram / the new caller returned) while a NewEndpoint caller sat in its gate
			if creatorGated && op.Op != 2 {
				if (op.Op == 0 && a == 0 && s == "idle") || (op.Op == 1 && a == op.Arg+1 && s == "done") {
					progressWhileGated = true
				}
			}
		}
	}

	// ---- completion, the same in every case: every gate opens for good; the
	// calls under way finish; the endpoints the script did not create are
	// created one after another ----
	finish()
	waitAll := func() bool {
		deadline := time.Now().Add(c27GStuck)
		for {
			all := r.conn.idle()
			for i := 0; i < k; i++ {
				all = all && (!r.started[i] || r.done[i].Load())
			}
			if all {
				return true
			}
			if time.Now().After(deadline) {
				fail("mux-actor-stuck", "with every gate open, a NewEndpoint call did not return or the reader did not drain the conn")
				return false
			}
			time.Sleep(50 * time.Microsecond)
		}
	}
	ok := waitAll()
	for i := 0; i < k && ok; i++ {
		if !r.started[i] {
			r.startEp(i)
			ok = waitAll()
		}
	}
	var collector *mux.Endpoint
	if verdict.Sig == "" {
		collector = r.m.NewEndpoint(mux.MatchAll)
	}
	closed := make(chan struct{})
	go func() { _ = r.m.Close(); close(closed) }()
	select {
	case <-closed:
	case <-time.After(c27GStuck):
		fail("mux-actor-stuck", "Mux.Close did not return")
		return VS("stuck"), verdict
	}

	got := make([][][]byte, k+1)
	obs := make(VL, k+1)
	for i := 0; i <= k; i++ {
		e := collector
		if i < k {
			e = r.eps[i]
		}
		got[i] = [][]byte{}
		if e != nil {
			got[i] = c27Drain(e)
		}
		hx := make(VL, len(got[i]))
		for j, b := range got[i] {
			hx[j] = VHex(b)
		}
		obs[i] = hx
	}
	if verdict.Sig != "" {
		return obs, verdict
	}

	// ---- direct oracle ----
	index := func(b []byte) int { // send index of a datagram read from an endpoint
		if len(b) != 4 || int(b[2]) >= len(sent) || !bytes.Equal(b, sent[b[2]]) {
			return -1
		}
		return int(b[2])
	}
	readBy := make([]int, len(sent))
	for i := range readBy {
		readBy[i] = -1
	}
	epOfClass := map[int]int{}
	for i, e := range in.Eps {
		epOfClass[e.Kind] = i
	}
	for i := 0; i <= k; i++ {
		last := -1
		for _, b := range got[i] {
			x := index(b)
			switch {
			case x < 0:
				fail("datagram-lost-duplicated-or-misrouted", fmt.Sprintf("endpoint %d read %x, which was never sent", i, b))
			case readBy[x] >= 0:
				fail("datagram-reached-wrong-or-second-endpoint", fmt.Sprintf("datagram %d (%x) was read by endpoint %d and by endpoint %d", x, b, readBy[x], i))
			case i < k && c27ClassOf(b) != in.Eps[i].Kind+1:
				fail("datagram-reached-wrong-or-second-endpoint", fmt.Sprintf("endpoint %d of kind %d read %x", i, in.Eps[i].Kind, b))
			case x < last:
				fail("queued-datagram-overtaken-by-later-one",
					fmt.Sprintf("endpoint %d read %s: datagram %d arrived before datagram %d and is read after it", i, c27Show(got[i]), x, last))
			}
			if x >= 0 {
				readBy[x] = i
				if x > last {
					last = x
				}
			}
		}
	}
	for x, p := range sent {
		want, has := epOfClass[classOfSend[x]]
		if !has {
			want = k
		}
		switch {
		case readBy[x] == want:
		case readBy[x] < 0:
			fail("datagram-lost-duplicated-or-misrouted", fmt.Sprintf("datagram %d (%x) was accepted below the cap and is read by nobody", x, p))
		case readBy[x] == k:
			fail("queued-datagram-never-delivered",
				fmt.Sprintf("datagram %d (%x) stayed in the pending queue although endpoint %d of its class was created (script %+v)", x, p, want, in.Ops))
		default:
			fail("datagram-reached-wrong-or-second-endpoint", fmt.Sprintf("datagram %d (%x) was read by endpoint %d, its class belongs to %d", x, p, readBy[x], want))
		}
	}
	if verdict.Sig != "" {
		return obs, verdict
	}
	nhits := 0
	for i := range r.hits {
		nhits += int(r.hits[i].Load())
	}
	cls := fmt.Sprintf("k%d/sends%d/gated=%v/lockwait=%v/progress-while-newendpoint-gated=%v", k, min(len(sent)/3*3, 9), gatedSeen, lockWaitSeen, progressWhileGated)
	return obs, Pass(cls, gatedSeen && queuedBeforeCreate && nhits > 0)
}

func c27GateCoq(in c27GateIn) string {
	ks := make([]string, len(in.Eps))
	for i, e := range in.Eps {
		ks[i] = CoqZ(int64(e.Kind))
	}
	var ps []string
	for _, op := range in.Ops {
		if op.Op == 0 && len(ps) < 12 {
			ps = append(ps, CoqHex(c27GPacket(op.Arg, len(ps))))
		}
	}
	return fmt.Sprintf("(%s, %s)", CoqList(ks), CoqList(ps))
}

// ---------- enumeration ----------

func c27GSeqs(alphabet []c27GOp, maxLen int) [][]c27GOp {
	out := [][]c27GOp{{}}
	frontier := [][]c27GOp{{}}
	for l := 1; l <= maxLen; l++ {
		var next [][]c27GOp
		for _, s := range frontier {
			for _, a := range alphabet {
				dupNew := false
				for _, x := range s {
					if x.Op == 1 && a.Op == 1 && x.Arg == a.Arg {
						dupNew = true
					}
				}
				if dupNew {
					continue
				}
				next = append(next, append(append([]c27GOp{}, s...), a))
			}
		}
		out = append(out, next...)
		frontier = next
	}
	return out
}

func c27GateExhaustive() []c27GateIn {
	var out []c27GateIn
	send := func(c int) c27GOp { return c27GOp{0, c} }
	newEp := func(i int) c27GOp { return c27GOp{1, i} }
	open := func(i int) c27GOp { return c27GOp{2, i} }
	const a, b = 0, 1 // endpoint 0 is DTLS, endpoint 1 is SRTP
	mean := c27GSeqs([]c27GOp{send(a), send(b), newEp(1)}, 2)[1:]
	// family 1: endpoint 0's match function blocks inside NewEndpoint at a queued datagram
	for _, pre := range [][]int{{a}, {b}, {a, a}, {a, b}, {b, a}, {b, b}} {
		for g := range pre {
			for _, mw := range mean {
				for _, post := range [][]c27GOp{{}, {send(a)}} {
					var ops []c27GOp
					for _, c := range pre {
						ops = append(ops, send(c))
					}
					ops = append(ops, newEp(0))
					ops = append(ops, mw...)
					ops = append(ops, open(0))
					ops = append(ops, post...)
					out = append(out, c27GateIn{
						Eps: []c27GEp{{Kind: a, GateTag: g, Ctx: 0}, {Kind: b, GateTag: -1}},
						Ops: ops,
					})
				}
			}
		}
	}
	// family 2: both NewEndpoint calls block at a queued datagram; the gates open in either order
	for _, pre := range [][]int{{a, b}, {b, a}, {a, a, b}, {a, b, b}} {
		for g0 := range pre {
			for g1 := range pre {
				for _, order := range [][]int{{0, 1}, {1, 0}} {
					for _, during := range [][]c27GOp{{}, {send(a)}, {send(b)}} {
						var ops []c27GOp
						for _, c := range pre {
							ops = append(ops, send(c))
						}
						ops = append(ops, newEp(0), newEp(1))
						ops = append(ops, during...)
						ops = append(ops, open(order[0]))
						ops = append(ops, during...)
						ops = append(ops, open(order[1]))
						out = append(out, c27GateIn{
							Eps: []c27GEp{{Kind: a, GateTag: g0, Ctx: 0}, {Kind: b, GateTag: g1, Ctx: 0}},
							Ops: ops,
						})
					}
				}
			}
		}
	}
	// family 3: endpoint 0 exists; its match function blocks inside dispatch (under the
	// lock on any version of the code) at an arriving datagram of its class
	for _, pre := range [][]int{{}, {b}, {a}} {
		for _, mw := range mean {
			for _, post := range [][]c27GOp{{}, {send(a)}} {
				var ops []c27GOp
				for _, c := range pre {
					ops = append(ops, send(c))
				}
				ops = append(ops, newEp(0), send(a))
				ops = append(ops, mw...)
				ops = append(ops, open(0))
				ops = append(ops, post...)
				out = append(out, c27GateIn{
					Eps: []c27GEp{{Kind: a, GateTag: len(pre), Ctx: 1}, {Kind: b, GateTag: -1}},
					Ops: ops,
				})
			}
		}
	}
	return out
}

func c27GateGen(r *Rand, _ int) c27GateIn {
	perm := [][]int{{0}, {1}, {0, 1}, {1, 0}, {0, 2}, {2, 1}, {0, 1, 2}, {2, 0, 1}, {1, 2, 0}}
	kinds := Pick(r, perm)
	k := len(kinds)
	nops := r.Range(4, 14)
	in := c27GateIn{}
	var ops []c27GOp
	nsend := 0
	classes := append([]int{}, kinds...)
	for len(ops) < nops {
		switch {
		case r.Chance(1, 2) && nsend < 10:
			c := Pick(r, classes)
			if r.Chance(1, 8) {
				c = r.Intn(4)
			}
			ops = append(ops, c27GOp{0, c})
			nsend++
		case r.Chance(1, 2):
			ops = append(ops, c27GOp{1, r.Intn(k)})
		default:
			ops = append(ops, c27GOp{2, r.Intn(k)})
		}
	}
	in.Ops = ops
	for i := 0; i < k; i++ {
		e := c27GEp{Kind: kinds[i], GateTag: -1}
		if nsend > 0 && r.Chance(3, 4) {
			e.GateTag = r.Intn(nsend)
			e.Ctx = r.Intn(3)
			if r.Chance(1, 2) {
				e.Ctx = 0
			}
			e.Every = r.Chance(1, 3)
		}
		in.Eps = append(in.Eps, e)
	}
	return in
}

func init() {
	Register(Spec[c27GateIn]{
		ID: "C27", Suite: "gate", CoqImports: []string{"Check.C27"},
		CoqType: "list Z * list string", CoqRun: "Check.C27.run_gate",
		Quick: 300, Thorough: 12000, Parallel: 4,
		Corpus: func() []c27GateIn {
			return []c27GateIn{
				// a datagram arrives while NewEndpoint is looking at the queued one
				{Eps: []c27GEp{{Kind: 0, GateTag: 0}}, Ops: []c27GOp{{0, 0}, {1, 0}, {0, 0}, {2, 0}}},
				// two endpoints created concurrently, one datagram of each class queued
				{Eps: []c27GEp{{Kind: 0, GateTag: 0}, {Kind: 1, GateTag: -1}}, Ops: []c27GOp{{0, 0}, {0, 1}, {1, 0}, {1, 1}, {2, 0}}},
				// the same with the second call first in the queue order, three classes
				{Eps: []c27GEp{{Kind: 2, GateTag: 1}, {Kind: 0, GateTag: -1}, {Kind: 1, GateTag: 2, Every: true, Ctx: 2}},
					Ops: []c27GOp{{0, 0}, {0, 2}, {0, 1}, {1, 0}, {1, 1}, {0, 2}, {1, 2}, {2, 0}, {2, 2}, {0, 1}, {2, 2}}},
			}
		},
		Exhaustive: c27GateExhaustive,
		Gen:        c27GateGen,
		Run:        c27GateRun,
		Coq:        c27GateCoq,
		Shrink: func(in c27GateIn) []c27GateIn {
			var out []c27GateIn
			for i := range in.Ops {
				if in.Ops[i].Op == 0 { // removing a send renumbers the tags: keep sends, drop the others first
					continue
				}
				c := in
				c.Ops = append(append([]c27GOp{}, in.Ops[:i]...), in.Ops[i+1:]...)
				out = append(out, c)
			}
			for i := len(in.Ops) - 1; i >= 0; i-- { // the last send can go if no gate refers to it
				if in.Ops[i].Op != 0 {
					continue
				}
				n := 0
				for _, o := range in.Ops {
					if o.Op == 0 {
						n++
					}
				}
				ok := true
				for _, e := range in.Eps {
					if e.GateTag == n-1 {
						ok = false
					}
				}
				if ok {
					c := in
					c.Ops = append(append([]c27GOp{}, in.Ops[:i]...), in.Ops[i+1:]...)
					out = append(out, c)
				}
				break
			}
			return out
		},
	})
}
