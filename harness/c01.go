//go:build verif_c01

package main

import (
	"fmt"

	"github.com/pion/webrtc/v4"
)

// C01: signaling state follows the JSEP table, with matching descriptions.

// ---------- suite "table": checkNextSignalingState, every tuple ----------

type c01Cell [4]int // cur, next, op, type (values past the declared range included)

func c01CanonState(s int) int {
	if s < 0 || s > 6 {
		return 7
	}
	return s
}

func c01TableRun(c c01Cell) (V, Verdict) {
	goTy := c[3]
	if goTy >= 5 {
		goTy = 9
	}
	goCur, goNext := c[0], c[1]
	if goCur == 7 {
		goCur = -1 // an undeclared value
	}
	if goNext == 7 {
		goNext = 12
	}
	got, err := webrtc.VerifCheckNextSignalingState(webrtc.SignalingState(goCur), webrtc.SignalingState(goNext),
		c[2], webrtc.SDPType(goTy))
	cls := ""
	if err != nil {
		cls = sigErrClass(err, "")
	}
	obs := VL{VZ(c01CanonState(int(got))), VS(cls)}
	v := Pass("rejected", false)
	// direct oracle: accepted only along an edge of the specification, to its target;
	// a rejection returns the current state
	if err == nil {
		v = Pass("accepted", true)
		local := -1
		switch c[2] {
		case 1:
			local = 1
		case 2:
			local = 0
		}
		want, ok := sigSpecEdges[[3]int{c[0], local, c[3]}]
		switch {
		case !ok:
			v = Fail("table-accepts-non-edge", fmt.Sprintf("checkNextSignalingState(%d,%d,%d,%d) accepted; not an edge", c[0], c[1], c[2], c[3]))
		case int(got) != want || c[1] != want:
			v = Fail("table-wrong-target", fmt.Sprintf("checkNextSignalingState(%d,%d,%d,%d) = %d, the edge leads to %d", c[0], c[1], c[2], c[3], got, want))
		}
	} else if int(got) != goCur {
		v = Fail("table-rejection-changes-state", fmt.Sprintf("checkNextSignalingState(%d,%d,%d,%d) rejected but returned %d", c[0], c[1], c[2], c[3], got))
	}
	return obs, v
}

// ---------- suite "hist": histories on real PeerConnections ----------

// direct oracle: the four clauses of the property on the observed trace
func c01Oracle(tr *sigTrace) Verdict {
	var lastOffer [2]*sigDesc // description of the last successfully applied offer, per PC
	for i, s := range tr.Steps {
		// clause 3: pending descriptions are empty whenever the state is stable
		if s.After == ssStable && (s.Now[0] != nil || s.Now[2] != nil) {
			return Fail("pending-not-empty-in-stable", s.describe(i)+fmt.Sprintf(": pending local %v, pending remote %v", s.Now[0], s.Now[2]))
		}
		// clause 2: getters return pending if any, else current
		wantL, wantR := s.Now[1], s.Now[3]
		if s.Now[0] != nil {
			wantL = s.Now[0]
		}
		if s.Now[2] != nil {
			wantR = s.Now[2]
		}
		if !sigDescEq(s.Now[4], wantL) {
			return Fail("local-getter-not-pending-else-current", s.describe(i)+fmt.Sprintf(": LocalDescription %v, pending %v, current %v", s.Now[4], s.Now[0], s.Now[1]))
		}
		if !sigDescEq(s.Now[5], wantR) {
			return Fail("remote-getter-not-pending-else-current", s.describe(i)+fmt.Sprintf(": RemoteDescription %v, pending %v, current %v", s.Now[5], s.Now[2], s.Now[3]))
		}
		// CreateOffer / CreateAnswer (accepted or refused) and Close never move the
		// descriptions, and only Close moves the state (to closed, without an event)
		if !s.isSet() {
			moved := s.Before != s.After
			if s.Op.K == sigClose {
				moved = s.After != ssClosed
			}
			if moved || len(s.Events) > 0 {
				return Fail("non-set-call-moved-signaling-state", s.describe(i)+fmt.Sprintf(": events %v", s.Events))
			}
			for k := 0; k < 4; k++ {
				if !sigDescEq(s.Prev[k], s.Now[k]) {
					return Fail("non-set-call-changed-descriptions", s.describe(i))
				}
			}
		}
		if s.isSet() && s.Err != "ok" && !s.unchanged() {
			// a rejected call that changed something is C03's subject; the exchange it
			// belongs to is not judged here
			lastOffer[s.Op.PC] = nil
		}
		if !s.isSet() || s.Err != "ok" {
			continue
		}
		// clause 1: success only along an edge, and the state is then its target
		want, ok := sigSpecEdges[[3]int{s.Before, sigLocalBit(s.Op.K), s.Op.Ty}]
		if !ok {
			return Fail("success-without-edge", s.describe(i))
		}
		if s.After != want {
			return Fail("success-wrong-target-state", s.describe(i)+fmt.Sprintf(": the edge leads to %s", sigStateNames[want]))
		}
		if len(s.Events) != 1 || s.Events[0] != want {
			return Fail("success-without-matching-state-event", s.describe(i)+fmt.Sprintf(": events %v", s.Events))
		}
		// clause 4: completing an exchange makes that offer and answer current
		switch s.Op.Ty {
		case tyOffer:
			lastOffer[s.Op.PC] = s.Handed
			// JSEP 5.4: an empty local offer stands for the last created one
		case tyAnswer:
			off := lastOffer[s.Op.PC]
			ans := s.Handed
			var gotOff, gotAns *sigDesc
			if s.Op.K == sigSetLocal {
				gotAns, gotOff = s.Now[1], s.Now[3]
			} else {
				gotAns, gotOff = s.Now[3], s.Now[1]
			}
			// an empty SDP text on a local description stands for the last created one
			if off != nil && gotOff != nil && (off.ID != 0 && *off != *gotOff) {
				return Fail("exchange-offer-not-current", s.describe(i)+fmt.Sprintf(": offer was %v, current is %v", off, gotOff))
			}
			if off != nil && gotOff == nil {
				return Fail("exchange-offer-not-current", s.describe(i)+fmt.Sprintf(": offer was %v, current is nil", off))
			}
			if gotAns == nil || (ans.ID != 0 && *ans != *gotAns) {
				return Fail("exchange-answer-not-current", s.describe(i)+fmt.Sprintf(": answer was %v, current is %v", ans, gotAns))
			}
		}
	}
	for k := 0; k < 2; k++ {
		if len(tr.Late[k]) > 0 {
			return Fail("state-event-without-state-change", fmt.Sprintf("pc%d: events %v arrived outside any state change", k, tr.Late[k]))
		}
	}
	return Pass("", false)
}

func c01HistRun(c sigCase) (V, Verdict) {
	tr := sigExec(c)
	v := c01Oracle(tr)
	if v.OK {
		v.NonTrivial = tr.nonTrivial()
		okc := 0
		for _, s := range tr.Steps {
			if s.isSet() && s.Err == "ok" {
				okc++
			}
		}
		v.Class = fmt.Sprintf("len%02d/ok%d", len(c.Ops)/4*4, min(okc, 6)/2*2)
	}
	sigNote(c, tr, &v)
	return tr.V(), v
}

// c01RetriesOps ends in a CreateOffer that returns errExcessiveRetries; see c01Corpus.
func c01RetriesOps() []sigOp {
	return []sigOp{{K: sigCreateOffer, PC: 1, Ref: -1}, {K: sigSetLocal, PC: 1, Ty: tyOffer, Ref: 0},
		{K: sigSetRemote, PC: 1, Ty: tyAnswer, Ref: 0}, {K: sigCreateOffer, PC: 0, Ref: -1},
		{K: sigSetRemote, PC: 1, Ty: tyOffer, Ref: 3}, {K: sigCreateOffer, PC: 1, Ref: -1},
		{K: sigSetRemote, PC: 0, Ty: tyOffer, Ref: 5}, {K: sigSetLocal, PC: 0, Ty: tyAnswer, Ref: -1},
		{K: sigCreateOffer, PC: 0, Ref: -1}}
}

// exchange appends a full offer/answer exchange offered by pc a
func c01Exchange(ops []sigOp, a int, pranswer bool) []sigOp {
	b := 1 - a
	o := len(ops)
	ops = append(ops, sigOp{K: sigCreateOffer, PC: a},
		sigOp{K: sigSetLocal, PC: a, Ty: tyOffer, Ref: o},
		sigOp{K: sigSetRemote, PC: b, Ty: tyOffer, Ref: o})
	n := len(ops)
	ops = append(ops, sigOp{K: sigCreateAnswer, PC: b})
	if pranswer {
		ops = append(ops, sigOp{K: sigSetLocal, PC: b, Ty: tyPranswer, Ref: n},
			sigOp{K: sigSetRemote, PC: a, Ty: tyPranswer, Ref: n})
	}
	return append(ops, sigOp{K: sigSetLocal, PC: b, Ty: tyAnswer, Ref: n},
		sigOp{K: sigSetRemote, PC: a, Ty: tyAnswer, Ref: n})
}

// sigGenHistory: exchanges with perturbations (dropped, repeated, retyped,
// re-targeted calls; stale, foreign and empty descriptions) and free calls.
// muts = mutation classes allowed (nil: only unmutated text).
func sigGenHistory(r *Rand, maxLen int, muts []int, single bool) sigCase {
	c := sigCase{Cfg: [2]int{r.Intn(3), r.Intn(3)}}
	target := r.Range(2, maxLen)
	var creates []int
	freeOp := func(ops []sigOp) sigOp {
		o := sigOp{K: r.Intn(4), PC: r.Intn(2), Ty: Pick(r, []int{1, 1, 2, 3, 3, 4, 0, 5})}
		if r.Chance(1, 25) {
			o.K = sigClose
		}
		o.Ref = -1
		if len(creates) > 0 && !r.Chance(1, 8) {
			o.Ref = creates[len(creates)-1-r.Intn(min(len(creates), 3))]
		}
		return o
	}
	var ops []sigOp
	for len(ops) < target {
		var frag []sigOp
		if r.Chance(3, 5) {
			frag = c01Exchange(nil, r.Intn(2), r.Chance(1, 3))
		} else {
			frag = []sigOp{freeOp(ops)}
		}
		pos := make([]int, len(frag))
		for j, o := range frag {
			pos[j] = len(ops)
			isSet := o.K >= sigSetLocal && o.K <= sigSetRemote
			if isSet && len(frag) > 1 {
				o.Ref = pos[o.Ref] // exchange-relative reference
			}
			// perturbations
			switch {
			case isSet && len(frag) > 1 && r.Chance(1, 12): // another call in its place
				o = freeOp(ops)
				isSet = o.K >= sigSetLocal && o.K <= sigSetRemote
			case isSet && r.Chance(1, 14):
				o.Ty = Pick(r, []int{0, 1, 2, 3, 4, 5})
			case isSet && r.Chance(1, 14):
				o.K = sigSetLocal + sigSetRemote - o.K
			case isSet && r.Chance(1, 14) && len(creates) > 0:
				o.Ref = Pick(r, creates) // stale or foreign text
			case isSet && r.Chance(1, 20):
				o.Ref = -1 // empty text
			case r.Chance(1, 20):
				o.PC = 1 - o.PC
			}
			if isSet && len(muts) > 0 && r.Chance(1, 5) {
				o.Mut = Pick(r, muts)
			}
			ops = append(ops, o)
			if o.K <= sigCreateAnswer {
				creates = append(creates, len(ops)-1)
			}
			if isSet && r.Chance(1, 10) {
				ops = append(ops, o) // repeated call
			}
			if r.Chance(1, 40) { // Close anywhere, the history goes on
				ops = append(ops, sigOp{K: sigClose, PC: r.Intn(2), Ref: -1})
			}
		}
	}
	if len(ops) > maxLen {
		ops = ops[:maxLen]
	}
	if single { // one PeerConnection plays both parts with its own descriptions
		for i := range ops {
			ops[i].PC = 0
		}
	}
	if len(muts) > 0 && r.Chance(1, 12) && len(ops) > 1 {
		// a PeerConnection whose ICE agent cannot be created (C03: Gather /
		// AddRemoteCandidate after the transition); its create calls are refused
		ops[0] = sigOp{K: sigDeclare, PC: r.Intn(2), Ref: -1, Mut: traitNoAgent}
	}
	c.Ops = ops
	return c
}

func c01Corpus() []sigCase {
	full := c01Exchange(nil, 0, false)
	withPr := c01Exchange(c01Exchange(nil, 1, true), 0, true)
	return []sigCase{
		{Ops: full},
		{Cfg: [2]int{1, 2}, Ops: withPr},
		// a stale offer, a foreign offer as local, an answer in stable, an offer twice
		{Ops: []sigOp{{K: sigCreateOffer}, {K: sigCreateOffer}, {K: sigSetLocal, Ty: tyOffer, Ref: 0},
			{K: sigSetLocal, Ty: tyOffer, Ref: 1}, {K: sigSetLocal, Ty: tyOffer, Ref: 1},
			{K: sigSetRemote, PC: 1, Ty: tyAnswer, Ref: 1}, {K: sigSetRemote, PC: 1, Ty: tyOffer, Ref: 1},
			{K: sigSetRemote, PC: 1, Ty: tyOffer, Ref: 1}, {K: sigCreateAnswer, PC: 1},
			{K: sigSetLocal, PC: 0, Ty: tyAnswer, Ref: 8}, {K: sigSetLocal, PC: 1, Ty: tyAnswer, Ref: -1}}},
		// empty local offer before any CreateOffer; unknown and undeclared types; close
		{Ops: []sigOp{{K: sigSetLocal, Ty: tyOffer, Ref: -1}, {K: sigSetLocal, Ty: 0, Ref: -1},
			{K: sigCreateOffer, PC: 1}, {K: sigSetRemote, Ty: 5, Ref: 2}, {K: sigSetRemote, Ty: tyAnswer, Ref: 2},
			{K: sigClose}, {K: sigSetRemote, Ty: tyOffer, Ref: 2}, {K: sigCreateOffer}}},
		// Close in the middle of an exchange, on each side, then every kind of call
		{Ops: []sigOp{{K: sigCreateOffer}, {K: sigSetLocal, Ty: tyOffer, Ref: 0}, {K: sigSetRemote, PC: 1, Ty: tyOffer, Ref: 0},
			{K: sigClose, PC: 1}, {K: sigCreateAnswer, PC: 1}, {K: sigSetLocal, PC: 1, Ty: tyAnswer, Ref: -1},
			{K: sigSetRemote, PC: 1, Ty: tyOffer, Ref: 0}, {K: sigClose, PC: 1},
			{K: sigClose, PC: 0}, {K: sigSetRemote, PC: 0, Ty: tyAnswer, Ref: 0}, {K: sigCreateOffer, PC: 0},
			{K: sigSetLocal, PC: 0, Ty: tyRollback, Ref: -1}}},
		// CreateOffer refused inside SDP generation ("excessive retries in CreateOffer", found by
		// the seeded generator and shrunk): pc1 answers itself, takes pc0's offer and offers back
		// from have-remote-offer; pc0 applies that offer and completes with an empty answer (JSEP
		// 5.4 substitutes the empty last answer), so its local description never carries the mids
		// SetRemoteDescription gave its transceivers and CreateOffer regenerates 128 times. The
		// refusal leaves state and descriptions alone; the calls after it behave as the model says.
		{Cfg: [2]int{1, 2}, Ops: append(c01RetriesOps(), sigOp{K: sigSetLocal, PC: 0, Ty: tyOffer, Ref: 8},
			sigOp{K: sigSetLocal, PC: 0, Ty: tyOffer, Ref: -1}, sigOp{K: sigClose, PC: 0}, sigOp{K: sigCreateOffer, PC: 0})},
	}
}

func init() {
	Register(Spec[c01Cell]{
		ID: "C01", Suite: "table", CoqImports: []string{"Check.C01"},
		CoqType: "Z * Z * Z * Z", CoqRun: "Check.C01.run_table",
		Exhaustive: func() []c01Cell {
			var out []c01Cell
			for cur := 0; cur <= 7; cur++ {
				for next := 0; next <= 7; next++ {
					for op := 0; op <= 3; op++ {
						for ty := 0; ty <= 5; ty++ {
							out = append(out, c01Cell{cur, next, op, ty})
						}
					}
				}
			}
			return out
		},
		Run: c01TableRun,
		Coq: func(c c01Cell) string { return fmt.Sprintf("(%d, %d, %d, %d)", c[0], c[1], c[2], c[3]) },
	})
	Register(Spec[sigCase]{
		ID: "C01", Suite: "hist", CoqImports: []string{"Check.C01"},
		CoqType: "list Check.C01.hop", CoqRun: "Check.C01.run_hist",
		Quick: 1000, Thorough: 12000, Parallel: 8,
		Corpus: c01Corpus,
		Gen: func(r *Rand, i int) sigCase {
			maxLen := 12
			if i%10 == 9 {
				maxLen = 40
			}
			return sigGenHistory(r, maxLen, nil, i%4 == 3)
		},
		Run: c01HistRun, Coq: sigCoq, Shrink: sigShrink,
	})
}
