//go:build verif_c21

package main

// Helpers of the C21 harness: an instrumented PeerConnection (dispatch log of
// the connection state through the logger, teardown counter through an
// interceptor) and a schedule runner on top of sched.go that recognises
// semantic blocking (a participant waiting on one of close()'s done-channels)
// by looking at the goroutine's stack instead of waiting for a timeout.

import (
	"bytes"
	"fmt"
	"runtime"
	"strconv"
	"strings"
	"sync"
	"sync/atomic"
	"time"

	"github.com/pion/interceptor"
	"github.com/pion/logging"
	"github.com/pion/webrtc/v4"
)

// ---------- logger capturing "peer connection state changed: X" ----------

type c21Logger struct {
	mu       sync.Mutex
	dispatch []int // PeerConnectionState values in the order onConnectionStateChange stored them
}

var c21StateByName = func() map[string]int {
	m := map[string]int{}
	for i := 0; i <= 6; i++ {
		m[webrtc.PeerConnectionState(i).String()] = i
	}
	return m
}()

const c21Prefix = "peer connection state changed: "

func (l *c21Logger) record(format string, args ...interface{}) {
	if !strings.HasPrefix(format, c21Prefix) {
		return
	}
	msg := fmt.Sprintf(format, args...)
	v, ok := c21StateByName[strings.TrimPrefix(msg, c21Prefix)]
	if !ok {
		v = -1
	}
	l.mu.Lock()
	l.dispatch = append(l.dispatch, v)
	l.mu.Unlock()
}
func (l *c21Logger) snapshot() []int {
	l.mu.Lock()
	defer l.mu.Unlock()
	return append([]int(nil), l.dispatch...)
}

type c21Leveled struct{ l *c21Logger }

func (c21Leveled) Trace(string)                  {}
func (c21Leveled) Tracef(string, ...interface{}) {}
func (c21Leveled) Debug(string)                  {}
func (c21Leveled) Debugf(string, ...interface{}) {}
func (c21Leveled) Info(string)                   {}
func (c c21Leveled) Infof(f string, a ...interface{}) {
	c.l.record(f, a...)
}
func (c21Leveled) Warn(string)                   {}
func (c21Leveled) Warnf(string, ...interface{})  {}
func (c21Leveled) Error(string)                  {}
func (c21Leveled) Errorf(string, ...interface{}) {}

type c21LoggerFactory struct{ l *c21Logger }

func (f c21LoggerFactory) NewLogger(scope string) logging.LeveledLogger {
	if scope == "pc" {
		return c21Leveled{f.l}
	}
	return c21Leveled{&c21Logger{}}
}

// ---------- interceptor counting Close() ----------

type c21Interceptor struct {
	interceptor.NoOp
	closes *atomic.Int32
}

func (i *c21Interceptor) Close() error { i.closes.Add(1); return nil }

type c21InterceptorFactory struct{ closes *atomic.Int32 }

func (f c21InterceptorFactory) NewInterceptor(string) (interceptor.Interceptor, error) {
	return &c21Interceptor{closes: f.closes}, nil
}

// ---------- instrumented PeerConnection ----------

type c21Env struct {
	pc       *webrtc.PeerConnection
	logger   *c21Logger
	closes   atomic.Int32 // interceptor.Close calls = runs of close()'s teardown path
	arrMu    sync.Mutex
	arrivals []int // values the OnConnectionStateChange handler was entered with
}

// loopback: gather on lo (connected pairs); otherwise no interface at all.
func c21NewAPI(env *c21Env, loopback bool) *webrtc.API {
	se := webrtc.SettingEngine{}
	se.SetICEMulticastDNSMode(0 + 1) // disabled
	se.SetNetworkTypes([]webrtc.NetworkType{webrtc.NetworkTypeUDP4})
	if loopback {
		se.SetIncludeLoopbackCandidate(true)
		se.SetInterfaceFilter(func(n string) bool { return n == "lo" })
	} else {
		se.SetIncludeLoopbackCandidate(false)
		se.SetInterfaceFilter(func(string) bool { return false })
	}
	se.LoggerFactory = c21LoggerFactory{env.logger}
	me := &webrtc.MediaEngine{}
	if err := me.RegisterDefaultCodecs(); err != nil {
		panic(err)
	}
	reg := &interceptor.Registry{}
	reg.Add(c21InterceptorFactory{&env.closes})
	return webrtc.NewAPI(webrtc.WithSettingEngine(se), webrtc.WithMediaEngine(me),
		webrtc.WithInterceptorRegistry(reg))
}

func c21NewEnv(loopback bool) *c21Env {
	env := &c21Env{logger: &c21Logger{}}
	pc, err := c21NewAPI(env, loopback).NewPeerConnection(webrtc.Configuration{})
	if err != nil {
		panic(err)
	}
	env.pc = pc
	pc.OnConnectionStateChange(func(s webrtc.PeerConnectionState) {
		env.arrMu.Lock()
		env.arrivals = append(env.arrivals, int(s))
		env.arrMu.Unlock()
	})
	return env
}

func (e *c21Env) arrived() []int {
	e.arrMu.Lock()
	defer e.arrMu.Unlock()
	return append([]int(nil), e.arrivals...)
}

// waitArrivals waits until the handler has been entered as often as a state was
// dispatched (each dispatch starts one goroutine).
func (e *c21Env) waitArrivals(d time.Duration) bool {
	deadline := time.Now().Add(d)
	for {
		if len(e.arrived()) >= len(e.logger.snapshot()) {
			return true
		}
		if time.Now().After(deadline) {
			return false
		}
		time.Sleep(50 * time.Microsecond)
	}
}

// setup stages of a PeerConnection that never connects:
// 0 fresh; 1 a transceiver and a data channel; 2 additionally a local offer set
// (the ICE gatherer has an agent, gathering ran on zero interfaces).
func (e *c21Env) setup(stage int) {
	if stage >= 1 {
		if _, err := e.pc.AddTransceiverFromKind(webrtc.RTPCodecTypeVideo); err != nil {
			panic(err)
		}
		if _, err := e.pc.CreateDataChannel("c21", nil); err != nil {
			panic(err)
		}
	}
	if stage >= 2 {
		offer, err := e.pc.CreateOffer(nil)
		if err != nil {
			panic(err)
		}
		if err := e.pc.SetLocalDescription(offer); err != nil {
			panic(err)
		}
	}
}

// closedIsFinal restates the handler clause of the property on a sequence of
// reported states: nothing but closed (6) after the first closed.
func c21ClosedIsFinal(seq []int) bool {
	seen := false
	for _, v := range seq {
		if seen && v != 6 {
			return false
		}
		if v == 6 {
			seen = true
		}
	}
	return true
}

// ---------- goroutine inspection ----------

// c21Blocked reports whether goroutine id is parked in a channel receive whose
// innermost non-runtime frame is PeerConnection.close, i.e. it waits on
// isCloseDone / isGracefulCloseDone.
func c21Blocked(id uint64) bool {
	buf := make([]byte, 1<<16)
	for {
		n := runtime.Stack(buf, true)
		if n < len(buf) {
			buf = buf[:n]
			break
		}
		buf = make([]byte, 2*len(buf))
	}
	head := []byte("goroutine " + strconv.FormatUint(id, 10) + " [")
	i := bytes.Index(buf, head)
	if i < 0 || (i > 0 && buf[i-1] != '\n') {
		return false
	}
	rest := buf[i+len(head):]
	end := bytes.Index(rest, []byte("\n\n"))
	if end >= 0 {
		rest = rest[:end]
	}
	lines := strings.SplitN(string(rest), "\n", 3)
	if len(lines) < 2 || !strings.HasPrefix(lines[0], "chan receive") {
		return false
	}
	return strings.Contains(lines[1], "(*PeerConnection).close(")
}

// ---------- schedule runner ----------

type c21Runner struct {
	s      *Sched
	goids  []uint64
	gmu    sync.Mutex
	panics []string
	// does the participant's next block start by taking connectionStateMu?
	needsUcsLock func(tid int, status string) bool
	ucsLocked    func() bool
	gracefulOps  int // participants released from pc.close.graceful
	teardowns    int // participants that arrived at pc.close.torndown (ran the teardown block)
}

func c21NewRunner() *c21Runner {
	s := NewSched().Only("pc.close.", "pc.ucs.")
	s.Grace = 100 * time.Microsecond
	return &c21Runner{s: s}
}

func (r *c21Runner) add(name string, fn func()) int {
	tid := len(r.goids)
	r.goids = append(r.goids, 0)
	return r.s.Add(name, func() {
		r.gmu.Lock()
		r.goids[tid] = goid()
		r.gmu.Unlock()
		defer func() {
			if p := recover(); p != nil {
				r.gmu.Lock()
				r.panics = append(r.panics, fmt.Sprint(p))
				r.gmu.Unlock()
			}
		}()
		fn()
	})
}

// status of a participant after settling: idle, parked:<point>, blocked, finished.
func (r *c21Runner) status(tid int) (string, error) {
	deadline := time.Now().Add(20 * time.Second)
	for {
		st := r.s.Status(tid)
		if st != "running" {
			return st, nil
		}
		r.gmu.Lock()
		id := r.goids[tid]
		r.gmu.Unlock()
		if id != 0 && c21Blocked(id) {
			// confirm it did not move on in the meantime
			if r.s.Status(tid) == "running" {
				return "blocked", nil
			}
			continue
		}
		if time.Now().After(deadline) {
			return "stuck", fmt.Errorf("participant %d neither reaches a yield point, returns, nor waits on a done-channel", tid)
		}
		time.Sleep(20 * time.Microsecond)
	}
}

func (r *c21Runner) statuses() ([]string, error) {
	out := make([]string, len(r.goids))
	for tid := range r.goids {
		st, err := r.status(tid)
		if err != nil {
			return out, err
		}
		out[tid] = st
	}
	return out, nil
}

// enabledNow: would releasing tid make it execute a block?
func (r *c21Runner) enabledNow(tid int, st string) bool {
	switch {
	case st == "finished" || st == "blocked" || st == "stuck":
		return false
	case r.needsUcsLock != nil && r.needsUcsLock(tid, st) && r.ucsLocked != nil && r.ucsLocked():
		return false
	}
	return true
}

// step releases tid for one block. Returns the status afterwards, or
// "disabled" when there was nothing to release.
func (r *c21Runner) step(tid int) (string, error) {
	st, err := r.status(tid)
	if err != nil {
		return st, err
	}
	if !r.enabledNow(tid, st) {
		return "disabled", nil
	}
	if st == "parked:pc.close.graceful" {
		r.gracefulOps++
	}
	r.s.Step(tid)
	// let everybody (the stepped thread and the waiters it may have woken) settle
	all, err := r.statuses()
	if err != nil {
		return "stuck", err
	}
	if all[tid] == "parked:pc.close.torndown" && st != all[tid] {
		r.teardowns++
	}
	return all[tid], nil
}

func (r *c21Runner) close() { r.s.Close() }

func (r *c21Runner) panicked() []string {
	r.gmu.Lock()
	defer r.gmu.Unlock()
	return append([]string(nil), r.panics...)
}
