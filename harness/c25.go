//go:build verif_c25 && verif_pc

package main

import (
	"fmt"
	"strings"
	"sync"
	"sync/atomic"
	"time"

	"github.com/pion/ice/v4"
	"github.com/pion/webrtc/v4"
	"github.com/pion/webrtc/v4/internal/verifhook"
)

// C25: ICE candidates through ToJSON -> AddICECandidate and back.

type c25Ext [2]string

// ---------------------------------------------------------------- suite ext

func c25ExtWellFormed(exts []c25Ext) bool {
	for _, e := range exts {
		if e[0] == "" || strings.Contains(e[0], " ") || strings.Contains(e[1], " ") || e[0] == "tcptype" {
			return false
		}
	}
	return true
}

func c25HasDup(exts []c25Ext) bool {
	seen := map[string]bool{}
	for _, e := range exts {
		if seen[e[0]] {
			return true
		}
		seen[e[0]] = true
	}
	return false
}

func c25HasEmptyValue(exts []c25Ext) bool {
	for _, e := range exts {
		if e[1] == "" {
			return true
		}
	}
	return false
}

func c25VExts(l []ice.CandidateExtension) V {
	out := make(VL, len(l))
	for i, e := range l {
		out[i] = VL{VS(e.Key), VS(e.Value)}
	}
	return out
}

func c25SameExts(a []ice.CandidateExtension, b []c25Ext) bool {
	if len(a) != len(b) {
		return false
	}
	for i := range a {
		if a[i].Key != b[i][0] || a[i].Value != b[i][1] {
			return false
		}
	}
	return true
}

func c25RunExt(exts []c25Ext) (V, Verdict) {
	in := make([]ice.CandidateExtension, len(exts))
	for i, e := range exts {
		in[i] = ice.CandidateExtension{Key: e[0], Value: e[1]}
	}
	joined, calls, final, err := webrtc.VerifExtensionsRoundTrip(in)
	var res V
	switch {
	case err == nil:
		res = VL{VS("ok"), c25VExts(final)}
	case strings.Contains(err.Error(), "key is empty"):
		res = VL{VS("err"), VS("empty-key")}
	case strings.Contains(strings.ToLower(err.Error()), "tcptype"):
		res = VL{VS("err"), VS("tcptype")}
	default:
		res = VL{VS("err"), VS("other")}
	}
	obs := VL{VS(joined), c25VExts(calls), res}
	if !c25ExtWellFormed(exts) {
		return obs, Pass("malformed", false)
	}
	class := fmt.Sprintf("n%d/empty=%v/dup=%v", min(len(exts), 4), c25HasEmptyValue(exts), c25HasDup(exts))
	// direct oracle: the splitter hands back exactly the pairs that were joined ...
	if err != nil || !c25SameExts(calls, exts) {
		sig := "cand-ext-split-differs"
		if c25HasEmptyValue(exts) {
			sig = "cand-ext-empty-value-lost"
		}
		return obs, Fail(sig, fmt.Sprintf("extensions %q joined as %q came back as %v (err %v)", exts, joined, calls, err))
	}
	// ... and the candidate then reports the same list
	if !c25SameExts(final, exts) {
		sig := "cand-ext-changed"
		if c25HasDup(exts) {
			sig = "cand-ext-duplicate-key-collapsed"
		}
		return obs, Fail(sig, fmt.Sprintf("extensions %q: the candidate reports %v", exts, final))
	}
	return obs, Pass(class, len(exts) >= 1)
}

func c25CoqExts(exts []c25Ext) string {
	parts := make([]string, len(exts))
	for i, e := range exts {
		parts[i] = "(" + CoqString(e[0]) + ", " + CoqString(e[1]) + ")"
	}
	return CoqList(parts)
}

// ---------------------------------------------------------------- suite cand

type c25Cand struct {
	Typ        string   `json:"typ"`
	Net        string   `json:"net"`
	Foundation string   `json:"f"`
	Component  int      `json:"c"`
	Priority   uint32   `json:"p"`
	Address    string   `json:"a"`
	Port       int      `json:"port"`
	RAddr      string   `json:"ra"`
	RPort      int      `json:"rp"`
	TCPType    string   `json:"tcp"`
	Exts       []c25Ext `json:"x"`
	// the applied remote description
	SessUfrag  bool   `json:"su"` // ice-ufrag at session level
	MediaUfrag bool   `json:"mu"` // ice-ufrag in the media section
	Ufrag      string `json:"u"`
}

func (c c25Cand) line() string {
	var b strings.Builder
	fmt.Fprintf(&b, "%s %d %s %d %s %d typ %s", c.Foundation, c.Component, c.Net, c.Priority, c.Address, c.Port, c.Typ)
	if c.RAddr != "" {
		fmt.Fprintf(&b, " raddr %s rport %d", c.RAddr, c.RPort)
	}
	if c.TCPType != "" {
		fmt.Fprintf(&b, " tcptype %s", c.TCPType)
	}
	for _, e := range c.Exts {
		fmt.Fprintf(&b, " %s %s", e[0], e[1])
	}
	return b.String()
}

const c25Fingerprint = "a=fingerprint:sha-256 0F:74:31:25:CB:A2:13:EC:28:6F:6D:2C:61:FF:5D:C2:BC:B9:DB:3D:98:14:8D:1A:BB:EA:33:0C:A4:60:A8:8E\r\n"

func (c c25Cand) offer() string {
	ice := "a=ice-ufrag:" + c.Ufrag + "\r\na=ice-pwd:remotepasswordremotepassword\r\n"
	var b strings.Builder
	b.WriteString("v=0\r\no=- 4215775240449105457 2 IN IP4 127.0.0.1\r\ns=-\r\nt=0 0\r\n")
	b.WriteString(c25Fingerprint)
	if c.SessUfrag {
		b.WriteString(ice)
	}
	b.WriteString("a=group:BUNDLE 0\r\nm=application 9 UDP/DTLS/SCTP webrtc-datachannel\r\nc=IN IP4 0.0.0.0\r\na=setup:actpass\r\na=mid:0\r\n")
	if c.MediaUfrag {
		b.WriteString(ice)
	}
	b.WriteString("a=sctp-port:5000\r\n")
	return b.String()
}

var (
	c25Once     sync.Once
	c25Forwards atomic.Int64 // times AddICECandidate reached the hand-over to the ICE transport
)

func c25Web(c webrtc.ICECandidate) V {
	return VL{VS(c.Foundation), VZ(c.Priority), VS(c.Address), VZ(int64(c.Protocol)), VZ(c.Port), VZ(int64(c.Typ)),
		VZ(c.Component), VS(c.RelatedAddress), VZ(c.RelatedPort), VS(c.TCPType), VS(c.VerifExtensions())}
}

func c25FieldDiff(a, b webrtc.ICECandidate) string {
	switch {
	case a.Foundation != b.Foundation:
		return "foundation"
	case a.Component != b.Component:
		return "component"
	case a.Protocol != b.Protocol:
		return "protocol"
	case a.Priority != b.Priority:
		return "priority"
	case a.Address != b.Address:
		return "address"
	case a.Port != b.Port:
		return "port"
	case a.Typ != b.Typ:
		return "type"
	case a.RelatedAddress != b.RelatedAddress:
		return "related-address"
	case a.RelatedPort != b.RelatedPort:
		return "related-port"
	case a.TCPType != b.TCPType:
		return "tcptype"
	}
	return ""
}

// c25DiffICE compares a webrtc candidate with the getters of a pion/ice candidate.
func c25DiffICE(i ice.Candidate, c webrtc.ICECandidate) string {
	raddr, rport := "", 0
	if r := i.RelatedAddress(); r != nil {
		raddr, rport = r.Address, r.Port
	}
	proto := webrtc.ICEProtocolUDP
	if i.NetworkType().NetworkShort() == "tcp" {
		proto = webrtc.ICEProtocolTCP
	}
	typ := map[ice.CandidateType]webrtc.ICECandidateType{ice.CandidateTypeHost: webrtc.ICECandidateTypeHost,
		ice.CandidateTypeServerReflexive: webrtc.ICECandidateTypeSrflx, ice.CandidateTypePeerReflexive: webrtc.ICECandidateTypePrflx,
		ice.CandidateTypeRelay: webrtc.ICECandidateTypeRelay}[i.Type()]
	switch {
	case i.Foundation() != c.Foundation:
		return "foundation"
	case i.Component() != c.Component:
		return "component"
	case proto != c.Protocol:
		return "protocol"
	case i.Priority() != c.Priority:
		return "priority"
	case i.Address() != c.Address:
		return "address"
	case i.Port() != int(c.Port):
		return "port"
	case typ != c.Typ:
		return "type"
	case raddr != c.RelatedAddress:
		return "related-address"
	case rport != int(c.RelatedPort):
		return "related-port"
	case i.TCPType().String() != c.TCPType:
		return "tcptype"
	}
	return ""
}

func c25UfragOf(i ice.Candidate) (string, bool) {
	e, ok := i.GetExtension("ufrag")
	return e.Value, ok
}

func c25RunCand(in c25Cand) (V, Verdict) {
	c25Once.Do(func() {
		signalOnly(true)
		verifhook.Install(func(name string) {
			if name == "pc.addicecandidate.forward" {
				c25Forwards.Add(1)
			}
		})
	})
	i0, err := ice.UnmarshalCandidate(in.line())
	if err != nil {
		return VS("unparseable"), Pass("generator-unparseable", false)
	}
	c0, err := webrtc.VerifICECandidateFromICE(i0)
	if err != nil {
		return VS("from-ice-error"), Fail("cand-from-ice-error", err.Error())
	}
	pc, err := newQuietAPI(nil).NewPeerConnection(webrtc.Configuration{})
	if err != nil {
		panic(err)
	}
	defer func() { _ = pc.Close() }()
	if err = pc.SetRemoteDescription(webrtc.SessionDescription{Type: webrtc.SDPTypeOffer, SDP: in.offer()}); err != nil {
		panic(fmt.Sprintf("c25: remote offer rejected: %v\n%s", err, in.offer()))
	}
	init := c0.ToJSON()
	before := c25Forwards.Load()
	addErr := pc.AddICECandidate(init)
	forwarded := c25Forwards.Load() > before // this suite runs its cases one at a time

	// what the signalled string parses back to (the steps AddICECandidate itself takes)
	var back V = VL{VS("err"), VS("unmarshal")}
	var c1 webrtc.ICECandidate
	haveBack := false
	if i1, uerr := ice.UnmarshalCandidate(strings.TrimPrefix(init.Candidate, "candidate:")); uerr == nil && init.Candidate != "candidate:" {
		if c1, err = webrtc.VerifICECandidateFromICE(i1); err == nil {
			back = VL{VS("ok"), c25Web(c1)}
			haveBack = true
		}
	}

	// a forwarded candidate must turn up in the ICE agent (which adds on its own
	// goroutine: poll).  The agent itself ignores tcp-active and, with mDNS off,
	// .local candidates.
	observable := !(c0.TCPType == "active" || (c0.Typ == webrtc.ICECandidateTypeHost && strings.HasSuffix(c0.Address, ".local")))
	reached := false
	want := c0 // what the agent should hold: the candidate as it parses back
	if haveBack {
		want = c1
	}
	if addErr == nil && forwarded && observable {
		for deadline := time.Now().Add(10 * time.Second); time.Now().Before(deadline) && !reached; {
			held, herr := pc.VerifRemoteICECandidates()
			if herr != nil {
				panic(herr)
			}
			for _, h := range held {
				if c25FieldDiff(h, want) == "" && h.VerifExtensions() == want.VerifExtensions() {
					reached = true
				}
			}
			if !reached {
				time.Sleep(200 * time.Microsecond)
			}
		}
	}
	candUfrag, hasUfrag := c25UfragOf(i0)
	mismatch := hasUfrag && candUfrag != in.Ufrag
	outcome := 0
	switch {
	case addErr != nil:
		outcome = 3
	case !forwarded:
		outcome = 1
	}
	obs := VL{c25Web(c0), back, VZ(int64(outcome))}

	// ---- direct oracle ----
	class := fmt.Sprintf("%s/ufrag=%s", in.Typ,
		map[bool]string{true: "mismatch", false: map[bool]string{true: "match", false: "none"}[hasUfrag]}[mismatch])
	if !observable {
		class += "/agent-ignores"
	}
	if addErr != nil {
		return obs, Fail("cand-json-rejected", fmt.Sprintf("%q: AddICECandidate returned %v", init.Candidate, addErr))
	}
	if !haveBack {
		return obs, Fail("cand-json-unparseable", fmt.Sprintf("%q does not parse back", init.Candidate))
	}
	if d := c25FieldDiff(c0, c1); d != "" {
		return obs, Fail("cand-field-"+d+"-changed", fmt.Sprintf("%q: %+v came back as %+v", init.Candidate, c0, c1))
	}
	// ... and the same as the candidate pion/ice held in the first place
	if d := c25DiffICE(i0, c1); d != "" {
		return obs, Fail("cand-field-"+d+"-changed", fmt.Sprintf("%q: ice candidate %s came back as %+v", init.Candidate, i0.Marshal(), c1))
	}
	if c0.VerifExtensions() != c1.VerifExtensions() {
		sig := "cand-ext-changed"
		if c25HasDup(in.Exts) {
			sig = "cand-ext-duplicate-key-collapsed"
		} else if c25HasEmptyValue(in.Exts) {
			sig = "cand-ext-empty-value-lost"
		}
		return obs, Fail(sig, fmt.Sprintf("extensions %q came back as %q (signalled %q)", c0.VerifExtensions(), c1.VerifExtensions(), init.Candidate))
	}
	if mismatch && forwarded {
		return obs, Fail("cand-ufrag-mismatch-not-dropped", fmt.Sprintf("ufrag %q, description has %q, yet the candidate was handed to the ICE transport", candUfrag, in.Ufrag))
	}
	if !mismatch && !forwarded {
		return obs, Fail("cand-ufrag-match-dropped", fmt.Sprintf("%q was dropped (ufrag %q/%v, description %q)", init.Candidate, candUfrag, hasUfrag, in.Ufrag))
	}
	if forwarded && observable && !reached {
		return obs, Fail("cand-forwarded-but-agent-missing", fmt.Sprintf("%q was forwarded but the ICE agent does not hold %+v", init.Candidate, want))
	}
	return obs, Pass(class, true)
}

func c25CoqCand(in c25Cand) string {
	i0, err := ice.UnmarshalCandidate(in.line())
	if err != nil {
		return ""
	}
	typ := map[ice.CandidateType]int{ice.CandidateTypeHost: 1, ice.CandidateTypeServerReflexive: 2,
		ice.CandidateTypePeerReflexive: 3, ice.CandidateTypeRelay: 4}[i0.Type()]
	net := 1
	if i0.NetworkType().NetworkShort() == "tcp" {
		net = 2
	}
	tcp := map[ice.TCPType]int{ice.TCPTypeActive: 1, ice.TCPTypePassive: 2, ice.TCPTypeSimultaneousOpen: 3}[i0.TCPType()]
	rel := "None"
	if r := i0.RelatedAddress(); r != nil {
		rel = fmt.Sprintf("(Some (%s, %d))", CoqString(r.Address), r.Port)
	}
	var exts []c25Ext
	for _, e := range i0.Extensions() {
		if e.Key != "tcptype" {
			exts = append(exts, c25Ext{e.Key, e.Value})
		}
	}
	sess, media := "None", "[None]"
	if in.SessUfrag {
		sess = "(Some " + CoqString(in.Ufrag) + ")"
	}
	if in.MediaUfrag {
		media = "[Some " + CoqString(in.Ufrag) + "]"
	}
	return fmt.Sprintf("((%d, %d, %d), (%s, %s), (%d, %d, %d), %s, %s, (%s, %s))", typ, net, tcp,
		CoqString(i0.Foundation()), CoqString(i0.Address()), i0.Component(), i0.Priority(), i0.Port(), rel,
		c25CoqExts(exts), sess, media)
}

var (
	c25Keys   = []string{"generation", "network-id", "network-cost", "x", "ab", "Q-1"}
	c25Values = []string{"", "0", "1", "10", "v", "abc", "a/b+c", "-"}
	c25V4     = []string{"192.0.2.1", "10.0.0.7", "203.0.113.250", "0.0.0.0", "255.255.255.255"}
	c25V6     = []string{"2001:db8::1", "fe80::a:b", "::1", "2001:db8:0:1:2:3:4:5"}
)

func c25GenExts(r *Rand, ufrag string) []c25Ext {
	var out []c25Ext
	n := r.Intn(5)
	used := map[string]bool{}
	for k := 0; k < n; k++ {
		key := Pick(r, c25Keys)
		if used[key] && !r.Chance(1, 10) { // duplicates are rare
			continue
		}
		used[key] = true
		out = append(out, c25Ext{key, Pick(r, c25Values)})
	}
	switch r.Intn(6) {
	case 0, 1: // matching ufrag
		out = append(out, c25Ext{"ufrag", ufrag})
	case 2: // a ufrag of another generation
		out = append(out, c25Ext{"ufrag", Pick(r, []string{"old" + ufrag, ufrag[:len(ufrag)-1], strings.ToUpper(ufrag), "x"})})
	case 3: // empty ufrag value, at the end
		out = append(out, c25Ext{"ufrag", ""})
	}
	if len(out) > 1 && r.Chance(1, 3) {
		i, j := r.Intn(len(out)), r.Intn(len(out))
		out[i], out[j] = out[j], out[i]
	}
	return out
}

func c25GenCand(r *Rand, i int) c25Cand {
	c := c25Cand{Typ: []string{"host", "srflx", "prflx", "relay"}[i%4], Net: "udp", Component: r.Range(1, 2),
		Priority: uint32(r.U64()), Port: r.Range(1, 65535), Ufrag: Pick(r, []string{"remoteufrag", "AbCd", "u+/9"})}
	switch r.Intn(3) {
	case 0:
		c.SessUfrag = true
	case 1:
		c.MediaUfrag = true
	default:
		c.SessUfrag, c.MediaUfrag = true, true
	}
	if r.Chance(1, 3) {
		c.Net = "tcp"
	}
	if r.Chance(1, 8) {
		c.Net = strings.ToUpper(c.Net)
	}
	switch r.Intn(8) {
	case 0:
		c.Component = r.Range(0, 65535)
	case 1:
		c.Priority = Pick(r, []uint32{0, 1, 0xffffffff, 2130706431})
	case 2:
		c.Port = Pick(r, []int{0, 1, 9, 65535})
	}
	c.Foundation = Pick(r, []string{"1", "4234997325", "abcDEF+/09", "", strings.Repeat("f", 32), "0"})
	if r.Bool() {
		c.Address = Pick(r, c25V4)
	} else {
		c.Address = Pick(r, c25V6)
	}
	if c.Typ == "host" && strings.EqualFold(c.Net, "udp") && r.Chance(1, 6) {
		c.Address = Pick(r, []string{"e2494022-4d9a-4c1e-a750-cc48d4f8d6ee.local", "x.local"})
	}
	if c.Typ != "host" && r.Chance(4, 5) {
		if r.Bool() {
			c.RAddr = Pick(r, c25V4)
		} else {
			c.RAddr = Pick(r, c25V6)
		}
		c.RPort = r.Range(1, 65535)
	}
	if strings.EqualFold(c.Net, "tcp") && r.Chance(3, 4) {
		c.TCPType = Pick(r, []string{"active", "passive", "so"})
	}
	c.Exts = c25GenExts(r, c.Ufrag)
	return c
}

func init() {
	Register(Spec[[]c25Ext]{
		ID: "C25", Suite: "ext", CoqImports: []string{"Check.C25"},
		CoqType: "list (string * string)", CoqRun: "Check.C25.run_ext",
		Quick: 200, Thorough: 3000, Parallel: 8,
		Corpus: func() [][]c25Ext {
			return [][]c25Ext{
				{{"generation", "0"}, {"ufrag", "abc"}, {"network-id", "3"}, {"network-cost", "10"}},
				{{"a", ""}}, {{"a", ""}, {"b", ""}}, {{"a", "1"}, {"b", ""}}, {{"a", ""}, {"b", "2"}}, {{"x", "y"}, {"z", ""}},
				{{"a", "1"}, {"a", "2"}}, // duplicate key: AddExtension keeps one
				{{"tcptype", "passive"}, {"a", "1"}}, {{"tcptype", "bogus"}}, {{"", "v"}}, {{"a b", "c"}}, {{"a", "b c"}}, {{" ", ""}},
			}
		},
		Exhaustive: func() [][]c25Ext {
			pairs := []c25Ext{}
			for _, k := range []string{"a", "bb"} {
				for _, v := range []string{"", "x", "yy"} {
					pairs = append(pairs, c25Ext{k, v})
				}
			}
			out := [][]c25Ext{{}}
			for _, p := range pairs {
				out = append(out, []c25Ext{p})
				for _, q := range pairs {
					out = append(out, []c25Ext{p, q})
					for _, s := range pairs {
						out = append(out, []c25Ext{p, q, s})
					}
				}
			}
			return out
		},
		Gen: func(r *Rand, i int) []c25Ext {
			n := r.Intn(6)
			var out []c25Ext
			for k := 0; k < n; k++ {
				e := c25Ext{Pick(r, c25Keys), Pick(r, c25Values)}
				if i%5 == 4 { // malformed stream
					switch r.Intn(5) {
					case 0:
						e[0] = ""
					case 1:
						e[0] = "k " + e[0]
					case 2:
						e[1] = e[1] + " w"
					case 3:
						e[0] = "tcptype"
					}
				}
				out = append(out, e)
			}
			return out
		},
		Run: c25RunExt, Coq: c25CoqExts,
		Shrink: func(in []c25Ext) [][]c25Ext {
			var out [][]c25Ext
			for i := range in {
				out = append(out, append(append([]c25Ext{}, in[:i]...), in[i+1:]...))
			}
			return out
		},
	})
	Register(Spec[c25Cand]{
		ID: "C25", Suite: "cand", CoqImports: []string{"Check.C25"},
		CoqType: "(Z * Z * Z) * (string * string) * (Z * Z * Z) * option (string * Z) * list (string * string) * (option string * list (option string))",
		CoqRun:  "Check.C25.run_cand",
		Quick:   480, Thorough: 4000, Parallel: 1,
		Corpus: func() []c25Cand {
			return []c25Cand{
				{Typ: "host", Net: "udp", Foundation: "4234997325", Component: 1, Priority: 2113667327, Address: "192.0.2.1", Port: 54400,
					Exts: []c25Ext{{"generation", "0"}, {"ufrag", "remoteufrag"}, {"network-id", "1"}}, SessUfrag: true, Ufrag: "remoteufrag"},
				{Typ: "srflx", Net: "udp", Foundation: "1", Component: 1, Priority: 1, Address: "2001:db8::1", Port: 9, RAddr: "10.0.0.7", RPort: 9,
					Exts: []c25Ext{{"ufrag", "oldufrag"}}, MediaUfrag: true, Ufrag: "remoteufrag"},
				{Typ: "host", Net: "tcp", Foundation: "", Component: 2, Priority: 0, Address: "10.0.0.7", Port: 9, TCPType: "passive",
					Exts: []c25Ext{{"a", ""}, {"ufrag", ""}}, SessUfrag: true, MediaUfrag: true, Ufrag: "remoteufrag"},
				{Typ: "relay", Net: "udp", Foundation: "abc", Component: 1, Priority: 4294967295, Address: "203.0.113.250", Port: 65535,
					RAddr: "192.0.2.1", RPort: 65535, Exts: []c25Ext{{"x", "1"}, {"x", "2"}}, SessUfrag: true, Ufrag: "remoteufrag"},
			}
		},
		Gen: c25GenCand, Run: c25RunCand, Coq: c25CoqCand,
	})
}
