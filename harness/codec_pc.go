//go:build verif_codec && verif_pc

package main

import (
	"errors"
	"fmt"
	"sort"
	"strconv"
	"strings"
	"sync"

	"github.com/pion/interceptor"
	"github.com/pion/sdp/v3"
	"github.com/pion/webrtc/v4"
)

// PeerConnection scenarios shared by C10 and C16: a first offer, or an answer
// to a generated remote offer, in signalling-only mode.

type pcExtReg struct {
	URI  string `json:"uri"`
	Kind int    `json:"kind"` // 1 audio, 2 video
	Dirs []int  `json:"dirs"` // 1 sendonly, 2 recvonly; empty = both
}

type pcTrans struct {
	Kind  int   `json:"kind"`
	Dir   int   `json:"dir"` // 1 recvonly, 2 sendrecv, 3 sendonly
	Prefs []cdc `json:"prefs"`
}

type pcCase struct {
	Video  []cdc      `json:"video"`
	Audio  []cdc      `json:"audio"`
	Multi  bool       `json:"multi"`
	Exts   []pcExtReg `json:"exts"`
	Locals []pcTrans  `json:"locals"`
	Answer bool       `json:"answer"` // false: CreateOffer; true: answer Remote
	Remote []rsec     `json:"remote"`
}

type pcLine struct{ Key, Val string }

type pcSection struct {
	Kind     string
	Rejected bool
	Formats  []string
	Lines    []pcLine // rtpmap / fmtp / rtcp-fb, in order
	Exts     []rext
}

type pcResult struct {
	PrefErr  []bool
	Outcome  string // ok | srd:<class> | create:<class>
	Sections []pcSection
	Assoc    []int // answer: index of the local transceiver given to remote section i, -1 = created from the remote description
	Setup    string
}

var pcOnce sync.Once

func pcKindName(k int) string {
	if k == 1 {
		return "audio"
	}
	return "video"
}

func pcDirection(d int) webrtc.RTPTransceiverDirection {
	switch d {
	case 2:
		return webrtc.RTPTransceiverDirectionSendrecv
	case 3:
		return webrtc.RTPTransceiverDirectionSendonly
	}
	return webrtc.RTPTransceiverDirectionRecvonly
}

const pcFingerprint = "a=fingerprint:sha-256 0F:74:31:25:CB:A2:13:EC:28:6F:6D:2C:61:FF:5D:C2:BC:B9:DB:3D:98:14:8D:1A:BB:EA:33:0C:A4:60:A8:8E\r\n"

// pcOfferSDP renders the remote offer: one sendrecv section per rsec, mid = index
func pcOfferSDP(secs []rsec) string {
	var b strings.Builder
	b.WriteString("v=0\r\no=- 4215775240449105457 2 IN IP4 127.0.0.1\r\ns=-\r\nt=0 0\r\n")
	b.WriteString(pcFingerprint)
	mids := make([]string, len(secs))
	for i := range secs {
		mids[i] = strconv.Itoa(i)
	}
	b.WriteString("a=group:BUNDLE " + strings.Join(mids, " ") + "\r\n")
	for i, s := range secs {
		md := s.media()
		fmt.Fprintf(&b, "m=%s 9 UDP/TLS/RTP/SAVPF %s\r\nc=IN IP4 0.0.0.0\r\na=setup:actpass\r\na=mid:%d\r\n", s.Kind, strings.Join(md.MediaName.Formats, " "), i)
		b.WriteString("a=ice-ufrag:remoteufrag\r\na=ice-pwd:remotepasswordremotepassword\r\na=rtcp-mux\r\na=sendrecv\r\n")
		for _, a := range md.Attributes {
			b.WriteString("a=" + a.Key + ":" + a.Value + "\r\n")
		}
	}
	return b.String()
}

func pcParseSections(text string) ([]pcSection, error) {
	var d sdp.SessionDescription
	if err := d.Unmarshal([]byte(text)); err != nil {
		return nil, err
	}
	var out []pcSection
	for _, m := range d.MediaDescriptions {
		if m.MediaName.Media != "audio" && m.MediaName.Media != "video" {
			continue
		}
		s := pcSection{Kind: m.MediaName.Media, Formats: append([]string{}, m.MediaName.Formats...)}
		for _, a := range m.Attributes {
			switch a.Key {
			case "rtpmap", "fmtp", "rtcp-fb":
				s.Lines = append(s.Lines, pcLine{a.Key, a.Value})
			case "extmap":
				f := strings.Fields(a.Value)
				if len(f) >= 2 {
					id, _ := strconv.Atoi(strings.Split(f[0], "/")[0])
					s.Exts = append(s.Exts, rext{ID: id, URI: f[1]})
				}
			}
		}
		s.Rejected = m.MediaName.Port.Value == 0 && len(s.Lines) == 0
		out = append(out, s)
	}
	return out, nil
}

func pcErrClass(err error) string {
	var ne *strconv.NumError
	switch {
	case errors.Is(err, webrtc.ErrCodecAlreadyRegistered):
		return "codec-already-registered"
	case errors.As(err, &ne):
		return "parse-apt"
	case errors.Is(err, webrtc.ErrSenderWithNoCodecs):
		return "sender-with-no-codecs"
	}
	if strings.Contains(err.Error(), "excessive retries") {
		return "excessive-retries"
	}
	return "other:" + err.Error()
}

// the harness's own reading of findByMid / satisfyTypeAndDirection for fresh
// local transceivers and an all-sendrecv offer
func pcAssociate(locals []pcTrans, remote []rsec) []int {
	used := make([]bool, len(locals))
	out := make([]int, len(remote))
	for i, s := range remote {
		out[i] = -1
		k := kindZ(s.Kind)
	search:
		for _, want := range []int{1, 2, 3} { // recvonly, sendrecv, sendonly
			for j, l := range locals {
				if !used[j] && l.Kind == k && l.Dir == want {
					used[j] = true
					out[i] = j
					break search
				}
			}
		}
	}
	return out
}

func pcRun(c pcCase) pcResult {
	pcOnce.Do(func() { signalOnly(true) })
	res := pcResult{Outcome: "ok"}
	me := &webrtc.MediaEngine{}
	for _, x := range c.Video {
		_ = me.RegisterCodec(x.params(), webrtc.RTPCodecTypeVideo)
	}
	for _, x := range c.Audio {
		_ = me.RegisterCodec(x.params(), webrtc.RTPCodecTypeAudio)
	}
	for _, e := range c.Exts {
		var dirs []webrtc.RTPTransceiverDirection
		for _, d := range e.Dirs {
			if d == 1 {
				dirs = append(dirs, webrtc.RTPTransceiverDirectionSendonly)
			} else {
				dirs = append(dirs, webrtc.RTPTransceiverDirectionRecvonly)
			}
		}
		if err := me.RegisterHeaderExtension(webrtc.RTPHeaderExtensionCapability{URI: e.URI}, kindType(e.Kind), dirs...); err != nil {
			res.Setup = "register-ext: " + err.Error()
			return res
		}
	}
	api := newCodecAPI(me, !c.Multi)
	pc, err := api.NewPeerConnection(webrtc.Configuration{})
	if err != nil {
		panic(err)
	}
	defer func() { _ = pc.Close() }()
	for _, l := range c.Locals {
		t, err := pc.AddTransceiverFromKind(kindType(l.Kind), webrtc.RTPTransceiverInit{Direction: pcDirection(l.Dir)})
		if err != nil {
			res.Setup = "add-transceiver: " + err.Error()
			return res
		}
		res.PrefErr = append(res.PrefErr, t.SetCodecPreferences(paramsOf(l.Prefs)) != nil)
	}
	var text string
	if !c.Answer {
		off, err := pc.CreateOffer(nil)
		if err != nil {
			res.Outcome = "create:" + pcErrClass(err)
			return res
		}
		text = off.SDP
	} else {
		res.Assoc = pcAssociate(c.Locals, c.Remote)
		if err := pc.SetRemoteDescription(webrtc.SessionDescription{Type: webrtc.SDPTypeOffer, SDP: pcOfferSDP(c.Remote)}); err != nil {
			res.Outcome = "srd:" + pcErrClass(err)
			return res
		}
		ans, err := pc.CreateAnswer(nil)
		if err != nil {
			res.Outcome = "create:" + pcErrClass(err)
			return res
		}
		text = ans.SDP
	}
	secs, err := pcParseSections(text)
	if err != nil {
		res.Outcome = "unparsable:" + err.Error()
		return res
	}
	res.Sections = secs
	return res
}

// newCodecAPI is newQuietAPI with the multiple-codec switch
func newCodecAPI(me *webrtc.MediaEngine, disableMulti bool) *webrtc.API {
	se := webrtc.SettingEngine{}
	se.SetICEMulticastDNSMode(0 + 1)
	se.SetNetworkTypes([]webrtc.NetworkType{webrtc.NetworkTypeUDP4})
	se.SetInterfaceFilter(func(string) bool { return false })
	se.SetIncludeLoopbackCandidate(false)
	se.DisableMediaEngineMultipleCodecs(disableMulti)
	// an empty registry: NewAPI would otherwise register the default interceptors,
	// which add feedback and header extensions to the engine
	return webrtc.NewAPI(webrtc.WithSettingEngine(se), webrtc.WithMediaEngine(me), webrtc.WithInterceptorRegistry(&interceptor.Registry{}))
}

type pcGroup struct {
	PT    string
	Name  string
	Lines []pcLine
}

func pcGroups(s pcSection) []pcGroup {
	var gs []pcGroup
	for _, l := range s.Lines {
		if l.Key == "rtpmap" {
			f := strings.SplitN(l.Val, " ", 2)
			name := ""
			if len(f) == 2 {
				// <name>/<clock>[/<channels>]: text up to the first slash
				name = strings.Split(f[1], "/")[0]
			}
			gs = append(gs, pcGroup{PT: f[0], Name: name})
		}
		if len(gs) > 0 {
			gs[len(gs)-1].Lines = append(gs[len(gs)-1].Lines, l)
		}
	}
	return gs
}

// observation of one section; canon = the section's transceiver was created
// from the remote description (its RTX entries come in Go map order)
func pcObsSection(s pcSection, canon bool) V {
	formats := s.Formats
	lines := s.Lines
	if canon {
		gs := pcGroups(s)
		same := len(gs) == len(formats)
		for i := 0; same && i < len(gs); i++ {
			same = gs[i].PT == formats[i]
		}
		if same {
			var plain, rtx []pcGroup
			for _, g := range gs {
				if strings.EqualFold(g.Name, "rtx") {
					rtx = append(rtx, g)
				} else {
					plain = append(plain, g)
				}
			}
			sort.SliceStable(rtx, func(i, j int) bool {
				a, _ := strconv.Atoi(rtx[i].PT)
				b, _ := strconv.Atoi(rtx[j].PT)
				return a < b
			})
			formats, lines = nil, nil
			for _, g := range append(plain, rtx...) {
				formats = append(formats, g.PT)
				lines = append(lines, g.Lines...)
			}
		}
	}
	var fv, lv, ev VL
	if !s.Rejected {
		for _, f := range formats {
			n, err := strconv.Atoi(f)
			if err != nil {
				n = -1
			}
			fv = append(fv, VZ(int64(n)))
		}
	}
	for _, l := range lines {
		lv = append(lv, VL{VS(l.Key), vstr(l.Val)})
	}
	exts := append([]rext{}, s.Exts...)
	sort.Slice(exts, func(i, j int) bool {
		if exts[i].ID != exts[j].ID {
			return exts[i].ID < exts[j].ID
		}
		return exts[i].URI < exts[j].URI
	})
	for _, e := range exts {
		ev = append(ev, VL{VZ(int64(e.ID)), vstr(e.URI)})
	}
	if fv == nil {
		fv = VL{}
	}
	if lv == nil {
		lv = VL{}
	}
	if ev == nil {
		ev = VL{}
	}
	return VL{VB(s.Rejected), fv, lv, ev}
}

func pcObs(c pcCase, r pcResult) V {
	pe := make(VL, len(r.PrefErr))
	for i, b := range r.PrefErr {
		pe[i] = VB(b)
	}
	if r.Outcome != "ok" {
		return VL{pe, VS(r.Outcome)}
	}
	secs := make(VL, len(r.Sections))
	for i, s := range r.Sections {
		canon := c.Answer && i < len(r.Assoc) && r.Assoc[i] < 0
		secs[i] = pcObsSection(s, canon)
	}
	return VL{pe, VS("ok"), secs}
}

func pcCoq(c pcCase) string {
	if !cdcsASCII(c.Video) || !cdcsASCII(c.Audio) {
		return ""
	}
	for _, l := range c.Locals {
		if !cdcsASCII(l.Prefs) {
			return ""
		}
		// sendrecv / sendonly transceivers need a registered codec to make their track
		if l.Dir != 1 {
			table := c.Video
			if l.Kind == 1 {
				table = c.Audio
			}
			if len(table) == 0 || !strings.HasPrefix(table[0].Mime, pcKindName(l.Kind)+"/") {
				return ""
			}
		}
	}
	xs := make([]string, len(c.Exts))
	for i, e := range c.Exts {
		ds := make([]string, len(e.Dirs))
		for j, d := range e.Dirs {
			ds[j] = strconv.Itoa(d)
		}
		xs[i] = fmt.Sprintf("(%s, %d, %s)", coqStr(e.URI), e.Kind, CoqList(ds))
	}
	ls := make([]string, len(c.Locals))
	for i, l := range c.Locals {
		ls[i] = fmt.Sprintf("(%d, %d, %s)", l.Kind, l.Dir, coqCodecs(l.Prefs))
	}
	remote := "None"
	if c.Answer {
		assoc := pcAssociate(c.Locals, c.Remote)
		rs := make([]string, len(c.Remote))
		for i, s := range c.Remote {
			got, err := webrtc.VerifCodecsFromMediaDescription(s.media())
			if err != nil || !cdcsASCII(cdcsOf(got)) || kindZ(s.Kind) == 0 {
				return ""
			}
			es := make([]string, len(s.Exts))
			for j, e := range s.Exts {
				es[j] = fmt.Sprintf("(%d, %s)", e.ID, coqStr(e.URI))
			}
			a := "None"
			if assoc[i] >= 0 {
				a = fmt.Sprintf("(Some %d%%nat)", assoc[i])
			}
			rs[i] = fmt.Sprintf("(%d, %s, %s, %s)", kindZ(s.Kind), coqCodecs(cdcsOf(got)), CoqList(es), a)
		}
		remote = "(Some " + CoqList(rs) + ")"
	}
	return fmt.Sprintf("(%s, %s, %s, %s, %s, %s)", coqCodecs(c.Video), coqCodecs(c.Audio), CoqBool(c.Multi),
		CoqList(xs), CoqList(ls), remote)
}

// ---------- generation ----------

var pcURIs = []string{
	"urn:ietf:params:rtp-hdrext:sdes:mid",
	"urn:ietf:params:rtp-hdrext:sdes:rtp-stream-id",
	"urn:ietf:params:rtp-hdrext:sdes:repaired-rtp-stream-id",
	"http://www.ietf.org/id/draft-holmer-rmcat-transport-wide-cc-extensions-01",
	"urn:ietf:params:rtp-hdrext:ssrc-audio-level",
	"http://www.webrtc.org/experiments/rtp-hdrext/abs-send-time",
	"urn:ietf:params:rtp-hdrext:toffset",
	"urn:3gpp:video-orientation",
}

func pcGenExts(r *Rand, many bool) []pcExtReg {
	var out []pcExtReg
	n := r.Range(0, 5)
	if many {
		n = r.Range(12, 18)
	}
	for i := 0; i < n; i++ {
		uri := Pick(r, pcURIs)
		if many || r.Chance(1, 6) {
			uri = fmt.Sprintf("urn:x:ext:%d", r.Intn(24))
		}
		e := pcExtReg{URI: uri, Kind: r.Range(1, 2)}
		switch r.Intn(6) {
		case 0:
			e.Dirs = []int{1}
		case 1:
			e.Dirs = []int{2}
		case 2:
			e.Dirs = []int{2, 1}
		}
		out = append(out, e)
		if r.Chance(1, 3) { // same URI for the other kind too
			out = append(out, pcExtReg{URI: uri, Kind: 3 - e.Kind, Dirs: e.Dirs})
		}
	}
	return out
}

// preferences drawn from the registered table: same codecs, payload type kept,
// zeroed, or changed; sometimes RTX with/without its primary; sometimes two
// entries under one payload type
func pcGenPrefs(r *Rand, table []cdc) []cdc {
	if len(table) == 0 || r.Chance(2, 5) {
		return nil
	}
	var out []cdc
	for _, c := range table {
		if r.Chance(1, 3) {
			continue
		}
		p := c
		switch r.Intn(6) {
		case 0:
			p.PT = 0
		case 1:
			p.PT = uint8(r.Range(96, 127))
		}
		if r.Chance(1, 8) {
			p.FB = genFB(r)
		}
		if r.Chance(1, 10) {
			p.Mime = flipCase(r, p.Mime)
		}
		out = append(out, p)
	}
	if len(out) > 1 && r.Chance(1, 10) {
		out[len(out)-1].PT = out[0].PT
	}
	if len(out) > 1 && r.Chance(1, 5) {
		i, j := r.Intn(len(out)), r.Intn(len(out))
		out[i], out[j] = out[j], out[i]
	}
	return out
}

func pcGenRemoteExts(r *Rand, regs []pcExtReg, kind int) []rext {
	var out []rext
	usedID := map[int]bool{}
	for _, e := range regs {
		if r.Chance(1, 3) {
			continue
		}
		if e.Kind != kind && r.Chance(2, 3) {
			continue
		}
		dup := false
		for _, o := range out {
			dup = dup || o.URI == e.URI
		}
		if dup {
			continue
		}
		id := 0
		for tries := 0; tries < 40 && (id == 0 || usedID[id]); tries++ {
			switch r.Intn(8) {
			case 0:
				id = r.Range(15, 40)
			default:
				id = r.Range(1, 14)
			}
		}
		if usedID[id] {
			continue
		}
		usedID[id] = true
		out = append(out, rext{ID: id, URI: e.URI})
	}
	if r.Chance(1, 4) { // an extension we never registered
		id := r.Range(1, 14)
		if !usedID[id] {
			out = append(out, rext{ID: id, URI: "urn:x:unknown"})
		}
	}
	return out
}

func pcGen(r *Rand, answer bool) pcCase {
	c := pcCase{Multi: !r.Chance(1, 6), Answer: answer}
	if !r.Chance(1, 10) {
		c.Video = genLocalTable(r, "video", 4)
	}
	if !r.Chance(1, 6) {
		c.Audio = genLocalTable(r, "audio", 3)
	}
	c.Exts = pcGenExts(r, r.Chance(1, 12))
	nl := r.Range(0, 3)
	if !answer {
		nl = r.Range(1, 3)
	}
	for i := 0; i < nl; i++ {
		k := r.Range(1, 2)
		table := c.Video
		if k == 1 {
			table = c.Audio
		}
		t := pcTrans{Kind: k, Dir: 1, Prefs: pcGenPrefs(r, table)}
		// a sending transceiver's track takes its kind from the first registered
		// codec's mime prefix, case-sensitively (TrackLocalStaticSample.Kind)
		if len(table) > 0 && strings.HasPrefix(table[0].Mime, pcKindName(k)+"/") && r.Chance(1, 3) {
			t.Dir = r.Range(2, 3)
		}
		c.Locals = append(c.Locals, t)
	}
	if answer {
		remap := r.Chance(1, 2)
		ns := r.Range(1, 3)
		for i := 0; i < ns; i++ {
			k := r.Range(1, 2)
			table := c.Video
			if k == 1 {
				table = c.Audio
			}
			s := rsec{Kind: pcKindName(k), Codecs: genOffer(r, pcKindName(k), table, remap)}
			// a well-formed offer lists a payload type once (clashing payload types
			// are exercised on the MediaEngine directly in C15's engine suite)
			seenPT := map[uint8]bool{}
			uniq := s.Codecs[:0]
			for _, oc := range s.Codecs {
				if !seenPT[oc.PT] {
					seenPT[oc.PT] = true
					uniq = append(uniq, oc)
				}
			}
			s.Codecs = uniq
			if len(s.Codecs) == 0 { // an m= line needs a format; "0" would mean static PCMU
				s.Codecs = []rcodec{{Name: "unknown-codec", Clock: 90000, PT: 126}}
			}
			s.Exts = pcGenRemoteExts(r, c.Exts, k)
			c.Remote = append(c.Remote, s)
		}
	}
	return c
}

func pcShrink(c pcCase) []pcCase {
	var out []pcCase
	cp := func() pcCase {
		x := c
		x.Video = append([]cdc{}, c.Video...)
		x.Audio = append([]cdc{}, c.Audio...)
		x.Exts = append([]pcExtReg{}, c.Exts...)
		x.Locals = make([]pcTrans, len(c.Locals))
		for i, l := range c.Locals {
			x.Locals[i] = pcTrans{Kind: l.Kind, Dir: l.Dir, Prefs: append([]cdc{}, l.Prefs...)}
		}
		x.Remote = make([]rsec, len(c.Remote))
		for i, s := range c.Remote {
			x.Remote[i] = rsec{Kind: s.Kind, Codecs: append([]rcodec{}, s.Codecs...), Exts: append([]rext{}, s.Exts...)}
		}
		return x
	}
	for i := range c.Remote {
		if len(c.Remote) > 1 {
			x := cp()
			x.Remote = append(x.Remote[:i], x.Remote[i+1:]...)
			out = append(out, x)
		}
		for k := range c.Remote[i].Codecs {
			if len(c.Remote[i].Codecs) < 2 {
				break // an m= line keeps at least one format
			}
			x := cp()
			x.Remote[i].Codecs = append(x.Remote[i].Codecs[:k], x.Remote[i].Codecs[k+1:]...)
			out = append(out, x)
		}
		for k := range c.Remote[i].Exts {
			x := cp()
			x.Remote[i].Exts = append(x.Remote[i].Exts[:k], x.Remote[i].Exts[k+1:]...)
			out = append(out, x)
		}
		for k := range c.Remote[i].Codecs {
			if len(c.Remote[i].Codecs[k].FB) > 0 {
				x := cp()
				x.Remote[i].Codecs[k].FB = nil
				out = append(out, x)
			}
		}
	}
	for i := range c.Locals {
		x := cp()
		x.Locals = append(x.Locals[:i], x.Locals[i+1:]...)
		out = append(out, x)
		for k := range c.Locals[i].Prefs {
			y := cp()
			y.Locals[i].Prefs = append(y.Locals[i].Prefs[:k], y.Locals[i].Prefs[k+1:]...)
			out = append(out, y)
		}
		if c.Locals[i].Dir != 1 {
			y := cp()
			y.Locals[i].Dir = 1
			out = append(out, y)
		}
	}
	for i := range c.Exts {
		x := cp()
		x.Exts = append(x.Exts[:i], x.Exts[i+1:]...)
		out = append(out, x)
	}
	for i := range c.Video {
		x := cp()
		x.Video = append(x.Video[:i], x.Video[i+1:]...)
		out = append(out, x)
	}
	for i := range c.Audio {
		x := cp()
		x.Audio = append(x.Audio[:i], x.Audio[i+1:]...)
		out = append(out, x)
	}
	for i := range c.Video {
		if len(c.Video[i].FB) > 0 {
			x := cp()
			x.Video[i].FB = nil
			out = append(out, x)
		}
	}
	return out
}
