//go:build verif_codec && verif_pc

package main

import (
	"errors"
	"fmt"
	"sort"
	"strconv"
	"strings"
	"sync"

	"github.com/pion/interceptor"
	"github.com/pion/sdp/v3"
	"github.com/pion/webrtc/v4"
)

// PeerConnection scenarios shared by C10 and C16: a first offer, or a history
// of answered remote offers (mixed directions, local transceivers added before
// and between the offers, so that later offers meet transceivers that already
// have a mid), in signalling-only mode.

type pcExtReg struct {
	URI  string `json:"uri"`
	Kind int    `json:"kind"` // 1 audio, 2 video
	Dirs []int  `json:"dirs"` // 1 sendonly, 2 recvonly; empty = both
}

type pcTrans struct {
	Kind  int   `json:"kind"`
	Dir   int   `json:"dir"` // 1 recvonly, 2 sendrecv, 3 sendonly
	Prefs []cdc `json:"prefs"`
}

// an earlier exchange: SetRemoteDescription(offer Remote), CreateAnswer,
// SetLocalDescription(answer); then Locals are added
type pcRound struct {
	Remote []rsec    `json:"remote"`
	Locals []pcTrans `json:"locals,omitempty"`
}

type pcCase struct {
	Video  []cdc      `json:"video"`
	Audio  []cdc      `json:"audio"`
	Multi  bool       `json:"multi"`
	Exts   []pcExtReg `json:"exts"`
	Locals []pcTrans  `json:"locals"`        // added first
	Pre    []pcRound  `json:"pre,omitempty"` // earlier exchanges (answer cases only)
	Answer bool       `json:"answer"`        // false: CreateOffer; true: answer Remote
	Remote []rsec     `json:"remote"`
}

type pcLine struct{ Key, Val string }

type pcSection struct {
	Kind     string
	Rejected bool
	Formats  []string
	Lines    []pcLine // rtpmap / fmtp / rtcp-fb, in order
	Exts     []rext
}

// one SetRemoteDescription(offer) / CreateAnswer / SetLocalDescription(answer)
type pcExchange struct {
	Offer    []rsec
	Outcome  string // ok | srd:<class> | create:<class>
	Sections []pcSection
	Trans    []int // per offered section: position in GetTransceivers() of the transceiver that has its mid after SetRemoteDescription (-1: none)
	Local    []int // per offered section: index into pcResult.Added of that transceiver, -1 = SetRemoteDescription created it (now or earlier)
}

type pcResult struct {
	Added     []pcTrans   // the transceivers AddTransceiverFromKind returned, in order
	LocalObs  [][][2]bool // per group of local additions (first, then after each earlier exchange): (add failed, preferences refused)
	Exchanges []pcExchange
	Reached   bool        // the last step (CreateOffer / the last exchange) was reached
	Outcome   string      // CreateOffer cases: ok | create:<class>
	Sections  []pcSection // CreateOffer cases
	Setup     string
}

var pcOnce sync.Once

func pcKindName(k int) string {
	if k == 1 {
		return "audio"
	}
	return "video"
}

func pcDirection(d int) webrtc.RTPTransceiverDirection {
	switch d {
	case 2:
		return webrtc.RTPTransceiverDirectionSendrecv
	case 3:
		return webrtc.RTPTransceiverDirectionSendonly
	}
	return webrtc.RTPTransceiverDirectionRecvonly
}

// direction attribute of an offered section: 0 (absent in the case) = sendrecv
func pcOfferDir(d int) string {
	switch d {
	case 1:
		return "recvonly"
	case 3:
		return "sendonly"
	case 4:
		return "inactive"
	}
	return "sendrecv"
}

const pcFingerprint = "a=fingerprint:sha-256 0F:74:31:25:CB:A2:13:EC:28:6F:6D:2C:61:FF:5D:C2:BC:B9:DB:3D:98:14:8D:1A:BB:EA:33:0C:A4:60:A8:8E\r\n"

// pcOfferSDP renders a remote offer: one section per rsec, mid = index
func pcOfferSDP(secs []rsec, version int) string {
	var b strings.Builder
	fmt.Fprintf(&b, "v=0\r\no=- 4215775240449105457 %d IN IP4 127.0.0.1\r\ns=-\r\nt=0 0\r\n", version)
	b.WriteString(pcFingerprint)
	mids := make([]string, len(secs))
	for i := range secs {
		mids[i] = strconv.Itoa(i)
	}
	b.WriteString("a=group:BUNDLE " + strings.Join(mids, " ") + "\r\n")
	for i, s := range secs {
		md := s.media()
		fmt.Fprintf(&b, "m=%s 9 UDP/TLS/RTP/SAVPF %s\r\nc=IN IP4 0.0.0.0\r\na=setup:actpass\r\na=mid:%d\r\n", s.Kind, strings.Join(md.MediaName.Formats, " "), i)
		b.WriteString("a=ice-ufrag:remoteufrag\r\na=ice-pwd:remotepasswordremotepassword\r\na=rtcp-mux\r\na=" + pcOfferDir(s.Dir) + "\r\n")
		for _, a := range md.Attributes {
			b.WriteString("a=" + a.Key + ":" + a.Value + "\r\n")
		}
	}
	return b.String()
}

func pcParseSections(text string) ([]pcSection, error) {
	var d sdp.SessionDescription
	if err := d.Unmarshal([]byte(text)); err != nil {
		return nil, err
	}
	var out []pcSection
	for _, m := range d.MediaDescriptions {
		if m.MediaName.Media != "audio" && m.MediaName.Media != "video" {
			continue
		}
		s := pcSection{Kind: m.MediaName.Media, Formats: append([]string{}, m.MediaName.Formats...)}
		for _, a := range m.Attributes {
			switch a.Key {
			case "rtpmap", "fmtp", "rtcp-fb":
				s.Lines = append(s.Lines, pcLine{a.Key, a.Value})
			case "extmap":
				f := strings.Fields(a.Value)
				if len(f) >= 2 {
					id, _ := strconv.Atoi(strings.Split(f[0], "/")[0])
					s.Exts = append(s.Exts, rext{ID: id, URI: f[1]})
				}
			}
		}
		s.Rejected = m.MediaName.Port.Value == 0 && len(s.Lines) == 0
		out = append(out, s)
	}
	return out, nil
}

func pcErrClass(err error) string {
	var ne *strconv.NumError
	switch {
	case errors.Is(err, webrtc.ErrCodecAlreadyRegistered):
		return "codec-already-registered"
	case errors.As(err, &ne):
		return "parse-apt"
	case errors.Is(err, webrtc.ErrSenderWithNoCodecs):
		return "sender-with-no-codecs"
	}
	if strings.Contains(err.Error(), "excessive retries") {
		return "excessive-retries"
	}
	return "other:" + err.Error()
}

type pcRunner struct {
	pc    *webrtc.PeerConnection
	added []*webrtc.RTPTransceiver
	res   *pcResult
}

// AddTransceiverFromKind + SetCodecPreferences for a group of locals
func (p *pcRunner) addLocals(ls []pcTrans) bool {
	obs := [][2]bool{}
	for _, l := range ls {
		t, err := p.pc.AddTransceiverFromKind(kindType(l.Kind), webrtc.RTPTransceiverInit{Direction: pcDirection(l.Dir)})
		if errors.Is(err, webrtc.ErrNoCodecsAvailable) {
			obs = append(obs, [2]bool{true, false})
			continue
		}
		if err != nil {
			p.res.Setup = "add-transceiver: " + err.Error()
			return false
		}
		p.added = append(p.added, t)
		p.res.Added = append(p.res.Added, l)
		obs = append(obs, [2]bool{false, t.SetCodecPreferences(paramsOf(l.Prefs)) != nil})
	}
	p.res.LocalObs = append(p.res.LocalObs, obs)
	return true
}

// one exchange; false = the history ends here
func (p *pcRunner) exchange(offer []rsec, version int) bool {
	ex := pcExchange{Offer: offer, Outcome: "ok"}
	defer func() { p.res.Exchanges = append(p.res.Exchanges, ex) }()
	if err := p.pc.SetRemoteDescription(webrtc.SessionDescription{Type: webrtc.SDPTypeOffer, SDP: pcOfferSDP(offer, version)}); err != nil {
		ex.Outcome = "srd:" + pcErrClass(err)
		return false
	}
	drain(p.pc)
	trs := p.pc.GetTransceivers()
	for i := range offer {
		ti, li := -1, -1
		for j, t := range trs {
			if t.Mid() == strconv.Itoa(i) {
				ti = j
				for a, at := range p.added {
					if at == t {
						li = a
					}
				}
				break
			}
		}
		ex.Trans = append(ex.Trans, ti)
		ex.Local = append(ex.Local, li)
	}
	ans, err := p.pc.CreateAnswer(nil)
	if err != nil {
		ex.Outcome = "create:" + pcErrClass(err)
		return false
	}
	secs, err := pcParseSections(ans.SDP)
	if err != nil {
		ex.Outcome = "unparsable:" + err.Error()
		return false
	}
	ex.Sections = secs
	// SetLocalDescription(answer) changes the signalling state and the current
	// directions before it starts the senders; a sender that cannot start (its
	// track's codec has no payloader, or is not among the negotiated ones) makes
	// it return that error afterwards, which does not concern the sections
	if err := p.pc.SetLocalDescription(ans); err != nil &&
		!errors.Is(err, webrtc.ErrNoPayloaderForCodec) && !errors.Is(err, webrtc.ErrUnsupportedCodec) {
		p.res.Setup = "set-local-answer: " + err.Error()
		return false
	}
	drain(p.pc)
	return true
}

func pcRun(c pcCase) pcResult {
	pcOnce.Do(func() { signalOnly(true) })
	res := pcResult{Outcome: "ok"}
	me := &webrtc.MediaEngine{}
	for _, x := range c.Video {
		_ = me.RegisterCodec(x.params(), webrtc.RTPCodecTypeVideo)
	}
	for _, x := range c.Audio {
		_ = me.RegisterCodec(x.params(), webrtc.RTPCodecTypeAudio)
	}
	for _, e := range c.Exts {
		var dirs []webrtc.RTPTransceiverDirection
		for _, d := range e.Dirs {
			if d == 1 {
				dirs = append(dirs, webrtc.RTPTransceiverDirectionSendonly)
			} else {
				dirs = append(dirs, webrtc.RTPTransceiverDirectionRecvonly)
			}
		}
		if err := me.RegisterHeaderExtension(webrtc.RTPHeaderExtensionCapability{URI: e.URI}, kindType(e.Kind), dirs...); err != nil {
			res.Setup = "register-ext: " + err.Error()
			return res
		}
	}
	api := newCodecAPI(me, !c.Multi)
	pc, err := api.NewPeerConnection(webrtc.Configuration{})
	if err != nil {
		panic(err)
	}
	defer func() { _ = pc.Close() }()
	run := &pcRunner{pc: pc, res: &res}
	if !run.addLocals(c.Locals) {
		return res
	}
	if !c.Answer {
		res.Reached = true
		off, err := pc.CreateOffer(nil)
		if err != nil {
			res.Outcome = "create:" + pcErrClass(err)
			return res
		}
		secs, err := pcParseSections(off.SDP)
		if err != nil {
			res.Outcome = "unparsable:" + err.Error()
			return res
		}
		res.Sections = secs
		return res
	}
	for k, round := range c.Pre {
		if !run.exchange(round.Remote, k+2) {
			res.LocalObs = append(res.LocalObs, [][2]bool{})
			return res
		}
		if !run.addLocals(round.Locals) {
			return res
		}
	}
	res.Reached = true
	run.exchange(c.Remote, len(c.Pre)+2)
	return res
}

// newCodecAPI is newQuietAPI with the multiple-codec switch
func newCodecAPI(me *webrtc.MediaEngine, disableMulti bool) *webrtc.API {
	se := webrtc.SettingEngine{}
	se.SetICEMulticastDNSMode(0 + 1)
	se.SetNetworkTypes([]webrtc.NetworkType{webrtc.NetworkTypeUDP4})
	se.SetInterfaceFilter(func(string) bool { return false })
	se.SetIncludeLoopbackCandidate(false)
	se.DisableMediaEngineMultipleCodecs(disableMulti)
	// an empty registry: NewAPI would otherwise register the default interceptors,
	// which add feedback and header extensions to the engine
	return webrtc.NewAPI(webrtc.WithSettingEngine(se), webrtc.WithMediaEngine(me), webrtc.WithInterceptorRegistry(&interceptor.Registry{}))
}

type pcGroup struct {
	PT    string
	Name  string
	Lines []pcLine
}

func pcGroups(s pcSection) []pcGroup {
	var gs []pcGroup
	for _, l := range s.Lines {
		if l.Key == "rtpmap" {
			f := strings.SplitN(l.Val, " ", 2)
			name := ""
			if len(f) == 2 {
				// <name>/<clock>[/<channels>]: text up to the first slash
				name = strings.Split(f[1], "/")[0]
			}
			gs = append(gs, pcGroup{PT: f[0], Name: name})
		}
		if len(gs) > 0 {
			gs[len(gs)-1].Lines = append(gs[len(gs)-1].Lines, l)
		}
	}
	return gs
}

// observation of one section; canon = the section's transceiver was created
// from the remote description (its RTX entries come in Go map order)
func pcObsSection(s pcSection, canon bool) V {
	formats := s.Formats
	lines := s.Lines
	if canon {
		gs := pcGroups(s)
		same := len(gs) == len(formats)
		for i := 0; same && i < len(gs); i++ {
			same = gs[i].PT == formats[i]
		}
		if same {
			var plain, rtx []pcGroup
			for _, g := range gs {
				if strings.EqualFold(g.Name, "rtx") {
					rtx = append(rtx, g)
				} else {
					plain = append(plain, g)
				}
			}
			sort.SliceStable(rtx, func(i, j int) bool {
				a, _ := strconv.Atoi(rtx[i].PT)
				b, _ := strconv.Atoi(rtx[j].PT)
				return a < b
			})
			formats, lines = nil, nil
			for _, g := range append(plain, rtx...) {
				formats = append(formats, g.PT)
				lines = append(lines, g.Lines...)
			}
		}
	}
	var fv, lv, ev VL
	if !s.Rejected {
		for _, f := range formats {
			n, err := strconv.Atoi(f)
			if err != nil {
				n = -1
			}
			fv = append(fv, VZ(int64(n)))
		}
	}
	for _, l := range lines {
		lv = append(lv, VL{VS(l.Key), vstr(l.Val)})
	}
	exts := append([]rext{}, s.Exts...)
	sort.Slice(exts, func(i, j int) bool {
		if exts[i].ID != exts[j].ID {
			return exts[i].ID < exts[j].ID
		}
		return exts[i].URI < exts[j].URI
	})
	for _, e := range exts {
		ev = append(ev, VL{VZ(int64(e.ID)), vstr(e.URI)})
	}
	if fv == nil {
		fv = VL{}
	}
	if lv == nil {
		lv = VL{}
	}
	if ev == nil {
		ev = VL{}
	}
	return VL{VB(s.Rejected), fv, lv, ev}
}

func pcObsLocals(l [][2]bool) V {
	out := VL{}
	for _, o := range l {
		out = append(out, VL{VB(o[0]), VB(o[1])})
	}
	return out
}

func pcObsExchange(ex pcExchange) V {
	if strings.HasPrefix(ex.Outcome, "srd:") {
		return VL{VS(ex.Outcome)}
	}
	idx := VL{}
	for _, t := range ex.Trans {
		idx = append(idx, VZ(int64(t)))
	}
	if ex.Outcome != "ok" {
		return VL{idx, VS(ex.Outcome)}
	}
	secs := make(VL, len(ex.Sections))
	for i, s := range ex.Sections {
		secs[i] = pcObsSection(s, i < len(ex.Local) && ex.Local[i] < 0)
	}
	return VL{idx, VS("ok"), secs}
}

func pcObs(c pcCase, r pcResult) V {
	first := VL{}
	if len(r.LocalObs) > 0 {
		first = pcObsLocals(r.LocalObs[0]).(VL)
	}
	rounds := VL{}
	final := V(VL{VS("not-reached")})
	if !c.Answer {
		if r.Outcome != "ok" {
			final = VL{VS(r.Outcome)}
		} else {
			secs := make(VL, len(r.Sections))
			for i, s := range r.Sections {
				secs[i] = pcObsSection(s, false)
			}
			final = VL{VS("ok"), secs}
		}
		return VL{first, rounds, final}
	}
	for k, ex := range r.Exchanges {
		if k == len(c.Pre) {
			final = pcObsExchange(ex)
			break
		}
		locals := V(VL{})
		if k+1 < len(r.LocalObs) {
			locals = pcObsLocals(r.LocalObs[k+1])
		}
		rounds = append(rounds, VL{pcObsExchange(ex), locals})
	}
	return VL{first, rounds, final}
}

func pcCoqLocals(ls []pcTrans) string {
	out := make([]string, len(ls))
	for i, l := range ls {
		out[i] = fmt.Sprintf("(%d, %d, %s)", l.Kind, l.Dir, coqCodecs(l.Prefs))
	}
	return CoqList(out)
}

func pcCoqOffer(secs []rsec) (string, bool) {
	rs := make([]string, len(secs))
	for i, s := range secs {
		got, err := webrtc.VerifCodecsFromMediaDescription(s.media())
		if err != nil || !cdcsASCII(cdcsOf(got)) || kindZ(s.Kind) == 0 {
			return "", false
		}
		es := make([]string, len(s.Exts))
		for j, e := range s.Exts {
			es[j] = fmt.Sprintf("(%d, %s)", e.ID, coqStr(e.URI))
		}
		d := s.Dir
		if d == 0 {
			d = 2
		}
		rs[i] = fmt.Sprintf("(%d, %d, %s, %s)", kindZ(s.Kind), d, coqCodecs(cdcsOf(got)), CoqList(es))
	}
	return CoqList(rs), true
}

func pcCoq(c pcCase) string {
	if !cdcsASCII(c.Video) || !cdcsASCII(c.Audio) {
		return ""
	}
	groups := [][]pcTrans{c.Locals}
	for _, round := range c.Pre {
		groups = append(groups, round.Locals)
	}
	for _, g := range groups {
		for _, l := range g {
			if !cdcsASCII(l.Prefs) {
				return ""
			}
			// a sending transceiver's track takes its kind from the first codec's mime
			// prefix, case-sensitively: a registered table that starts with another
			// letter case is outside the model
			if l.Dir != 1 {
				table := c.Video
				if l.Kind == 1 {
					table = c.Audio
				}
				if len(table) > 0 && !strings.HasPrefix(table[0].Mime, pcKindName(l.Kind)+"/") {
					return ""
				}
			}
		}
	}
	xs := make([]string, len(c.Exts))
	for i, e := range c.Exts {
		ds := make([]string, len(e.Dirs))
		for j, d := range e.Dirs {
			ds[j] = strconv.Itoa(d)
		}
		xs[i] = fmt.Sprintf("(%s, %d, %s)", coqStr(e.URI), e.Kind, CoqList(ds))
	}
	rounds := make([]string, len(c.Pre))
	for i, round := range c.Pre {
		o, ok := pcCoqOffer(round.Remote)
		if !ok {
			return ""
		}
		rounds[i] = fmt.Sprintf("(%s, %s)", o, pcCoqLocals(round.Locals))
	}
	remote := "None"
	if c.Answer {
		o, ok := pcCoqOffer(c.Remote)
		if !ok {
			return ""
		}
		remote = "(Some " + o + ")"
	}
	return fmt.Sprintf("(%s, %s, %s, %s, %s, %s, %s)", coqCodecs(c.Video), coqCodecs(c.Audio), CoqBool(c.Multi),
		CoqList(xs), pcCoqLocals(c.Locals), CoqList(rounds), remote)
}

// ---------- generation ----------

var pcURIs = []string{
	"urn:ietf:params:rtp-hdrext:sdes:mid",
	"urn:ietf:params:rtp-hdrext:sdes:rtp-stream-id",
	"urn:ietf:params:rtp-hdrext:sdes:repaired-rtp-stream-id",
	"http://www.ietf.org/id/draft-holmer-rmcat-transport-wide-cc-extensions-01",
	"urn:ietf:params:rtp-hdrext:ssrc-audio-level",
	"http://www.webrtc.org/experiments/rtp-hdrext/abs-send-time",
	"urn:ietf:params:rtp-hdrext:toffset",
	"urn:3gpp:video-orientation",
}

func pcGenExts(r *Rand, many bool) []pcExtReg {
	var out []pcExtReg
	n := r.Range(0, 5)
	main := r.Range(1, 2)
	if many {
		n = r.Range(13, 20) // around the 14 one-byte ids, mostly for one kind
	}
	for i := 0; i < n; i++ {
		uri := Pick(r, pcURIs)
		if many || r.Chance(1, 6) {
			uri = fmt.Sprintf("urn:x:ext:%d", r.Intn(24))
		}
		e := pcExtReg{URI: uri, Kind: r.Range(1, 2)}
		if many {
			uri = fmt.Sprintf("urn:x:ext:%d", i)
			e = pcExtReg{URI: uri, Kind: main}
			if r.Chance(1, 8) {
				e.Kind = 3 - main
			}
		}
		switch r.Intn(6) {
		case 0:
			e.Dirs = []int{1}
		case 1:
			e.Dirs = []int{2}
		case 2:
			e.Dirs = []int{2, 1}
		}
		out = append(out, e)
		if r.Chance(1, 3) { // same URI for the other kind too
			out = append(out, pcExtReg{URI: uri, Kind: 3 - e.Kind, Dirs: e.Dirs})
		}
	}
	return out
}

// preferences drawn from the registered table: same codecs, payload type kept,
// zeroed, or changed; sometimes RTX with/without its primary; sometimes two
// entries under one payload type
func pcGenPrefs(r *Rand, table []cdc) []cdc {
	if len(table) == 0 || r.Chance(2, 5) {
		return nil
	}
	var out []cdc
	for _, c := range table {
		if r.Chance(1, 3) {
			continue
		}
		p := c
		switch r.Intn(6) {
		case 0:
			p.PT = 0
		case 1:
			p.PT = uint8(r.Range(96, 127))
		}
		if r.Chance(1, 8) {
			p.FB = genFB(r)
		}
		if r.Chance(1, 10) {
			p.Mime = flipCase(r, p.Mime)
		}
		out = append(out, p)
	}
	if len(out) > 1 && r.Chance(1, 10) {
		out[len(out)-1].PT = out[0].PT
	}
	if len(out) > 1 && r.Chance(1, 5) {
		i, j := r.Intn(len(out)), r.Intn(len(out))
		out[i], out[j] = out[j], out[i]
	}
	return out
}

func pcGenRemoteExts(r *Rand, regs []pcExtReg, kind int) []rext {
	var out []rext
	usedID := map[int]bool{}
	for _, e := range regs {
		if r.Chance(1, 3) {
			continue
		}
		if e.Kind != kind && r.Chance(2, 3) {
			continue
		}
		dup := false
		for _, o := range out {
			dup = dup || o.URI == e.URI
		}
		if dup {
			continue
		}
		id := 0
		for tries := 0; tries < 40 && (id == 0 || usedID[id]); tries++ {
			switch r.Intn(8) {
			case 0:
				id = r.Range(15, 40)
			default:
				id = r.Range(1, 14)
			}
		}
		if usedID[id] {
			continue
		}
		usedID[id] = true
		out = append(out, rext{ID: id, URI: e.URI})
	}
	if r.Chance(1, 4) { // an extension we never registered
		id := r.Range(1, 14)
		if !usedID[id] {
			out = append(out, rext{ID: id, URI: "urn:x:unknown"})
		}
	}
	return out
}

func pcGenLocals(r *Rand, c *pcCase, lo, hi int) []pcTrans {
	var out []pcTrans
	for n := r.Range(lo, hi); n > 0; n-- {
		k := r.Range(1, 2)
		table := c.Video
		if k == 1 {
			table = c.Audio
		}
		t := pcTrans{Kind: k, Dir: 1, Prefs: pcGenPrefs(r, table)}
		// a sending transceiver's track takes its kind from the first registered
		// codec's mime prefix, case-sensitively (TrackLocalStaticSample.Kind)
		if len(table) > 0 && strings.HasPrefix(table[0].Mime, pcKindName(k)+"/") && r.Chance(1, 3) {
			t.Dir = r.Range(2, 3)
		}
		out = append(out, t)
	}
	return out
}

func pcGenDir(r *Rand) int {
	switch r.Intn(10) {
	case 0, 1:
		return 1 // recvonly
	case 2, 3:
		return 3 // sendonly
	case 4:
		return 4 // inactive
	}
	return 2
}

func pcGenSection(r *Rand, c *pcCase, k int, remap bool) rsec {
	table := c.Video
	if k == 1 {
		table = c.Audio
	}
	s := rsec{Kind: pcKindName(k), Codecs: genOffer(r, pcKindName(k), table, remap), Dir: pcGenDir(r)}
	// a well-formed offer lists a payload type once (clashing payload types
	// are exercised on the MediaEngine directly in C15's engine suite)
	seenPT := map[uint8]bool{}
	uniq := s.Codecs[:0]
	for _, oc := range s.Codecs {
		if !seenPT[oc.PT] {
			seenPT[oc.PT] = true
			uniq = append(uniq, oc)
		}
	}
	s.Codecs = uniq
	if len(s.Codecs) == 0 { // an m= line needs a format; "0" would mean static PCMU
		s.Codecs = []rcodec{{Name: "unknown-codec", Clock: 90000, PT: 126}}
	}
	s.Exts = pcGenRemoteExts(r, c.Exts, k)
	return s
}

// the next offer of the same remote: the sections it already offered keep their
// mid and kind; usually their codecs too (sometimes fewer of them, sometimes a
// fresh list, possibly under other payload types), the direction may change;
// sometimes new sections follow
func pcGenReoffer(r *Rand, c *pcCase, prev []rsec, remap bool) []rsec {
	out := make([]rsec, len(prev))
	for i, s := range prev {
		n := rsec{Kind: s.Kind, Codecs: append([]rcodec{}, s.Codecs...), Exts: append([]rext{}, s.Exts...), Dir: s.Dir}
		switch r.Intn(8) {
		case 0:
			n = pcGenSection(r, c, kindZ(s.Kind), remap)
		case 1:
			if len(n.Codecs) > 1 {
				k := r.Intn(len(n.Codecs))
				n.Codecs = append(n.Codecs[:k], n.Codecs[k+1:]...)
			}
		case 2:
			n.Exts = pcGenRemoteExts(r, c.Exts, kindZ(s.Kind))
		}
		if r.Chance(1, 3) {
			n.Dir = pcGenDir(r)
		}
		out[i] = n
	}
	for n := r.Intn(3); n > 0 && len(out) < 4; n-- {
		out = append(out, pcGenSection(r, c, r.Range(1, 2), remap))
	}
	return out
}

func pcGen(r *Rand, answer bool) pcCase {
	c := pcCase{Multi: !r.Chance(1, 6), Answer: answer}
	if !r.Chance(1, 10) {
		c.Video = genLocalTable(r, "video", 4)
	}
	if !r.Chance(1, 6) {
		c.Audio = genLocalTable(r, "audio", 3)
	}
	c.Exts = pcGenExts(r, r.Chance(1, 12))
	if !answer {
		c.Locals = pcGenLocals(r, &c, 1, 3)
		return c
	}
	c.Locals = pcGenLocals(r, &c, 0, 3)
	remap := r.Chance(1, 2)
	var offer []rsec
	for n := r.Range(1, 3); n > 0; n-- {
		offer = append(offer, pcGenSection(r, &c, r.Range(1, 2), remap))
	}
	// earlier exchanges: the last offer then meets transceivers that already have
	// a mid (created from the earlier offers or matched to them) next to fresh ones
	rounds := 0
	switch r.Intn(5) {
	case 0, 1:
		rounds = 1
	case 2:
		rounds = 2
	}
	for i := 0; i < rounds; i++ {
		c.Pre = append(c.Pre, pcRound{Remote: offer, Locals: pcGenLocals(r, &c, 0, 2)})
		if r.Chance(1, 5) {
			remap = !remap
		}
		offer = pcGenReoffer(r, &c, offer, remap)
	}
	c.Remote = offer
	return c
}

func pcShrink(c pcCase) []pcCase {
	var out []pcCase
	cp := func() pcCase {
		x := c
		x.Video = append([]cdc{}, c.Video...)
		x.Audio = append([]cdc{}, c.Audio...)
		x.Exts = append([]pcExtReg{}, c.Exts...)
		x.Locals = make([]pcTrans, len(c.Locals))
		for i, l := range c.Locals {
			x.Locals[i] = pcTrans{Kind: l.Kind, Dir: l.Dir, Prefs: append([]cdc{}, l.Prefs...)}
		}
		cpSecs := func(in []rsec) []rsec {
			o := make([]rsec, len(in))
			for i, s := range in {
				o[i] = rsec{Kind: s.Kind, Codecs: append([]rcodec{}, s.Codecs...), Exts: append([]rext{}, s.Exts...), Dir: s.Dir}
			}
			return o
		}
		x.Remote = cpSecs(c.Remote)
		x.Pre = make([]pcRound, len(c.Pre))
		for i, p := range c.Pre {
			x.Pre[i] = pcRound{Remote: cpSecs(p.Remote)}
			for _, l := range p.Locals {
				x.Pre[i].Locals = append(x.Pre[i].Locals, pcTrans{Kind: l.Kind, Dir: l.Dir, Prefs: append([]cdc{}, l.Prefs...)})
			}
		}
		return x
	}
	// earlier exchanges: drop one, drop its locals, shorten its offer
	for i := range c.Pre {
		x := cp()
		x.Pre = append(x.Pre[:i], x.Pre[i+1:]...)
		out = append(out, x)
		for k := range c.Pre[i].Locals {
			y := cp()
			y.Pre[i].Locals = append(y.Pre[i].Locals[:k], y.Pre[i].Locals[k+1:]...)
			out = append(out, y)
			if len(c.Pre[i].Locals[k].Prefs) > 0 {
				z := cp()
				z.Pre[i].Locals[k].Prefs = nil
				out = append(out, z)
			}
		}
		if n := len(c.Pre[i].Remote); n > 1 {
			y := cp()
			y.Pre[i].Remote = y.Pre[i].Remote[:n-1]
			out = append(out, y)
		}
		for j := range c.Pre[i].Remote {
			for k := range c.Pre[i].Remote[j].Codecs {
				if len(c.Pre[i].Remote[j].Codecs) < 2 {
					break
				}
				y := cp()
				y.Pre[i].Remote[j].Codecs = append(y.Pre[i].Remote[j].Codecs[:k], y.Pre[i].Remote[j].Codecs[k+1:]...)
				out = append(out, y)
			}
			if len(c.Pre[i].Remote[j].Exts) > 0 {
				y := cp()
				y.Pre[i].Remote[j].Exts = nil
				out = append(out, y)
			}
			if d := c.Pre[i].Remote[j].Dir; d != 0 && d != 2 {
				y := cp()
				y.Pre[i].Remote[j].Dir = 2
				out = append(out, y)
			}
		}
	}
	for i := range c.Remote {
		if d := c.Remote[i].Dir; d != 0 && d != 2 {
			x := cp()
			x.Remote[i].Dir = 2
			out = append(out, x)
		}
	}
	for i := range c.Remote {
		if len(c.Remote) > 1 {
			x := cp()
			x.Remote = append(x.Remote[:i], x.Remote[i+1:]...)
			out = append(out, x)
		}
		for k := range c.Remote[i].Codecs {
			if len(c.Remote[i].Codecs) < 2 {
				break // an m= line keeps at least one format
			}
			x := cp()
			x.Remote[i].Codecs = append(x.Remote[i].Codecs[:k], x.Remote[i].Codecs[k+1:]...)
			out = append(out, x)
		}
		for k := range c.Remote[i].Exts {
			x := cp()
			x.Remote[i].Exts = append(x.Remote[i].Exts[:k], x.Remote[i].Exts[k+1:]...)
			out = append(out, x)
		}
		for k := range c.Remote[i].Codecs {
			if len(c.Remote[i].Codecs[k].FB) > 0 {
				x := cp()
				x.Remote[i].Codecs[k].FB = nil
				out = append(out, x)
			}
		}
	}
	for i := range c.Locals {
		x := cp()
		x.Locals = append(x.Locals[:i], x.Locals[i+1:]...)
		out = append(out, x)
		for k := range c.Locals[i].Prefs {
			y := cp()
			y.Locals[i].Prefs = append(y.Locals[i].Prefs[:k], y.Locals[i].Prefs[k+1:]...)
			out = append(out, y)
		}
		if c.Locals[i].Dir != 1 {
			y := cp()
			y.Locals[i].Dir = 1
			out = append(out, y)
		}
	}
	for i := range c.Exts {
		x := cp()
		x.Exts = append(x.Exts[:i], x.Exts[i+1:]...)
		out = append(out, x)
	}
	for i := range c.Video {
		x := cp()
		x.Video = append(x.Video[:i], x.Video[i+1:]...)
		out = append(out, x)
	}
	for i := range c.Audio {
		x := cp()
		x.Audio = append(x.Audio[:i], x.Audio[i+1:]...)
		out = append(out, x)
	}
	for i := range c.Video {
		if len(c.Video[i].FB) > 0 {
			x := cp()
			x.Video[i].FB = nil
			out = append(out, x)
		}
	}
	return out
}
