//go:build verif_c30

package main

// C30 generators: an abstract session description (session attributes plus
// media sections with attributes in file order), a grammar-based generator of
// valid descriptions of the shapes browsers and pion produce, and the
// malformed stream (attribute-level and text-level mutations).

import (
	"fmt"
	"strconv"
	"strings"

	"github.com/pion/sdp/v3"
	"github.com/pion/webrtc/v4"
)

type c30Attr [2]string

type c30Media struct {
	Kind    string    `json:"kind"`
	Port    int       `json:"port"`
	Proto   string    `json:"proto"`
	Formats []string  `json:"fmts"`
	Attrs   []c30Attr `json:"attrs"`
}

type c30Desc struct {
	Session []c30Attr  `json:"session"`
	Media   []c30Media `json:"media"`
}

// ---------- rendering and parsing ----------

func c30AttrLine(a c30Attr) string {
	if a[1] == "" {
		return "a=" + a[0]
	}
	return "a=" + a[0] + ":" + a[1]
}

func (d c30Desc) Text() string {
	var b strings.Builder
	b.WriteString("v=0\r\no=- 4242 2 IN IP4 127.0.0.1\r\ns=-\r\nt=0 0\r\n")
	for _, a := range d.Session {
		b.WriteString(c30AttrLine(a) + "\r\n")
	}
	for _, m := range d.Media {
		proto := m.Proto
		if proto == "" {
			proto = "UDP/TLS/RTP/SAVPF"
		}
		fmt.Fprintf(&b, "m=%s %d %s %s\r\nc=IN IP4 0.0.0.0\r\n", m.Kind, m.Port, proto, strings.Join(m.Formats, " "))
		for _, a := range m.Attrs {
			b.WriteString(c30AttrLine(a) + "\r\n")
		}
	}
	return b.String()
}

// Struct builds the parsed form directly, without going through text (so the
// walkers also see values no parser would produce).
func (d c30Desc) Struct() *sdp.SessionDescription {
	s := &sdp.SessionDescription{}
	for _, a := range d.Session {
		s.Attributes = append(s.Attributes, sdp.Attribute{Key: a[0], Value: a[1]})
	}
	for _, m := range d.Media {
		md := &sdp.MediaDescription{MediaName: sdp.MediaName{
			Media: m.Kind, Port: sdp.RangedPort{Value: m.Port}, Protos: strings.Split(m.Proto, "/"),
			Formats: append([]string{}, m.Formats...),
		}}
		for _, a := range m.Attrs {
			md.Attributes = append(md.Attributes, sdp.Attribute{Key: a[0], Value: a[1]})
		}
		s.MediaDescriptions = append(s.MediaDescriptions, md)
	}
	return s
}

// c30Parse returns what the walkers get to see: the struct itself, or the
// result of pion/sdp parsing the rendered text (nil when the parser rejects it).
func c30Parse(d c30Desc, viaText bool) *sdp.SessionDescription {
	if !viaText {
		return d.Struct()
	}
	s := &sdp.SessionDescription{}
	if err := s.UnmarshalString(d.Text()); err != nil {
		return nil
	}
	return s
}

func c30Printable(s string) bool {
	for i := 0; i < len(s); i++ {
		if s[i] < 32 || s[i] > 126 {
			return false
		}
	}
	return true
}

// Gallina term of type Check.C30.desc_in for a parsed description ("" when it
// holds bytes that are not printable ASCII).  Two compressions keep the Coq
// side affordable (parsing string literals dominates its cost): attributes
// whose key no modelled walker looks at are left out (the models skip every
// other key, see Model/Walkers.v), and the value of an a=candidate line is
// replaced by what the external candidate parser made of it ("0" accepted,
// "1" discarded, "2" error) -- that parser enters the model as a function.
var c30RelevantKeys = map[string]bool{
	"mid": true, "recvonly": true, "inactive": true, "sendrecv": true, "sendonly": true, "ssrc": true, "ssrc-group": true,
	"msid": true, "rid": true, "simulcast": true, "fingerprint": true, "ice-ufrag": true, "ice-pwd": true, "candidate": true,
	"group": true,
}

func c30CoqAttrs(as []sdp.Attribute) (string, bool) {
	parts := []string{}
	for _, a := range as {
		if !c30RelevantKeys[a.Key] {
			continue
		}
		v := a.Value
		if a.Key == "candidate" {
			v = strconv.Itoa(webrtc.VerifC30ClassifyCandidate(a.Value))
		}
		if !c30Printable(v) {
			return "", false
		}
		parts = append(parts, "("+CoqString(a.Key)+", "+CoqString(v)+")")
	}
	return CoqList(parts), true
}

func c30CoqMedia(m *sdp.MediaDescription) (string, bool) {
	if !c30Printable(m.MediaName.Media) {
		return "", false
	}
	fm := make([]string, len(m.MediaName.Formats))
	for i, f := range m.MediaName.Formats {
		if !c30Printable(f) {
			return "", false
		}
		fm[i] = CoqString(f)
	}
	as, ok := c30CoqAttrs(m.Attributes)
	if !ok {
		return "", false
	}
	return "(" + CoqString(m.MediaName.Media) + ", " + CoqList(fm) + ", " + as + ")", true
}

func c30CoqDesc(s *sdp.SessionDescription) (string, bool) {
	sa, ok := c30CoqAttrs(s.Attributes)
	if !ok {
		return "", false
	}
	ms := make([]string, len(s.MediaDescriptions))
	for i, m := range s.MediaDescriptions {
		if ms[i], ok = c30CoqMedia(m); !ok {
			return "", false
		}
	}
	return "(" + sa + ", " + CoqList(ms) + ")", true
}

// c30AmbiguousRepair: trackDetailsFromSDP ranges over a Go map when it looks
// for the repair flow of an SSRC; with two repair SSRCs declared for the same
// base in one section the winner depends on map order.  Such sections are
// checked by the direct oracle only.
func c30AmbiguousRepair(s *sdp.SessionDescription) bool {
	for _, m := range s.MediaDescriptions {
		for _, sem := range []string{"FID", "FEC-FR"} {
			flows := map[uint64]uint64{}
			for _, a := range m.Attributes {
				if a.Key != "ssrc-group" {
					continue
				}
				f := strings.Split(a.Value, " ")
				if len(f) != 3 || f[0] != sem {
					continue
				}
				base, e1 := strconv.ParseUint(f[1], 10, 32)
				rep, e2 := strconv.ParseUint(f[2], 10, 32)
				if e1 != nil || e2 != nil {
					continue
				}
				flows[rep] = base
			}
			seen := map[uint64]bool{}
			for _, base := range flows {
				if seen[base] {
					return true
				}
				seen[base] = true
			}
		}
	}
	return false
}

// ---------- vocabulary ----------

var c30SSRCPool = []string{"1", "2", "3", "4", "1000", "2231627014", "632943048", "4294967295", "0"}
var c30HostileNum = []string{
	"4294967296", "-1", "+1", "0x10", "1e3", "01", "00000000000000000001",
	"99999999999999999999999999", "", "1_0", "18446744073709551616", "4294967295 ",
}
var c30Mids = []string{"0", "1", "2", "audio", "video", "data", "Audio", "VIDEO", "", "a b", "0 "}
var c30Kinds = []string{"audio", "video", "application", "Video", "AUDIO", "text", "image"}

var c30Candidates = []string{
	"1966762134 1 udp 2122260223 192.168.1.5 53987 typ host generation 0 ufrag ab12 network-id 1",
	"842163049 1 udp 1677729535 203.0.113.7 49152 typ srflx raddr 192.168.1.5 rport 53987",
	"1052353102 1 tcp 1518280447 192.168.1.5 9 typ host tcptype active",
	"3 1 udp 41885439 198.51.100.3 3478 typ relay raddr 203.0.113.7 rport 49152",
	"4 1 udp 2122260223 fe80::1 5000 typ host",
	"5 1 udp 2122260223 abcd1234.local 5000 typ host",
	"6 1 udp 2122260223 192.168.1.5 53987 typ bogus",            // unknown typ: discarded
	"7 1 sctp 2122260223 192.168.1.5 53987 typ host",            // unknown network: discarded
	"8 1 udp 2122260223 192.168.1.5 53987",                      // too short
	"9 1 udp x 192.168.1.5 53987 typ host",                      // bad priority
	"10 1 udp 2122260223 192.168.1.5 99999 typ host",            // bad port
	"11 256 udp 2122260223 192.168.1.5 1 typ host",              // bad component
	"12 1 udp 2122260223 192.168.1.5 1 typ srflx raddr",         // truncated raddr
	"13 1 udp 2122260223 192.168.1.5 1 typ srflx raddr 1.2.3.4", // no rport
	"",
	"candidate:14 1 udp 1 1.2.3.4 1 typ host",
	"15 1 udp 4294967296 1.2.3.4 1 typ host",
	"16 1 udp 1 1.2.3.4 1 typ host ufrag",
	"17 1 udp 1 1.2.3.4 1 typ host tcptype",
	"18 1 tcp 1 1.2.3.4 1 typ host tcptype bogus",
	"19 1 udp 1 [::1] 1 typ host",
	"20 1 udp 1 1.2.3.4 -1 typ host",
	"21 1 UDP 1 1.2.3.4 1 TYP HOST",
}

func c30Num(r *Rand) string {
	if r.Chance(1, 8) {
		return Pick(r, c30HostileNum)
	}
	return Pick(r, c30SSRCPool)
}

// ---------- valid descriptions (grammar) ----------

type c30Shape struct {
	PlanB      bool // mids audio/video/data and several tracks per section
	Bundle     bool
	SessionFP  bool
	SessionIce bool
	Answer     bool
}

func c30CommonMediaAttrs(r *Rand, sh c30Shape, mid string, first bool) []c30Attr {
	as := []c30Attr{}
	if !sh.SessionIce || r.Chance(1, 4) {
		as = append(as, c30Attr{"ice-ufrag", "ab12"}, c30Attr{"ice-pwd", "abcdefghijklmnopqrstuv"})
	}
	if !sh.SessionFP || r.Chance(1, 4) {
		as = append(as, c30Attr{"fingerprint", "sha-256 " + c30FP})
	}
	setup := "actpass"
	if sh.Answer {
		setup = Pick(r, []string{"active", "passive"})
	}
	as = append(as, c30Attr{"setup", setup}, c30Attr{"mid", mid})
	if first || !sh.Bundle {
		n := r.Intn(3)
		for i := 0; i < n; i++ {
			as = append(as, c30Attr{"candidate", c30Candidates[r.Intn(6)]})
		}
		if r.Chance(1, 3) {
			as = append(as, c30Attr{"end-of-candidates", ""})
		}
	}
	return as
}

const c30FP = "4A:AD:B9:B1:3F:82:18:3B:54:02:12:DF:3E:5D:49:6B:19:E5:7C:AB:4A:AD:B9:B1:3F:82:18:3B:54:02:12:DF"

func c30Extmaps(r *Rand, video bool) []c30Attr {
	all := []string{
		"1 urn:ietf:params:rtp-hdrext:sdes:mid",
		"2 urn:ietf:params:rtp-hdrext:sdes:rtp-stream-id",
		"3 urn:ietf:params:rtp-hdrext:sdes:repaired-rtp-stream-id",
		"4 http://www.ietf.org/id/draft-holmer-rmcat-transport-wide-cc-extensions-01",
		"5 http://www.webrtc.org/experiments/rtp-hdrext/abs-send-time",
		"6/sendonly urn:ietf:params:rtp-hdrext:ssrc-audio-level",
		"14 urn:ietf:params:rtp-hdrext:toffset",
	}
	as := []c30Attr{}
	for _, e := range all {
		if r.Chance(2, 3) {
			as = append(as, c30Attr{"extmap", e})
		}
	}
	return as
}

func c30SourceLines(ssrc, stream, track string, withMsidAttr bool) []c30Attr {
	as := []c30Attr{{"ssrc", ssrc + " cname:Zk8yUvPRdyPNqLgn"}}
	if withMsidAttr {
		as = append(as, c30Attr{"ssrc", ssrc + " msid:" + stream + " " + track})
	}
	return as
}

func c30ValidMedia(r *Rand, sh c30Shape, kind, mid string, first bool, ssrcBase int) c30Media {
	m := c30Media{Kind: kind, Port: 9, Proto: "UDP/TLS/RTP/SAVPF"}
	as := c30CommonMediaAttrs(r, sh, mid, first)
	if kind == "application" {
		m.Proto = "UDP/DTLS/SCTP"
		m.Formats = []string{"webrtc-datachannel"}
		as = append(as, c30Attr{"sctp-port", "5000"})
		if r.Bool() {
			as = append(as, c30Attr{"max-message-size", Pick(r, []string{"262144", "0", "4294967296", "x"})})
		}
		m.Attrs = as
		return m
	}
	dir := Pick(r, []string{"sendrecv", "sendrecv", "sendonly", "sendonly", "recvonly", "inactive"})
	as = append(as, c30Extmaps(r, kind == "video")...)
	as = append(as, c30Attr{dir, ""}, c30Attr{"rtcp-mux", ""})
	if r.Bool() {
		as = append(as, c30Attr{"rtcp-rsize", ""})
	}
	if kind == "audio" {
		m.Formats = []string{"111", "0", "8"}
		as = append(as, c30Attr{"rtpmap", "111 opus/48000/2"}, c30Attr{"rtcp-fb", "111 transport-cc"},
			c30Attr{"fmtp", "111 minptime=10;useinbandfec=1"}, c30Attr{"rtpmap", "0 PCMU/8000"}, c30Attr{"rtpmap", "8 PCMA/8000"})
	} else {
		m.Formats = []string{"96", "97", "102", "103", "116"}
		as = append(as,
			c30Attr{"rtpmap", "96 VP8/90000"}, c30Attr{"rtcp-fb", "96 goog-remb"}, c30Attr{"rtcp-fb", "96 transport-cc"},
			c30Attr{"rtcp-fb", "96 ccm fir"}, c30Attr{"rtcp-fb", "96 nack"}, c30Attr{"rtcp-fb", "96 nack pli"},
			c30Attr{"rtpmap", "97 rtx/90000"}, c30Attr{"fmtp", "97 apt=96"},
			c30Attr{"rtpmap", "102 H264/90000"}, c30Attr{"rtcp-fb", "102 nack pli"},
			c30Attr{"fmtp", "102 level-asymmetry-allowed=1;packetization-mode=1;profile-level-id=42001f"},
			c30Attr{"rtpmap", "103 rtx/90000"}, c30Attr{"fmtp", "103 apt=102"},
			c30Attr{"rtpmap", "116 ulpfec/90000"})
	}
	sends := dir == "sendrecv" || dir == "sendonly"
	stream, track := "stream"+mid, "track"+mid
	switch {
	case !sends:
	case sh.PlanB:
		n := r.Range(1, 3)
		for i := 0; i < n; i++ {
			base := strconv.Itoa(ssrcBase + 10*i)
			st, tr := fmt.Sprintf("s%d", r.Intn(2)), fmt.Sprintf("%s_t%d", mid, i)
			if kind == "video" && r.Bool() {
				rtx := strconv.Itoa(ssrcBase + 10*i + 1)
				as = append(as, c30Attr{"ssrc-group", "FID " + base + " " + rtx})
				as = append(as, c30SourceLines(base, st, tr, true)...)
				as = append(as, c30SourceLines(rtx, st, tr, true)...)
			} else {
				as = append(as, c30SourceLines(base, st, tr, true)...)
			}
		}
	case kind == "video" && r.Chance(1, 3):
		// simulcast: rids, no ssrc lines
		as = append(as, c30Attr{"msid", stream + " " + track})
		rids := []string{"hi", "mid", "lo"}[:r.Range(1, 3)]
		for _, id := range rids {
			v := id + " send"
			if r.Chance(1, 4) {
				v += " pt=96;max-width=1280"
			}
			as = append(as, c30Attr{"rid", v})
		}
		list := []string{}
		for i, id := range rids {
			if i > 0 && r.Chance(1, 3) {
				id = "~" + id
			}
			list = append(list, id)
		}
		as = append(as, c30Attr{"simulcast", "send " + strings.Join(list, ";")})
	default:
		base := strconv.Itoa(ssrcBase)
		msidAttr := r.Chance(3, 4)
		if msidAttr {
			as = append(as, c30Attr{"msid", stream + " " + track})
		}
		if kind == "video" && r.Chance(2, 3) {
			rtx := strconv.Itoa(ssrcBase + 1)
			as = append(as, c30Attr{"ssrc-group", "FID " + base + " " + rtx})
			if r.Chance(1, 3) {
				fec := strconv.Itoa(ssrcBase + 2)
				as = append(as, c30Attr{"ssrc-group", "FEC-FR " + base + " " + fec})
				as = append(as, c30SourceLines(base, stream, track, !msidAttr || r.Bool())...)
				as = append(as, c30SourceLines(rtx, stream, track, !msidAttr || r.Bool())...)
				as = append(as, c30SourceLines(fec, stream, track, !msidAttr || r.Bool())...)
			} else {
				as = append(as, c30SourceLines(base, stream, track, !msidAttr || r.Bool())...)
				as = append(as, c30SourceLines(rtx, stream, track, !msidAttr || r.Bool())...)
			}
		} else if r.Chance(5, 6) {
			as = append(as, c30SourceLines(base, stream, track, !msidAttr || r.Bool())...)
		}
	}
	m.Attrs = as
	return m
}

func c30GenValid(r *Rand) (c30Desc, c30Shape) {
	sh := c30Shape{PlanB: r.Chance(1, 3), Bundle: r.Chance(3, 4), SessionFP: r.Bool(), SessionIce: r.Chance(1, 3),
		Answer: false}
	var d c30Desc
	var kinds, mids []string
	if sh.PlanB {
		for _, k := range []string{"audio", "video"} {
			if r.Chance(3, 4) {
				kinds = append(kinds, k)
				mids = append(mids, k)
			}
		}
		if r.Chance(1, 3) {
			kinds = append(kinds, "application")
			mids = append(mids, "data")
		}
		if len(kinds) == 0 {
			kinds, mids = []string{"video"}, []string{"video"}
		}
	} else {
		n := r.Range(1, 4)
		for i := 0; i < n; i++ {
			k := Pick(r, []string{"audio", "video", "video", "application"})
			if k == "application" && contains(kinds, k) {
				k = "video"
			}
			kinds = append(kinds, k)
			mids = append(mids, strconv.Itoa(i))
		}
	}
	if sh.Bundle {
		d.Session = append(d.Session, c30Attr{"group", "BUNDLE " + strings.Join(mids, " ")})
	}
	if r.Chance(2, 3) {
		d.Session = append(d.Session, c30Attr{"extmap-allow-mixed", ""})
	}
	d.Session = append(d.Session, c30Attr{"msid-semantic", " WMS *"})
	if sh.SessionFP {
		d.Session = append(d.Session, c30Attr{"fingerprint", "sha-256 " + c30FP})
	}
	if sh.SessionIce {
		d.Session = append(d.Session, c30Attr{"ice-ufrag", "ab12"}, c30Attr{"ice-pwd", "abcdefghijklmnopqrstuv"})
	}
	if r.Chance(1, 6) {
		d.Session = append(d.Session, c30Attr{"ice-lite", ""})
	}
	if r.Chance(1, 3) {
		d.Session = append(d.Session, c30Attr{"ice-options", "trickle"})
	}
	for i := range kinds {
		d.Media = append(d.Media, c30ValidMedia(r, sh, kinds[i], mids[i], i == 0, 1000*(i+1)))
	}
	return d, sh
}

func contains(xs []string, x string) bool {
	for _, y := range xs {
		if y == x {
			return true
		}
	}
	return false
}

// ---------- malformed stream: attribute-level mutations ----------

func c30HostileValue(r *Rand, key string) string {
	switch key {
	case "ssrc":
		return Pick(r, []string{
			c30Num(r), c30Num(r) + " cname:x", c30Num(r) + " msid:s t", c30Num(r) + " msid:", c30Num(r) + " msid:s",
			c30Num(r) + "  msid:s t", " " + c30Num(r), c30Num(r) + " msid:s t u", c30Num(r) + " msid: ",
			c30Num(r) + " MSID:s t", c30Num(r) + " msid:s  ", "", " ", "  ",
		})
	case "ssrc-group":
		return Pick(r, []string{
			"FID " + c30Num(r) + " " + c30Num(r), "FID " + c30Num(r), "FID", "FID " + c30Num(r) + " " + c30Num(r) + " " + c30Num(r),
			"FEC-FR " + c30Num(r) + " " + c30Num(r), "FEC-FR " + c30Num(r), "SIM 1 2 3", "", " ", "FID  1 2", "fid 1 2",
			"FID 1 x", "FID x 1", " FID 1 2", "FEC-FR", "FEC 1 2",
		})
	case "msid":
		return Pick(r, []string{"s t", "s", "s t u", "", " ", " t", "s ", "- t", "s  t"})
	case "rid":
		return Pick(r, []string{"hi send", "lo send pt=96", "hi recv", "", " ", " hi", "~hi send", "hi", "mid send", "hi  send"})
	case "simulcast":
		return Pick(r, []string{
			"send hi;mid;lo", "send hi;~mid", "recv hi", "send ", " ", "x", "send ~", "send ;;", ";~hi", "~hi", "send ~hi;~hi",
			" send hi", "send hi recv lo", "send hi,mid;lo", "", "send", "~", ";", "send  ~hi", "  ",
		})
	case "mid":
		return Pick(r, c30Mids)
	case "group":
		return Pick(r, []string{
			"BUNDLE", "BUNDLE 0", "BUNDLE 0 1", "BUNDLE  0", "BUNDLE ", "LS 0 1", "xBUNDLEx 0", "bundle 0", "", " ",
			"BUNDLE audio video", "0 BUNDLE", "BUNDLE data",
		})
	case "fingerprint":
		return Pick(r, []string{"sha-256 " + c30FP, "sha-256", "sha-256 ", " " + c30FP, "a b c", "", " ", "sha-256  AA", "SHA-1 AA:BB", "x y"})
	case "ice-ufrag":
		return Pick(r, []string{"ab12", "", " ", "x", "ab12 "})
	case "ice-pwd":
		return Pick(r, []string{"abcdefghijklmnopqrstuv", "", "short"})
	case "candidate":
		return Pick(r, c30Candidates)
	case "rtpmap":
		return Pick(r, []string{"96 VP8/90000", "96", "x VP8/90000", "256 VP8/90000", "96 VP8", "96 /", "96 VP8/x", "96 opus/48000/x", "", "-1 a/1", "96 VP8/90000/2/3"})
	case "fmtp":
		return Pick(r, []string{"97 apt=96", "97 apt=", "97 apt=x", "97 apt=300", "97", "x apt=96", "97 apt=97", "", "97 ;;=", "97 apt=96;apt=102"})
	case "rtcp-fb":
		return Pick(r, []string{"96 nack", "96 nack pli", "96", "* nack", "x nack", "", "96  nack", "96 a b c"})
	case "extmap":
		return Pick(r, []string{
			"1 urn:ietf:params:rtp-hdrext:sdes:mid", "1", "x urn:a", "0 urn:a", "256 urn:a", "1/sendonly urn:a", "1/ urn:a", "1 ", "",
			"1 urn:a b c", "-1 urn:a", "1 %zz", "15 urn:ietf:params:rtp-hdrext:sdes:mid", "1/bogus urn:a", "99999999999999999999 urn:a",
		})
	case "setup":
		return Pick(r, []string{"active", "passive", "actpass", "holdconn", "", "x"})
	case "sctp-port", "max-message-size":
		return Pick(r, c30HostileNum)
	case "sctp-init":
		return Pick(r, []string{"", "!!!!", "AAAA", "AQ=="})
	}
	return Pick(r, []string{"", " ", "x", c30Num(r)})
}

var c30Keys = []string{
	"ssrc", "ssrc", "ssrc", "ssrc-group", "ssrc-group", "msid", "rid", "rid", "simulcast", "mid", "fingerprint", "ice-ufrag", "ice-pwd",
	"candidate", "rtpmap", "fmtp", "rtcp-fb", "extmap", "setup", "sendrecv", "sendonly", "recvonly", "inactive", "rtcp-mux",
	"bundle-only", "sctp-port", "max-message-size", "sctp-init", "end-of-candidates", "x-unknown",
}

func c30CloneDesc(d c30Desc) c30Desc {
	out := c30Desc{Session: append([]c30Attr{}, d.Session...)}
	for _, m := range d.Media {
		m2 := m
		m2.Formats = append([]string{}, m.Formats...)
		m2.Attrs = append([]c30Attr{}, m.Attrs...)
		out.Media = append(out.Media, m2)
	}
	return out
}

// one attribute-level mutation; returns its name
func c30MutateOnce(r *Rand, d *c30Desc) string {
	pickList := func() (*[]c30Attr, bool) {
		if len(d.Media) == 0 || r.Chance(1, 5) {
			return &d.Session, true
		}
		return &d.Media[r.Intn(len(d.Media))].Attrs, false
	}
	switch r.Intn(12) {
	case 0: // delete an attribute
		l, _ := pickList()
		if len(*l) > 0 {
			i := r.Intn(len(*l))
			*l = append((*l)[:i:i], (*l)[i+1:]...)
		}
		return "delete"
	case 1: // corrupt the value of an attribute, in the grammar of its key
		l, _ := pickList()
		if len(*l) > 0 {
			i := r.Intn(len(*l))
			(*l)[i][1] = c30HostileValue(r, (*l)[i][0])
		}
		return "hostile-value"
	case 2: // insert a new attribute
		l, sess := pickList()
		k := Pick(r, c30Keys)
		if sess {
			k = Pick(r, []string{"group", "fingerprint", "ice-ufrag", "ice-pwd", "ice-lite", "extmap", "msid-semantic", "ice-options"})
		}
		a := c30Attr{k, c30HostileValue(r, k)}
		if k == "sendrecv" || k == "sendonly" || k == "recvonly" || k == "inactive" || k == "rtcp-mux" || k == "bundle-only" || k == "ice-lite" {
			a[1] = ""
		}
		i := r.Intn(len(*l) + 1)
		*l = append((*l)[:i:i], append([]c30Attr{a}, (*l)[i:]...)...)
		return "insert"
	case 3: // duplicate an attribute
		l, _ := pickList()
		if len(*l) > 0 {
			i := r.Intn(len(*l))
			*l = append(*l, (*l)[i])
		}
		return "duplicate"
	case 4: // swap two attributes
		l, _ := pickList()
		if len(*l) > 1 {
			i, j := r.Intn(len(*l)), r.Intn(len(*l))
			(*l)[i], (*l)[j] = (*l)[j], (*l)[i]
		}
		return "swap"
	case 5: // swap the types (keys) of two attributes
		l, _ := pickList()
		if len(*l) > 1 {
			i, j := r.Intn(len(*l)), r.Intn(len(*l))
			(*l)[i][0], (*l)[j][0] = (*l)[j][0], (*l)[i][0]
		}
		return "swap-keys"
	case 6: // change media kind
		if len(d.Media) > 0 {
			d.Media[r.Intn(len(d.Media))].Kind = Pick(r, c30Kinds)
		}
		return "kind"
	case 7: // change formats
		if len(d.Media) > 0 {
			m := &d.Media[r.Intn(len(d.Media))]
			m.Formats = Pick(r, [][]string{{}, {"0"}, {"96", "96"}, {"256"}, {"x"}, {"-1"}, {"webrtc-datachannel"}, {"96", "97"}, {"111"}, {"127", "0"}})
		}
		return "formats"
	case 8: // hostile number inside a value: replace one decimal token
		l, _ := pickList()
		if len(*l) > 0 {
			i := r.Intn(len(*l))
			f := strings.Split((*l)[i][1], " ")
			j := r.Intn(len(f))
			f[j] = Pick(r, c30HostileNum)
			(*l)[i][1] = strings.Join(f, " ")
		}
		return "hostile-number"
	case 9: // drop / duplicate / reorder a media section
		if len(d.Media) > 0 {
			i := r.Intn(len(d.Media))
			switch r.Intn(3) {
			case 0:
				d.Media = append(d.Media[:i:i], d.Media[i+1:]...)
			case 1:
				d.Media = append(d.Media, d.Media[i])
			default:
				j := r.Intn(len(d.Media))
				d.Media[i], d.Media[j] = d.Media[j], d.Media[i]
			}
		}
		return "sections"
	case 10: // port / proto
		if len(d.Media) > 0 {
			m := &d.Media[r.Intn(len(d.Media))]
			m.Port = Pick(r, []int{0, 9, 65535, 1})
			if r.Bool() {
				m.Proto = Pick(r, []string{"RTP/AVP", "UDP/DTLS/SCTP", "DTLS/SCTP", "TCP/TLS/RTP/SAVPF", "UDP/TLS/RTP/SAVPF"})
			}
		}
		return "port-proto"
	default: // truncate the attribute list of a section
		l, _ := pickList()
		if len(*l) > 0 {
			*l = (*l)[:r.Intn(len(*l))]
		}
		return "truncate-attrs"
	}
}

func c30Mutate(r *Rand, d c30Desc, n int) (c30Desc, []string) {
	out := c30CloneDesc(d)
	var names []string
	for i := 0; i < n; i++ {
		names = append(names, c30MutateOnce(r, &out))
	}
	return out, names
}

// a description assembled from the hostile vocabulary alone (walker suites)
func c30GenWild(r *Rand) c30Desc {
	var d c30Desc
	for i, n := 0, r.Intn(4); i < n; i++ {
		k := Pick(r, []string{"group", "fingerprint", "ice-ufrag", "ice-pwd", "ice-lite", "x"})
		d.Session = append(d.Session, c30Attr{k, c30HostileValue(r, k)})
	}
	for i, n := 0, r.Intn(4); i < n; i++ {
		m := c30Media{Kind: Pick(r, c30Kinds), Port: 9, Proto: "UDP/TLS/RTP/SAVPF", Formats: []string{"96"}}
		for j, na := 0, r.Intn(12); j < na; j++ {
			k := Pick(r, c30Keys)
			v := c30HostileValue(r, k)
			switch k {
			case "sendrecv", "sendonly", "recvonly", "inactive", "rtcp-mux", "bundle-only", "end-of-candidates":
				v = ""
			}
			m.Attrs = append(m.Attrs, c30Attr{k, v})
		}
		if r.Chance(3, 4) && !strings.Contains(fmt.Sprint(m.Attrs), "[mid") {
			m.Attrs = append([]c30Attr{{"mid", Pick(r, c30Mids[:8])}}, m.Attrs...)
		}
		d.Media = append(d.Media, m)
	}
	return d
}

// walker suites use a short fingerprint value (the walkers only split it)
const c30ShortFP = "4A:AD:B9"

func c30ShortenFP(d c30Desc) c30Desc {
	fix := func(l []c30Attr) {
		for i := range l {
			if l[i][0] == "fingerprint" {
				l[i][1] = strings.ReplaceAll(l[i][1], c30FP, c30ShortFP)
			}
		}
	}
	fix(d.Session)
	for i := range d.Media {
		fix(d.Media[i].Attrs)
	}
	return d
}
