//go:build verif_c08

package main

// C08, suite "midsrd" (direct oracle only, outside the Coq model): local
// operations run WHILE SetRemoteDescription(offer) is in the middle.
//
// C08 quantifies over histories, i.e. sequences; the model (Model/AnswerDir.v)
// treats SetRemoteDescription as one step.  A local operation that runs on
// another goroutine between two statements of SetRemoteDescription is
// concurrency beyond that quantifier.  It is checked here against the
// property's own words because it is cheap and deterministic:
//
//   * SetRemoteDescription runs on its own goroutine and is parked at one of
//     its yield points pc.srd.* (described = before the section loop, published
//     = right after a new transceiver became visible and before it has a mid,
//     section = end of the k-th section, candidates = after the offer's ICE
//     details and candidates were applied, tail = just before it returns) or,
//     as in the tester's demonstration, inside ICETransport.AddRemoteCandidate
//     (the offer carries a candidate line and the harness holds the ICE
//     transport's lock through VerifC08LockICE);
//   * another goroutine then runs AddTrack / AddTransceiverFromKind /
//     RemoveTrack / Stop (no SetSender: its window is a known finding);
//   * the harness waits until that goroutine has returned or is blocked on a
//     lock (read from the Go runtime's goroutine wait state, not from timing;
//     blocked would be correct behaviour of a PeerConnection that serialises
//     the two - the code as it is does not, the operations return);
//   * SetRemoteDescription is released and returns; CreateAnswer.
//
// Oracle: every answered direction is a legal RFC 3264 6.1 response to the
// offered one (c08Legal, the same second transcription the sequential suites
// use).  An illegal section that the same operations produce sequentially
// (all of them before, or all of them after SetRemoteDescription) gets the
// sequential suites' signature (two of them are known findings); anything else
// is a finding of this suite.

import (
	"fmt"
	"os"
	"runtime"
	"strings"
	"time"

	"github.com/pion/webrtc/v4"
)

const (
	c08ParkDescribed  = 0
	c08ParkPublished  = 1
	c08ParkSection    = 2
	c08ParkCandidates = 3
	c08ParkTail       = 4
	c08ParkICELock    = 5
)

var c08ParkNames = []string{"described", "published", "section", "candidates", "tail", "icelock"}

type c08MidIn struct {
	Prep    []c08Lop `json:"prep,omitempty"`    // local operations before everything
	First   [][2]int `json:"first,omitempty"`   // a complete first exchange (binds the mids), none when empty
	Between []c08Lop `json:"between,omitempty"` // local operations after the first exchange
	Secs    [][2]int `json:"secs"`              // the offer under test
	Park    int      `json:"park"`              // where SetRemoteDescription is parked
	Nth     int      `json:"nth,omitempty"`     // which occurrence of the point (published, section)
	Ops     []c08Lop `json:"ops"`               // run by another goroutine while it is parked
}

const c08Candidate = "a=candidate:1 1 udp 2130706431 192.0.2.1 5000 typ host\r\n"

// the offer under test carries one candidate (in the first section: candidates
// are read from the section that carries the transport)
func c08OfferCand(secs [][2]int, version int) string {
	return strings.Replace(c08Offer(secs, version), "a=rtcp-mux\r\n", "a=rtcp-mux\r\n"+c08Candidate, 1)
}

func c08NewPC() *c08State {
	me := &webrtc.MediaEngine{}
	if err := me.RegisterDefaultCodecs(); err != nil {
		panic(err)
	}
	api := newQuietAPI(me)
	pc, err := api.NewPeerConnection(webrtc.Configuration{})
	if err != nil {
		panic(err)
	}
	return &c08State{api: api, pc: pc}
}

// direction of the transceiver bound to mid i (0 = none), for i < n
func c08BoundDirs(pc *webrtc.PeerConnection, n int) ([]int, []*webrtc.RTPTransceiver) {
	dirs := make([]int, n)
	byMid := make([]*webrtc.RTPTransceiver, n)
	for _, tr := range pc.GetTransceivers() {
		var idx int
		if _, err := fmt.Sscanf(tr.Mid(), "%d", &idx); err == nil && idx >= 0 && idx < n && fmt.Sprint(idx) == tr.Mid() && byMid[idx] == nil {
			byMid[idx] = tr
			dirs[idx] = int(tr.Direction())
		}
	}
	return dirs, byMid
}

// the part of a case before the offer under test
func (st *c08State) c08Prefix(in c08MidIn) error {
	for _, l := range in.Prep {
		st.local(l)
	}
	if len(in.First) > 0 {
		offer := webrtc.SessionDescription{Type: webrtc.SDPTypeOffer, SDP: c08Offer(in.First, 2)}
		if err := st.pc.SetRemoteDescription(offer); err != nil {
			return err
		}
		drain(st.pc)
		answer, err := st.pc.CreateAnswer(nil)
		if err != nil {
			return err
		}
		if err := st.pc.SetLocalDescription(answer); err != nil {
			return err
		}
		drain(st.pc)
	}
	for _, l := range in.Between {
		st.local(l)
	}
	return nil
}

// c08SeqRef runs the case sequentially (the operations all before, or all
// after SetRemoteDescription) and returns the answered directions with the
// signature the sequential suites give an illegal section.
func c08SeqRef(in c08MidIn, opsFirst bool) (dirs []int, sigs []string) {
	st := c08NewPC()
	defer st.pc.Close() //nolint
	n := len(in.Secs)
	if err := st.c08Prefix(in); err != nil {
		return nil, nil
	}
	if opsFirst {
		for _, l := range in.Ops {
			st.local(l)
		}
	}
	before, _ := c08BoundDirs(st.pc, n)
	offer := webrtc.SessionDescription{Type: webrtc.SDPTypeOffer, SDP: c08OfferCand(in.Secs, 3)}
	if err := st.pc.SetRemoteDescription(offer); err != nil {
		return nil, nil
	}
	drain(st.pc)
	afterSRD, _ := c08BoundDirs(st.pc, n)
	if !opsFirst {
		for _, l := range in.Ops {
			st.local(l)
		}
	}
	answer, err := st.pc.CreateAnswer(nil)
	if err != nil {
		return nil, nil
	}
	dirs = c08AnswerDirs(answer, n)
	sigs = make([]string, n)
	for i, sec := range in.Secs {
		if dirs[i] > 0 && !c08Legal(sec[1], dirs[i]) {
			if !c08Legal(sec[1], afterSRD[i]) {
				sigs[i] = fmt.Sprintf("set-remote-%s-leaves-local-%s-at-%s", c08DirNames[sec[1]],
					c08DirNames[before[i]], c08DirNames[afterSRD[i]])
			} else {
				sigs[i] = "local-operation-after-set-remote-makes-answer-illegal"
			}
		}
	}
	return dirs, sigs
}

// wait state of the goroutine a participant runs on ("" = unknown / gone)
func c08GoState(s *Sched, tid int) string {
	s.mu.Lock()
	var g uint64
	for id, t := range s.byGoid {
		if t == tid {
			g = id
		}
	}
	s.mu.Unlock()
	if g == 0 {
		return ""
	}
	buf := make([]byte, 1<<16)
	for {
		k := runtime.Stack(buf, true)
		if k < len(buf) {
			buf = buf[:k]
			break
		}
		buf = make([]byte, 2*len(buf))
	}
	tag := fmt.Sprintf("goroutine %d [", g)
	str := string(buf)
	i := strings.Index(str, tag)
	if i < 0 {
		return ""
	}
	str = str[i+len(tag):]
	j := strings.IndexAny(str, "],")
	if j < 0 {
		return ""
	}
	return str[:j]
}

// c08Await waits until a released participant is parked ("parked:<point>"),
// has finished ("finished") or sits in a lock wait ("blocked": the same
// sync.* wait state three polls in a row); "timeout" after 10 s.
func c08Await(s *Sched, tid int) string {
	deadline := time.Now().Add(10 * time.Second)
	seen := 0
	for k := 1; time.Now().Before(deadline); k++ {
		if st := s.Status(tid); st != "running" {
			return st
		}
		if k%64 == 0 {
			ws := c08GoState(s, tid)
			if (strings.HasPrefix(ws, "sync.") || ws == "semacquire") && s.Status(tid) == "running" {
				seen++
				if seen >= 3 {
					return "blocked"
				}
				time.Sleep(200 * time.Microsecond)
			} else {
				seen = 0
			}
		}
		runtime.Gosched()
	}
	return "timeout"
}

func c08MidRun(in c08MidIn) (V, Verdict) {
	n := len(in.Secs)
	if n == 0 || in.Park < 0 || in.Park > c08ParkICELock {
		panic("c08: case outside the harness domain")
	}
	st := c08NewPC()
	pc := st.pc
	defer pc.Close() //nolint
	if err := st.c08Prefix(in); err != nil {
		return VS("prefix"), Fail("set-remote-rejects-synthetic-offer", fmt.Sprintf("first exchange: %v", err))
	}
	before, _ := c08BoundDirs(pc, n)
	sendersBefore := map[*webrtc.RTPTransceiver]bool{}
	for _, tr := range pc.GetTransceivers() {
		sendersBefore[tr] = tr.Sender() != nil
	}
	known := map[*webrtc.RTPTransceiver]bool{}
	for _, tr := range pc.GetTransceivers() {
		known[tr] = true
	}

	offer := webrtc.SessionDescription{Type: webrtc.SDPTypeOffer, SDP: c08OfferCand(in.Secs, 3)}
	s := NewSched().Only("pc.srd.")
	s.Grace = 0
	closed := false
	closeSched := func() {
		if !closed {
			closed = true
			s.Close()
		}
	}
	defer closeSched()

	var srdErr error
	srd := s.Add("srd", func() { srdErr = pc.SetRemoteDescription(offer) })
	codes := make([]int, 0, len(in.Ops))
	loc := s.Add("loc", func() {
		for _, l := range in.Ops {
			c, _ := st.local(l)
			codes = append(codes, c)
		}
	})

	iceHeld := false
	if in.Park == c08ParkICELock {
		pc.VerifC08LockICE()
		iceHeld = true
	}
	unlockICE := func() {
		if iceHeld {
			iceHeld = false
			pc.VerifC08UnlockICE()
		}
	}
	defer unlockICE()

	// ---- SetRemoteDescription up to the parking place ----
	want := "parked:pc.srd." + c08ParkNames[in.Park]
	seen := 0
	how := ""
	for how == "" {
		s.Step(srd)
		switch stt := c08Await(s, srd); {
		case stt == "finished":
			how = "no-park" // the point does not occur for this case
		case stt == "timeout":
			closeSched()
			return VS("stuck"), Fail("set-remote-stuck", "SetRemoteDescription neither reached a yield point nor returned")
		case stt == "blocked":
			if in.Park != c08ParkICELock {
				closeSched()
				return VS("stuck"), Fail("set-remote-blocked", "SetRemoteDescription waits for a lock nobody holds")
			}
			how = "parked"
		case stt == want:
			if seen == in.Nth {
				how = "parked"
			}
			seen++
		}
	}

	// ---- the local operations, on another goroutine ----
	s.Step(loc)
	locHow := c08Await(s, loc)
	if locHow == "timeout" || strings.HasPrefix(locHow, "parked:") {
		closeSched()
		return VS("stuck"), Fail("local-operation-stuck", "the local operations neither returned nor blocked on a lock: "+locHow)
	}
	// transceivers visible while SetRemoteDescription is parked (for the report)
	visible := len(pc.GetTransceivers())

	// ---- release SetRemoteDescription ----
	unlockICE()
	for s.Status(srd) != "finished" {
		if strings.HasPrefix(s.Status(srd), "parked:") {
			s.Step(srd)
		}
		if stt := c08Await(s, srd); stt == "timeout" || stt == "blocked" {
			closeSched()
			return VS("stuck"), Fail("set-remote-stuck", "SetRemoteDescription did not return after it was released: "+stt)
		}
	}
	if locHow == "blocked" {
		if stt := c08Await(s, loc); stt != "finished" {
			closeSched()
			return VS("stuck"), Fail("local-operation-stuck", "the local operations did not return after SetRemoteDescription had: "+stt)
		}
	}
	closeSched()
	if srdErr != nil {
		return VS("srd-error"), Fail("set-remote-rejects-synthetic-offer", fmt.Sprintf("%v", srdErr))
	}
	drain(pc)
	afterSRD, byMid := c08BoundDirs(pc, n)
	answer, err := pc.CreateAnswer(nil)
	if err != nil {
		return VS("answer-error"), Fail("create-answer-fails", fmt.Sprintf("after local operations during SetRemoteDescription (%s): %v", c08ParkNames[in.Park], err))
	}
	dirs := c08AnswerDirs(answer, n)
	sldCode := 0
	if err := pc.SetLocalDescription(answer); err != nil {
		sldCode = 1
	}
	drain(pc)

	obs := VL{VS(how), VS(locHow), VInts(codes), VInts(dirs), VZ(sldCode)}

	// ---- direct oracle ----
	verdict := Verdict{}
	fail := func(v Verdict) {
		if verdict.Sig == "" {
			verdict = v
		}
	}
	var refA, refB []int
	var sigA, sigB []string
	refs := false
	for i, sec := range in.Secs {
		switch {
		case dirs[i] == -1:
			fail(Fail("answer-section-missing", fmt.Sprintf("no answer section for mid %d", i)))
		case dirs[i] == 0:
			// rejected section
		case !c08Legal(sec[1], dirs[i]):
			if !refs {
				refs = true
				refA, sigA = c08SeqRef(in, true)
				refB, sigB = c08SeqRef(in, false)
			}
			what := fmt.Sprintf("mid %d: offered %s, answered %s; SetRemoteDescription parked at %s#%d (%d transceivers visible), meanwhile %s ran (%s, results %v); bound transceiver before %s, after set-remote %s",
				i, c08DirNames[sec[1]], c08DirNames[dirs[i]], c08ParkNames[in.Park], in.Nth, visible, c08OpsText(in.Ops), locHow, codes,
				c08DirNames[before[i]], c08DirNames[afterSRD[i]])
			switch {
			case refA != nil && refA[i] == dirs[i] && sigA[i] != "":
				fail(Fail(sigA[i], what+" [the same operations before SetRemoteDescription give the same answer]"))
			case refB != nil && refB[i] == dirs[i] && sigB[i] != "":
				fail(Fail(sigB[i], what+" [the same operations after SetRemoteDescription give the same answer]"))
			default:
				tr := byMid[i]
				offRecvs := sec[1] == dSendrecv || sec[1] == dRecvonly
				ansSends := dirs[i] == dSendrecv || dirs[i] == dSendonly
				switch {
				case tr != nil && !offRecvs && ansSends && tr.Sender() != nil && !sendersBefore[tr] && !known[tr]:
					fail(Fail("addtrack-during-set-remote-reuses-new-transceiver-of-"+c08DirNames[sec[1]]+"-section", what))
				case tr != nil && !offRecvs && ansSends && tr.Sender() != nil && !sendersBefore[tr]:
					fail(Fail("addtrack-during-set-remote-reuses-existing-transceiver-of-"+c08DirNames[sec[1]]+"-section", what))
				default:
					fail(Fail("local-operation-during-set-remote-makes-answer-illegal", what))
				}
			}
		}
	}
	if sldCode != 0 {
		fail(Fail("set-local-answer-fails", "after local operations during SetRemoteDescription"))
	}
	if verdict.Sig != "" {
		return obs, verdict
	}
	return obs, Pass(fmt.Sprintf("%s-%s/local-%s/secs%d/ops%d", how, c08ParkNames[in.Park], locHow, min(n, 3), min(len(in.Ops), 3)),
		how == "parked" && len(in.Ops) >= 1)
}

func c08OpsText(ops []c08Lop) string {
	parts := make([]string, len(ops))
	for i, l := range ops {
		parts[i] = c08LopCoq(l)
	}
	return strings.Join(parts, ", ")
}

func c08MidShrink(in c08MidIn) []c08MidIn {
	var out []c08MidIn
	for i := range in.Ops {
		c := in
		c.Ops = append(append([]c08Lop{}, in.Ops[:i]...), in.Ops[i+1:]...)
		out = append(out, c)
	}
	for i := range in.Prep {
		c := in
		c.Prep = append(append([]c08Lop{}, in.Prep[:i]...), in.Prep[i+1:]...)
		out = append(out, c)
	}
	for i := range in.Between {
		c := in
		c.Between = append(append([]c08Lop{}, in.Between[:i]...), in.Between[i+1:]...)
		out = append(out, c)
	}
	if len(in.First) > 0 {
		c := in
		c.First = nil
		out = append(out, c)
	}
	if len(in.Secs) > 1 {
		c := in
		c.Secs = in.Secs[:len(in.Secs)-1]
		if len(c.First) > len(c.Secs) {
			c.First = c.First[:len(c.Secs)]
		}
		out = append(out, c)
	}
	return out
}

func init() {
	// the local operations a second goroutine runs (no SetSender)
	opsFor := func(kind int) [][]c08Lop {
		other := kAudio + kVideo - kind
		return [][]c08Lop{
			{{K: lAddTrack, Kind: kind}},
			{{K: lAddTrack, Kind: other}},
			{{K: lAddTransceiver, Kind: kind, Dir: dSendrecv}},
			{{K: lAddTransceiver, Kind: kind, Dir: dRecvonly}},
			{{K: lStop, I: 0}},
			{{K: lRemoveTrack, I: 0}},
			{{K: lAddTrack, Kind: kind}, {K: lAddTrack, Kind: kind}},
		}
	}
	parks := []int{c08ParkDescribed, c08ParkPublished, c08ParkSection, c08ParkCandidates, c08ParkTail, c08ParkICELock}
	Register(Spec[c08MidIn]{
		ID: "C08", Suite: "midsrd",
		Quick: 150, Thorough: 6000,
		Corpus: func() []c08MidIn {
			return []c08MidIn{
				// the tester's demonstration: one sendonly video section, SetRemoteDescription parked in
				// AddRemoteCandidate, AddTrack(video) meanwhile
				{Secs: [][2]int{{kVideo, dSendonly}}, Park: c08ParkICELock, Ops: []c08Lop{{K: lAddTrack, Kind: kVideo}}},
				{Secs: [][2]int{{kVideo, dInactive}}, Park: c08ParkICELock, Ops: []c08Lop{{K: lAddTrack, Kind: kVideo}}},
				// the transceiver is visible and has no mid yet
				{Secs: [][2]int{{kAudio, dSendonly}}, Park: c08ParkPublished, Ops: []c08Lop{{K: lAddTrack, Kind: kAudio}}},
				// a bound recvonly transceiver re-offered sendonly after sendrecv: the remote direction it
				// carries is the previous offer's until SetRemoteDescription records the new one
				{First: [][2]int{{kAudio, dSendrecv}}, Secs: [][2]int{{kAudio, dSendonly}}, Park: c08ParkCandidates,
					Ops: []c08Lop{{K: lAddTrack, Kind: kAudio}}},
				// second of two sections, parked after the first
				{Secs: [][2]int{{kAudio, dSendonly}, {kVideo, dInactive}}, Park: c08ParkSection, Nth: 0,
					Ops: []c08Lop{{K: lAddTrack, Kind: kVideo}, {K: lAddTrack, Kind: kAudio}}},
			}
		},
		Exhaustive: func() []c08MidIn {
			var out []c08MidIn
			thorough := argTierC08() == "thorough"
			for _, kind := range []int{kAudio, kVideo} {
				// (1) first offer on a fresh connection, with and without a local transceiver prepared:
				// offered direction x preparation x parking place x local operation
				preps := [][]c08Lop{nil, {{K: lAddTrack, Kind: kind}}, {{K: lAddTransceiver, Kind: kind, Dir: dRecvonly}},
					{{K: lAddTransceiver, Kind: kind, Dir: dSendonly}}, {{K: lAddTransceiver, Kind: kind, Dir: dInactive}}}
				for d := 1; d <= 4; d++ {
					for _, prep := range preps {
						for _, park := range parks {
							// (with a prepared transceiver that is matched nothing is published: those are the no-park cases)
							for _, ops := range opsFor(kind) {
								out = append(out, c08MidIn{Prep: prep, Secs: [][2]int{{kind, d}}, Park: park, Ops: ops})
							}
						}
					}
				}
				// (2) re-offer on a bound transceiver: first direction x re-offered direction x
				// (nothing | AddTrack before the first exchange | AddTrack after it) x parking place x local operation
				for f := 1; f <= 4; f++ {
					for d := 1; d <= 4; d++ {
						for v := 0; v < 3; v++ {
							for _, park := range parks {
								if park == c08ParkPublished || ((park == c08ParkTail || v == 2) && !thorough) {
									continue
								}
								for _, ops := range opsFor(kind) {
									in := c08MidIn{First: [][2]int{{kind, f}}, Secs: [][2]int{{kind, d}}, Park: park, Ops: ops}
									switch v {
									case 1:
										in.Prep = []c08Lop{{K: lAddTrack, Kind: kind}}
									case 2:
										in.Between = []c08Lop{{K: lAddTrack, Kind: kind}}
									}
									out = append(out, in)
								}
							}
						}
					}
				}
				// (3) two sections, parked inside / after the first and the second
				other := kAudio + kVideo - kind
				for a := 1; a <= 4; a++ {
					for b := 1; b <= 4; b++ {
						for _, pn := range [][2]int{{c08ParkPublished, 0}, {c08ParkSection, 0}, {c08ParkPublished, 1}, {c08ParkSection, 1}} {
							for _, ops := range [][]c08Lop{
								{{K: lAddTrack, Kind: other}},
								{{K: lAddTrack, Kind: kind}, {K: lAddTrack, Kind: other}},
								{{K: lAddTransceiver, Kind: other, Dir: dSendrecv}},
							} {
								out = append(out, c08MidIn{Secs: [][2]int{{kind, a}, {other, b}}, Park: pn[0], Nth: pn[1], Ops: ops})
							}
						}
					}
				}
			}
			return out
		},
		Gen: func(r *Rand, i int) c08MidIn {
			var in c08MidIn
			ntr := 0
			genOps := func(max int) []c08Lop {
				var ops []c08Lop
				for k := r.Range(0, max); k > 0; k-- {
					l := c08GenLop(r, ntr, false)
					if l.K == lAddTransceiver || l.K == lAddTrack {
						ntr++
					}
					ops = append(ops, l)
				}
				return ops
			}
			in.Prep = genOps(2)
			nsec := r.Range(1, 3)
			kinds := make([]int, nsec)
			for k := range kinds {
				kinds[k] = Pick(r, []int{kAudio, kAudio, kVideo})
			}
			if r.Chance(1, 2) {
				nf := r.Range(1, nsec)
				for k := 0; k < nf; k++ {
					in.First = append(in.First, [2]int{kinds[k], r.Range(1, 4)})
				}
				if ntr < nf {
					ntr = nf
				}
				in.Between = genOps(2)
			}
			for k := 0; k < nsec; k++ {
				in.Secs = append(in.Secs, [2]int{kinds[k], r.Range(1, 4)})
			}
			in.Park = Pick(r, []int{0, 1, 1, 2, 2, 3, 3, 4, 5, 5})
			if in.Park == c08ParkPublished || in.Park == c08ParkSection {
				in.Nth = r.Intn(nsec)
			}
			if ntr < nsec {
				ntr = nsec
			}
			for len(in.Ops) == 0 {
				in.Ops = genOps(3)
			}
			return in
		},
		Run:    c08MidRun,
		Shrink: c08MidShrink,
	})
}

func argTierC08() string {
	for i, a := range os.Args {
		if a == "--tier" && i+1 < len(os.Args) {
			return os.Args[i+1]
		}
		if strings.HasPrefix(a, "--tier=") {
			return a[len("--tier="):]
		}
	}
	return "quick"
}
