//go:build verif_c27

package main

import (
	"bytes"
	"encoding/hex"
	"fmt"
	"io"
	"math/big"
	"net"
	"strings"
	"sync"
	"time"

	"github.com/pion/logging"
	"github.com/pion/webrtc/v4/internal/mux"
)

// C27: internal/mux classification (RFC 7983) and delivery order.

// ---------- a conn that hands the mux a fixed list of datagrams, then EOF ----------

type c27Conn struct {
	mu      sync.Mutex
	q       [][]byte
	gate    chan struct{} // when non-nil, Read waits until it is closed
	eof     chan struct{} // closed when Read first returns EOF (every datagram dispatched)
	eofOnce sync.Once
}

func newC27Conn(q [][]byte, gated bool) *c27Conn {
	c := &c27Conn{q: q, eof: make(chan struct{})}
	if gated {
		c.gate = make(chan struct{})
	}
	return c
}

func (c *c27Conn) Read(p []byte) (int, error) {
	if c.gate != nil {
		<-c.gate
	}
	c.mu.Lock()
	defer c.mu.Unlock()
	if len(c.q) == 0 {
		c.eofOnce.Do(func() { close(c.eof) })
		return 0, io.EOF
	}
	b := c.q[0]
	c.q = c.q[1:]
	return copy(p, b), nil
}
func (c *c27Conn) Write(p []byte) (int, error)      { return len(p), nil }
func (c *c27Conn) Close() error                     { return nil }
func (c *c27Conn) LocalAddr() net.Addr              { return nil }
func (c *c27Conn) RemoteAddr() net.Addr             { return nil }
func (c *c27Conn) SetDeadline(time.Time) error      { return nil }
func (c *c27Conn) SetReadDeadline(time.Time) error  { return nil }
func (c *c27Conn) SetWriteDeadline(time.Time) error { return nil }

func c27Logger() logging.LoggerFactory {
	lf := logging.NewDefaultLoggerFactory()
	lf.DefaultLogLevel = logging.LogLevelDisabled
	return lf
}

// c27Drain reads what an endpoint was handed (after Mux.Close: until EOF).
func c27Drain(e *mux.Endpoint) [][]byte {
	out := [][]byte{}
	buf := make([]byte, 2048)
	for {
		n, err := e.Read(buf)
		if err != nil {
			return out
		}
		out = append(out, append([]byte{}, buf[:n]...))
	}
}

func c27Same(a, b [][]byte) bool {
	if len(a) != len(b) {
		return false
	}
	for i := range a {
		if !bytes.Equal(a[i], b[i]) {
			return false
		}
	}
	return true
}

func c27Show(a [][]byte) string {
	parts := make([]string, len(a))
	for i, b := range a {
		parts[i] = hex.EncodeToString(b)
	}
	return "[" + strings.Join(parts, " ") + "]"
}

// ---------- direct oracle: the property's words, independent of pion and of the Coq model ----------

const (
	c27None = iota
	c27DTLS
	c27SRTP
	c27SRTCP
)

// c27Allowed returns the classes the property allows for a datagram.
// RFC 7983: first byte 20..63 DTLS, 128..191 RTP/RTCP; "SRTCP when the second
// byte is 192-223". A datagram of 2 or 3 bytes has a second byte but no
// complete RTP/RTCP common header (4 bytes); for those either RTP/RTCP class
// is accepted, and they are counted apart ("short-rtcp-like").
func c27Allowed(b []byte) (allowed []int, short bool) {
	if len(b) == 0 {
		return []int{c27None}, false
	}
	switch {
	case b[0] >= 20 && b[0] <= 63:
		return []int{c27DTLS}, false
	case b[0] >= 128 && b[0] <= 191:
		if len(b) >= 2 && b[1] >= 192 && b[1] <= 223 {
			if len(b) < 4 {
				return []int{c27SRTP, c27SRTCP}, true
			}
			return []int{c27SRTCP}, false
		}
		return []int{c27SRTP}, false
	}
	return []int{c27None}, false
}

func c27Safe(f mux.MatchFunc, b []byte) (r bool, panicked bool) {
	defer func() {
		if recover() != nil {
			panicked = true
		}
	}()
	return f(b), false
}

// ---------- suite "classes" ----------

var c27Filler = []byte{200, 201, 202, 203, 204, 205, 206, 207, 208, 209}
var c27Lens = []int{0, 1, 2, 3, 4, 12}

type c27ClassIn struct {
	B0       int `json:"b0"`
	LenClass int `json:"lenclass"`
}

func c27Datagram(b0, b1, lenClass int) []byte {
	full := append([]byte{byte(b0), byte(b1)}, c27Filler...)
	return full[:c27Lens[lenClass]]
}

func c27ClassesRun(in c27ClassIn) (V, Verdict) {
	codes := make([]byte, 256)
	verdict := Pass(fmt.Sprintf("len%d", c27Lens[in.LenClass]), false)
	fail := func(sig, what string) {
		if verdict.OK {
			verdict = Fail(sig, what)
		}
	}
	dgrams := make([][]byte, 0, 256)
	expect := make([][][]byte, 4) // per class, what its endpoint must be handed, in order
	for i := range expect {
		expect[i] = [][]byte{}
	}
	nshort, nclassified := 0, 0
	for b1 := 0; b1 < 256; b1++ {
		buf := c27Datagram(in.B0, b1, in.LenClass)
		dgrams = append(dgrams, buf)
		d, p1 := c27Safe(mux.MatchDTLS, buf)
		r, p2 := c27Safe(mux.MatchSRTP, buf)
		c, p3 := c27Safe(mux.MatchSRTCP, buf)
		rc, p4 := c27Safe(mux.MatchSRTPOrSRTCP, buf)
		a, _ := c27Safe(mux.MatchAll, buf)
		var code byte
		n, cls := 0, c27None
		if d {
			code |= 1
			n++
			cls = c27DTLS
		}
		if r {
			code |= 2
			n++
			cls = c27SRTP
		}
		if c {
			code |= 4
			n++
			cls = c27SRTCP
		}
		if rc {
			code |= 8
		}
		if p2 || p3 {
			code |= 16
		}
		if a {
			code |= 32
		}
		codes[b1] = code
		if p1 || p2 || p3 || p4 {
			fail("match-function-panics", fmt.Sprintf("datagram %x", buf))
			continue
		}
		if n > 1 {
			fail("classes-not-exclusive", fmt.Sprintf("datagram %x accepted by %d of DTLS/SRTP/SRTCP", buf, n))
		}
		allowed, short := c27Allowed(buf)
		if short {
			nshort++
		}
		ok := false
		for _, x := range allowed {
			ok = ok || x == cls
		}
		if !ok {
			fail("class-differs-from-rfc7983", fmt.Sprintf("datagram %x classified %d, allowed %v", buf, cls, allowed))
		}
		if rc != (r || c) {
			fail("srtp-or-srtcp-not-the-union", fmt.Sprintf("datagram %x", buf))
		}
		if ok && cls != c27None {
			nclassified++
			expect[cls] = append(expect[cls], buf)
		}
	}
	// the same 256 datagrams through a real Mux with the three endpoints the
	// transports register: each is handed to the endpoint of its class and to
	// no other, in order
	conn := newC27Conn(dgrams, true)
	m := mux.NewMux(mux.Config{Conn: conn, BufferSize: 1500, LoggerFactory: c27Logger()})
	eps := []*mux.Endpoint{nil, m.NewEndpoint(mux.MatchDTLS), m.NewEndpoint(mux.MatchSRTP), m.NewEndpoint(mux.MatchSRTCP)}
	close(conn.gate)
	select {
	case <-conn.eof:
	case <-time.After(10 * time.Second):
		fail("mux-reader-stuck", "readLoop did not consume the datagrams")
	}
	_ = m.Close()
	for cls := c27DTLS; cls <= c27SRTCP; cls++ {
		got := c27Drain(eps[cls])
		if !c27Same(got, expect[cls]) {
			fail("datagram-reached-wrong-or-second-endpoint",
				fmt.Sprintf("endpoint of class %d was handed %s, its class is %s", cls, c27Show(got), c27Show(expect[cls])))
		}
	}
	verdict.NonTrivial = verdict.OK && nclassified > 0
	if verdict.OK && nshort > 0 {
		verdict.Class += "/short-rtcp-like"
	}
	// observation: run-length encoding of the 256 codes
	rle := VL{}
	for i := 0; i < 256; {
		j := i
		for j < 256 && codes[j] == codes[i] {
			j++
		}
		rle = append(rle, VL{VZ(int64(codes[i])), VZ(int64(j - i))})
		i = j
	}
	return rle, verdict
}

// ---------- suite "order" ----------

type c27OrderIn struct {
	Kinds   []int    `json:"kinds"`   // NewEndpoint calls: 0 DTLS, 1 SRTP, 2 SRTCP (pairwise different)
	Packets []string `json:"packets"` // datagrams, hex, in arrival order
	Sched   []int    `json:"sched"`   // thread ids: 0 reader, i+1 the i-th NewEndpoint
}

var c27Matchers = []mux.MatchFunc{mux.MatchDTLS, mux.MatchSRTP, mux.MatchSRTCP}

// class of a datagram by the property's words (short-rtcp-like datagrams are
// not generated in this suite)
func c27ClassOf(b []byte) int {
	allowed, _ := c27Allowed(b)
	return allowed[len(allowed)-1]
}

func c27OrderRun(in c27OrderIn) (V, Verdict) {
	k, n := len(in.Kinds), len(in.Packets)
	pkts := make([][]byte, n)
	for i, h := range in.Packets {
		b, err := hex.DecodeString(h)
		if err != nil {
			panic(err)
		}
		pkts[i] = b
	}
	s := NewSched().Only("mux.")
	defer s.Close()
	conn := newC27Conn(append([][]byte{}, pkts...), false)
	rd := s.AddSpawned("reader", "mux.rd.")
	var m *mux.Mux
	eps := make([]*mux.Endpoint, k+1)
	for i := 0; i <= k; i++ {
		i := i
		f := mux.MatchFunc(mux.MatchAll) // creator k: collects what is still queued, last
		if i < k {
			f = c27Matchers[in.Kinds[i]]
		}
		s.Add(fmt.Sprintf("ne%d", i), func() { eps[i] = m.NewEndpoint(f) })
	}
	m = mux.NewMux(mux.Config{Conn: conn, BufferSize: 1500, LoggerFactory: c27Logger()})
	if n > 0 { // the reader goroutine runs to its first yield point
		waitParked(s, rd, 5*time.Second)
	}

	// the schedule, completed the same way in every case (Check/C27.v full_schedule)
	var sched []int
	for _, t := range in.Sched {
		if t >= 0 && t <= k {
			sched = append(sched, t)
		}
	}
	for i := 0; i < 2*n+1; i++ {
		sched = append(sched, 0)
	}
	for i := 1; i <= k+1; i++ {
		sched = append(sched, i)
	}

	// direct oracle: the specification run along the linearisation the
	// schedule produces (a datagram "arrives" when dispatch looks it up; an
	// endpoint "exists" when NewEndpoint has run): expected hand-over per endpoint
	expect := make([][][]byte, k+1)
	for i := range expect {
		expect[i] = [][]byte{}
	}
	var specQueue [][]byte
	exists := make([]bool, k+1)
	next := 0
	queuedThenCreated, laterAfterQueued, capHit := false, false, false
	flushedTo := make([]bool, k+1)

	verdict := Pass("", false)
	flags := new(big.Int) // bit i = the i-th choice was enabled
	step := 0
	for _, t := range sched {
		pre := ""
		if t == 0 {
			pre = s.Status(rd)
		}
		tid := rd
		if t > 0 {
			tid = t // participants were added in order after the reader: ids 1..k+1
		}
		st := stepPatient(s, tid, 3*time.Second) // no thread of this model ever blocks
		if st == "running" && verdict.OK {
			verdict = Fail("thread-blocked-unexpectedly", fmt.Sprintf("thread %d did not reach a yield point; trace %v", t, s.Trace))
		}
		enabled := st != "disabled"
		if enabled {
			flags.SetBit(flags, step, 1)
		}
		step++
		if !enabled {
			continue
		}
		switch {
		case t == 0 && pre == "parked:mux.rd.dispatch": // a datagram arrives
			p := pkts[next]
			next++
			if len(p) == 0 {
				break
			}
			target := -1
			for i := 0; i <= k; i++ {
				if exists[i] && (i == k || in.Kinds[i]+1 == c27ClassOf(p)) {
					target = i
					break
				}
			}
			switch {
			case target >= 0:
				expect[target] = append(expect[target], p)
				if flushedTo[target] {
					laterAfterQueued = true
				}
			case len(specQueue) < 15:
				specQueue = append(specQueue, p)
			default:
				capHit = true
			}
		case t > 0: // an endpoint is created: it gets the queued datagrams of its class, in order
			i := t - 1
			exists[i] = true
			var keep [][]byte
			for _, p := range specQueue {
				if i == k || in.Kinds[i]+1 == c27ClassOf(p) {
					expect[i] = append(expect[i], p)
					if i < k {
						queuedThenCreated = true
						flushedTo[i] = true
					}
				} else {
					keep = append(keep, p)
				}
			}
			specQueue = keep
		}
	}
	_ = m.Close()
	obs := make(VL, k+1)
	for i := 0; i <= k; i++ {
		got := [][]byte{}
		if eps[i] != nil {
			got = c27Drain(eps[i])
		}
		hx := make(VL, len(got))
		for j, b := range got {
			hx[j] = VHex(b)
		}
		obs[i] = hx
		if verdict.OK && !c27Same(got, expect[i]) {
			sig := "datagram-lost-duplicated-or-misrouted"
			if c27SameMultiset(got, expect[i]) {
				sig = "queued-datagram-overtaken-by-later-one"
			}
			verdict = Fail(sig, fmt.Sprintf("endpoint %d read %s, arrival order gives %s", i, c27Show(got), c27Show(expect[i])))
		}
	}
	if verdict.OK {
		verdict.NonTrivial = queuedThenCreated && laterAfterQueued
		verdict.Class = fmt.Sprintf("n%d/k%d/queued=%v/later=%v/cap=%v", min(n/4*4, 20), k, queuedThenCreated, laterAfterQueued, capHit)
	}
	return VL{c27BigZ(flags.String()), obs}, verdict
}

// an integer observation wider than 64 bits
type c27BigZ string

func (z c27BigZ) Coq() string { return "VZ " + string(z) }

func c27SameMultiset(a, b [][]byte) bool {
	if len(a) != len(b) {
		return false
	}
	cnt := map[string]int{}
	for _, x := range a {
		cnt[string(x)]++
	}
	for _, x := range b {
		cnt[string(x)]--
	}
	for _, v := range cnt {
		if v != 0 {
			return false
		}
	}
	return true
}

func c27OrderCoq(in c27OrderIn) string {
	ks := make([]string, len(in.Kinds))
	for i, x := range in.Kinds {
		ks[i] = CoqZ(int64(x))
	}
	ps := make([]string, len(in.Packets))
	for i, x := range in.Packets {
		ps[i] = "\"" + x + "\""
	}
	ss := make([]string, len(in.Sched))
	for i, x := range in.Sched {
		ss[i] = CoqZ(int64(x))
	}
	return fmt.Sprintf("(%s, %s, %s)", CoqList(ks), CoqList(ps), CoqList(ss))
}

// a datagram of the given class with a distinguishing tail byte
func c27Packet(class int, tag int) string {
	switch class {
	case 0:
		return fmt.Sprintf("16fe%02x", tag&255) // DTLS record, first byte 22
	case 1:
		return fmt.Sprintf("8060%02x00", tag&255) // RTP, PT 96
	case 2:
		return fmt.Sprintf("80c8%02x00", tag&255) // RTCP SR (200)
	}
	return fmt.Sprintf("01%02x", tag&255) // STUN range: no endpoint
}

// schedules that place each NewEndpoint after a chosen number of reader steps
func c27Place(n int, pos []int) []int {
	var sched []int
	for r := 0; r <= 2*n; r++ {
		for i, p := range pos {
			if p == r {
				sched = append(sched, i+1)
			}
		}
		sched = append(sched, 0)
	}
	return sched
}

func init() {
	Register(Spec[c27ClassIn]{
		ID: "C27", Suite: "classes", CoqImports: []string{"Check.C27"},
		CoqType: "Z * Z", CoqRun: "Check.C27.run_classes",
		Exhaustive: func() []c27ClassIn {
			var out []c27ClassIn
			for l := range c27Lens {
				for b0 := 0; b0 < 256; b0++ {
					out = append(out, c27ClassIn{b0, l})
				}
			}
			return out
		},
		Run:      c27ClassesRun,
		Coq:      func(in c27ClassIn) string { return fmt.Sprintf("(%d, %d)", in.B0, in.LenClass) },
		Parallel: 8,
	})
	Register(Spec[c27OrderIn]{
		ID: "C27", Suite: "order", CoqImports: []string{"Check.C27"},
		CoqType: "list Z * list string * list Z", CoqRun: "Check.C27.run_order",
		Quick: 400, Thorough: 12000,
		Corpus: func() []c27OrderIn {
			seventeen := make([]string, 0, 19)
			for i := 0; i < 17; i++ {
				seventeen = append(seventeen, c27Packet(0, i))
			}
			return []c27OrderIn{
				// the repaired race: P1 queued, NewEndpoint, P2 dispatched and written
				{Kinds: []int{0}, Packets: []string{"1401", "1402"}, Sched: []int{0, 1, 0, 0}},
				// NewEndpoint between P2's lookup and its write
				{Kinds: []int{0}, Packets: []string{"1401", "1402", "1403"}, Sched: []int{0, 1, 0, 0, 0, 0}},
				// the cap: 17 queued DTLS datagrams, then the endpoint, then one more
				{Kinds: []int{0}, Packets: append(seventeen, c27Packet(0, 99)), Sched: append(c27Place(17, []int{17}), 0, 0)},
				// zero-length datagram between two queued ones
				{Kinds: []int{1, 0}, Packets: []string{"8060aa00", "", "1601", "8060bb00"}, Sched: []int{0, 0, 0, 2, 1, 0, 0}},
			}
		},
		// every placement of the NewEndpoint calls among the reader's steps, for
		// up to 3 datagrams over {DTLS, RTP} and endpoint lists [DTLS], [RTP], [DTLS, RTP], [RTP, DTLS]
		Exhaustive: func() []c27OrderIn {
			var out []c27OrderIn
			kindLists := [][]int{{0}, {1}, {0, 1}, {1, 0}}
			for n := 1; n <= 3; n++ {
				for mask := 0; mask < 1<<n; mask++ {
					pk := make([]string, n)
					for i := 0; i < n; i++ {
						pk[i] = c27Packet(mask>>i&1, i+1)
					}
					for _, kl := range kindLists {
						if len(kl) == 1 {
							for p := 0; p <= 2*n; p++ {
								out = append(out, c27OrderIn{kl, pk, c27Place(n, []int{p})})
							}
							continue
						}
						for p := 0; p <= 2*n; p++ {
							for q := 0; q <= 2*n; q++ {
								out = append(out, c27OrderIn{kl, pk, c27Place(n, []int{p, q})})
							}
						}
					}
				}
			}
			return out
		},
		Gen: func(r *Rand, i int) c27OrderIn {
			perm := [][]int{{0}, {1}, {2}, {0, 1}, {1, 0}, {0, 2}, {2, 1}, {0, 1, 2}, {2, 0, 1}, {1, 2, 0}}
			kinds := Pick(r, perm)
			n := r.Range(1, 8)
			if r.Chance(1, 4) {
				n = r.Range(14, 22) // enough to reach the pending cap
			}
			pk := make([]string, n)
			for j := range pk {
				switch {
				case r.Chance(1, 25):
					pk[j] = ""
				case r.Chance(1, 8):
					pk[j] = c27Packet(3, j)
				case n > 12 && r.Chance(2, 3):
					pk[j] = c27Packet(kinds[0], j)
				default:
					pk[j] = c27Packet(r.Intn(3), j)
				}
			}
			var sched []int
			if r.Chance(1, 2) { // placements
				pos := make([]int, len(kinds))
				for j := range pos {
					pos[j] = r.Intn(2*n + 1)
				}
				sched = c27Place(n, pos)
			} else { // arbitrary choices, disabled ones included
				l := r.Range(1, 2*n+len(kinds)+3)
				for j := 0; j < l; j++ {
					if r.Chance(2, 3) {
						sched = append(sched, 0)
					} else {
						sched = append(sched, r.Range(1, len(kinds)))
					}
				}
			}
			return c27OrderIn{kinds, pk, sched}
		},
		Shrink: func(in c27OrderIn) []c27OrderIn {
			var out []c27OrderIn
			for i := range in.Sched {
				c := in
				c.Sched = append(append([]int{}, in.Sched[:i]...), in.Sched[i+1:]...)
				out = append(out, c)
			}
			for i := range in.Packets {
				c := in
				c.Packets = append(append([]string{}, in.Packets[:i]...), in.Packets[i+1:]...)
				out = append(out, c)
			}
			return out
		},
		Run: c27OrderRun, Coq: c27OrderCoq,
	})
}
