//go:build verif_c25 && verif_pc

package main

import (
	"fmt"

	"github.com/pion/ice/v4"
	"github.com/pion/webrtc/v4"
)

// C25, suite icecontract: validation of the assumed pion/ice contract.
// c25_fields_partial has the premise wire_getters (UnmarshalCandidate(Marshal(i))
// reports what i reports through the getters newICECandidateFromICE reads) and
// c25_filter_roundtrip_invariant the premise wire_get_extension (the same for
// GetExtension, which AddICECandidate's ufrag filter reads).  The Coq theorems
// keep them as hypotheses; this suite checks exactly those two statements on
// generated candidates, both on the candidate as pion/ice parsed it and on the
// candidate ToICE builds from the webrtc form (the i' the theorems apply wire
// to).  Direct oracle only; there is nothing for the model to compute.

func c25GetterDiff(a, b ice.Candidate, keys []string) string {
	ra, rb := a.RelatedAddress(), b.RelatedAddress()
	switch {
	case a.Foundation() != b.Foundation():
		return fmt.Sprintf("Foundation %q -> %q", a.Foundation(), b.Foundation())
	case a.Component() != b.Component():
		return fmt.Sprintf("Component %d -> %d", a.Component(), b.Component())
	case a.NetworkType().NetworkShort() != b.NetworkType().NetworkShort():
		return fmt.Sprintf("NetworkShort %q -> %q", a.NetworkType().NetworkShort(), b.NetworkType().NetworkShort())
	case a.Priority() != b.Priority():
		return fmt.Sprintf("Priority %d -> %d", a.Priority(), b.Priority())
	case a.Address() != b.Address():
		return fmt.Sprintf("Address %q -> %q", a.Address(), b.Address())
	case a.Port() != b.Port():
		return fmt.Sprintf("Port %d -> %d", a.Port(), b.Port())
	case a.Type() != b.Type():
		return fmt.Sprintf("Type %s -> %s", a.Type(), b.Type())
	case (ra == nil) != (rb == nil):
		return fmt.Sprintf("RelatedAddress %v -> %v", ra, rb)
	case ra != nil && (ra.Address != rb.Address || ra.Port != rb.Port):
		return fmt.Sprintf("RelatedAddress %v -> %v", ra, rb)
	case a.TCPType() != b.TCPType():
		return fmt.Sprintf("TCPType %s -> %s", a.TCPType(), b.TCPType())
	}
	ea, eb := a.Extensions(), b.Extensions()
	if len(ea) != len(eb) {
		return fmt.Sprintf("Extensions %v -> %v", ea, eb)
	}
	for i := range ea {
		if ea[i] != eb[i] {
			return fmt.Sprintf("Extensions %v -> %v", ea, eb)
		}
	}
	for _, k := range keys {
		xa, oka := a.GetExtension(k)
		xb, okb := b.GetExtension(k)
		if oka != okb || xa != xb {
			return fmt.Sprintf("GetExtension(%q) %v,%v -> %v,%v", k, xa, oka, xb, okb)
		}
	}
	return ""
}

func c25RunContract(in c25Cand) (V, Verdict) {
	i0, err := ice.UnmarshalCandidate(in.line())
	if err != nil {
		return VS("unparseable"), Pass("generator-unparseable", false)
	}
	keys := []string{"ufrag", "tcptype", "generation", "absent-key", ""}
	for _, e := range in.Exts {
		keys = append(keys, e[0])
	}
	check := func(which string, x ice.Candidate) *Verdict {
		y, uerr := ice.UnmarshalCandidate(x.Marshal())
		if uerr != nil {
			v := Fail("ice-contract-getter-not-preserved", fmt.Sprintf("%s: %q does not parse back: %v", which, x.Marshal(), uerr))
			return &v
		}
		if d := c25GetterDiff(x, y, keys); d != "" {
			v := Fail("ice-contract-getter-not-preserved", fmt.Sprintf("%s: %q: %s", which, x.Marshal(), d))
			return &v
		}
		return nil
	}
	if v := check("parsed candidate", i0); v != nil {
		return VS("contract"), *v
	}
	class := "parsed"
	// the candidate ToICE builds (what ToJSON marshals)
	if c0, cerr := webrtc.VerifICECandidateFromICE(i0); cerr == nil {
		if i1, terr := c0.ToICE(); terr == nil {
			if v := check("ToICE candidate", i1); v != nil {
				return VS("contract"), *v
			}
			class = "parsed+toice"
		}
	}
	_, hasUfrag := i0.GetExtension("ufrag")
	if hasUfrag {
		class += "/ufrag"
	}
	if i0.TCPType() != ice.TCPTypeUnspecified {
		class += "/tcptype"
	}
	if i0.RelatedAddress() != nil {
		class += "/related"
	}
	return VS("contract"), Pass(class, len(i0.Extensions()) > 0)
}

func init() {
	Register(Spec[c25Cand]{
		ID: "C25", Suite: "icecontract",
		Quick: 600, Thorough: 6000, Parallel: 8,
		Corpus: func() []c25Cand {
			return []c25Cand{
				{Typ: "host", Net: "udp", Foundation: "4234997325", Component: 1, Priority: 2113667327, Address: "192.0.2.1", Port: 54400,
					Exts: []c25Ext{{"generation", "0"}, {"ufrag", "remoteufrag"}, {"network-id", "1"}}, Ufrag: "remoteufrag"},
				{Typ: "host", Net: "tcp", Foundation: "", Component: 2, Priority: 0, Address: "10.0.0.7", Port: 9, TCPType: "passive",
					Exts: []c25Ext{{"a", ""}, {"ufrag", ""}}, Ufrag: "remoteufrag"},
				{Typ: "relay", Net: "udp", Foundation: "abc", Component: 1, Priority: 4294967295, Address: "203.0.113.250", Port: 65535,
					RAddr: "192.0.2.1", RPort: 65535, Exts: []c25Ext{{"x", "1"}, {"x", "2"}, {"ufrag", "u"}}, Ufrag: "remoteufrag"},
				{Typ: "srflx", Net: "udp", Foundation: "1", Component: 1, Priority: 1, Address: "2001:db8::1", Port: 9, RAddr: "10.0.0.7", RPort: 9,
					Exts: []c25Ext{{"ufrag", "oldufrag"}, {"z", ""}}, Ufrag: "remoteufrag"},
			}
		},
		Gen: c25GenCand, Run: c25RunContract,
		Coq: func(c25Cand) string { return "" },
	})
}
