//go:build verif_c16

package main

import (
	"fmt"
	"strconv"
	"strings"
)

// C16: every payload type an answer section lists appears in the
// corresponding offer section and maps to the same codec (mime type, clock
// rate, channels).

func c16Channels(kind, name string, ch string) string {
	// "is OPTIONAL and may be omitted if the number of channels is one"
	if ch == "" || ch == "0" {
		if strings.EqualFold(kind+"/"+name, "audio/opus") {
			return "2"
		}
		return "1"
	}
	return ch
}

// the encoding name of a mime type: without its media type, whatever its letter case
func c16Name(mime string) string {
	for _, prefix := range []string{"audio/", "video/"} {
		if len(mime) >= len(prefix) && strings.EqualFold(mime[:len(prefix)], prefix) {
			return mime[len(prefix):]
		}
	}
	return mime
}

func c16Run(c pcCase) (V, Verdict) {
	r := pcRun(c)
	obs := pcObs(c, r)
	if r.Setup != "" {
		return VL{VS("setup"), VS(r.Setup)}, Fail("harness-setup", r.Setup)
	}
	v := Pass("", false)
	listed, fromRemote, withPrefs, bound := 0, 0, 0, 0
	last := "ok"
	for k := range r.Exchanges {
		ex := &r.Exchanges[k]
		last = ex.Outcome
		if ex.Outcome != "ok" {
			break
		}
		if len(ex.Sections) != len(ex.Offer) {
			return obs, Fail("answer-section-count", fmt.Sprintf("exchange %d: %d offered sections, %d answered", k, len(ex.Offer), len(ex.Sections)))
		}
		for i, s := range ex.Sections {
			if s.Rejected {
				continue
			}
			if sig, what := c16CheckSection(r, k, i, s, &listed); sig != "" && v.OK {
				v = Fail(sig, fmt.Sprintf("exchange %d: %s", k, what))
			}
			if ex.Local[i] < 0 {
				fromRemote++
			} else if len(r.Added[ex.Local[i]].Prefs) > 0 {
				withPrefs++
			}
			// the section's transceiver had its mid before this offer arrived
			for j := 0; j < k; j++ {
				if i < len(r.Exchanges[j].Trans) && r.Exchanges[j].Trans[i] == ex.Trans[i] {
					bound++
					break
				}
			}
		}
	}
	if !v.OK {
		return obs, v
	}
	if last != "ok" {
		v.Class = strings.SplitN(last, ":", 2)[0] + "-error"
		return obs, v
	}
	v.NonTrivial = listed > 0
	v.Class = fmt.Sprintf("rounds%d/fromRemote%d/prefs%d/bound%d/listed<=%d", len(r.Exchanges), min(fromRemote, 3), min(withPrefs, 3), min(bound, 3), (min(listed, 8)+3)/4*4)
	return obs, v
}

// every codec group of answer section i of exchange k against offer section i
func c16CheckSection(r pcResult, k, i int, s pcSection, listed *int) (string, string) {
	ex := &r.Exchanges[k]
	off := ex.Offer[i]
	for _, g := range pcGroups(s) {
		*listed++
		pt, _ := strconv.Atoi(g.PT)
		// answered rtpmap: "<pt> <name>/<clock>[/<channels>]"
		f := strings.SplitN(g.Lines[0].Val, " ", 2)
		parts := strings.Split(f[1], "/")
		ach := ""
		if len(parts) > 2 {
			ach = parts[2]
		}
		var hit *rcodec
		for j := range off.Codecs {
			if int(off.Codecs[j].PT) == pt {
				hit = &off.Codecs[j]
				break
			}
		}
		same := hit != nil && strings.EqualFold(hit.Name, parts[0]) && len(parts) > 1 &&
			strconv.Itoa(int(hit.Clock)) == parts[1] &&
			c16Channels(off.Kind, hit.Name, strconv.Itoa(int(hit.Ch))) == c16Channels(off.Kind, parts[0], ach)
		if same {
			continue
		}
		what := fmt.Sprintf("section %d answers %q; offered there: %v", i, g.Lines[0].Val, off.Codecs)
		// cause
		sig := "answer-codec-not-offered-in-section"
		if a := ex.Local[i]; a >= 0 && len(r.Added[a].Prefs) > 0 {
			// getCodecs emits the preference entry itself: find the one that renders to this rtpmap
			for _, p := range r.Added[a].Prefs {
				name := c16Name(p.Mime)
				want := fmt.Sprintf("%s/%d", name, p.Clock)
				if p.Ch > 0 {
					want += fmt.Sprintf("/%d", p.Ch)
				}
				if want != f[1] {
					continue
				}
				switch {
				case p.PT != 0 && int(p.PT) == pt && (hit == nil || !strings.EqualFold(off.Kind+"/"+hit.Name, p.Mime)):
					sig = "codec-preference-pt-kept-over-negotiated"
				case hit != nil && strings.EqualFold(off.Kind+"/"+hit.Name, p.Mime):
					sig = "codec-preference-clock-channels-kept-over-negotiated"
				}
			}
		}
		if sig == "answer-codec-not-offered-in-section" && hit != nil && strings.Contains(f[1], "/") &&
			strings.EqualFold(off.Kind+"/"+hit.Name+"/"+strconv.Itoa(int(hit.Clock)), strings.Join(parts[:min(3, len(parts))], "/")) {
			// a registered mime type carries its "video/" or "audio/" prefix in another
			// letter case, and addTransceiverSDP strips it case-sensitively
			sig = "mime-prefix-trim-case-sensitive"
		}
		if sig == "answer-codec-not-offered-in-section" && hit != nil {
			// the description answered under this payload type is that of another
			// codec of the same section: matching for H264/VP9/AV1 looks at the fmtp
			// line only, so two offered entries differing in clock rate / channels
			// are "the same codec" and the first one's payload type is used
			for _, oc := range off.Codecs {
				tail := fmt.Sprintf("%s/%d", oc.Name, oc.Clock)
				if oc.Ch > 0 {
					tail += fmt.Sprintf("/%d", oc.Ch)
				}
				if int(oc.PT) != pt && tail == f[1] && strings.EqualFold(oc.Name, hit.Name) {
					sig = "answer-pt-of-fmtp-equivalent-offered-codec"
				}
			}
		}
		offeredIn := func(o rsec) bool {
			if o.Kind != off.Kind {
				return false
			}
			for _, oc := range o.Codecs {
				if int(oc.PT) == pt && (strings.EqualFold(oc.Name, parts[0]) ||
					(len(parts) > 1 && strings.EqualFold(o.Kind+"/"+oc.Name, parts[0]+"/"+parts[1]))) {
					return true
				}
			}
			return false
		}
		if sig == "answer-codec-not-offered-in-section" {
			// offered by another section of the same kind in this offer?
			for j, o := range ex.Offer {
				if j != i && offeredIn(o) {
					sig = "answer-codec-from-other-section-of-kind"
				}
			}
		}
		if sig == "answer-codec-not-offered-in-section" {
			// offered (under this payload type) by an earlier description only: the
			// negotiated lists only grow, and a transceiver created from an earlier
			// offer keeps the preference list computed then
			for j := 0; j < k; j++ {
				for _, o := range r.Exchanges[j].Offer {
					if offeredIn(o) {
						sig = "answer-codec-from-earlier-description"
					}
				}
			}
		}
		return sig, what
	}
	return "", ""
}

func init() {
	imports := []string{"Common.CodecUtil", "Check.CodecIO", "Check.CodecPC"}
	Register(Spec[pcCase]{
		ID: "C16", Suite: "answer", CoqImports: imports,
		CoqType: "Check.CodecPC.pc_case", CoqRun: "Check.CodecPC.run",
		Quick: 1200, Thorough: 20000, Parallel: 8,
		Corpus: func() []pcCase {
			vp8 := cdc{Mime: "video/VP8", Clock: 90000, PT: 96}
			return []pcCase{
				// the design probe's witness: preference VP8 pt 96, offered VP8 pt 100
				{Video: []cdc{vp8}, Multi: true, Answer: true,
					Locals: []pcTrans{{Kind: 2, Dir: 1, Prefs: []cdc{vp8}}},
					Remote: []rsec{{Kind: "video", Codecs: []rcodec{{Name: "VP8", Clock: 90000, PT: 100}}}}},
				// same with preference PT 0: the offered payload type is used
				{Video: []cdc{vp8}, Multi: true, Answer: true,
					Locals: []pcTrans{{Kind: 2, Dir: 1, Prefs: []cdc{{Mime: "video/VP8", Clock: 90000, PT: 0}}}},
					Remote: []rsec{{Kind: "video", Codecs: []rcodec{{Name: "VP8", Clock: 90000, PT: 100}}}}},
				// repaired (fix: addTransceiverSDP strips the media type of a mime type ignoring
				// case): a codec registered as "vidEO/AV1" used to be answered as rtpmap "vidEO/AV1/90000"
				{Video: []cdc{{Mime: "vidEO/AV1", Clock: 90000, PT: 45}}, Multi: true, Answer: true,
					Remote: []rsec{{Kind: "video", Codecs: []rcodec{{Name: "AV1", Clock: 90000, PT: 45}}}}},
				// an earlier offer's codec answered after a re-offer that no longer lists it
				// (finding answer-codec-from-earlier-description)
				{Video: []cdc{vp8, {Mime: "video/VP9", Clock: 90000, Line: "profile-id=0", PT: 98}}, Multi: true, Answer: true,
					Pre:    []pcRound{{Remote: []rsec{{Kind: "video", Dir: 3, Codecs: []rcodec{{Name: "VP8", Clock: 90000, PT: 100}, {Name: "VP9", Clock: 90000, Line: "profile-id=0", PT: 101}}}}}},
					Remote: []rsec{{Kind: "video", Dir: 3, Codecs: []rcodec{{Name: "VP9", Clock: 90000, Line: "profile-id=0", PT: 101}}}}},
				// outside c16_same_codec_partial's guard (c16_same_codec_refuted): H264 offered with
				// one fmtp line under 100 (clock rate 90000) and 101 (48000); the 48000 entry is
				// answered under 100 (finding answer-pt-of-fmtp-equivalent-offered-codec)
				{Video: []cdc{{Mime: "video/H264", Clock: 90000, Line: "packetization-mode=1;profile-level-id=42e01f", PT: 102}}, Multi: true, Answer: true,
					Remote: []rsec{{Kind: "video", Codecs: []rcodec{
						{Name: "H264", Clock: 90000, Line: "packetization-mode=1;profile-level-id=42e01f", PT: 100},
						{Name: "H264", Clock: 48000, Line: "packetization-mode=1;profile-level-id=42e01f", PT: 101}}}}},
				// transceiver created from the remote description, RTX remapped
				{Video: []cdc{vp8, {Mime: "video/rtx", Clock: 90000, Line: "apt=96", PT: 97}}, Multi: true, Answer: true,
					Remote: []rsec{{Kind: "video", Codecs: []rcodec{{Name: "VP8", Clock: 90000, PT: 100}, {Name: "rtx", Clock: 90000, Line: "apt=100", PT: 101}}}}},
			}
		},
		Gen: func(r *Rand, _ int) pcCase { return pcGen(r, true) },
		Run: c16Run, Coq: pcCoq, Shrink: pcShrink,
	})
}
