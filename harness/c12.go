//go:build verif_c12

package main

// C12: a successful offer describes exactly the local transceivers and data
// channels. Suite "hist": seeded call histories on two real PeerConnections
// (signalling only); every successful CreateOffer is checked directly against
// GetTransceivers() / Sender().GetParameters(), and every call's observation is
// compared with Model.OfferShape.

import (
	"encoding/json"
	"fmt"
	"sort"
	"strconv"
	"strings"
	"sync"
	"time"

	"github.com/pion/sdp/v3"
	"github.com/pion/webrtc/v4"
)

// direct oracle: the property's sentences on one offer
func c12Oracle(w *nWorld, pi int, offer *sdp.SessionDescription) (fail *Verdict, sending int, hasApp bool) {
	p := w.peers[pi]
	pc := p.pc
	tcvs := pc.GetTransceivers()
	bad := func(sig, what string) *Verdict {
		v := Fail(sig, fmt.Sprintf("peer %d: %s", pi, what))
		return &v
	}
	var media []*sdp.MediaDescription
	apps := 0
	for _, m := range offer.MediaDescriptions {
		if nMediaKind(m) == 3 {
			apps++
		} else {
			media = append(media, m)
		}
	}
	hasApp = apps > 0
	// sentence 1: each transceiver has exactly one m-section, carrying its mid, kind,
	// direction. Sections are assigned to transceivers one-to-one (C12 does not
	// ask for distinct mids -- that is C06 -- so a mid may occur twice): a
	// transceiver takes an unused section that carries its mid, kind and
	// direction, preferring one whose msid names its track.
	if len(media) != len(tcvs) {
		return bad("section-count-differs-from-transceivers",
			fmt.Sprintf("%d media sections for %d transceivers", len(media), len(tcvs))), 0, hasApp
	}
	used := map[int]bool{}
	for ti, t := range tcvs {
		found, sameMid, foundExact := -1, -1, false
		wantMsid := ""
		if sn := t.Sender(); sn != nil && sn.Track() != nil {
			wantMsid = sn.Track().StreamID() + " " + sn.Track().ID()
		}
		for i, m := range media {
			mid, ok := nMid(m)
			if used[i] || !ok || mid != t.Mid() || t.Mid() == "" {
				continue
			}
			if sameMid < 0 {
				sameMid = i
			}
			if strings.EqualFold(m.MediaName.Media, t.Kind().String()) && nDirOf(m) == int(t.Direction()) {
				msid, has := m.Attribute("msid")
				exact := (has && msid == wantMsid) || (!has && wantMsid == "")
				if found < 0 || (exact && !foundExact) {
					found, foundExact = i, exact
				}
			}
		}
		if found < 0 && sameMid >= 0 {
			m := media[sameMid]
			if !strings.EqualFold(m.MediaName.Media, t.Kind().String()) {
				return bad("section-kind-differs", fmt.Sprintf("transceiver %d is %s, section says %s", ti, t.Kind(), m.MediaName.Media)), 0, hasApp
			}
			return bad("section-direction-differs", fmt.Sprintf("transceiver %d is %s, section %d", ti, t.Direction(), nDirOf(m))), 0, hasApp
		}
		if found < 0 {
			return bad("transceiver-without-section", fmt.Sprintf("transceiver %d mid %q", ti, t.Mid())), 0, hasApp
		}
		used[found] = true
		m := media[found]
		// sentence 2: the sending track's msid and SSRCs
		var msids, rids []string
		ssrcSeen := map[uint64]bool{}
		var ssrcOrder []uint64
		groups := map[string]bool{}
		simulcast := ""
		ssrcMsid := map[uint64]string{}
		for _, a := range nSenderAttrs(m) {
			switch a[0] {
			case "msid":
				msids = append(msids, a[1])
			case "ssrc":
				f := strings.SplitN(a[1], " ", 2)
				n, err := strconv.ParseUint(f[0], 10, 32)
				if err != nil {
					return bad("ssrc-line-unparsable", a[1]), 0, hasApp
				}
				if !ssrcSeen[n] {
					ssrcSeen[n] = true
					ssrcOrder = append(ssrcOrder, n)
				}
				if len(f) == 2 && strings.HasPrefix(f[1], "msid:") {
					ssrcMsid[n] = f[1][len("msid:"):]
				}
			case "ssrc-group":
				groups[a[1]] = true
			case "rid":
				rids = append(rids, strings.TrimSuffix(a[1], " send"))
			case "simulcast":
				simulcast = a[1]
			}
		}
		s := t.Sender()
		if s == nil || s.Track() == nil {
			if len(msids)+len(ssrcOrder)+len(groups)+len(rids) != 0 || simulcast != "" {
				return bad("sender-lines-without-sending-track", fmt.Sprintf("transceiver %d", ti)), 0, hasApp
			}
			continue
		}
		sending++
		want := s.Track().StreamID() + " " + s.Track().ID()
		if len(msids) == 0 {
			return bad("msid-missing", fmt.Sprintf("transceiver %d wants %q", ti, want)), 0, hasApp
		}
		for _, x := range msids {
			if x != want {
				return bad("msid-differs-from-track", fmt.Sprintf("transceiver %d: %q, track says %q", ti, x, want)), 0, hasApp
			}
		}
		encs := s.GetParameters().Encodings
		wantSsrc := map[uint64]bool{}
		wantGroups := map[string]bool{}
		for _, e := range encs {
			wantSsrc[uint64(e.SSRC)] = true
			if e.RTX.SSRC != 0 {
				wantSsrc[uint64(e.RTX.SSRC)] = true
				wantGroups[fmt.Sprintf("FID %d %d", e.SSRC, e.RTX.SSRC)] = true
			}
			if e.FEC.SSRC != 0 {
				wantSsrc[uint64(e.FEC.SSRC)] = true
				wantGroups[fmt.Sprintf("FEC-FR %d %d", e.SSRC, e.FEC.SSRC)] = true
			}
		}
		if !sameSet(ssrcSeen, wantSsrc) {
			return bad("ssrc-set-differs-from-parameters",
				fmt.Sprintf("transceiver %d: offer %v, GetParameters %v", ti, keysU(ssrcSeen), keysU(wantSsrc))), 0, hasApp
		}
		for n, ms := range ssrcMsid {
			if ms != want {
				return bad("ssrc-msid-differs-from-track", fmt.Sprintf("ssrc %d: %q vs %q", n, ms, want)), 0, hasApp
			}
		}
		if !sameSetS(groups, wantGroups) {
			return bad("ssrc-groups-differ-from-parameters",
				fmt.Sprintf("transceiver %d: offer %v, GetParameters %v", ti, keysS(groups), keysS(wantGroups))), 0, hasApp
		}
		// RTX / FEC "when those are enabled": before any remote description the
		// MediaEngine is exactly what the harness registered
		if !p.remoteSeen && t.Kind() == webrtc.RTPCodecTypeVideo {
			rtxOn, fecOn := nEngineRepair(p.engine)
			for _, e := range encs {
				if (e.RTX.SSRC != 0) != rtxOn {
					return bad("rtx-ssrc-disagrees-with-registered-codecs", fmt.Sprintf("transceiver %d rtx %d, registered %v", ti, e.RTX.SSRC, rtxOn)), 0, hasApp
				}
				if (e.FEC.SSRC != 0) != fecOn {
					return bad("fec-ssrc-disagrees-with-registered-codecs", fmt.Sprintf("transceiver %d fec %d, registered %v", ti, e.FEC.SSRC, fecOn)), 0, hasApp
				}
			}
		}
		if len(encs) > 1 {
			var wantRids []string
			for _, e := range encs {
				wantRids = append(wantRids, e.RID)
			}
			if strings.Join(rids, ",") != strings.Join(wantRids, ",") || simulcast != "send "+strings.Join(wantRids, ";") {
				return bad("simulcast-rids-differ-from-parameters",
					fmt.Sprintf("transceiver %d: rids %v simulcast %q, GetParameters %v", ti, rids, simulcast, wantRids)), 0, hasApp
			}
		} else if len(rids) != 0 || simulcast != "" {
			return bad("simulcast-lines-for-single-encoding", fmt.Sprintf("transceiver %d", ti)), 0, hasApp
		}
	}
	if len(used) != len(media) {
		return bad("section-without-transceiver", fmt.Sprintf("%d sections matched, %d present", len(used), len(media))), 0, hasApp
	}
	// sentence 3: the application section
	if apps > 1 {
		return bad("two-application-sections", ""), 0, hasApp
	}
	wantApp := p.dcs > 0 || p.always
	remoteApp := false
	for _, d := range []*webrtc.SessionDescription{pc.PendingRemoteDescription(), pc.CurrentRemoteDescription()} {
		if d != nil {
			parsed := &sdp.SessionDescription{}
			if parsed.UnmarshalString(d.SDP) == nil {
				for _, m := range parsed.MediaDescriptions {
					if nMediaKind(m) == 3 {
						remoteApp = true
					}
				}
			}
		}
	}
	if wantApp && !hasApp {
		return bad("application-section-missing", fmt.Sprintf("%d data channels, always=%v", p.dcs, p.always)), 0, hasApp
	}
	if hasApp && !wantApp && !remoteApp {
		return bad("application-section-unrequested", "no data channel, no AlwaysNegotiateDataChannels, none in a remote description"), 0, hasApp
	}
	return nil, sending, hasApp
}

func sameSet(a, b map[uint64]bool) bool {
	if len(a) != len(b) {
		return false
	}
	for k := range a {
		if !b[k] {
			return false
		}
	}
	return true
}
func sameSetS(a, b map[string]bool) bool {
	if len(a) != len(b) {
		return false
	}
	for k := range a {
		if !b[k] {
			return false
		}
	}
	return true
}
func keysU(m map[uint64]bool) []uint64 {
	var out []uint64
	for k := range m {
		out = append(out, k)
	}
	sort.Slice(out, func(i, j int) bool { return out[i] < out[j] })
	return out
}
func keysS(m map[string]bool) []string {
	var out []string
	for k := range m {
		out = append(out, k)
	}
	sort.Strings(out)
	return out
}

type c12Result struct {
	obs V
	coq string
	v   Verdict
}

func c12Exec(c nCase) c12Result {
	w := nNewWorld(c)
	defer w.close()
	var fail *Verdict
	offers, sendingOffers, appOffers, matched := 0, 0, 0, 0
	w.onOffer = func(w *nWorld, p int, offer *sdp.SessionDescription) {
		f, sending, app := c12Oracle(w, p, offer)
		offers++
		if sending > 0 {
			sendingOffers++
		}
		if app {
			appOffers++
		}
		if w.peers[p].pc.CurrentRemoteDescription() != nil {
			matched++
		}
		if f != nil && fail == nil {
			fail = f
		}
	}
	for _, op := range c.Ops {
		w.exec(op)
	}
	v := Pass(fmt.Sprintf("offers%d/sending%d/app%d/matched%d", min(offers, 6)/2*2, min(sendingOffers, 4)/2*2, min(appOffers, 2), min(matched, 2)),
		sendingOffers > 0 || appOffers > 0)
	if fail != nil {
		v = *fail
	}
	return c12Result{obs: nDigest(w.observation()), coq: w.coqCase(), v: v}
}

// Run and Coq both need the executed world (the model input contains observed
// values), so one execution is cached per case between the two callbacks.
var c12Cache = newNCache()

func init() {
	corpus := func() []nCase {
		return []nCase{
			// first offer: creation order, data section last
			{Engine: [2]int{1, 1}, Ops: []nOp{
				{P: 0, K: nAddTrack, Kind: 2, ID: "ta", Stream: "s1"},
				{P: 0, K: nAddTcvKind, Kind: 1, Dir: 3},
				{P: 0, K: nDataChannel},
				{P: 0, K: nOffer}}},
			// renegotiation: B's offer decides the order of A's next offer
			{Engine: [2]int{2, 0}, Ops: append(append([]nOp{
				{P: 0, K: nAddTrack, Kind: 1, ID: "ta", Stream: "s1"},
				{P: 1, K: nAddTrack, Kind: 2, ID: "tb", Stream: "s2"},
				{P: 1, K: nDataChannel}},
				nExchange(1)...),
				nOp{P: 0, K: nAddTcvTrack, Kind: 2, Dir: 2, ID: "tc", Stream: "s1", RID: "q"},
				nOp{P: 0, K: nAddEncoding, TI: 2, Kind: 2, ID: "tc", Stream: "s1", RID: "h"},
				nOp{P: 0, K: nOffer})},
			// c12_remark_mids_may_collide_witness: two transceivers with mid "0" (a C06
			// matter); each still has its own section, so C12 holds
			{Ops: []nOp{
				{P: 0, K: nAddTrack, Kind: 2, ID: "ta", Stream: "s2"},
				{P: 0, K: nOffer},
				{P: 1, K: nAddTcvKind, Kind: 1, Dir: 3},
				{P: 1, K: nDeliverO},
				{P: 1, K: nOffer}}},
			// c12_remark_app_section_mirrors_remote_witness: the remote created the data
			// channel; its application section is kept in this side's next offer
			{Ops: append(append([]nOp{{P: 1, K: nDataChannel}}, nExchange(1)...), nOp{P: 0, K: nOffer})},
			// provisional answers on both sides, then the final answer; offers in
			// have-local-pranswer / have-remote-pranswer and after the exchange
			{Engine: [2]int{1, 2}, Ops: append(append([]nOp{
				{P: 0, K: nAddTrack, Kind: 2, ID: "ta", Stream: "s1"},
				{P: 1, K: nAddTrack, Kind: 1, ID: "tb", Stream: "s2"}},
				nOp{P: 0, K: nOffer}, nOp{P: 0, K: nSetLocalO}, nOp{P: 1, K: nDeliverO}, nOp{P: 1, K: nAnswer},
				nOp{P: 1, K: nSetLocalP}, nOp{P: 1, K: nOffer}, nOp{P: 0, K: nDeliverP}, nOp{P: 0, K: nOffer},
				nOp{P: 1, K: nAddTcvKind, Kind: 2, Dir: 3}, nOp{P: 1, K: nAnswer},
				nOp{P: 1, K: nSetLocalA}, nOp{P: 0, K: nDeliverA}),
				nOp{P: 0, K: nOffer}, nOp{P: 1, K: nOffer})},
			// CreateOffer's error path: the remote answer names a mid ("9") this side has no
			// transceiver for; the sender of the transceiver matched BEFORE the failing
			// section keeps its setNegotiated mark, so the next startRTPSenders calls Send on
			// it and AddEncoding is refused afterwards (errRTPSenderSendAlreadyCalled)
			{Ops: []nOp{
				{P: 0, K: nAddTcvKind, Kind: 2, Dir: 3},
				{P: 0, K: nAddTcvKind, Kind: 1, Dir: 3},
				{P: 0, K: nOffer}, {P: 0, K: nSetLocalO}, {P: 1, K: nDeliverO}, {P: 1, K: nAnswer}, {P: 1, K: nSetLocalA},
				{P: 0, K: nDeliverA, MidTo: "9"},
				{P: 0, K: nAddTrack, Kind: 2, ID: "ta", Stream: "s1", RID: "q"},
				{P: 0, K: nOffer},
				{P: 0, K: nSetLocalO},
				{P: 0, K: nDeliverA},
				{P: 0, K: nAddEncoding, TI: 0, Kind: 2, ID: "ta", Stream: "s1", RID: "h"},
				{P: 0, K: nClose}, {P: 0, K: nOffer}}},
			// Close in the middle of an exchange, calls afterwards
			{Ops: []nOp{
				{P: 0, K: nAddTrack, Kind: 2, ID: "ta", Stream: "s1"}, {P: 0, K: nDataChannel},
				{P: 0, K: nOffer}, {P: 0, K: nSetLocalO}, {P: 1, K: nDeliverO}, {P: 1, K: nClose},
				{P: 1, K: nAnswer}, {P: 1, K: nOffer}, {P: 0, K: nClose}, {P: 0, K: nOffer}, {P: 0, K: nDeliverA}}},
			// RemoveTrack / ReplaceTrack(nil) / ReplaceTrack then offer
			{Engine: [2]int{3, 1}, Ops: []nOp{
				{P: 0, K: nAddTrack, Kind: 2, ID: "ta", Stream: "s1"},
				{P: 0, K: nAddTrack, Kind: 1, ID: "tb", Stream: "s1"},
				{P: 0, K: nOffer},
				{P: 0, K: nRemoveTrack, TI: 0},
				{P: 0, K: nReplaceTrack, TI: 1, Kind: 1, Nil: true},
				{P: 0, K: nOffer},
				{P: 0, K: nReplaceTrack, TI: 1, Kind: 1, ID: "tc", Stream: "s2"},
				{P: 0, K: nOffer}}},
		}
	}
	Register(Spec[nCase]{
		ID: "C12", Suite: "hist", CoqImports: []string{"Model.OfferShape", "Check.C12"},
		CoqType: "list (bool * list op)", CoqRun: nCoqRun("Check.C12.run", "Check.C12.run_d"),
		Quick: 300, Thorough: 3000, Parallel: 8, Timeout: 60 * time.Second,
		Corpus: corpus,
		Gen:    func(r *Rand, i int) nCase { return nGenCase(r, true) },
		Run: func(c nCase) (V, Verdict) {
			res := c12Exec(c)
			c12Cache.put(c, res.coq)
			return res.obs, res.v
		},
		Coq:    func(c nCase) string { return c12Cache.take(c) },
		Shrink: nShrink,
	})
}

// ---------- suite tdetails: trackDetailsFromSDP(what addSenderSDP wrote) ----------

type tdCase struct {
	Kind    int      `json:"kind"`
	Dir     int      `json:"dir"` // 1 sendrecv, 2 sendonly
	ID      string   `json:"id"`
	Stream  string   `json:"stream"`
	RIDs    []string `json:"rids"` // empty: one encoding without rid
	Engine  int      `json:"engine"`
	Mutate  int      `json:"mutate"` // 0 none, 1 drop, 2 swap with next, 3 corrupt number, 4 recvonly, 5 duplicate
	At      int      `json:"at"`
	coqSec  string
}

var tdCache = struct {
	mu sync.Mutex
	m  map[string]*nCacheEntry
}{m: map[string]*nCacheEntry{}}

func tdKey(c tdCase) string {
	c.coqSec = ""
	b, _ := json.Marshal(c)
	return string(b)
}

func tdRun(c tdCase) (V, string, Verdict) {
	signalOnly(true)
	api := newQuietAPI(nEngine(c.Engine))
	pc, err := api.NewPeerConnection(webrtc.Configuration{})
	if err != nil {
		panic(err)
	}
	defer pc.Close() //nolint
	mk := func(rid string) *webrtc.TrackLocalStaticSample {
		return nTrack(nOp{Kind: c.Kind, ID: c.ID, Stream: c.Stream, RID: rid})
	}
	first := ""
	if len(c.RIDs) > 0 {
		first = c.RIDs[0]
	}
	tr, err := pc.AddTransceiverFromTrack(mk(first), webrtc.RTPTransceiverInit{Direction: webrtc.RTPTransceiverDirection(c.Dir)})
	if err != nil {
		panic(err)
	}
	for _, rid := range c.RIDs[min(1, len(c.RIDs)):] {
		if err := tr.Sender().AddEncoding(mk(rid)); err != nil {
			return VS("addencoding-refused"), "", Pass("refused", false)
		}
	}
	offer, err := pc.CreateOffer(nil)
	if err != nil {
		panic(err)
	}
	parsed := &sdp.SessionDescription{}
	if err := parsed.UnmarshalString(offer.SDP); err != nil {
		panic(err)
	}
	m := parsed.MediaDescriptions[0]
	// positions of the attributes the function reads
	var rel []int
	for i, a := range m.Attributes {
		switch a.Key {
		case "msid", "ssrc", "ssrc-group", "rid":
			rel = append(rel, i)
		}
	}
	at := 0
	if len(rel) > 0 {
		at = rel[c.At%len(rel)]
	}
	switch c.Mutate {
	case 1:
		m.Attributes = append(append([]sdp.Attribute{}, m.Attributes[:at]...), m.Attributes[at+1:]...)
	case 2:
		if at+1 < len(m.Attributes) {
			m.Attributes[at], m.Attributes[at+1] = m.Attributes[at+1], m.Attributes[at]
		}
	case 3:
		m.Attributes[at].Value = strings.Replace(m.Attributes[at].Value, "1", "x", 1)
	case 4:
		for i := range m.Attributes {
			if m.Attributes[i].Key == "sendrecv" || m.Attributes[i].Key == "sendonly" {
				m.Attributes[i].Key = "recvonly"
			}
		}
	case 5:
		m.Attributes = append(m.Attributes, m.Attributes[at])
	}
	got := webrtc.VerifTrackDetailsFromSDP(parsed)
	out := VL{}
	for _, d := range got {
		kind := 2
		if d.Kind == webrtc.RTPCodecTypeAudio {
			kind = 1
		}
		ss := VL{}
		for _, x := range d.SSRCs {
			ss = append(ss, VZ(int64(x)))
		}
		rtx, fec := VL{}, VL{}
		if d.RTX != nil {
			rtx = VL{VZ(int64(*d.RTX))}
		}
		if d.FEC != nil {
			fec = VL{VZ(int64(*d.FEC))}
		}
		rids := VL{}
		for _, r := range d.RIDs {
			rids = append(rids, VS(r))
		}
		out = append(out, VL{VS(d.Mid), VZ(kind), VS(d.StreamID), VS(d.ID), ss, rtx, fec, rids})
	}
	// model input: the section with the attributes the function looks at
	var attrs []string
	for _, a := range m.Attributes {
		switch a.Key {
		case "msid", "ssrc", "ssrc-group", "rid", "simulcast":
			attrs = append(attrs, fmt.Sprintf("(%s, %s)", CoqString(a.Key), CoqString(a.Value)))
		}
	}
	mid, hasMid := nMid(m)
	mkind := [...]string{"MOther", "MAudio", "MVideo", "MApp"}[nMediaKind(m)]
	coq := fmt.Sprintf("SA %s %s %s %s", CoqOpt(hasMid, CoqString(mid)), mkind, nCoqDirOpt(nDirOf(m)), CoqList(attrs))

	// direct oracle: the round trip, for ids without spaces, on the unmutated section
	v := Pass(fmt.Sprintf("mut%d/encs%d", c.Mutate, max(1, len(c.RIDs))), c.Mutate == 0)
	clean := !strings.Contains(c.ID, " ") && !strings.Contains(c.Stream, " ") && c.ID != "" && c.Stream != ""
	if c.Mutate == 0 && clean {
		encs := tr.Sender().GetParameters().Encodings
		switch {
		case len(got) != 1:
			v = Fail("roundtrip-track-count", fmt.Sprintf("%d tracks read back from one sender", len(got)))
		case got[0].Mid != tr.Mid() || got[0].Kind != tr.Kind() || got[0].StreamID != c.Stream || got[0].ID != c.ID:
			v = Fail("roundtrip-identity-differs", fmt.Sprintf("%+v", got[0]))
		case len(encs) == 1:
			d := got[0]
			okR := (d.RTX == nil && encs[0].RTX.SSRC == 0) || (d.RTX != nil && *d.RTX == encs[0].RTX.SSRC)
			okF := (d.FEC == nil && encs[0].FEC.SSRC == 0) || (d.FEC != nil && *d.FEC == encs[0].FEC.SSRC)
			if len(d.SSRCs) != 1 || d.SSRCs[0] != encs[0].SSRC || !okR || !okF {
				v = Fail("roundtrip-ssrc-differs", fmt.Sprintf("%+v vs %+v", d, encs[0]))
			}
		default:
			var want []string
			for _, e := range encs {
				want = append(want, e.RID)
			}
			if strings.Join(got[0].RIDs, ",") != strings.Join(want, ",") {
				v = Fail("roundtrip-rids-differ", fmt.Sprintf("%v vs %v", got[0].RIDs, want))
			} else if len(got[0].SSRCs) != 0 || got[0].RTX != nil || got[0].FEC != nil {
				// c12_track_details_roundtrip_encodings: the simulcast track carries the rids only
				v = Fail("roundtrip-simulcast-carries-ssrc", fmt.Sprintf("%+v", got[0]))
			}
		}
	}
	return VL{VS("ok"), out}, coq, v
}

func init() {
	Register(Spec[tdCase]{
		ID: "C12", Suite: "tdetails", CoqImports: []string{"Model.OfferShape", "Check.C12"},
		CoqType: "sec", CoqRun: "Check.C12.run_td",
		Quick: 150, Thorough: 1500, Parallel: 8, Timeout: 30 * time.Second,
		Corpus: func() []tdCase {
			return []tdCase{
				{Kind: 2, Dir: 1, ID: "ta", Stream: "s1", Engine: 2},
				{Kind: 2, Dir: 2, ID: "ta", Stream: "s1", RIDs: []string{"q", "h", "f"}, Engine: 1},
				{Kind: 1, Dir: 1, ID: "t a", Stream: "s1", Engine: 0},
				{Kind: 2, Dir: 1, ID: "ta", Stream: "s1", Engine: 2, Mutate: 2, At: 0},
			}
		},
		Gen: func(r *Rand, i int) tdCase {
			c := tdCase{Kind: r.Range(1, 2), Dir: r.Range(1, 2), ID: Pick(r, []string{"ta", "tb", "t c", "x", " lead"}),
				Stream: Pick(r, []string{"s1", "s2", "s 3", "y"}), Engine: r.Intn(4)}
			if r.Chance(1, 3) {
				c.RIDs = [][]string{{"q"}, {"q", "h"}, {"q", "h", "f"}}[r.Intn(3)]
			}
			if r.Chance(1, 2) {
				c.Mutate = r.Range(1, 5)
				c.At = r.Intn(40)
			}
			return c
		},
		Run: func(c tdCase) (V, Verdict) {
			obs, coq, v := tdRun(c)
			tdCache.mu.Lock()
			k := tdKey(c)
			if e, ok := tdCache.m[k]; ok {
				e.ambiguous, e.pending = true, e.pending+1
			} else {
				tdCache.m[k] = &nCacheEntry{coq: coq, pending: 1}
			}
			tdCache.mu.Unlock()
			return obs, v
		},
		Coq: func(c tdCase) string {
			tdCache.mu.Lock()
			defer tdCache.mu.Unlock()
			k := tdKey(c)
			e, ok := tdCache.m[k]
			if !ok {
				return ""
			}
			e.pending--
			if e.pending <= 0 {
				delete(tdCache.m, k)
			}
			if e.ambiguous {
				return ""
			}
			return e.coq
		},
	})
}
