//go:build verif_c20

package main

import (
	"errors"
	"fmt"
	"io"
	"math/big"
	"net"
	"sync"
	"sync/atomic"
	"time"

	"github.com/pion/datachannel"
	"github.com/pion/logging"
	"github.com/pion/sctp"
	"github.com/pion/webrtc/v4"
)

// C20: DataChannel.readyState only moves forward; OnOpen/OnClose at most once;
// Send on a channel that is not open returns an error.
//
// A real DataChannel of a real (never connected) PeerConnection; the
// underlying pion/datachannel sits on a real SCTP association pair over an
// in-process pipe, so that handleOpen, Close, readLoop and PeerConnection.Close
// run their real code. Threads: 0 handleOpen, 1 PeerConnection.Close (then the
// association goes away, as sctpTransport.Stop would do), 2 the remote side
// resets the stream and aborts the association (transport gone), 3 readLoop's exit path, 4+j the j-th Close call.

type c20In struct {
	NClose int   `json:"nclose"`
	Sched  []int `json:"sched"`
}

func c20Quiet() logging.LoggerFactory {
	lf := logging.NewDefaultLoggerFactory()
	lf.DefaultLogLevel = logging.LogLevelDisabled
	return lf
}

func c20Associations() (*sctp.Association, *sctp.Association, error) {
	c1, c2 := net.Pipe()
	var a1, a2 *sctp.Association
	var e1, e2 error
	var wg sync.WaitGroup
	wg.Add(2)
	go func() {
		defer wg.Done()
		a1, e1 = sctp.Client(sctp.Config{NetConn: c1, LoggerFactory: c20Quiet()})
	}()
	go func() {
		defer wg.Done()
		a2, e2 = sctp.Server(sctp.Config{NetConn: c2, LoggerFactory: c20Quiet()})
	}()
	wg.Wait()
	if e1 != nil {
		return nil, nil, e1
	}
	return a1, a2, e2
}

const (
	c20Connecting = 0
	c20Open       = 1
	c20Closing    = 2
	c20Closed     = 3
)

func c20Rank(s webrtc.DataChannelState) int {
	switch s {
	case webrtc.DataChannelStateConnecting:
		return c20Connecting
	case webrtc.DataChannelStateOpen:
		return c20Open
	case webrtc.DataChannelStateClosing:
		return c20Closing
	case webrtc.DataChannelStateClosed:
		return c20Closed
	}
	return -1
}

// stepOwn steps a participant; yield points that are not ours (other
// properties' points inside PeerConnection.Close) are passed through.
func c20StepOwn(s *Sched, tid int) string {
	st := stepPatient(s, tid, 5*time.Second)
	for i := 0; i < 64 && len(st) > 7 && st[:7] == "parked:" && (len(st) < 10 || st[7:10] != "dc."); i++ {
		st = stepPatient(s, tid, 5*time.Second)
	}
	return st
}

func c20Run(in c20In) (V, Verdict) {
	api := newQuietAPI(nil)
	pc, err := api.NewPeerConnection(webrtc.Configuration{})
	if err != nil {
		panic(err)
	}
	d, err := pc.CreateDataChannel("c20", nil)
	if err != nil {
		panic(err)
	}
	var opens, closes atomic.Int32
	d.OnOpen(func() { opens.Add(1) })
	d.OnClose(func() { closes.Add(1) })
	sendBefore := d.Send([]byte{1}) // connecting: must be refused

	a1, a2, err := c20Associations()
	if err != nil {
		panic(err)
	}
	const sid = 1
	under, err := datachannel.Dial(a1, sid, &datachannel.Config{Negotiated: true, LoggerFactory: c20Quiet()})
	if err != nil {
		panic(err)
	}
	remote, err := a2.OpenStream(sid, sctp.PayloadTypeWebRTCBinary)
	if err != nil {
		panic(err)
	}

	s := NewSched().Only("dc.")
	tOpen := s.Add("open", func() { d.VerifHandleOpen(under, false, true) })
	tPC := s.Add("pcclose", func() { _ = pc.Close(); _ = a1.Close() })
	// the remote side closes the channel and goes away: the transport is gone
	tRem := s.Add("remote", func() { _ = remote.Close(); a2.Abort("") })
	tRL := s.AddSpawned("readloop", "dc.rl.")
	tids := []int{tOpen, tPC, tRem, tRL}
	for j := 0; j < in.NClose; j++ {
		tids = append(tids, s.Add(fmt.Sprintf("close%d", j), func() { _ = d.Close() }))
	}
	closedSched := false
	cleanup := func() {
		if !closedSched {
			closedSched = true
			s.Close()
		}
		_ = pc.Close()
		_ = a1.Close()
		_ = a2.Close()
		// a read loop that is still running now fails its read; wait for it to
		// exit, otherwise it would reach its yield point during a later case and
		// be taken for that case's read loop (GracefulClose waits for readLoopActive)
		waited := make(chan struct{})
		go func() { _ = d.GracefulClose(); close(waited) }()
		select {
		case <-waited:
		case <-time.After(5 * time.Second):
		}
	}
	defer cleanup()

	var sched []int
	for _, t := range in.Sched {
		if t >= 0 && t < 4+in.NClose {
			sched = append(sched, t)
		}
	}
	sched = append(sched, 0, 0)
	for j := 0; j < in.NClose; j++ {
		sched = append(sched, 4+j, 4+j, 4+j)
	}
	sched = append(sched, 3)

	verdict := Pass("", false)
	fail := func(sig, what string) {
		if verdict.OK {
			verdict = Fail(sig, what)
		}
	}
	flags := new(big.Int)
	var obs []int
	prev := c20Rank(d.ReadyState())
	goneTriggered, rlDone, closeCalled, pcClosed := false, false, false, false
	closeFinished := make([]bool, in.NClose)
	closeSteps := make([]int, in.NClose)        // enabled blocks of each Close so far
	checkedClosed := make([]bool, in.NClose)     // its closed-check ran when the state already was closed
	for step, t := range sched {
		if t == 3 { // readLoop's exit path runs once its read has failed
			if rlDone || !goneTriggered || !d.VerifReadLoopStarted() {
				continue // disabled; nothing to release
			}
			if !waitParked(s, tRL, 5*time.Second) {
				fail("readloop-did-not-notice-the-closed-transport", fmt.Sprintf("trace %v", s.Trace))
				continue
			}
		}
		st := c20StepOwn(s, tids[t])
		if st == "disabled" {
			continue
		}
		if st == "running" {
			fail("thread-blocked-unexpectedly", fmt.Sprintf("thread %d; trace %v", t, s.Trace))
		}
		flags.SetBit(flags, step, 1)
		switch {
		case t == 1:
			goneTriggered, pcClosed = true, true
		case t == 2:
			goneTriggered = true
		case t == 3:
			rlDone = true
		case t >= 4:
			closeCalled = true
			if st == "finished" {
				closeFinished[t-4] = true
			}
		}
		cur := c20Rank(d.ReadyState())
		obs = append(obs, cur)
		if t >= 4 {
			closeSteps[t-4]++
			if closeSteps[t-4] == 2 {
				checkedClosed[t-4] = prev == c20Closed
			}
		}
		if (t == 1 || t == 3) && cur != c20Closed {
			fail("teardown-did-not-store-closed", fmt.Sprintf("step %d thread %d (1 PeerConnection.Close, 3 readLoop exit) left readyState %d", step, t, cur))
		}
		// direct oracle, clause 1: readyState only moves forward
		if cur < prev {
			names := []string{"connecting", "open", "closing", "closed"}
			switch {
			case t >= 4 && checkedClosed[t-4]:
				fail("close-stored-closing-although-it-saw-closed",
					fmt.Sprintf("step %d (Close): readyState %s -> %s, and the check ran after closed was stored", step, names[prev], names[cur]))
			case t >= 4:
				fail("close-stored-closing-after-its-closed-check-went-stale",
					fmt.Sprintf("step %d (Close): readyState %s -> %s", step, names[prev], names[cur]))
			case t == 0:
				fail("handleopen-stored-open-after-a-later-state",
					fmt.Sprintf("step %d (handleOpen): readyState %s -> %s", step, names[prev], names[cur]))
			default:
				fail("readystate-moved-backwards", fmt.Sprintf("step %d thread %d: %s -> %s", step, t, names[prev], names[cur]))
			}
		}
		prev = cur
	}
	// handler goroutines ("go once.Do(...)") carry no yield point: wait until the counts are stable
	stable, last := 0, [2]int32{-1, -1}
	for i := 0; i < 400 && stable < 6; i++ {
		now := [2]int32{opens.Load(), closes.Load()}
		if now == last {
			stable++
		} else {
			stable, last = 0, now
		}
		time.Sleep(500 * time.Microsecond)
	}
	final := c20Rank(d.ReadyState())
	sendErr := d.Send([]byte{2})
	closedSched = true
	s.Close()

	// clause 2: after Close has returned and the transport is gone, the channel is closed
	allClosed := in.NClose > 0
	for _, f := range closeFinished {
		allClosed = allClosed && f
	}
	if closeCalled && allClosed && goneTriggered && final != c20Closed {
		switch {
		case pcClosed || rlDone: // a stale store is the only way to leave closed
			fail("close-stored-closing-after-its-closed-check-went-stale", fmt.Sprintf("final readyState %d after Close and transport gone", final))
		case final == c20Open:
			fail("handleopen-stored-open-after-a-later-state", "Close returned, the remote closed, readyState stays open (no read loop was started)")
		default:
			fail("closed-before-open-stays-closing", "Close returned while connecting, the channel opened and the remote closed: readyState stays closing (no read loop), though OnClose fired")
		}
	}
	// clause 3: handlers at most once per registration
	if opens.Load() > 1 {
		fail("onopen-ran-more-than-once", fmt.Sprintf("%d invocations", opens.Load()))
	}
	if closes.Load() > 1 {
		fail("onclose-ran-more-than-once", fmt.Sprintf("%d invocations", closes.Load()))
	}
	// clause 4: Send on a channel that is not open returns an error
	if sendBefore == nil {
		fail("send-accepted-while-connecting", "Send returned nil in state connecting")
	}
	if final != c20Open && sendErr == nil {
		fail("send-accepted-while-not-open", fmt.Sprintf("Send returned nil in state %d", final))
	}
	closedPipe := final != c20Open && errors.Is(sendErr, io.ErrClosedPipe)
	if verdict.OK {
		distinct := map[int]bool{}
		for _, x := range obs {
			distinct[x] = true
		}
		verdict.NonTrivial = len(distinct) >= 2
		verdict.Class = fmt.Sprintf("closers%d/pc=%v/remote=%v/rl=%v/final%d", in.NClose, pcClosed, goneTriggered && !pcClosed, rlDone, final)
	}
	return VL{c20BigZ(flags.String()), VInts(obs), VZ(int64(opens.Load())), VZ(int64(closes.Load())), VB(closedPipe)}, verdict
}

type c20BigZ string

func (z c20BigZ) Coq() string { return "VZ " + string(z) }

func c20Coq(in c20In) string {
	ss := make([]string, len(in.Sched))
	for i, x := range in.Sched {
		ss[i] = CoqZ(int64(x))
	}
	return fmt.Sprintf("(%d, %s)", in.NClose, CoqList(ss))
}

// all interleavings of the given per-thread step counts
func c20Interleavings(threads []int, counts []int) [][]int {
	var out [][]int
	left := append([]int{}, counts...)
	total := 0
	for _, c := range counts {
		total += c
	}
	cur := make([]int, 0, total)
	var rec func()
	rec = func() {
		if len(cur) == total {
			out = append(out, append([]int{}, cur...))
			return
		}
		for i, t := range threads {
			if left[i] > 0 {
				left[i]--
				cur = append(cur, t)
				rec()
				cur = cur[:len(cur)-1]
				left[i]++
			}
		}
	}
	rec()
	return out
}

func init() {
	Register(Spec[c20In]{
		ID: "C20", Suite: "sched", CoqImports: []string{"Check.C20"},
		CoqType: "Z * list Z", CoqRun: "Check.C20.run_sched",
		Quick: 120, Thorough: 5000,
		Corpus: func() []c20In {
			return []c20In{
				// Close parked between its closed-check and the store; PeerConnection.Close stores closed; release
				{1, []int{4, 4, 1, 4}},
				// the same with the read loop: open, Close passes its check, remote closes, readLoop stores closed, Close stores closing
				{1, []int{0, 0, 4, 4, 2, 3, 4}},
				// handleOpen parked before storing open; Close runs completely; release
				{1, []int{0, 4, 4, 4, 0}},
				// handleOpen parked; PeerConnection.Close; release
				{0, []int{0, 1, 0, 3}},
				// Close while connecting, then the channel opens and the remote closes
				{1, []int{4, 4, 4, 0, 2}},
				// natural life: open, Close, remote answers, readLoop exits
				{1, []int{0, 0, 4, 4, 4, 2, 3}},
				{1, []int{0, 0, 4, 4, 4, 1, 3}},
			}
		},
		Exhaustive: func() []c20In {
			var out []c20In
			// handleOpen (2 blocks) x Close (3 blocks) x PeerConnection.Close (1)
			for _, sch := range c20Interleavings([]int{0, 4, 1}, []int{2, 3, 1}) {
				out = append(out, c20In{1, sch})
			}
			// handleOpen x Close x remote close, readLoop exit placed everywhere after
			for _, sch := range c20Interleavings([]int{0, 4, 2, 3}, []int{2, 3, 1, 1}) {
				out = append(out, c20In{1, sch})
			}
			return out
		},
		Gen: func(r *Rand, i int) c20In {
			n := r.Range(0, 2)
			l := r.Range(2, 12)
			sch := make([]int, l)
			for j := range sch {
				switch {
				case r.Chance(1, 4):
					sch[j] = 0
				case r.Chance(1, 8):
					sch[j] = 1
				case r.Chance(1, 7):
					sch[j] = 2
				case r.Chance(1, 5):
					sch[j] = 3
				case n > 0:
					sch[j] = 4 + r.Intn(n)
				default:
					sch[j] = r.Intn(4)
				}
			}
			return c20In{n, sch}
		},
		Shrink: func(in c20In) []c20In {
			var out []c20In
			for i := range in.Sched {
				c := in
				c.Sched = append(append([]int{}, in.Sched[:i]...), in.Sched[i+1:]...)
				out = append(out, c)
			}
			return out
		},
		Run: c20Run, Coq: c20Coq,
	})
}
