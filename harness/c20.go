//go:build verif_c20

package main

import (
	"bytes"
	"errors"
	"fmt"
	"io"
	"math/big"
	"net"
	"runtime"
	"strings"
	"sync"
	"sync/atomic"
	"time"

	"github.com/pion/datachannel"
	"github.com/pion/logging"
	"github.com/pion/sctp"
	"github.com/pion/webrtc/v4"
	"github.com/pion/webrtc/v4/internal/verifhook"
)

// C20: DataChannel.readyState only moves forward; once the transport is gone
// and the channel's threads have come to rest it is closed; the handler of
// every OnOpen/OnClose registration runs at most once; Send on a channel that
// is not open returns an error; GracefulClose returns only when no read loop
// is running.
//
// A real DataChannel of a real (never connected) PeerConnection; the
// underlying pion/datachannel sits on a real SCTP association pair over an
// in-process pipe, so that handleOpen, Close, GracefulClose, readLoop,
// OnOpen/OnClose, Detach, Send and PeerConnection.Close run their real code.
//
// Schedule tokens: 0 handleOpen, 1 PeerConnection.Close (then the association
// goes away, as sctpTransport.Stop would do), 2 the remote side resets the
// stream and aborts the association (transport gone), 3 readLoop's exit path,
// 4+j the j-th Close/GracefulClose call, 20+i the i-th concurrent OnOpen
// registration, 30+i the i-th concurrent OnClose registration, 60 Detach,
// 61 Send, 62 SendText.  With Fine the points dcfire.* (between onOpen/onClose
// reading the handler and "go once.Do") and dcreg.* (between a registration's
// store and its readyState check) are yield points too.

type c20In struct {
	Detach bool  `json:"detach"` // SettingEngine.DetachDataChannels()
	PreReg bool  `json:"prereg"` // OnOpen/OnClose registered before anything runs
	Kinds  []int `json:"kinds"`  // per Close call: 0 Close, 1 GracefulClose
	NRegO  int   `json:"nrego"`
	NRegC  int   `json:"nregc"`
	Fine   bool  `json:"fine"`
	Sched  []int `json:"sched"`
}

func c20Quiet() logging.LoggerFactory {
	lf := logging.NewDefaultLoggerFactory()
	lf.DefaultLogLevel = logging.LogLevelDisabled
	return lf
}

func c20Associations() (*sctp.Association, *sctp.Association, error) {
	c1, c2 := net.Pipe()
	var a1, a2 *sctp.Association
	var e1, e2 error
	var wg sync.WaitGroup
	wg.Add(2)
	go func() {
		defer wg.Done()
		a1, e1 = sctp.Client(sctp.Config{NetConn: c1, LoggerFactory: c20Quiet()})
	}()
	go func() {
		defer wg.Done()
		a2, e2 = sctp.Server(sctp.Config{NetConn: c2, LoggerFactory: c20Quiet()})
	}()
	wg.Wait()
	if e1 != nil {
		return nil, nil, e1
	}
	return a1, a2, e2
}

func c20API(detach bool) *webrtc.API {
	se := webrtc.SettingEngine{}
	se.SetICEMulticastDNSMode(0 + 1) // ice.MulticastDNSModeDisabled
	se.SetNetworkTypes([]webrtc.NetworkType{webrtc.NetworkTypeUDP4})
	se.SetInterfaceFilter(func(string) bool { return false })
	se.SetIncludeLoopbackCandidate(false)
	se.LoggerFactory = c20Quiet()
	if detach {
		se.DetachDataChannels()
	}
	return webrtc.NewAPI(webrtc.WithSettingEngine(se))
}

const (
	c20Connecting = 0
	c20Open       = 1
	c20Closing    = 2
	c20Closed     = 3
)

func c20Rank(s webrtc.DataChannelState) int {
	switch s {
	case webrtc.DataChannelStateConnecting:
		return c20Connecting
	case webrtc.DataChannelStateOpen:
		return c20Open
	case webrtc.DataChannelStateClosing:
		return c20Closing
	case webrtc.DataChannelStateClosed:
		return c20Closed
	}
	return -1
}

// ---------- goroutine inspection ----------

var c20DumpBuf = make([]byte, 1<<20)

func c20Dump() []byte {
	for {
		n := runtime.Stack(c20DumpBuf, true)
		if n < len(c20DumpBuf) {
			return c20DumpBuf[:n]
		}
		c20DumpBuf = make([]byte, 2*len(c20DumpBuf))
	}
}

var c20HandlerSpawners = [][]byte{
	[]byte("created by github.com/pion/webrtc/v4.(*DataChannel).onOpen"),
	[]byte("created by github.com/pion/webrtc/v4.(*DataChannel).OnOpen"),
	[]byte("created by github.com/pion/webrtc/v4.(*DataChannel).onClose"),
	[]byte("created by github.com/pion/webrtc/v4.(*DataChannel).OnClose"),
}

// c20Quiesce waits until no "go once.Do(handler)" goroutine is left: they carry
// no yield point, so every block is followed by the handler goroutines it spawned.
func c20Quiesce() bool {
	deadline := time.Now().Add(5 * time.Second)
	for {
		d := c20Dump()
		busy := false
		for _, pat := range c20HandlerSpawners {
			if bytes.Contains(d, pat) {
				busy = true
				break
			}
		}
		if !busy {
			return true
		}
		if time.Now().After(deadline) {
			return false
		}
		runtime.Gosched()
		time.Sleep(20 * time.Microsecond)
	}
}

// c20BlockedInWait counts the GracefulClose calls that sit in their deferred
// "<-readLoopActive".
func c20BlockedInWait() int {
	return bytes.Count(c20Dump(), []byte("v4.(*DataChannel).close.func1"))
}

// ---------- one case ----------

type c20Thread struct {
	tid      int  // scheduler participant
	done     bool // participant function returned (as far as the model's blocks go)
	graceful bool
	expWait  bool // GracefulClose found a read loop when it set isGracefulClosed
	waiting  bool // model position: deferred wait (the goroutine may already be through)
	started  bool
}

func c20Valid(in c20In, t int) bool {
	switch {
	case t >= 0 && t <= 3:
		return true
	case t >= 4 && t < 20:
		return t-4 < len(in.Kinds)
	case t >= 20 && t < 30:
		return t-20 < in.NRegO
	case t >= 30 && t < 40:
		return t-30 < in.NRegC
	case t == 60 || t == 61 || t == 62:
		return true
	}
	return false
}

func c20Run(in c20In) (V, Verdict) {
	api := c20API(in.Detach)
	pc, err := api.NewPeerConnection(webrtc.Configuration{})
	if err != nil {
		panic(err)
	}
	d, err := pc.CreateDataChannel("c20", nil)
	if err != nil {
		panic(err)
	}
	opens := make([]atomic.Int32, 1+in.NRegO)
	closes := make([]atomic.Int32, 1+in.NRegC)
	if in.PreReg {
		d.OnOpen(func() { opens[0].Add(1) })
		d.OnClose(func() { closes[0].Add(1) })
	}
	d.VerifAttachTransport(pc.SCTP()) // as open() would have done before handleOpen
	sendBefore := d.Send([]byte{1}) // connecting: must be refused

	a1, a2, err := c20Associations()
	if err != nil {
		panic(err)
	}
	const sid = 1
	under, err := datachannel.Dial(a1, sid, &datachannel.Config{Negotiated: true, LoggerFactory: c20Quiet()})
	if err != nil {
		panic(err)
	}
	remote, err := a2.OpenStream(sid, sctp.PayloadTypeWebRTCBinary)
	if err != nil {
		panic(err)
	}

	s := NewSched()
	if in.Fine {
		s.Only("dc.", "dcfire.", "dcreg.")
	} else {
		s.Only("dc.")
	}
	tOpen := s.Add("open", func() { d.VerifHandleOpen(under, false, true) })
	tPC := s.Add("pcclose", func() { _ = pc.Close(); _ = a1.Close() })
	// the remote side closes the channel and goes away: the transport is gone
	tRem := s.Add("remote", func() { _ = remote.Close(); a2.Abort("") })
	// the read loop is a goroutine of the code under test: it is recognised at its
	// first dc.rl.* point and from then on attributed by goroutine id
	tRL := s.AddSpawned("readloop", "\x00")
	verifhook.Install(func(name string) {
		if strings.HasPrefix(name, "dc.rl.") {
			s.mu.Lock()
			if _, known := s.byGoid[goid()]; !known {
				s.byGoid[goid()] = tRL
			}
			s.mu.Unlock()
		}
		s.point(name)
	})
	closers := make([]*c20Thread, len(in.Kinds))
	for j, k := range in.Kinds {
		if k == 1 {
			closers[j] = &c20Thread{graceful: true, tid: s.Add(fmt.Sprintf("gclose%d", j), func() { _ = d.GracefulClose() })}
		} else {
			closers[j] = &c20Thread{tid: s.Add(fmt.Sprintf("close%d", j), func() { _ = d.Close() })}
		}
	}
	regO := make([]int, in.NRegO)
	for i := range regO {
		k := i + 1
		regO[i] = s.Add(fmt.Sprintf("onopen%d", i), func() { d.OnOpen(func() { opens[k].Add(1) }) })
	}
	regC := make([]int, in.NRegC)
	for i := range regC {
		k := i + 1
		regC[i] = s.Add(fmt.Sprintf("onclose%d", i), func() { d.OnClose(func() { closes[k].Add(1) }) })
	}
	closedSched := false
	cleanup := func() {
		if !closedSched {
			closedSched = true
			s.Close()
		}
		_ = pc.Close()
		_ = a1.Close()
		_ = a2.Close()
		// a read loop that is still running now fails its read; wait for it to
		// exit, otherwise it would reach its yield point during a later case and
		// be taken for that case's read loop (GracefulClose waits for readLoopActive)
		waited := make(chan struct{})
		go func() { _ = d.GracefulClose(); close(waited) }()
		select {
		case <-waited:
		case <-time.After(5 * time.Second):
		}
		c20Quiesce()
	}
	defer cleanup()

	var sched []int
	for _, t := range in.Sched {
		if c20Valid(in, t) {
			sched = append(sched, t)
		}
	}
	sched = append(sched, 0, 0, 0)
	for j := range in.Kinds {
		sched = append(sched, 4+j, 4+j, 4+j)
	}
	sched = append(sched, 3, 3)
	for j := range in.Kinds {
		sched = append(sched, 4+j)
	}
	for i := 0; i < in.NRegO; i++ {
		sched = append(sched, 20+i, 20+i)
	}
	for i := 0; i < in.NRegC; i++ {
		sched = append(sched, 30+i, 30+i)
	}

	verdict := Pass("", false)
	fail := func(sig, what string) {
		if verdict.OK {
			verdict = Fail(sig, what)
		}
	}
	names := []string{"connecting", "open", "closing", "closed"}
	flags := new(big.Int)
	var obs []int
	prev := c20Rank(d.ReadyState())
	goneTriggered, pcClosed, closeCalled, detached := false, false, false, false
	openDone := false
	rlStage := 0 // 0 not at its exit path yet, 1 parked between the store and the handler spawn, 2 returned
	closeSteps := make([]int, len(in.Kinds))
	checkedClosed := make([]bool, len(in.Kinds))
	sendClass := func(before int, err error) int {
		switch {
		case before != c20Open && errors.Is(err, io.ErrClosedPipe):
			return 0
		case before != c20Open:
			return 3
		case goneTriggered:
			return 9
		case errors.Is(err, sctp.ErrStreamClosed):
			return 1
		case err == nil:
			return 2
		}
		return 3
	}
	waitingCount := func() int {
		n := 0
		for _, c := range closers {
			if c.waiting && !c.done {
				n++
			}
		}
		return n
	}
	// step a participant that may block in GracefulClose's deferred wait
	stepCloser := func(c *c20Thread) string {
		st := s.Step(c.tid)
		if st != "running" {
			return st
		}
		deadline := time.Now().Add(5 * time.Second)
		for time.Now().Before(deadline) {
			if cur := s.Status(c.tid); cur != "running" {
				return cur
			}
			if c.graceful && c20BlockedInWait() > waitingCount() {
				return "blocked"
			}
			time.Sleep(100 * time.Microsecond)
		}
		return "running"
	}

	for step, t := range sched {
		enabled := false
		observed := -1 // a Send / Detach result instead of the readyState
		switch {
		case t == 0:
			st := stepPatient(s, tOpen, 5*time.Second)
			if st == "disabled" {
				break
			}
			enabled = true
			if st == "running" {
				fail("thread-blocked-unexpectedly", fmt.Sprintf("handleOpen; trace %v", s.Trace))
			}
			openDone = st == "finished"
		case t == 1:
			st := stepPatient(s, tPC, 5*time.Second)
			if st == "disabled" {
				break
			}
			enabled = true
			if st != "finished" {
				fail("thread-blocked-unexpectedly", fmt.Sprintf("PeerConnection.Close: %s; trace %v", st, s.Trace))
			}
			goneTriggered, pcClosed = true, true
		case t == 2:
			st := stepPatient(s, tRem, 5*time.Second)
			if st == "disabled" {
				break
			}
			enabled = true
			goneTriggered = true
		case t == 3:
			if rlStage == 2 {
				break
			}
			if rlStage == 0 {
				// the exit path runs once the read has failed
				if !goneTriggered || !d.VerifReadLoopStarted() {
					break
				}
				if !waitParked(s, tRL, 5*time.Second) {
					fail("readloop-did-not-notice-the-closed-transport", fmt.Sprintf("trace %v", s.Trace))
					break
				}
			}
			st := stepPatient(s, tRL, 5*time.Second)
			if st == "disabled" {
				break
			}
			enabled = true
			switch {
			case st == "finished":
				rlStage = 2
			case strings.HasPrefix(st, "parked:dcfire."):
				rlStage = 1
			default:
				fail("thread-blocked-unexpectedly", fmt.Sprintf("readLoop: %s; trace %v", st, s.Trace))
			}
		case t >= 4 && t < 20:
			c := closers[t-4]
			if c.done {
				break
			}
			if c.waiting {
				if rlStage != 2 {
					if s.Status(c.tid) == "finished" {
						fail("gracefulclose-returned-before-the-read-loop-exited", fmt.Sprintf("close call %d; trace %v", t-4, s.Trace))
					}
					break
				}
				// the read loop has exited: the deferred wait is over
				deadline := time.Now().Add(5 * time.Second)
				for s.Status(c.tid) != "finished" && time.Now().Before(deadline) {
					time.Sleep(50 * time.Microsecond)
				}
				if s.Status(c.tid) != "finished" {
					fail("gracefulclose-still-blocked-after-the-read-loop-exited", fmt.Sprintf("close call %d; trace %v", t-4, s.Trace))
				}
				enabled, c.done, c.waiting = true, true, false
				break
			}
			if !c.started {
				c.started = true
				c.expWait = c.graceful && d.VerifReadLoopStarted()
			}
			st := stepCloser(c)
			if st == "disabled" {
				break
			}
			enabled, closeCalled = true, true
			switch {
			case st == "finished":
				if c.expWait {
					if rlStage != 2 {
						fail("gracefulclose-returned-before-the-read-loop-exited", fmt.Sprintf("close call %d; trace %v", t-4, s.Trace))
					}
					c.waiting = true // the model takes the (now free) wait as a block of its own
				} else {
					c.done = true
				}
			case st == "blocked":
				if !c.expWait || rlStage == 2 {
					fail("gracefulclose-blocked-without-a-running-read-loop", fmt.Sprintf("close call %d; trace %v", t-4, s.Trace))
				}
				c.waiting = true
			case st == "running":
				fail("thread-blocked-unexpectedly", fmt.Sprintf("close call %d; trace %v", t-4, s.Trace))
			}
		case t >= 20 && t < 40:
			tid := 0
			if t < 30 {
				tid = regO[t-20]
			} else {
				tid = regC[t-30]
			}
			st := stepPatient(s, tid, 5*time.Second)
			if st == "disabled" {
				break
			}
			enabled = true
			if st == "running" {
				fail("thread-blocked-unexpectedly", fmt.Sprintf("registration %d; trace %v", t, s.Trace))
			}
		case t == 60:
			enabled = true
			_, err := d.Detach()
			switch {
			case err == nil:
				observed, detached = 22, true
			case strings.Contains(err.Error(), "not opened yet"): // errDetachBeforeOpened
				observed = 21
			default:
				observed = 20
			}
			if (err == nil) != (in.Detach && d.VerifHaveDataChannel()) {
				fail("detach-result-unexpected", fmt.Sprintf("Detach returned %v", err))
			}
		case t == 61 || t == 62:
			enabled = true
			before := c20Rank(d.ReadyState())
			var err error
			if t == 61 {
				err = d.Send([]byte{7})
			} else {
				err = d.SendText("x")
			}
			observed = 10 + sendClass(before, err)
			// direct oracle, Send clause
			if before != c20Open && err == nil {
				fail("send-accepted-while-not-open", fmt.Sprintf("Send returned nil in state %s", names[before]))
			}
			if before != c20Open && !errors.Is(err, io.ErrClosedPipe) {
				fail("send-error-is-not-closed-pipe", fmt.Sprintf("Send returned %v in state %s", err, names[before]))
			}
		}
		if !enabled {
			continue
		}
		flags.SetBit(flags, step, 1)
		if !c20Quiesce() {
			fail("handler-goroutine-did-not-finish", "a once.Do goroutine is still there after 5 s")
		}
		cur := c20Rank(d.ReadyState())
		if observed >= 0 {
			obs = append(obs, observed)
		} else {
			obs = append(obs, cur)
		}
		if t >= 4 && t < 20 {
			closeSteps[t-4]++
			if closeSteps[t-4] == 2 {
				checkedClosed[t-4] = prev == c20Closed
			}
		}
		// direct oracle: the teardown paths store closed
		if t == 1 && !detached && cur != c20Closed {
			fail("teardown-did-not-store-closed", fmt.Sprintf("step %d: PeerConnection.Close left readyState %s", step, names[cur]))
		}
		if t == 1 && detached && cur != c20Closed {
			fail("detached-channel-never-reaches-closed", fmt.Sprintf("step %d: PeerConnection.Close after Detach() left readyState %s", step, names[cur]))
		}
		if t == 3 && cur != c20Closed {
			fail("teardown-did-not-store-closed", fmt.Sprintf("step %d: the read loop's exit path left readyState %s", step, names[cur]))
		}
		// direct oracle: readyState only moves forward
		if cur < prev {
			switch {
			case t >= 4 && t < 20 && checkedClosed[t-4]:
				fail("close-stored-closing-although-it-saw-closed",
					fmt.Sprintf("step %d (Close): readyState %s -> %s, and the check ran after closed was stored", step, names[prev], names[cur]))
			case t >= 4 && t < 20:
				fail("close-stored-closing-after-its-closed-check-went-stale",
					fmt.Sprintf("step %d (Close): readyState %s -> %s", step, names[prev], names[cur]))
			case t == 0:
				fail("handleopen-stored-open-after-a-later-state",
					fmt.Sprintf("step %d (handleOpen): readyState %s -> %s", step, names[prev], names[cur]))
			default:
				fail("readystate-moved-backwards", fmt.Sprintf("step %d token %d: %s -> %s", step, t, names[prev], names[cur]))
			}
		}
		prev = cur
	}
	final := c20Rank(d.ReadyState())
	sendErr := d.Send([]byte{2})
	finalSend := sendClass(final, sendErr)
	closedSched = true
	s.Close()

	// direct oracle: the transport is gone and the channel's threads are at rest: closed
	atRest := openDone && (rlStage == 2 || !d.VerifReadLoopStarted())
	for _, c := range closers {
		if c.started && !c.done {
			atRest = false
		}
	}
	if goneTriggered && atRest && final != c20Closed {
		switch {
		case in.Detach:
			fail("detached-channel-never-reaches-closed", fmt.Sprintf("detached channel, transport gone, everything at rest: readyState %s", names[final]))
		case pcClosed || rlStage == 2: // a stale store is the only way to leave closed
			fail("close-stored-closing-after-its-closed-check-went-stale", fmt.Sprintf("final readyState %s after the teardown", names[final]))
		case final == c20Open:
			fail("handleopen-stored-open-after-a-later-state", "the remote closed, readyState stays open (no read loop was started)")
		case closeCalled:
			fail("closed-before-open-stays-closing", "Close was called before or while the channel opened and the remote closed: readyState stays closing (no read loop)")
		default:
			fail("transport-gone-but-not-closed", fmt.Sprintf("final readyState %s", names[final]))
		}
	}
	// direct oracle: every registration's handler at most once
	for k := range opens {
		if n := opens[k].Load(); n > 1 {
			fail("onopen-handler-ran-twice-for-one-registration", fmt.Sprintf("registration %d: %d invocations", k, n))
		}
	}
	for k := range closes {
		if n := closes[k].Load(); n > 1 {
			fail("onclose-handler-ran-twice-for-one-registration", fmt.Sprintf("registration %d: %d invocations", k, n))
		}
	}
	// direct oracle: Send on a channel that is not open returns an error
	if sendBefore == nil {
		fail("send-accepted-while-not-open", "Send returned nil in state connecting")
	}
	if final != c20Open && sendErr == nil {
		fail("send-accepted-while-not-open", fmt.Sprintf("Send returned nil in state %s", names[final]))
	}
	if verdict.OK {
		distinct := map[int]bool{}
		for _, x := range obs {
			if x < 10 {
				distinct[x] = true
			}
		}
		verdict.NonTrivial = len(distinct) >= 2
		g := 0
		for _, k := range in.Kinds {
			g += k
		}
		verdict.Class = fmt.Sprintf("close%d/graceful%d/regs%d+%d/fine=%v/detach=%v/pc=%v/remote=%v/final%d",
			len(in.Kinds)-g, g, in.NRegO, in.NRegC, in.Fine, in.Detach, pcClosed, goneTriggered && !pcClosed, final)
	}
	oc := make([]int, len(opens))
	for k := range opens {
		oc[k] = int(opens[k].Load())
	}
	cc := make([]int, len(closes))
	for k := range closes {
		cc[k] = int(closes[k].Load())
	}
	return VL{c20BigZ(flags.String()), VInts(obs), VInts(oc), VInts(cc), VZ(int64(finalSend))}, verdict
}

type c20BigZ string

func (z c20BigZ) Coq() string { return "VZ " + string(z) }

func c20B(b bool) string {
	if b {
		return "1"
	}
	return "0"
}

func c20Coq(in c20In) string {
	ss := make([]string, len(in.Sched))
	for i, x := range in.Sched {
		ss[i] = CoqZ(int64(x))
	}
	ks := make([]string, len(in.Kinds))
	for i, x := range in.Kinds {
		ks[i] = CoqZ(int64(x))
	}
	return fmt.Sprintf("(%s, %s, %s, %d, %d, %s, %s)", c20B(in.Detach), c20B(in.PreReg), CoqList(ks),
		in.NRegO, in.NRegC, c20B(in.Fine), CoqList(ss))
}

// all interleavings of the given per-thread step counts
func c20Interleavings(threads []int, counts []int) [][]int {
	var out [][]int
	left := append([]int{}, counts...)
	total := 0
	for _, c := range counts {
		total += c
	}
	cur := make([]int, 0, total)
	var rec func()
	rec = func() {
		if len(cur) == total {
			out = append(out, append([]int{}, cur...))
			return
		}
		for i, t := range threads {
			if left[i] > 0 {
				left[i]--
				cur = append(cur, t)
				rec()
				cur = cur[:len(cur)-1]
				left[i]++
			}
		}
	}
	rec()
	return out
}

func c20Prefixed(prefix []int, l [][]int) [][]int {
	out := make([][]int, len(l))
	for i, x := range l {
		out[i] = append(append([]int{}, prefix...), x...)
	}
	return out
}

func init() {
	plain := func(kinds []int, sch []int) c20In { return c20In{PreReg: true, Kinds: kinds, Sched: sch} }
	Register(Spec[c20In]{
		ID: "C20", Suite: "sched", CoqImports: []string{"Check.C20"},
		CoqType: "Z * Z * list Z * Z * Z * Z * list Z", CoqRun: "Check.C20.run_sched",
		Quick: 150, Thorough: 6000,
		Corpus: func() []c20In {
			return []c20In{
				// the recorded windows (they pass since the repairs)
				// Close parked between its closed-check and the store; PeerConnection.Close stores closed; release
				plain([]int{0}, []int{4, 4, 1, 4}),
				// the same with the read loop: open, Close passes its check, remote closes, readLoop stores closed, Close stores closing
				plain([]int{0}, []int{0, 0, 4, 4, 2, 3, 4}),
				// handleOpen parked before storing open; Close runs completely; release
				plain([]int{0}, []int{0, 4, 4, 4, 0}),
				// handleOpen parked; PeerConnection.Close; release
				plain(nil, []int{0, 1, 0, 3}),
				// Close while connecting, then the channel opens and the remote closes
				plain([]int{0}, []int{4, 4, 4, 0, 2}),
				// Close between the two halves of handleOpen (no read loop is started)
				plain([]int{0}, []int{0, 4, 0, 4, 4, 2}),
				// natural life: open, Close, remote answers, readLoop exits
				plain([]int{0}, []int{0, 0, 4, 4, 4, 2, 3}),
				plain([]int{0}, []int{0, 0, 4, 4, 4, 1, 3}),
				// GracefulClose waits for the read loop
				plain([]int{1}, []int{0, 0, 4, 4, 4, 61, 2, 3, 4}),
				// one registration, handler fired from the registration and from handleOpen,
				// a second registration in between (fired f1 twice before the repair)
				{NRegO: 2, Fine: true, Sched: []int{20, 0, 0, 20, 21, 0, 21}},
				{NRegC: 2, Fine: true, Sched: []int{0, 0, 0, 30, 2, 3, 30, 31, 3, 31}},
				// detached channel: Close, transport gone: stays closing; Detach, then PeerConnection.Close
				{Detach: true, PreReg: true, Kinds: []int{0}, Sched: []int{0, 0, 61, 4, 4, 4, 62, 2}},
				{Detach: true, PreReg: true, Kinds: []int{0}, Sched: []int{60, 0, 0, 60, 4, 4, 4, 1}},
			}
		},
		Exhaustive: func() []c20In {
			var out []c20In
			// handleOpen (2 blocks) x Close (3 blocks) x PeerConnection.Close (1)
			for _, sch := range c20Interleavings([]int{0, 4, 1}, []int{2, 3, 1}) {
				out = append(out, plain([]int{0}, sch))
			}
			// handleOpen x Close x remote close, readLoop exit placed everywhere
			for _, sch := range c20Interleavings([]int{0, 4, 2, 3}, []int{2, 3, 1, 1}) {
				out = append(out, plain([]int{0}, sch))
			}
			// GracefulClose against handleOpen and the remote close (the read loop's exit follows)
			for _, sch := range c20Interleavings([]int{0, 4, 2}, []int{2, 3, 1}) {
				out = append(out, plain([]int{1}, append(sch, 3, 4)))
			}
			// channel open: GracefulClose x Close x remote close x readLoop exit
			for i, sch := range c20Prefixed([]int{0, 0}, c20Interleavings([]int{4, 5, 2, 3}, []int{3, 3, 1, 1})) {
				if i%8 == 0 { // every 8th of the 1120
					out = append(out, plain([]int{1, 0}, sch))
				}
			}
			// OnOpen registration (2 blocks) x handleOpen (3 blocks with the fire point) x a second registration
			for _, sch := range c20Interleavings([]int{20, 0, 21}, []int{2, 3, 2}) {
				out = append(out, c20In{NRegO: 2, Fine: true, Sched: sch})
			}
			// channel open, transport gone: OnClose registration x readLoop exit (2 blocks) x a second registration
			for _, sch := range c20Prefixed([]int{0, 0, 0, 2}, c20Interleavings([]int{30, 3, 31}, []int{2, 2, 2})) {
				out = append(out, c20In{NRegC: 2, Fine: true, Sched: sch})
			}
			// closed while opening: OnClose registration x Close x handleOpen (fire point)
			for _, sch := range c20Interleavings([]int{30, 4, 0}, []int{2, 1, 3}) {
				out = append(out, c20In{PreReg: true, NRegC: 1, Kinds: []int{0}, Fine: true, Sched: sch})
			}
			// detached: handleOpen x Detach x PeerConnection.Close, and x Close
			for _, sch := range c20Interleavings([]int{0, 60, 1}, []int{2, 1, 1}) {
				out = append(out, c20In{Detach: true, PreReg: true, Sched: sch})
			}
			for _, sch := range c20Interleavings([]int{0, 60, 4}, []int{2, 1, 3}) {
				out = append(out, c20In{Detach: true, PreReg: true, Kinds: []int{0}, Sched: append(sch, 2)})
			}
			return out
		},
		Gen: func(r *Rand, i int) c20In {
			in := c20In{PreReg: r.Chance(2, 3), Fine: r.Chance(1, 2), Detach: r.Chance(1, 8)}
			n := r.Range(0, 3)
			for j := 0; j < n; j++ {
				in.Kinds = append(in.Kinds, r.Intn(2))
			}
			in.NRegO, in.NRegC = r.Range(0, 2), r.Range(0, 2)
			l := r.Range(2, 16)
			for j := 0; j < l; j++ {
				switch {
				case r.Chance(1, 4):
					in.Sched = append(in.Sched, 0)
				case r.Chance(1, 10):
					in.Sched = append(in.Sched, 1)
				case r.Chance(1, 7):
					in.Sched = append(in.Sched, 2)
				case r.Chance(1, 5):
					in.Sched = append(in.Sched, 3)
				case n > 0 && r.Chance(1, 2):
					in.Sched = append(in.Sched, 4+r.Intn(n))
				case in.NRegO > 0 && r.Chance(1, 3):
					in.Sched = append(in.Sched, 20+r.Intn(in.NRegO))
				case in.NRegC > 0 && r.Chance(1, 3):
					in.Sched = append(in.Sched, 30+r.Intn(in.NRegC))
				case r.Chance(1, 4):
					in.Sched = append(in.Sched, 61+r.Intn(2))
				case in.Detach && r.Chance(1, 2):
					in.Sched = append(in.Sched, 60)
				default:
					in.Sched = append(in.Sched, r.Intn(4))
				}
			}
			return in
		},
		Shrink: func(in c20In) []c20In {
			var out []c20In
			for i := range in.Sched {
				c := in
				c.Sched = append(append([]int{}, in.Sched[:i]...), in.Sched[i+1:]...)
				out = append(out, c)
			}
			return out
		},
		Run: c20Run, Coq: c20Coq,
	})
}
