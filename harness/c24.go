//go:build verif_c24

package main

import (
	"fmt"
	"math/big"
	"net"
	"sync"
	"time"

	"github.com/pion/webrtc/v4"
)

// C24: each local ICE candidate is reported once, then exactly one
// end-of-candidates (nil), with or without a candidate pool, however
// flushCandidates (SetLocalDescription) interleaves with the agent's callbacks.

// c24Legacy selects the model of the code before the repair (Model/Gather.v
// part B); used only while reproducing the original defects.
const c24Legacy = false

// ---------- environment: how to make pion/ice gather exactly n host candidates ----------

type c24Net struct {
	ifaces   []string // interface names to allow
	loopback bool
}

var (
	c24EnvOnce sync.Once
	c24Env     map[int]c24Net // candidate count -> configuration that yields it
)

func c24SettingEngine(cfg c24Net) webrtc.SettingEngine {
	se := webrtc.SettingEngine{}
	se.SetICEMulticastDNSMode(0 + 1) // ice.MulticastDNSModeDisabled
	se.SetNetworkTypes([]webrtc.NetworkType{webrtc.NetworkTypeUDP4})
	allow := map[string]bool{}
	for _, n := range cfg.ifaces {
		allow[n] = true
	}
	se.SetInterfaceFilter(func(name string) bool { return allow[name] })
	se.SetIncludeLoopbackCandidate(cfg.loopback)
	return se
}

// c24Count gathers once, without schedule control, and counts the candidates.
func c24Count(cfg c24Net) int {
	api := webrtc.NewAPI(webrtc.WithSettingEngine(c24SettingEngine(cfg)))
	g, err := api.NewICEGatherer(webrtc.ICEGatherOptions{})
	if err != nil {
		panic(err)
	}
	done := make(chan struct{})
	n := 0
	g.OnLocalCandidate(func(c *webrtc.ICECandidate) {
		if c == nil {
			close(done)
			return
		}
		n++
	})
	if err := g.Gather(); err != nil {
		panic(err)
	}
	select {
	case <-done:
	case <-time.After(10 * time.Second):
		panic("c24: gathering did not complete")
	}
	_ = g.Close()
	return n
}

func c24Probe() {
	c24Env = map[int]c24Net{}
	var lo, other []string
	ifs, _ := net.Interfaces()
	for _, i := range ifs {
		addrs, _ := i.Addrs()
		has4 := false
		for _, a := range addrs {
			if ipn, ok := a.(*net.IPNet); ok && ipn.IP.To4() != nil {
				has4 = true
			}
		}
		if !has4 || i.Flags&net.FlagUp == 0 {
			continue
		}
		if i.Flags&net.FlagLoopback != 0 {
			lo = append(lo, i.Name)
		} else {
			other = append(other, i.Name)
		}
	}
	cands := []c24Net{{nil, false}}
	if len(lo) > 0 {
		cands = append(cands, c24Net{lo[:1], true})
	}
	if len(other) > 0 {
		cands = append(cands, c24Net{other[:1], false})
	}
	if len(lo) > 0 && len(other) > 0 {
		cands = append(cands, c24Net{[]string{lo[0], other[0]}, true})
	}
	for _, cfg := range cands {
		n := c24Count(cfg)
		if _, ok := c24Env[n]; !ok && c24Count(cfg) == n {
			c24Env[n] = cfg
		}
	}
}

func c24Supported(n int) bool {
	c24EnvOnce.Do(c24Probe)
	_, ok := c24Env[n]
	return ok
}

// ---------- the recorded OnLocalCandidate sequence ----------

type c24Log struct {
	mu    sync.Mutex
	names map[string]int
	seq   []int // 0 = nil, k = the k-th distinct candidate seen
	by    []int // thread that was being stepped when the handler ran (-1 outside a step)
	cur   int
}

func newC24Log() *c24Log { return &c24Log{names: map[string]int{}, cur: -1} }

func (l *c24Log) handler(c *webrtc.ICECandidate) {
	l.mu.Lock()
	defer l.mu.Unlock()
	if c == nil {
		l.seq = append(l.seq, 0)
	} else {
		key := c.String()
		id, ok := l.names[key]
		if !ok {
			id = len(l.names) + 1
			l.names[key] = id
		}
		l.seq = append(l.seq, id)
	}
	l.by = append(l.by, l.cur)
}

func (l *c24Log) setCur(t int) { l.mu.Lock(); l.cur = t; l.mu.Unlock() }

// c24Oracle restates the property on the handler sequence of a finished run,
// per gathering cycle: every candidate of the cycle exactly once, then the
// cycle's nil exactly once, no candidate of the cycle after it.
// cycleOf maps a candidate id to its gathering cycle (0, 1, ...); counts[k] is
// the number of candidates cycle k gathered; pooledRestart: an ICE restart
// happened while the pool had not been flushed yet.
func c24Oracle(seq, by []int, cycleOf map[int]int, counts []int, flushed bool,
	flushStart map[int]int, agentDone int, pooledRestart bool) Verdict {
	if !flushed { // pool never flushed: nothing may have been reported
		if len(seq) != 0 {
			return Fail("reported-before-setlocaldescription", fmt.Sprintf("handler sequence %v with the pool never flushed", seq))
		}
		return Pass("", false)
	}
	count := map[int]int{}
	var nilPos []int
	for i, x := range seq {
		if x == 0 {
			nilPos = append(nilPos, i)
		} else {
			count[x]++
		}
	}
	seen := make([]int, len(counts))
	for c, n := range count {
		if n > 1 {
			return Fail("candidate-reported-twice", fmt.Sprintf("handler sequence %v", seq))
		}
		k, ok := cycleOf[c]
		if !ok || k >= len(counts) {
			return Fail("unknown-candidate-reported", fmt.Sprintf("candidate %d in handler sequence %v belongs to no gathering cycle", c, seq))
		}
		seen[k]++
	}
	for k := range counts {
		if seen[k] != counts[k] {
			return Fail("candidate-never-reported", fmt.Sprintf("cycle %d: %d of %d candidates in handler sequence %v", k, seen[k], counts[k], seq))
		}
	}
	if len(nilPos) == 0 {
		return Fail("end-of-candidates-never-reported", fmt.Sprintf("handler sequence %v", seq))
	}
	if len(nilPos) > len(counts) {
		// cause: a flush emitted a nil although another nil was (being) emitted
		for i := len(seq) - 1; i >= 0; i-- {
			if seq[i] == 0 && by[i] > 0 {
				if st, ok := flushStart[by[i]]; ok && agentDone >= 0 && st > agentDone {
					return Fail("second-end-of-candidates-from-flush-after-completion",
						fmt.Sprintf("handler sequence %v: flush %d began after gathering had completed and reported nil again", seq, by[i]))
				}
			}
		}
		return Fail("second-end-of-candidates-flush-raced-completion",
			fmt.Sprintf("handler sequence %v: the nil callback and a concurrent flush both reported nil", seq))
	}
	if len(nilPos) < len(counts) {
		if pooledRestart {
			return Fail("end-of-candidates-merged-after-pooled-restart",
				fmt.Sprintf("handler sequence %v: %d gathering cycles completed, %d end markers", seq, len(counts), len(nilPos)))
		}
		return Fail("end-of-candidates-missing-for-a-cycle",
			fmt.Sprintf("handler sequence %v: %d gathering cycles completed, %d end markers", seq, len(counts), len(nilPos)))
	}
	// the k-th nil ends cycle k: none of the cycle's candidates after it
	for i, x := range seq {
		if x == 0 {
			continue
		}
		if k := cycleOf[x]; i > nilPos[k] {
			return Fail("candidate-reported-after-end-of-candidates",
				fmt.Sprintf("handler sequence %v: candidate %d of cycle %d after the cycle's end marker", seq, x, k))
		}
	}
	return Pass("", true)
}

// ---------- suite "sched": a real ICEGatherer and agent under schedule control ----------

type c24SchedIn struct {
	Pool     int   `json:"pool"`     // ICECandidatePoolSize 0 / 1
	N        int   `json:"n"`        // host candidates the agent gathers per cycle
	NFlush   int   `json:"nflush"`   // flushCandidates calls (SetLocalDescription)
	NRestart int   `json:"nrestart"` // 0 / 1 ICE restart (a second gathering cycle)
	Sched    []int `json:"sched"`    // 0 agent callback goroutine, j+1 the j-th flush, 100 the restart
}

// ids of the candidates the gatherer currently knows (the current gathering cycle)
func c24CycleIDs(g *webrtc.ICEGatherer, log *c24Log) []string {
	cs, err := g.GetLocalCandidates()
	if err != nil {
		return nil
	}
	out := make([]string, len(cs))
	for i := range cs {
		out[i] = cs[i].String()
	}
	return out
}

func c24SchedRun(in c24SchedIn) (V, Verdict) {
	if !c24Supported(in.N) {
		return VS("unsupported"), Pass("unsupported-candidate-count", false)
	}
	api := webrtc.NewAPI(webrtc.WithSettingEngine(c24SettingEngine(c24Env[in.N])))
	g, err := api.NewICEGatherer(webrtc.ICEGatherOptions{ICECandidatePoolSize: uint8(in.Pool)})
	if err != nil {
		panic(err)
	}
	ice := api.NewICETransport(g)
	log := newC24Log()
	g.OnLocalCandidate(log.handler)

	s := NewSched().Only("gather.")
	agent := s.AddSpawned("agent", "gather.cb.")
	for j := 0; j < in.NFlush; j++ {
		s.Add(fmt.Sprintf("flush%d", j), func() { g.VerifFlushCandidates() })
	}
	var restartErr error
	tRestart := s.Add("restart", func() { restartErr = ice.VerifRestart() })
	closed := false
	finish := func() {
		if !closed {
			closed = true
			s.Close()
			_ = g.Close()
		}
	}
	defer finish()

	if in.Pool == 0 { // SetLocalDescription #1: flush, then start gathering
		g.VerifFlushCandidates()
	}
	if err := g.Gather(); err != nil {
		panic(err)
	}
	if !waitParked(s, agent, 10*time.Second) {
		return VS("agent-never-called-back"), Fail("agent-never-called-back", "no candidate callback within 10 s")
	}
	entered, expected := 1, in.N+1

	var sched []int
	for _, t := range in.Sched {
		if (t >= 0 && t <= in.NFlush) || (t == 100 && in.NRestart > 0) {
			sched = append(sched, t)
		}
	}
	for i := 0; i < 3*in.N+3; i++ {
		sched = append(sched, 0)
	}
	for j := 1; j <= in.NFlush; j++ {
		for i := 0; i < 2*in.N+4; i++ {
			sched = append(sched, j)
		}
	}
	if in.NRestart > 0 {
		sched = append(sched, 100)
		for i := 0; i < 3*in.N+3; i++ {
			sched = append(sched, 0)
		}
		for j := 1; j <= in.NFlush; j++ {
			sched = append(sched, j)
		}
	}

	verdict := Pass("", false)
	flags := new(big.Int)
	flushStart := map[int]int{}
	agentDone := -1
	conflict := false // a flush and the agent were both mid-way at some point
	restarted, pooledRestart := false, false
	flushesDone := 0
	cycleStrings := [][]string{nil, nil}
	waitAgentGathered := func() bool {
		deadline := time.Now().Add(10 * time.Second)
		for !g.VerifAgentGatheringComplete() && time.Now().Before(deadline) {
			time.Sleep(100 * time.Microsecond)
		}
		return g.VerifAgentGatheringComplete()
	}
	for step, t := range sched {
		if t == 100 {
			if restarted {
				continue
			}
			// the model's cycles all complete: restart only once the agent has gathered everything
			if !waitAgentGathered() {
				if verdict.OK {
					verdict = Fail("agent-gathering-did-not-complete", "before the restart")
				}
				continue
			}
			cycleStrings[0] = c24CycleIDs(g, log)
			// nothing flushed yet, or a flush is still reporting what it took from the pool
			pooledRestart = in.Pool > 0 && (len(flushStart) == 0 || len(flushStart) > flushesDone)
			idle := s.Status(agent) == "finished" // no callback under way: the new cycle's first one is due
			st := stepPatient(s, tRestart, 10*time.Second)
			if st != "finished" || restartErr != nil {
				if verdict.OK {
					verdict = Fail("restart-failed", fmt.Sprintf("status %s err %v", st, restartErr))
				}
				continue
			}
			restarted = true
			flags.SetBit(flags, step, 1)
			expected += in.N + 1
			agentDone = -1
			if idle {
				if !waitParked(s, agent, 10*time.Second) && verdict.OK {
					verdict = Fail("agent-stopped-calling-back", "after the restart")
				}
				entered++
			}
			continue
		}
		log.setCur(t)
		st := stepPatient(s, t, 5*time.Second)
		log.setCur(-1)
		if st == "running" && verdict.OK {
			verdict = Fail("thread-blocked-unexpectedly", fmt.Sprintf("thread %d; trace %v", t, s.Trace))
		}
		if st == "disabled" {
			continue
		}
		flags.SetBit(flags, step, 1)
		if t == 0 {
			switch {
			case st == "finished" && entered < expected: // a callback returned, the next is due
				if !waitParked(s, agent, 10*time.Second) && verdict.OK {
					verdict = Fail("agent-stopped-calling-back", fmt.Sprintf("%d of %d callbacks", entered, expected))
				}
				entered++
			case st == "finished": // the last queued callback returned
				agentDone = step
			case st == "parked:gather.cb.enter": // returned and already in the next callback
				entered++
			}
		} else {
			if _, ok := flushStart[t]; !ok {
				flushStart[t] = step
				if agentDone < 0 {
					conflict = true
				}
			}
			if st == "finished" {
				flushesDone++
			}
		}
	}
	if restarted {
		cycleStrings[1] = c24CycleIDs(g, log)
	} else {
		cycleStrings[0] = c24CycleIDs(g, log)
	}
	finish()
	log.mu.Lock()
	seq := append([]int{}, log.seq...)
	by := append([]int{}, log.by...)
	cycleOf := map[int]int{}
	for k, names := range cycleStrings {
		for _, name := range names {
			if id, ok := log.names[name]; ok {
				cycleOf[id] = k
			}
		}
	}
	log.mu.Unlock()
	if verdict.OK {
		flushed := in.Pool == 0 || in.NFlush > 0
		counts := []int{in.N}
		if restarted {
			counts = append(counts, in.N)
		}
		verdict = c24Oracle(seq, by, cycleOf, counts, flushed, flushStart, agentDone, pooledRestart)
		if verdict.OK {
			verdict.NonTrivial = conflict && in.N > 0
			verdict.Class = fmt.Sprintf("pool%d/n%d/flush%d/restart%d/conflict=%v", in.Pool, in.N, in.NFlush, in.NRestart, conflict)
		}
	}
	return VL{c24BigZ(flags.String()), VInts(seq)}, verdict
}

type c24BigZ string

func (z c24BigZ) Coq() string { return "VZ " + string(z) }

func c24SchedCoq(in c24SchedIn) string {
	if !c24Supported(in.N) {
		return ""
	}
	ss := make([]string, len(in.Sched))
	for i, x := range in.Sched {
		ss[i] = CoqZ(int64(x))
	}
	return fmt.Sprintf("(%d, %d, %d, %d, %s)", in.Pool, in.N, in.NFlush, in.NRestart, CoqList(ss))
}

// ---------- suite "real": a real PeerConnection, natural schedule ----------

type c24RealIn struct {
	Pool    int `json:"pool"`
	N       int `json:"n"`
	Extra   int `json:"extra"`   // SetLocalDescription calls after gathering completed
	Restart int `json:"restart"` // 0 none; 1 ICE restart after the negotiations; 2 (pool 1) before the first SetLocalDescription
}

func c24RealRun(in c24RealIn) (V, Verdict) {
	if !c24Supported(in.N) {
		return VS("unsupported"), Pass("unsupported-candidate-count", false)
	}
	api := webrtc.NewAPI(webrtc.WithSettingEngine(c24SettingEngine(c24Env[in.N])))
	pc, err := api.NewPeerConnection(webrtc.Configuration{ICECandidatePoolSize: uint8(in.Pool)})
	if err != nil {
		panic(err)
	}
	defer pc.Close() //nolint:errcheck
	log := newC24Log()
	pc.OnICECandidate(log.handler)
	if _, err := pc.CreateDataChannel("c24", nil); err != nil {
		panic(err)
	}
	// the remote side of the renegotiations: gathers nothing
	other, err := webrtc.NewAPI(webrtc.WithSettingEngine(c24SettingEngine(c24Net{}))).NewPeerConnection(webrtc.Configuration{})
	if err != nil {
		panic(err)
	}
	defer other.Close() //nolint:errcheck
	waitComplete := func() bool {
		deadline := time.Now().Add(10 * time.Second)
		for pc.ICEGatheringState() != webrtc.ICEGatheringStateComplete && time.Now().Before(deadline) {
			time.Sleep(200 * time.Microsecond)
		}
		return pc.ICEGatheringState() == webrtc.ICEGatheringStateComplete
	}
	must := func(err error) {
		if err != nil {
			panic(err)
		}
	}
	setLocal := func(opts *webrtc.OfferOptions) webrtc.SessionDescription {
		offer, err := pc.CreateOffer(opts)
		must(err)
		must(pc.SetLocalDescription(offer))
		return offer
	}
	answer := func(offer webrtc.SessionDescription) { // complete the exchange so that a new offer can be set
		must(other.SetRemoteDescription(offer))
		ans, err := other.CreateAnswer(nil)
		must(err)
		must(other.SetLocalDescription(ans))
		must(pc.SetRemoteDescription(ans))
	}
	nilsSeen := func() int {
		log.mu.Lock()
		defer log.mu.Unlock()
		n := 0
		for _, x := range log.seq {
			if x == 0 {
				n++
			}
		}
		return n
	}
	waitNils := func(n int) { // the handler may still be running on the agent's goroutine
		deadline := time.Now().Add(5 * time.Second)
		for nilsSeen() < n && time.Now().Before(deadline) {
			time.Sleep(200 * time.Microsecond)
		}
	}
	cycleStrings := [][]string{nil, nil}
	localIDs := func() []string {
		cs, err := pc.VerifGatherer().GetLocalCandidates()
		if err != nil {
			return nil
		}
		out := make([]string, len(cs))
		for i := range cs {
			out[i] = cs[i].String()
		}
		return out
	}
	if in.Pool > 0 && !waitComplete() { // pool: gathering started in NewPeerConnection
		return VS("gathering-stuck"), Fail("gathering-did-not-complete", "pool size 1, before SetLocalDescription")
	}
	pooledRestart := false
	var offer webrtc.SessionDescription
	if in.Restart == 2 {
		// ICE restart as the very first offer: the first cycle is still pooled
		cycleStrings[0] = localIDs()
		pooledRestart = true
		off, err := pc.CreateOffer(&webrtc.OfferOptions{ICERestart: true})
		must(err)
		time.Sleep(time.Millisecond)
		if !waitComplete() {
			return VS("gathering-stuck"), Fail("gathering-did-not-complete", "after the pooled restart")
		}
		time.Sleep(2 * time.Millisecond) // the second cycle's nil callback (it is kept back) has to return
		must(pc.SetLocalDescription(off))
		offer = off
		waitNils(1)
		cycleStrings[1] = localIDs()
	} else {
		offer = setLocal(nil)
		if !waitComplete() {
			return VS("gathering-stuck"), Fail("gathering-did-not-complete", "after SetLocalDescription")
		}
		waitNils(1)
	}
	for i := 0; i < in.Extra; i++ {
		answer(offer)
		offer = setLocal(nil)
	}
	if in.Restart == 1 {
		answer(offer)
		cycleStrings[0] = localIDs()
		offer = setLocal(&webrtc.OfferOptions{ICERestart: true})
		if !waitComplete() {
			return VS("gathering-stuck"), Fail("gathering-did-not-complete", "after the ICE restart")
		}
		waitNils(2)
		cycleStrings[1] = localIDs()
	}
	if in.Restart == 0 {
		cycleStrings[0] = localIDs()
	}
	time.Sleep(2 * time.Millisecond)
	log.mu.Lock()
	seq := append([]int{}, log.seq...)
	cycleOf := map[int]int{}
	for k, names := range cycleStrings {
		for _, name := range names {
			if id, ok := log.names[name]; ok {
				cycleOf[id] = k
			}
		}
	}
	log.mu.Unlock()
	by := make([]int, len(seq))
	nils := 0
	for i, x := range seq {
		if x == 0 {
			nils++
			if nils > 1 {
				by[i] = 1 // later nils come from the later SetLocalDescription calls
			}
		}
	}
	counts := []int{in.N}
	if in.Restart > 0 {
		counts = append(counts, in.N)
	}
	verdict := c24Oracle(seq, by, cycleOf, counts, true, map[int]int{1: 1}, 0, pooledRestart)
	if verdict.OK {
		verdict.NonTrivial = in.Extra > 0 || in.Restart > 0
		verdict.Class = fmt.Sprintf("pool%d/n%d/extra%d/restart%d", in.Pool, in.N, in.Extra, in.Restart)
	}
	return VInts(seq), verdict
}

func init() {
	coqRun := "Check.C24.run_sched"
	if c24Legacy {
		coqRun = "Check.C24.run_sched_legacy"
	}
	// placements: each flush starts after a chosen number of agent steps and then
	// alternates with the agent
	place := func(n, nflush int, pos []int, eager bool) []int {
		var sched []int
		for a := 0; a <= 3*n+3; a++ {
			for j, p := range pos {
				if p == a {
					sched = append(sched, j+1)
					if eager {
						for i := 0; i < n+4; i++ {
							sched = append(sched, j+1)
						}
					}
				} else if p < a && !eager {
					sched = append(sched, j+1)
				}
			}
			sched = append(sched, 0)
		}
		return sched
	}
	Register(Spec[c24SchedIn]{
		ID: "C24", Suite: "sched", CoqImports: []string{"Check.C24"},
		CoqType: "Z * Z * Z * Z * list Z", CoqRun: coqRun,
		Quick: 250, Thorough: 6000,
		Corpus: func() []c24SchedIn {
			return []c24SchedIn{
				// sequential: gathering completes, flush, a second flush (renegotiation)
				{Pool: 1, N: 2, NFlush: 2, Sched: []int{0, 0, 0, 0, 0, 1, 1, 1, 1, 2, 2}},
				{Pool: 0, N: 2, NFlush: 1, Sched: []int{0, 0, 0, 0, 0, 0, 0, 0, 1, 1}},
				// race (pool 1): nil path stores complete, is parked before the pool lock;
				// the flush empties the pool and reads complete; both report nil
				{Pool: 1, N: 2, NFlush: 1, Sched: []int{0, 0, 0, 1, 1, 1, 1, 1, 0, 0}},
				// race: the flush takes the pool, the nil callback finds the pool gone,
				// then the flush reports the pooled candidates (before the flushing repair: nil first)
				{Pool: 1, N: 1, NFlush: 1, Sched: []int{0, 1, 0, 0, 0, 1, 1}},
				// ICE restart after the pool was flushed: a second cycle, its own nil
				{Pool: 1, N: 1, NFlush: 2, NRestart: 1, Sched: []int{0, 0, 0, 1, 1, 1, 100, 0, 0, 2, 0, 0, 0}},
				{Pool: 0, N: 2, NFlush: 1, NRestart: 1, Sched: []int{0, 0, 0, 0, 100, 0, 0, 1, 0, 0, 0, 0, 0}},
				// ICE restart while the first cycle is still pooled: one nil for two cycles
				{Pool: 1, N: 1, NFlush: 1, NRestart: 1, Sched: []int{0, 0, 0, 100, 0, 0, 0, 1, 1, 1, 1}},
			}
		},
		Exhaustive: func() []c24SchedIn {
			var out []c24SchedIn
			for pool := 0; pool <= 1; pool++ {
				for n := 0; n <= 2; n++ {
					if !c24Supported(n) {
						continue
					}
					for p := 0; p <= 3*n+3; p++ {
						out = append(out, c24SchedIn{Pool: pool, N: n, NFlush: 1, Sched: place(n, 1, []int{p}, true)})
						out = append(out, c24SchedIn{Pool: pool, N: n, NFlush: 1, Sched: place(n, 1, []int{p}, false)})
					}
				}
			}
			// one restart: the first flush and the restart placed among the agent's steps,
			// a second flush after the restart
			for pool := 0; pool <= 1; pool++ {
				for n := 0; n <= 1; n++ {
					if !c24Supported(n) {
						continue
					}
					for p := 0; p <= 3*n+3; p++ {
						for q := 0; q <= 3*n+3; q++ {
							var sch []int
							for a := 0; a <= 3*n+3; a++ {
								if a == p {
									sch = append(sch, 1)
								}
								if a == q {
									sch = append(sch, 100)
								}
								if a > p {
									sch = append(sch, 1)
								}
								sch = append(sch, 0)
							}
							sch = append(sch, 2, 0, 2, 0)
							out = append(out, c24SchedIn{Pool: pool, N: n, NFlush: 2, NRestart: 1, Sched: sch})
						}
					}
				}
			}
			return out
		},
		Gen: func(r *Rand, i int) c24SchedIn {
			var ns []int
			for n := 0; n <= 3; n++ {
				if c24Supported(n) {
					ns = append(ns, n)
				}
			}
			n := Pick(r, ns)
			if n == 0 && r.Chance(2, 3) {
				n = Pick(r, ns)
			}
			nflush := r.Range(1, 3)
			if r.Chance(1, 12) {
				nflush = 0
			}
			pool := r.Intn(2)
			nrestart := 0
			if r.Chance(1, 3) {
				nrestart = 1
			}
			var sched []int
			l := r.Range(0, (1+nrestart)*(3*n+3)+nflush*(n+3))
			for j := 0; j < l; j++ {
				switch {
				case nrestart > 0 && r.Chance(1, 8):
					sched = append(sched, 100)
				case nflush == 0 || r.Chance(1, 2):
					sched = append(sched, 0)
				default:
					sched = append(sched, r.Range(1, nflush))
				}
			}
			return c24SchedIn{pool, n, nflush, nrestart, sched}
		},
		Shrink: func(in c24SchedIn) []c24SchedIn {
			var out []c24SchedIn
			for i := range in.Sched {
				c := in
				c.Sched = append(append([]int{}, in.Sched[:i]...), in.Sched[i+1:]...)
				out = append(out, c)
			}
			if in.NFlush > 1 {
				c := in
				c.NFlush--
				out = append(out, c)
			}
			return out
		},
		Run: c24SchedRun, Coq: c24SchedCoq,
	})
	Register(Spec[c24RealIn]{
		ID: "C24", Suite: "real", CoqImports: []string{"Check.C24"},
		CoqType: "Z * Z * Z * Z", CoqRun: "Check.C24.run_real",
		Exhaustive: func() []c24RealIn {
			var out []c24RealIn
			for pool := 0; pool <= 1; pool++ {
				for n := 0; n <= 2; n++ {
					for extra := 0; extra <= 2; extra++ {
						if c24Supported(n) {
							out = append(out, c24RealIn{pool, n, extra, 0})
							if extra <= 1 {
								out = append(out, c24RealIn{pool, n, extra, 1})
							}
						}
					}
					if pool == 1 && c24Supported(n) {
						out = append(out, c24RealIn{pool, n, 0, 2})
					}
				}
			}
			return out
		},
		Run: c24RealRun,
		Coq: func(in c24RealIn) string {
			if !c24Supported(in.N) {
				return ""
			}
			return fmt.Sprintf("(%d, %d, %d, %d)", in.Pool, in.N, in.Extra, in.Restart)
		},
		Parallel: 4,
	})
}
