//go:build verif_c36 || verif_c34 || verif_c35

package main

import (
	"encoding/hex"
	"fmt"
	"io"
)

// Helpers shared by the media-file checks C34, C35, C36.

// m1Pay describes a byte string either literally (Hex) or, for large ones, as
// the arithmetic pattern byte(i) = (A + B*i) mod 256 of length Len, so that a
// 65 KiB payload does not have to be printed into the Coq case file.
type m1Pay struct {
	Hex string `json:"hex,omitempty"`
	Len int    `json:"len,omitempty"`
	A   int    `json:"a,omitempty"`
	B   int    `json:"b,omitempty"`
}

func m1Lit(b []byte) m1Pay { return m1Pay{Hex: hex.EncodeToString(b)} }

func (p m1Pay) Bytes() []byte {
	if p.Len > 0 {
		out := make([]byte, p.Len)
		for i := range out {
			out[i] = byte(p.A + p.B*i)
		}
		return out
	}
	b, err := hex.DecodeString(p.Hex)
	if err != nil {
		panic(err)
	}
	return b
}

func (p m1Pay) Size() int {
	if p.Len > 0 {
		return p.Len
	}
	return len(p.Hex) / 2
}

// Coq renders the description as a Media1Util.pspec term.
func (p m1Pay) Coq() string {
	if p.Len > 0 {
		return fmt.Sprintf("(PPat %d %d %d)", p.Len, p.A&255, p.B&255)
	}
	return "(PHex \"" + p.Hex + "\")"
}

func m1RandPay(r *Rand, n int) m1Pay {
	if n > 12 {
		return m1Pay{Len: n, A: r.Intn(256), B: r.Intn(256)}
	}
	return m1Lit(r.Bytes(n))
}

// m1Digest is the observation of a byte string: hex when short, otherwise
// (length, two position-sensitive sums); mirrors Media1Util.Vbytes.
func m1Digest(b []byte) V {
	if len(b) <= 12 {
		return VHex(b)
	}
	var s1, s2 uint64
	for _, x := range b {
		s1 += uint64(x) + 1
		s2 += s1
	}
	return VL{VZ(len(b)), VZ(int64(s1)), VZ(int64(s2))}
}

// shortReader hands out the underlying bytes in reads of the given sizes
// (cyclically), never more than the caller's buffer; a size of 0 produces a
// (0, nil) read. After the data is exhausted it returns (0, io.EOF).
type shortReader struct {
	data  []byte
	sizes []int
	k     int
	// chunks actually delivered, for the model side
	Delivered []int
}

func (s *shortReader) Read(p []byte) (int, error) {
	if len(s.data) == 0 {
		return 0, io.EOF
	}
	n := len(p)
	if len(s.sizes) > 0 {
		n = s.sizes[s.k%len(s.sizes)]
		s.k++
	}
	if n > len(p) {
		n = len(p)
	}
	if n > len(s.data) {
		n = len(s.data)
	}
	copy(p, s.data[:n])
	s.data = s.data[n:]
	s.Delivered = append(s.Delivered, n)
	return n, nil
}
