//go:build verif_c07

package main

import (
	"fmt"
	"strings"
)

// C07: whenever CreateAnswer succeeds the answer has one m-section per section
// of the applied remote offer, in order, with the same media type and mid;
// sections the answerer cannot use are rejected in place (port 0).

// direct oracle on one answer: compares it with the remote offer it answers
// (both projected through pion/sdp). The signature names why the first
// differing offered section is not mirrored.
func c07Oracle(e *jEntry) (string, string) {
	if e.Op.Op != "answer" || e.Text == "" {
		return "", ""
	}
	if e.Local == nil {
		return "generated-sdp-does-not-parse", e.ParseEr
	}
	off, ans := e.RemoteSecs, e.Local.Secs
	shape := func() string {
		s := "offer ["
		for i, r := range off {
			if i > 0 {
				s += " "
			}
			s += r.Kind + ":" + r.Mid
			if r.Dir == "" && r.Kind != "application" {
				s += "(nodir)"
			}
		}
		s += "] answer ["
		for i, x := range ans {
			if i > 0 {
				s += " "
			}
			m := "-"
			if x.HasMid {
				m = x.Mid
			}
			s += x.Kind + ":" + m
			if x.Port0 {
				s += "!"
			}
		}
		return s + "]"
	}
	j := 0
	for i, r := range off {
		known := r.Kind == "audio" || r.Kind == "video" || r.Kind == "application"
		if j < len(ans) && ans[j].Kind == r.Kind && ans[j].HasMid && ans[j].Mid == r.Mid {
			j++
			continue
		}
		// offered section i is not mirrored at its place: why?
		switch {
		case !known:
			return "unknown-media-kind-dropped", fmt.Sprintf("offered section %d (m=%s mid %s) has no section in the answer: %s", i, r.Kind, r.Mid, shape())
		case r.Kind != "application" && r.Dir == "":
			return "no-direction-attribute-dropped", fmt.Sprintf("offered section %d (m=%s mid %s, no direction attribute) has no section in the answer: %s", i, r.Kind, r.Mid, shape())
		case j < len(ans) && ans[j].Kind == r.Kind && !ans[j].HasMid && ans[j].Port0:
			return "rejected-section-has-no-mid", fmt.Sprintf("offered section %d (mid %s) is rejected in place but without a=mid: %s", i, r.Mid, shape())
		case j < len(ans) && ans[j].HasMid && ans[j].Mid == r.Mid && ans[j].Kind != r.Kind:
			return "mid-bound-to-transceiver-of-other-kind", fmt.Sprintf("offered section %d is m=%s, answered as m=%s: %s", i, r.Kind, ans[j].Kind, shape())
		}
		return "answer-differs-from-offer", fmt.Sprintf("at offered section %d: %s", i, shape())
	}
	if j != len(ans) {
		return "answer-has-extra-sections", shape()
	}
	// the port-0 clause, when every offered section is mirrored and the offer carries a
	// well-formed group "BUNDLE mid mid ...": a section the answerer has a codec for is
	// rejected (port 0) exactly when the offerer left it out of the BUNDLE group
	if len(off) == len(ans) && e.RemoteGroup != nil && strings.HasPrefix(*e.RemoteGroup, "BUNDLE ") {
		listed := map[string]bool{}
		for _, m := range strings.Split(strings.TrimPrefix(*e.RemoteGroup, "BUNDLE "), " ") {
			listed[m] = true
		}
		for i, r := range off {
			switch {
			case listed[r.Mid] && ans[i].Port0:
				return "bundled-section-rejected", fmt.Sprintf("offered section %d (mid %s) is in the offerer's BUNDLE group but answered with port 0: %s", i, r.Mid, shape())
			case !listed[r.Mid] && !ans[i].Port0:
				return "unbundled-section-accepted", fmt.Sprintf("offered section %d (mid %s) is outside the offerer's BUNDLE group but answered with a port: %s", i, r.Mid, shape())
			}
		}
	}
	return "", ""
}

func c07Run(c jCase) (V, Verdict) {
	log := jsepRun(c)
	jCoqCache.Store(jKey(c), jsepCoq(log))
	v := Pass("", false)
	answers, maxSecs, special := 0, 0, 0
	for pi := range log.Peers {
		for k := range log.Peers[pi] {
			e := &log.Peers[pi][k]
			if e.Op.Op != "answer" || e.Text == "" {
				continue
			}
			answers++
			if len(e.RemoteSecs) > maxSecs {
				maxSecs = len(e.RemoteSecs)
			}
			for _, r := range e.RemoteSecs {
				if r.Port0 || !r.Codec || r.Kind == "application" {
					special++
				}
			}
			if sig, what := c07Oracle(e); sig != "" && v.OK {
				v = Fail(sig, fmt.Sprintf("peer %d call %d: %s", pi, k, what))
			}
		}
	}
	if sig, what := log.projFailure(); sig != "" && v.OK {
		v = Fail(sig, what)
	}
	if v.OK {
		v.NonTrivial = answers >= 1 && maxSecs >= 2
		v.Class = fmt.Sprintf("peers%d/answers%d/maxoffered%d/special%d", c.Peers, min(answers, 3), min(maxSecs, 5), min(special, 2))
	}
	return log.V(), v
}

// one remote offer on a connection with 0-3 local transceivers, then CreateAnswer
func c07GenOffer(r *Rand, hostile int) jCase {
	g := newJGen(r)
	var ops []jOp
	ops = append(ops, jGenAdds(r, 0, 3)...)
	if r.Intn(100) < 15 {
		ops = append(ops, jOp{Op: "dc"})
	}
	n := r.Range(1, 6)
	var add []jSec
	for i := 0; i < n; i++ {
		add = append(add, g.newSection(hostile))
	}
	ops = append(ops, jOp{Op: "srdext", Ty: "offer", New: add, Seed: r.U64(), H: hostile})
	ops = append(ops, jOp{Op: "answer"})
	if r.Intn(100) < 40 { // a re-offer of the same sections plus one, answered again
		ops = append(ops, jOp{Op: "sld", Ty: "answer"})
		ops = append(ops, jOp{Op: "srdext", Ty: "offer", New: []jSec{g.newSection(hostile)}, Seed: r.U64(), H: hostile})
		ops = append(ops, jOp{Op: "answer"})
	}
	return jCase{Peers: 1, Ops: ops}
}

func c07Corpus() []jCase {
	sec := func(k, m, d string) jSec { return jSec{Kind: k, Mid: m, Dir: d, Codec: true} }
	return append([]jCase{
		// the design probe: audio mid 0, m=text mid 1, video mid 2 without direction => one section
		{Peers: 1, Ops: []jOp{
			{Op: "srd", Ty: "offer", Desc: &jDesc{Secs: []jSec{sec("audio", "0", "sendrecv"), sec("text", "1", "sendrecv"), sec("video", "2", "")}, Group: jStr("BUNDLE 0 1 2")}},
			{Op: "answer"}}},
		// only the missing direction
		{Peers: 1, Ops: []jOp{
			{Op: "srd", Ty: "offer", Desc: &jDesc{Secs: []jSec{sec("audio", "0", "sendrecv"), sec("video", "1", ""), sec("application", "2", "")}, Group: jStr("BUNDLE 0 1 2")}},
			{Op: "answer"}}},
		// unknown codec on the only video section: rejected in place, without mid
		{Peers: 1, Ops: []jOp{
			{Op: "srd", Ty: "offer", Desc: &jDesc{Secs: []jSec{sec("audio", "0", "sendrecv"), {Kind: "video", Mid: "1", Dir: "sendrecv"}}, Group: jStr("BUNDLE 0 1")}},
			{Op: "answer"}}},
		// a mid given out by an offer that was never sent now names a section of the other kind
		{Peers: 1, Ops: []jOp{
			{Op: "add", Kind: "video", Dir: "sendrecv"}, {Op: "offer"},
			{Op: "srd", Ty: "offer", Desc: &jDesc{Secs: []jSec{sec("audio", "0", "sendrecv")}, Group: jStr("BUNDLE 0")}},
			{Op: "answer"}}},
		// everything usable: mirrored, sections outside the group are port 0
		{Peers: 1, Ops: []jOp{
			{Op: "add", Kind: "audio", Dir: "sendrecv"}, {Op: "add", Kind: "video", Dir: "recvonly"},
			{Op: "srd", Ty: "offer", Desc: &jDesc{Secs: []jSec{sec("video", "v", "sendonly"), sec("application", "d", ""), sec("audio", "a", "sendrecv"), sec("video", "w", "inactive")}, Group: jStr("BUNDLE v d a")}},
			{Op: "answer"}}},
		// two unusable sections (m=text, video without direction) and one usable section outside
		// the group: the answer is [v d a w] with w at port 0 (Coq: off_mixed)
		{Peers: 1, Ops: []jOp{
			{Op: "add", Kind: "audio", Dir: "sendrecv"}, {Op: "add", Kind: "video", Dir: "recvonly"},
			{Op: "srd", Ty: "offer", Desc: &jDesc{Secs: []jSec{sec("video", "v", "sendonly"), sec("text", "t", "sendrecv"), sec("application", "d", ""),
				sec("video", "n", ""), sec("audio", "a", "sendrecv"), {Kind: "video", Mid: "w", Dir: "inactive"}}, Group: jStr("BUNDLE v t d n a")}},
			{Op: "answer"}}},
		// an offer without a=group: every section is answered with port 0, no BUNDLE group
		{Peers: 1, Ops: []jOp{
			{Op: "srd", Ty: "offer", Desc: &jDesc{Secs: []jSec{sec("audio", "0", "sendrecv"), sec("video", "1", "sendrecv"), sec("application", "2", "")}}},
			{Op: "answer"}, {Op: "sld", Ty: "answer"}, {Op: "offer"}}},
	}, jCorpusOps()...)
}

func init() {
	signalOnly(true)
	imports := []string{"Model.JsepMid", "Check.JsepMidRun", "Check.C07"}
	Register(Spec[jCase]{
		ID: "C07", Suite: "offers", CoqImports: imports,
		CoqType: "list (list op)", CoqRun: jRunName("C07"),
		Quick: 170, Thorough: 3000, Parallel: 8,
		Corpus: c07Corpus,
		Gen: func(r *Rand, i int) jCase {
			h := 12
			if i%4 == 3 {
				h = 30
			}
			if i%4 == 0 {
				h = 0
			}
			return c07GenOffer(r, h)
		},
		Run: c07Run, Coq: jCoqOf, Shrink: jShrink,
	})
	Register(Spec[jCase]{
		ID: "C07", Suite: "hist", CoqImports: imports,
		CoqType: "list (list op)", CoqRun: jRunName("C07"),
		Quick: 90, Thorough: 1500, Parallel: 8,
		Gen: func(r *Rand, i int) jCase { return jGenSynth(r, 12) },
		Run: c07Run, Coq: jCoqOf, Shrink: jShrink,
	})
	Register(Spec[jCase]{
		ID: "C07", Suite: "pair", CoqImports: imports,
		CoqType: "list (list op)", CoqRun: jRunName("C07"),
		Quick: 60, Thorough: 800, Parallel: 8,
		Gen: func(r *Rand, i int) jCase { return jGenPair(r, 10) },
		Run: c07Run, Coq: jCoqOf, Shrink: jShrink,
	})
}
