//go:build verif_c18

package main

// C18: data-channel stream ids.
//   alloc: histories of explicit creates / remote opens / allocations / closes on
//          the SCTP transport of an unconnected PeerConnection (hostile ids)
//   pair : connected in-process pairs, both DTLS roles: role -> parity link,
//          uniqueness and immutability of DataChannel.ID()

import (
	"errors"
	"fmt"
	"sort"
	"strings"
	"sync"
	"sync/atomic"
	"time"

	"github.com/pion/logging"
	"github.com/pion/transport/v4/vnet"
	"github.com/pion/webrtc/v4"
)

type c18Alloc struct {
	Client bool     `json:"client"`
	MaxV   int      `json:"maxv"` // MaxChannels(); 65535 in pion
	Ops    [][2]int `json:"ops"`  // [0,id] explicit create, [1,id] remote open, [2,0] allocate, [3,k] close k-th explicit channel
	NoCoq  bool     `json:"nocoq"`
}

// an allocation that does not return within the limit is reported once; later
// cases of the run fail at once instead of piling up spinning goroutines
var c18Hung atomic.Bool

func c18Generate(pc *webrtc.PeerConnection, role webrtc.DTLSRole) (uint16, error, bool) {
	type res struct {
		id  uint16
		err error
	}
	ch := make(chan res, 1)
	go func() {
		id, err := pc.VerifGenerateDataChannelID(role)
		ch <- res{id, err}
	}()
	select {
	case r := <-ch:
		return r.id, r.err, true
	case <-time.After(10 * time.Second):
		c18Hung.Store(true)
		return 0, nil, false
	}
}

func c18AllocRun(in c18Alloc) (V, Verdict) {
	if c18Hung.Load() {
		return VS("hung"), Fail("allocator-never-returns", "an earlier generateAndSetDataChannelID call of this run never returned")
	}
	api := newQuietAPI(nil)
	pc, err := api.NewPeerConnection(webrtc.Configuration{})
	if err != nil {
		panic(err)
	}
	defer pc.Close() //nolint
	if in.MaxV != 65535 {
		pc.VerifSetMaxChannels(uint16(in.MaxV))
	}
	role := webrtc.DTLSRoleServer
	start := 1
	if in.Client {
		role = webrtc.DTLSRoleClient
		start = 0
	}
	seen := map[int]bool{} // the harness's own record of ids in use
	var cids, assigned VL
	var explicit []*webrtc.DataChannel
	verdict := Verdict{OK: true}
	fail := func(sig, what string) {
		if verdict.OK {
			verdict = Fail(sig, what)
		}
	}
	allocs, errs := 0, 0
	for k, op := range in.Ops {
		switch op[0] {
		case 0:
			id := uint16(op[1])
			neg := op[1]%3 == 0
			dc, err := pc.CreateDataChannel(fmt.Sprintf("e%d", k), &webrtc.DataChannelInit{ID: &id, Negotiated: &neg})
			if err != nil {
				fail("explicit-create-rejected", err.Error())
				continue
			}
			explicit = append(explicit, dc)
			seen[op[1]] = true
			cids = append(cids, VZ(int64(op[1])))
		case 1:
			if err := pc.VerifRemoteDataChannel(uint16(op[1])); err != nil {
				panic(err)
			}
			seen[op[1]] = true
			cids = append(cids, VZ(int64(op[1])))
		case 2:
			id, err, returned := c18Generate(pc, role)
			if !returned {
				return VS("hung"), Fail("allocator-never-returns", fmt.Sprintf("generateAndSetDataChannelID did not return (op %d)", k))
			}
			if err != nil {
				errs++
				cids = append(cids, VZ(-1))
				if !errors.Is(err, webrtc.ErrMaxDataChannelID) {
					fail("allocator-unexpected-error", err.Error())
				}
				// exhaustion must be real: every id of the role's parity below maxChannels-1 is in use
				for x := start; x < in.MaxV-1; x += 2 {
					if !seen[x] {
						fail("error-although-id-free", fmt.Sprintf("ErrMaxDataChannelID while %d is free", x))
						break
					}
				}
				continue
			}
			allocs++
			i := int(id)
			switch {
			case i%2 != start:
				fail("assigned-id-wrong-parity", fmt.Sprintf("role client=%v got id %d", in.Client, i))
			case i == 65535 || i >= in.MaxV-1:
				fail("assigned-id-out-of-range", fmt.Sprintf("got id %d with maxChannels %d", i, in.MaxV))
			case seen[i]:
				fail("assigned-id-in-use", fmt.Sprintf("id %d was already in use", i))
			}
			seen[i] = true
			cids = append(cids, VZ(int64(i)))
			assigned = append(assigned, VZ(int64(i)))
		case 3:
			if len(explicit) > 0 {
				_ = explicit[op[1]%len(explicit)].Close()
			}
		}
	}
	used := pc.VerifDataChannelIDsUsed()
	var want []int
	for id := range seen {
		want = append(want, id)
	}
	sort.Ints(want)
	same := len(want) == len(used)
	for i := 0; same && i < len(want); i++ {
		same = want[i] == int(used[i])
	}
	if !same {
		fail("ids-in-use-bookkeeping-differs", fmt.Sprintf("dataChannelIDsUsed has %d entries, expected %d", len(used), len(want)))
	}
	for _, dc := range explicit { // ids of explicit channels never change
		_ = dc
	}
	if verdict.OK {
		class := "allocs"
		if errs > 0 {
			class = "exhausted"
		}
		verdict = Pass(fmt.Sprintf("%s/client=%v", class, in.Client), allocs+errs >= 1 && len(seen) > allocs)
	}
	return VL{cids, assigned, VInts(used)}, verdict
}

func c18AllocCoq(in c18Alloc) string {
	if in.NoCoq {
		return ""
	}
	cl := 0
	if in.Client {
		cl = 1
	}
	ops := []string{fmt.Sprintf("(6, %d)", cl)}
	nch, nexp := 0, 0
	var expIdx []int
	for _, op := range in.Ops {
		switch op[0] {
		case 0:
			ops = append(ops, fmt.Sprintf("(0, %d)", op[1]))
			expIdx = append(expIdx, nch)
			nch++
			nexp++
		case 1:
			ops = append(ops, fmt.Sprintf("(1, %d)", op[1]))
			nch++
		case 2:
			ops = append(ops, "(4, 0)", fmt.Sprintf("(5, %d)", nch))
			nch++
		case 3:
			if nexp > 0 {
				ops = append(ops, fmt.Sprintf("(3, %d)", expIdx[op[1]%nexp]))
			}
		}
	}
	return fmt.Sprintf("(%d, %s)", in.MaxV, CoqList(ops))
}

// ---------- concurrent allocators ----------

type c18Conc struct {
	Client bool     `json:"client"`
	Pre    [][2]int `json:"pre"` // explicit creates / remote opens made before the race
	G      int      `json:"g"`   // goroutines
	K      int      `json:"k"`   // allocations per goroutine
}

// Allocation is one critical section under r.lock: whatever the interleaving,
// G*K concurrent allocations must hand out exactly the G*K smallest free ids
// of the role's parity, each once.
func c18ConcRun(in c18Conc) (V, Verdict) {
	api := newQuietAPI(nil)
	pc, err := api.NewPeerConnection(webrtc.Configuration{})
	if err != nil {
		panic(err)
	}
	defer pc.Close() //nolint
	role, start := webrtc.DTLSRoleServer, 1
	if in.Client {
		role, start = webrtc.DTLSRoleClient, 0
	}
	seen := map[int]bool{}
	for k, op := range in.Pre {
		id := uint16(op[1])
		if op[0] == 0 {
			t := true
			if _, err := pc.CreateDataChannel(fmt.Sprintf("e%d", k), &webrtc.DataChannelInit{ID: &id, Negotiated: &t}); err != nil {
				panic(err)
			}
		} else if err := pc.VerifRemoteDataChannel(id); err != nil {
			panic(err)
		}
		seen[op[1]] = true
	}
	res := make([][]int, in.G)
	var wg sync.WaitGroup
	begin := make(chan struct{})
	for g := 0; g < in.G; g++ {
		g := g
		wg.Add(1)
		go func() {
			defer wg.Done()
			<-begin
			for k := 0; k < in.K; k++ {
				id, err := pc.VerifGenerateDataChannelID(role)
				if err != nil {
					res[g] = append(res[g], -1)
					continue
				}
				res[g] = append(res[g], int(id))
			}
		}()
	}
	close(begin)
	wg.Wait()
	verdict := Pass(fmt.Sprintf("g%d/client=%v", in.G, in.Client), in.G >= 2)
	var all []int
	for _, r := range res {
		for _, id := range r {
			switch {
			case id < 0:
				verdict = Fail("allocator-unexpected-error", "ErrMaxDataChannelID far from exhaustion")
			case id%2 != start:
				verdict = Fail("assigned-id-wrong-parity", fmt.Sprintf("id %d", id))
			case seen[id]:
				verdict = Fail("assigned-id-in-use", fmt.Sprintf("id %d handed out although in use (concurrent allocation)", id))
			}
			seen[id] = true
			all = append(all, id)
		}
	}
	sort.Ints(all)
	return VL{VInts(all), VInts(pc.VerifDataChannelIDsUsed())}, verdict
}

func c18ConcCoq(in c18Conc) string {
	cl := 0
	if in.Client {
		cl = 1
	}
	ops := []string{fmt.Sprintf("(6, %d)", cl)}
	n := 0
	for _, op := range in.Pre {
		ops = append(ops, fmt.Sprintf("(%d, %d)", op[0], op[1]))
		n++
	}
	for k := 0; k < in.G*in.K; k++ {
		ops = append(ops, "(4, 0)", fmt.Sprintf("(5, %d)", n))
		n++
	}
	return fmt.Sprintf("(65535, %s)", CoqList(ops))
}

// ---------- connected pairs ----------

type c18Pair struct {
	N          int   `json:"n"`
	OffererDC  []int `json:"offerer_dc"` // channels the offerer creates before connecting: -1 = no id, else explicit negotiated id
	AnswerRole int   `json:"answer_role"` // 0 default, 1 answerer is DTLS client, 2 answerer is DTLS server
	AfterA     int   `json:"after_a"`    // channels without id created by the offerer after connecting
	AfterB     int   `json:"after_b"`    // ... by the answerer
}

// c18VNetAPIs builds the two APIs of a pair on a private virtual network
// (pion/transport vnet): no dependence on the host's interfaces.
func c18VNetAPIs(answerRole int) (*webrtc.API, *webrtc.API, *vnet.Router) {
	wan, err := vnet.NewRouter(&vnet.RouterConfig{CIDR: "1.2.3.0/24", LoggerFactory: logging.NewDefaultLoggerFactory()})
	if err != nil {
		panic(err)
	}
	mk := func(ip string, role int) *webrtc.API {
		nw, err := vnet.NewNet(&vnet.NetConfig{StaticIPs: []string{ip}})
		if err != nil {
			panic(err)
		}
		if err = wan.AddNet(nw); err != nil {
			panic(err)
		}
		se := webrtc.SettingEngine{}
		se.SetNet(nw)
		se.SetICEMulticastDNSMode(0 + 1)
		se.SetICETimeouts(5*time.Second, 10*time.Second, 200*time.Millisecond)
		switch role {
		case 1:
			_ = se.SetAnsweringDTLSRole(webrtc.DTLSRoleClient)
		case 2:
			_ = se.SetAnsweringDTLSRole(webrtc.DTLSRoleServer)
		}
		return webrtc.NewAPI(webrtc.WithSettingEngine(se))
	}
	a, b := mk("1.2.3.4", 0), mk("1.2.3.5", answerRole)
	if err = wan.Start(); err != nil {
		panic(err)
	}
	return a, b, wan
}

type c18Side struct {
	mu      sync.Mutex
	pc      *webrtc.PeerConnection
	local   []*webrtc.DataChannel
	remote  []*webrtc.DataChannel
	firstID map[*webrtc.DataChannel]int
}

func (s *c18Side) note(dc *webrtc.DataChannel) {
	s.mu.Lock()
	defer s.mu.Unlock()
	if id := dc.ID(); id != nil {
		if _, ok := s.firstID[dc]; !ok {
			s.firstID[dc] = int(*id)
		}
	}
}

func c18WaitOpen(dcs []*webrtc.DataChannel, d time.Duration) bool {
	deadline := time.Now().Add(d)
	for {
		all := true
		for _, dc := range dcs {
			if dc.ReadyState() != webrtc.DataChannelStateOpen {
				all = false
			}
		}
		if all {
			return true
		}
		if time.Now().After(deadline) {
			return false
		}
		time.Sleep(2 * time.Millisecond)
	}
}

var c18PairCoq sync.Map

func c18PairRun(in c18Pair) (V, Verdict) {
	signalOnly(false)
	a := &c18Side{firstID: map[*webrtc.DataChannel]int{}}
	b := &c18Side{firstID: map[*webrtc.DataChannel]int{}}
	var err error
	apiA, apiB, wan := c18VNetAPIs(in.AnswerRole)
	defer wan.Stop() //nolint
	if a.pc, err = apiA.NewPeerConnection(webrtc.Configuration{}); err != nil {
		panic(err)
	}
	defer a.pc.Close() //nolint
	if b.pc, err = apiB.NewPeerConnection(webrtc.Configuration{}); err != nil {
		panic(err)
	}
	defer b.pc.Close() //nolint
	for _, s := range []*c18Side{a, b} {
		s := s
		s.pc.OnDataChannel(func(dc *webrtc.DataChannel) {
			s.mu.Lock()
			s.remote = append(s.remote, dc)
			s.mu.Unlock()
			s.note(dc)
		})
	}
	t := true
	for k, e := range in.OffererDC {
		var init *webrtc.DataChannelInit
		if e >= 0 {
			id := uint16(e)
			init = &webrtc.DataChannelInit{ID: &id, Negotiated: &t}
		}
		dc, err := a.pc.CreateDataChannel(fmt.Sprintf("a%d", k), init)
		if err != nil {
			return VS("error"), Fail("create-data-channel-failed", err.Error())
		}
		a.local = append(a.local, dc)
		a.note(dc)
		if e >= 0 { // a negotiated channel exists on both sides
			id := uint16(e)
			dcb, err := b.pc.CreateDataChannel(fmt.Sprintf("a%d", k), &webrtc.DataChannelInit{ID: &id, Negotiated: &t})
			if err != nil {
				return VS("error"), Fail("create-data-channel-failed", err.Error())
			}
			b.local = append(b.local, dcb)
			b.note(dcb)
		}
	}
	// offer / answer without trickle
	offer, err := a.pc.CreateOffer(nil)
	if err != nil {
		panic(err)
	}
	ga := webrtc.GatheringCompletePromise(a.pc)
	if err = a.pc.SetLocalDescription(offer); err != nil {
		panic(err)
	}
	<-ga
	if err = b.pc.SetRemoteDescription(*a.pc.LocalDescription()); err != nil {
		panic(err)
	}
	answer, err := b.pc.CreateAnswer(nil)
	if err != nil {
		panic(err)
	}
	gb := webrtc.GatheringCompletePromise(b.pc)
	if err = b.pc.SetLocalDescription(answer); err != nil {
		panic(err)
	}
	<-gb
	if err = a.pc.SetRemoteDescription(*b.pc.LocalDescription()); err != nil {
		panic(err)
	}
	if !c18WaitOpen(a.local, 10*time.Second) {
		return VS("not-connected"), Fail("pair-did-not-connect", "data channels did not open within 10 s")
	}
	for _, dc := range a.local {
		a.note(dc)
	}
	// channels created after the association exists, interleaved
	for k := 0; k < in.AfterA || k < in.AfterB; k++ {
		if k < in.AfterA {
			dc, err := a.pc.CreateDataChannel(fmt.Sprintf("pa%d", k), nil)
			if err != nil {
				return VS("error"), Fail("create-data-channel-failed", err.Error())
			}
			a.local = append(a.local, dc)
			a.note(dc)
		}
		if k < in.AfterB {
			dc, err := b.pc.CreateDataChannel(fmt.Sprintf("pb%d", k), nil)
			if err != nil {
				return VS("error"), Fail("create-data-channel-failed", err.Error())
			}
			b.local = append(b.local, dc)
			b.note(dc)
		}
	}
	if !c18WaitOpen(append(append([]*webrtc.DataChannel{}, a.local...), b.local...), 10*time.Second) {
		return VS("not-open"), Fail("pair-channels-did-not-open", "late data channels did not open within 10 s")
	}
	// wait until both sides have announced every non-negotiated channel of the other
	nonNeg := 0
	for _, e := range in.OffererDC {
		if e < 0 {
			nonNeg++
		}
	}
	deadline := time.Now().Add(10 * time.Second)
	for time.Now().Before(deadline) {
		a.mu.Lock()
		ra := len(a.remote)
		a.mu.Unlock()
		b.mu.Lock()
		rb := len(b.remote)
		b.mu.Unlock()
		if ra >= in.AfterB && rb >= nonNeg+in.AfterA {
			break
		}
		time.Sleep(2 * time.Millisecond)
	}

	verdict := Verdict{OK: true}
	fail := func(sig, what string) {
		if verdict.OK {
			verdict = Fail(sig, what)
		}
	}
	roleA, roleB := a.pc.VerifDTLSRole(), b.pc.VerifDTLSRole()
	if roleA == roleB {
		fail("dtls-roles-not-complementary", fmt.Sprintf("both sides report %v", roleA))
	}
	project := func(s *c18Side, role webrtc.DTLSRole, explicitOf func(i int) bool) (VL, VL) {
		s.mu.Lock()
		defer s.mu.Unlock()
		all := map[int]string{}
		var loc, rem VL
		for i, dc := range s.local {
			if dc.ID() == nil {
				fail("open-channel-without-id", dc.Label())
				continue
			}
			id := int(*dc.ID())
			loc = append(loc, VZ(int64(id)))
			if first, ok := s.firstID[dc]; ok && first != id {
				fail("channel-id-changed", fmt.Sprintf("%s: %d then %d", dc.Label(), first, id))
			}
			if other, dup := all[id]; dup {
				fail("duplicate-stream-id-on-connection", fmt.Sprintf("%s and %s both have id %d", other, dc.Label(), id))
			}
			all[id] = dc.Label()
			if !explicitOf(i) {
				want := 1
				if role == webrtc.DTLSRoleClient {
					want = 0
				}
				if id%2 != want {
					fail("assigned-id-wrong-parity", fmt.Sprintf("%s: role %v got id %d", dc.Label(), role, id))
				}
				if id == 65535 {
					fail("assigned-id-65535", dc.Label())
				}
			}
		}
		var rids []int
		for _, dc := range s.remote {
			id := int(*dc.ID())
			rids = append(rids, id)
			if other, dup := all[id]; dup {
				fail("duplicate-stream-id-on-connection", fmt.Sprintf("%s and remote %s both have id %d", other, dc.Label(), id))
			}
			all[id] = "remote:" + dc.Label()
		}
		sort.Ints(rids)
		for _, id := range rids {
			rem = append(rem, VZ(int64(id)))
		}
		return loc, rem
	}
	nOff := len(in.OffererDC)
	locA, remA := project(a, roleA, func(i int) bool { return i < nOff && in.OffererDC[i] >= 0 })
	nNegB := 0
	for _, e := range in.OffererDC {
		if e >= 0 {
			nNegB++
		}
	}
	locB, remB := project(b, roleB, func(i int) bool { return i < nNegB })
	// a channel announced to the peer has the same id on both sides
	labelIDs := func(s *c18Side, remote bool) map[string]int {
		s.mu.Lock()
		defer s.mu.Unlock()
		m := map[string]int{}
		src := s.local
		if remote {
			src = s.remote
		}
		for _, dc := range src {
			if dc.ID() != nil {
				m[dc.Label()] = int(*dc.ID())
			}
		}
		return m
	}
	for lbl, id := range labelIDs(b, true) {
		if la, ok := labelIDs(a, false)[lbl]; ok && la != id {
			fail("id-differs-between-peers", fmt.Sprintf("%s: %d locally, %d at the peer", lbl, la, id))
		}
	}
	for lbl, id := range labelIDs(a, true) {
		if lb, ok := labelIDs(b, false)[lbl]; ok && lb != id {
			fail("id-differs-between-peers", fmt.Sprintf("%s: %d locally, %d at the peer", lbl, lb, id))
		}
	}
	clA := 0
	if roleA == webrtc.DTLSRoleClient {
		clA = 1
	}
	// model input for the offerer's side: creates, connect, opens in creation order,
	// the answerer's channels as remote opens (other parity: order irrelevant), late creates
	var ops []string
	for _, e := range in.OffererDC {
		if e >= 0 {
			ops = append(ops, fmt.Sprintf("(0, %d)", e))
		} else {
			ops = append(ops, "(4, 0)")
		}
	}
	ops = append(ops, fmt.Sprintf("(6, %d)", clA))
	for i := range in.OffererDC {
		ops = append(ops, fmt.Sprintf("(5, %d)", i))
	}
	for k := 0; k < in.AfterA; k++ {
		ops = append(ops, "(4, 0)", fmt.Sprintf("(5, %d)", nOff+k))
	}
	c18PairCoq.Store(fmt.Sprintf("%+v", in), fmt.Sprintf("(65535, %s)", CoqList(ops)))
	if verdict.OK {
		verdict = Pass(fmt.Sprintf("offerer=%v/answerrole=%d", roleA, in.AnswerRole), len(in.OffererDC)+in.AfterA+in.AfterB >= 2)
	}
	_ = remA
	_ = locB
	_ = remB
	_ = strings.Join
	// observation compared with the model: the offerer's local channel ids, the
	// ids it assigned itself, its ids in use restricted to its own channels
	var assignedA VL
	for i, v := range locA {
		if !(i < nOff && in.OffererDC[i] >= 0) {
			assignedA = append(assignedA, v)
		}
	}
	own := map[int]bool{}
	for _, v := range locA {
		own[int(v.(VZ))] = true
	}
	var ownIDs []int
	for id := range own {
		ownIDs = append(ownIDs, id)
	}
	sort.Ints(ownIDs)
	return VL{locA, assignedA, VInts(ownIDs)}, verdict
}

func init() {
	Register(Spec[c18Alloc]{
		ID: "C18", Suite: "alloc", CoqImports: []string{"Check.C18"},
		CoqType: "Z * list (Z * Z)", CoqRun: "Check.C18.run",
		Quick: 400, Thorough: 15000, Parallel: 8,
		Corpus: func() []c18Alloc {
			block := func(start, n int) [][2]int {
				var o [][2]int
				for i := 0; i < n; i++ {
					o = append(o, [2]int{0, start + 2*i})
				}
				return o
			}
			full := func(start int) [][2]int { // every id of one parity below 65534, as remote opens
				var o [][2]int
				for x := start; x < 65534; x += 2 {
					o = append(o, [2]int{1, x})
				}
				return append(o, [2]int{2, 0}, [2]int{2, 0})
			}
			return []c18Alloc{
				{Client: true, MaxV: 65535, Ops: [][2]int{{2, 0}, {0, 2}, {2, 0}, {1, 6}, {2, 0}, {2, 0}, {3, 0}, {2, 0}}},
				{Client: false, MaxV: 65535, Ops: [][2]int{{2, 0}, {0, 3}, {2, 0}, {1, 7}, {2, 0}, {2, 0}}},
				{Client: true, MaxV: 65535, Ops: append(block(0, 40), [2]int{2, 0}, [2]int{2, 0})},
				{Client: false, MaxV: 65535, Ops: append(block(1, 40), [2]int{2, 0}, [2]int{2, 0})},
				{Client: true, MaxV: 65535, Ops: [][2]int{{0, 65534}, {0, 65535}, {0, 65533}, {0, 65532}, {2, 0}, {1, 65535}, {2, 0}}},
				{Client: false, MaxV: 65535, Ops: [][2]int{{0, 65534}, {0, 65535}, {0, 65533}, {1, 65531}, {2, 0}, {2, 0}}},
				{Client: true, MaxV: 9, Ops: [][2]int{{2, 0}, {2, 0}, {2, 0}, {2, 0}, {2, 0}, {2, 0}}},   // exhaustion at a small maxChannels
				{Client: false, MaxV: 9, Ops: [][2]int{{2, 0}, {2, 0}, {2, 0}, {2, 0}, {2, 0}, {2, 0}}},
				{Client: true, MaxV: 1, Ops: [][2]int{{2, 0}}},
				{Client: true, MaxV: 2, Ops: [][2]int{{2, 0}, {2, 0}}},
				{Client: false, MaxV: 2, Ops: [][2]int{{2, 0}}},
				{Client: true, MaxV: 65535, Ops: full(0), NoCoq: true}, // full-size exhaustion: direct oracle only
				{Client: false, MaxV: 65535, Ops: full(1), NoCoq: true},
			}
		},
		Gen: func(r *Rand, i int) c18Alloc {
			in := c18Alloc{Client: r.Bool(), MaxV: 65535}
			if r.Chance(1, 4) {
				in.MaxV = r.Range(1, 24)
			}
			hi := 30
			n := r.Range(1, 40)
			for k := 0; k < n; k++ {
				switch x := r.Intn(10); {
				case x < 4:
					in.Ops = append(in.Ops, [2]int{2, 0})
				case x < 7:
					id := r.Intn(hi)
					if r.Chance(1, 8) {
						id = 65535 - r.Intn(4)
					}
					in.Ops = append(in.Ops, [2]int{0, id})
				case x < 9:
					id := r.Intn(hi)
					if r.Chance(1, 8) {
						id = 65535 - r.Intn(4)
					}
					in.Ops = append(in.Ops, [2]int{1, id})
				default:
					in.Ops = append(in.Ops, [2]int{3, r.Intn(8)})
				}
			}
			return in
		},
		Run: c18AllocRun, Coq: c18AllocCoq,
		Shrink: func(in c18Alloc) []c18Alloc {
			var out []c18Alloc
			if len(in.Ops) > 200 {
				return nil
			}
			for i := range in.Ops {
				c := in
				c.Ops = append(append([][2]int{}, in.Ops[:i]...), in.Ops[i+1:]...)
				out = append(out, c)
			}
			return out
		},
	})
	Register(Spec[c18Conc]{
		ID: "C18", Suite: "conc", CoqImports: []string{"Check.C18"},
		CoqType: "Z * list (Z * Z)", CoqRun: "Check.C18.run_set",
		Quick: 60, Thorough: 3000, Parallel: 2,
		Gen: func(r *Rand, i int) c18Conc {
			in := c18Conc{Client: r.Bool(), G: r.Range(2, 8), K: r.Range(1, 12)}
			n := r.Intn(30)
			for k := 0; k < n; k++ {
				in.Pre = append(in.Pre, [2]int{r.Intn(2), r.Intn(60)})
			}
			return in
		},
		Run: c18ConcRun, Coq: c18ConcCoq,
	})
	Register(Spec[c18Pair]{
		ID: "C18", Suite: "pair", CoqImports: []string{"Check.C18"},
		CoqType: "Z * list (Z * Z)", CoqRun: "Check.C18.run",
		Quick: 6, Thorough: 120, Parallel: 3, Timeout: 90 * time.Second,
		Corpus: func() []c18Pair {
			return []c18Pair{
				{N: -1, OffererDC: []int{-1, -1}, AnswerRole: 0, AfterA: 1, AfterB: 2},
				{N: -2, OffererDC: []int{-1, 0, -1, 3}, AnswerRole: 1, AfterA: 2, AfterB: 2},
				{N: -3, OffererDC: []int{-1, 1, 2, -1}, AnswerRole: 2, AfterA: 2, AfterB: 1},
			}
		},
		Gen: func(r *Rand, i int) c18Pair {
			in := c18Pair{N: i, AnswerRole: r.Intn(3), AfterA: r.Intn(4), AfterB: r.Intn(4)}
			n := r.Range(1, 5)
			usedIDs := map[int]bool{}
			for k := 0; k < n; k++ {
				if r.Chance(1, 3) {
					id := r.Intn(8)
					if !usedIDs[id] {
						usedIDs[id] = true
						in.OffererDC = append(in.OffererDC, id)
						continue
					}
				}
				in.OffererDC = append(in.OffererDC, -1)
			}
			if in.OffererDC[0] >= 0 { // at least one channel without id, so the offer has an application section either way
				in.OffererDC[0] = -1
			}
			return in
		},
		Run: c18PairRun,
		Coq: func(in c18Pair) string {
			s, ok := c18PairCoq.Load(fmt.Sprintf("%+v", in))
			if !ok {
				return ""
			}
			return s.(string)
		},
	})
}
