//go:build verif_c26

package main

// C26, suite "history": sequences of packets on one RTPReceiver - primary
// packets whose payload type changes mid-session (TrackRemote.checkAndUpdateTrack
// follows the ones the media engine knows) and repair packets - each read
// through TrackRemote.Read before the next one arrives.  Direct oracle: every
// unwrapped repair packet carries the primary stream's CURRENT payload type and
// SSRC (the harness keeps its own record of the last primary packet with a
// known payload type, and also compares with TrackRemote.PayloadType()/SSRC()),
// plus everything c26Oracle checks per packet.  Model: Model/Rtx.v rtx_history
// (c26_unwrap_history).

import (
	"bytes"
	"encoding/hex"
	"fmt"

	"github.com/pion/webrtc/v4"
)

type c26HEv struct {
	Primary bool   `json:"p"`
	Buf     string `json:"buf"` // whole buffer, hex; all buffers of a history have the same length (the receive MTU)
	N       int    `json:"n"`
}

type c26Hist struct {
	PTs    []int    `json:"pts"`  // payload types the media engine knows (video)
	InitPT int      `json:"init"` // 0: fresh track
	SSRC   uint32   `json:"ssrc"`
	Events []c26HEv `json:"events"`
}

func c26Codecs(pts []int) []webrtc.RTPCodecParameters {
	mimes := []string{webrtc.MimeTypeVP8, webrtc.MimeTypeVP9, webrtc.MimeTypeH264, webrtc.MimeTypeAV1}
	var out []webrtc.RTPCodecParameters
	for k, pt := range pts {
		c := webrtc.RTPCodecParameters{
			RTPCodecCapability: webrtc.RTPCodecCapability{MimeType: mimes[k/2%len(mimes)], ClockRate: 90000},
			PayloadType:        webrtc.PayloadType(pt),
		}
		if k%2 == 1 { // every second one is the retransmission format of the one before
			c.RTPCodecCapability = webrtc.RTPCodecCapability{MimeType: webrtc.MimeTypeRTX, ClockRate: 90000,
				SDPFmtpLine: fmt.Sprintf("apt=%d", pts[k-1])}
		}
		out = append(out, c)
	}
	return out
}

func c26HistRun(in c26Hist) (V, Verdict) {
	if len(in.Events) == 0 {
		panic("c26: empty history")
	}
	mtu := len(in.Events[0].Buf) / 2
	var evs []webrtc.VerifRTXEvent
	for _, e := range in.Events {
		b, err := hex.DecodeString(e.Buf)
		if err != nil || len(b) != mtu || mtu < 76 || e.N < 1 || e.N > mtu {
			panic("c26: case outside the harness domain")
		}
		evs = append(evs, webrtc.VerifRTXEvent{Primary: e.Primary, Buf: b, N: e.N})
	}
	const rtxSSRC = 0x52545821
	res, err := webrtc.VerifRTXHistory(uint(mtu), c26Codecs(in.PTs), uint8(in.InitPT), in.SSRC, rtxSSRC, evs)
	if err != nil {
		return VS("ERR"), Fail("rtx-wrapper-error", err.Error())
	}
	if len(res) != len(evs) {
		return VS("COUNT"), Fail("rtx-read-count", fmt.Sprintf("%d results for %d events", len(res), len(evs)))
	}
	known := map[int]bool{}
	for _, pt := range in.PTs {
		known[pt] = true
	}
	// the harness's own record of the primary stream
	cur, haveParams := in.InitPT, in.InitPT != 0
	earlier := map[int]bool{} // payload types the primary stream had before the current one
	obs := VL{}
	verdict := Verdict{}
	fail := func(sig, what string) {
		if verdict.Sig == "" {
			verdict = Fail(sig, what)
		}
	}
	switches, sinceRtx, rtxAfterSwitch, delivered := 0, 0, 0, 0
	for k, ev := range evs {
		r := res[k]
		pkt := ev.Buf[:ev.N]
		if ev.Primary {
			p := int(ev.Buf[1] & 0x7f)
			wantErr := false
			if p != cur || !haveParams {
				if known[p] {
					if p != cur {
						earlier[cur] = true
						delete(earlier, p)
						switches++
						sinceRtx++
					}
					cur, haveParams = p, true
				} else {
					wantErr = true
				}
			}
			obs = append(obs, VL{VS("p"), VBy(r.Read.Packet), VB(!r.Err)})
			switch {
			case !bytes.Equal(r.Read.Packet, pkt):
				fail("primary-packet-altered", fmt.Sprintf("event %d: primary packet %x was read as %x", k, pkt, r.Read.Packet))
			case r.Err != wantErr:
				fail("primary-read-error-unexpected", fmt.Sprintf("event %d: payload type %d (known=%v): Read error=%v", k, p, known[p], r.Err))
			}
		} else {
			if r.Dropped {
				obs = append(obs, VL{VS("ok"), VL{}})
			} else {
				obs = append(obs, VL{VS("ok"), VL{VL{VBy(r.Read.Packet), VZ(r.Read.RtxPT), VZ(r.Read.RtxSeq), VZ(r.Read.RtxSSRC)}}})
			}
			if r.Err {
				fail("rtx-read-error", fmt.Sprintf("event %d: Read returned an error for a queued repair packet", k))
			}
			v := c26Oracle(pkt, !r.Dropped, r.Read, cur, in.SSRC)
			if !v.OK {
				if v.Sig == "rtx-pt-not-primary" {
					if q, ok := c26Parse(r.Read.Packet); ok && earlier[q.PT] {
						v = Fail("rtx-pt-stale-after-primary-switched", fmt.Sprintf("repair packet delivered with payload type %d, which the primary stream had earlier; it is at %d now", q.PT, cur))
					}
				}
				fail(v.Sig, fmt.Sprintf("event %d: %s", k, v.What))
			} else if v.NonTrivial {
				delivered++
				if sinceRtx > 0 {
					rtxAfterSwitch++
				}
				sinceRtx = 0
			}
		}
		if int(r.TrackPT) != cur {
			fail("track-payload-type-not-current", fmt.Sprintf("event %d: TrackRemote.PayloadType() = %d, the primary stream is at %d", k, r.TrackPT, cur))
		}
		if r.TrackSSRC != in.SSRC {
			fail("track-ssrc-changed", fmt.Sprintf("event %d: TrackRemote.SSRC() = %d, configured %d", k, r.TrackSSRC, in.SSRC))
		}
	}
	if verdict.Sig != "" {
		return obs, verdict
	}
	return obs, Pass(fmt.Sprintf("switches%d/rtx-after-switch%d/init%v", min(switches, 4), min(rtxAfterSwitch, 3), in.InitPT != 0),
		rtxAfterSwitch >= 1 && delivered >= 2)
}

func c26HistCoq(in c26Hist) string {
	pts := make([]string, len(in.PTs))
	for i, p := range in.PTs {
		pts[i] = fmt.Sprint(p)
	}
	evs := make([]string, len(in.Events))
	for i, e := range in.Events {
		b, _ := hex.DecodeString(e.Buf)
		evs[i] = fmt.Sprintf("(%s, %s, %d)", CoqBool(e.Primary), CoqBytes(b), e.N)
	}
	return fmt.Sprintf("(%s, (%d, %d, %s), %s)", CoqList(pts), in.InitPT, in.SSRC, CoqBool(in.InitPT != 0), CoqList(evs))
}

func c26HEvent(r *Rand, primary bool, pkt []byte, mtu int) c26HEv {
	buf := make([]byte, mtu)
	n := copy(buf, pkt)
	if r != nil {
		copy(buf[n:], r.Bytes(mtu-n))
	} else {
		for k := n; k < mtu; k++ {
			buf[k] = 0xa5
		}
	}
	return c26HEv{Primary: primary, Buf: hex.EncodeToString(buf), N: n}
}

// a small repair (or primary) packet of at most maxLen bytes
func c26SmallPkt(r *Rand, pt int, ssrc uint32, maxLen int) c26Pkt {
	p := c26Pkt{Ver: 2, M: r.Bool(), PT: pt, Seq: uint16(r.U64()), TS: uint32(r.U64()), SSRC: ssrc}
	switch r.Intn(5) {
	case 0:
		p.CC = r.Range(1, 3)
	case 1:
		p.CC = 15
	}
	p.CSRC = r.Bytes(4 * p.CC)
	if r.Chance(1, 3) {
		p.Ext, p.ExtProfile, p.ExtData = true, Pick(r, []uint16{0xbede, 0x1000}), r.Bytes(4*r.Range(0, 2))
	}
	if r.Chance(1, 3) {
		p.Pad, p.PadBytes = true, c26PadBytes(r, r.Range(1, 6))
	}
	room := maxLen - len(p.bytes())
	pay := r.Range(2, 24)
	if r.Chance(1, 10) {
		pay = r.Intn(2) // too short for an OSN: ignored
	}
	p.Payload = r.Bytes(max(0, min(pay, room)))
	return p
}

func c26HistGen(r *Rand, i int) c26Hist {
	pool := [][2]int{{96, 97}, {98, 99}, {100, 101}, {102, 103}, {35, 36}, {45, 46}, {120, 121}, {126, 127}}
	in := c26Hist{SSRC: uint32(r.U64())}
	var prim []int
	for _, k := range permPrefix(r, len(pool), r.Range(2, 4)) {
		in.PTs = append(in.PTs, pool[k][0], pool[k][1])
		prim = append(prim, pool[k][0])
	}
	unknown := func() int {
		for {
			p := r.Range(0, 127)
			ok := true
			for _, q := range in.PTs {
				ok = ok && p != q
			}
			if ok {
				return p
			}
		}
	}
	switch r.Intn(10) {
	case 0, 1, 2:
		in.InitPT = Pick(r, prim)
	case 3:
		in.InitPT = max(1, unknown())
	}
	mtu := r.Range(96, 160)
	cur := in.InitPT
	for k, n := 0, r.Range(3, 12); k < n; k++ {
		if r.Chance(2, 5) {
			pt := Pick(r, prim)
			switch r.Intn(10) {
			case 0:
				pt = unknown()
			case 1, 2:
				pt = cur
			case 3:
				pt = Pick(r, in.PTs) // possibly a retransmission format on the primary SSRC
			}
			cur = pt
			p := c26SmallPkt(r, pt, in.SSRC, mtu)
			in.Events = append(in.Events, c26HEvent(r, true, p.bytes(), mtu))
			continue
		}
		p := c26SmallPkt(r, r.Range(0, 127), 0x52545821, mtu)
		pkt := p.bytes()
		if r.Chance(1, 12) { // malformed repair packet: truncated
			pkt = pkt[:r.Range(1, len(pkt))]
		}
		in.Events = append(in.Events, c26HEvent(r, false, pkt, mtu))
	}
	return in
}

func permPrefix(r *Rand, n, k int) []int {
	idx := make([]int, n)
	for i := range idx {
		idx[i] = i
	}
	for i := 0; i < k; i++ {
		j := i + r.Intn(n-i)
		idx[i], idx[j] = idx[j], idx[i]
	}
	return idx[:k]
}

func init() {
	Register(Spec[c26Hist]{
		ID: "C26", Suite: "history", CoqImports: []string{"Common.BytesUtil", "Check.C26"},
		CoqType: "list Z * (Z * Z * bool) * list (bool * list byte * Z)", CoqRun: "Check.C26.run_history",
		Quick: 300, Thorough: 5000, Parallel: 8,
		Corpus: func() []c26Hist {
			const mtu = 80
			prim := func(pt int, seq uint16) c26HEv {
				return c26HEvent(nil, true, c26Pkt{Ver: 2, PT: pt, Seq: seq, TS: 1000 * uint32(seq), SSRC: 1111, Payload: []byte{1, 2, 3, 4}}.bytes(), mtu)
			}
			rtx := func(pt int, osn uint16) c26HEv {
				return c26HEvent(nil, false, c26Pkt{Ver: 2, PT: pt, Seq: 500 + osn, TS: 1000 * uint32(osn), SSRC: 2222,
					Payload: []byte{byte(osn >> 8), byte(osn), 9, 8, 7}}.bytes(), mtu)
			}
			return []c26Hist{
				// the seeded change's witness: VP8/96, a retransmission, switch to VP9/98, a retransmission;
				// then an unknown payload type (the track stays at 98) and back to 96
				{PTs: []int{96, 97, 98, 99}, SSRC: 1111, Events: []c26HEv{prim(96, 1), rtx(97, 1), prim(98, 2), rtx(99, 2),
					prim(111, 3), rtx(99, 2), prim(96, 4), rtx(97, 4)}},
				// repair packets before any primary packet: payload type 0, then it follows
				{PTs: []int{96, 97, 98, 99}, SSRC: 7, Events: []c26HEv{rtx(97, 1), rtx(97, 2), prim(98, 3), rtx(99, 3), rtx(99, 1)}},
				// preset payload type, several switches without repair packets in between
				{PTs: []int{96, 97, 98, 99, 102, 103}, InitPT: 102, SSRC: 0xfffffffe, Events: []c26HEv{rtx(103, 1), prim(96, 2), prim(98, 3),
					prim(102, 4), prim(98, 5), rtx(99, 5)}},
				// a preset payload type the media engine does not know; a primary packet with the same one
				{PTs: []int{96, 97}, InitPT: 111, SSRC: 5, Events: []c26HEv{prim(111, 1), rtx(97, 1), prim(96, 2), rtx(97, 2)}},
			}
		},
		Gen: c26HistGen, Run: c26HistRun, Coq: c26HistCoq,
		Shrink: func(in c26Hist) []c26Hist {
			var out []c26Hist
			for i := range in.Events {
				c := in
				c.Events = append(append([]c26HEv{}, in.Events[:i]...), in.Events[i+1:]...)
				if len(c.Events) > 0 {
					out = append(out, c)
				}
			}
			return out
		},
	})
}
