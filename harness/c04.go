//go:build verif_c04

package main

// C04: negotiationneeded fires only in stable state, once per needed
// negotiation. Seeded call histories on two real PeerConnections (signalling
// only); after every call both operations queues are quiesced (worker ended,
// including the updateNegotiationNeededFlagOnEmptyChain re-check); the handler
// records SignalingState() and [[IsClosed]] at each invocation. Compared with
// Model.Negotiation per call, and checked directly against the property's
// three sentences.

import (
	"fmt"
	"sync"
	"time"

	"github.com/pion/sdp/v3"
	"github.com/pion/webrtc/v4"
)

type c04Fire struct {
	state  int
	closed bool
}

type c04Peer struct {
	mu    sync.Mutex
	fires []c04Fire
	seen  int // fires already attributed to a call
	obs   VL
	// oracle bookkeeping
	firedSinceStable bool // a firing happened since the last transition into stable
	withdrawn        bool // ... and the flag was seen clear again after it
	prevState        int
	total            int
}

func c04HasApp(d *webrtc.SessionDescription) bool {
	if d == nil {
		return false
	}
	parsed := &sdp.SessionDescription{}
	if parsed.UnmarshalString(d.SDP) != nil {
		return false
	}
	for _, m := range parsed.MediaDescriptions {
		if nMediaKind(m) == 3 {
			return true
		}
	}
	return false
}

// does the current local description already announce this msid on this mid?
func c04Advertised(d *webrtc.SessionDescription, mid, msid string) bool {
	if d == nil || mid == "" {
		return false
	}
	parsed := &sdp.SessionDescription{}
	if parsed.UnmarshalString(d.SDP) != nil {
		return false
	}
	for _, m := range parsed.MediaDescriptions {
		if v, ok := nMid(m); ok && v == mid {
			x, ok := m.Attribute("msid")
			return ok && x == msid
		}
	}
	return false
}

func c04Exec(c nCase) (V, string, Verdict) {
	w := nNewWorld(c)
	defer w.close()
	w.settle = func(pc *webrtc.PeerConnection) { pc.VerifOpsQuiesce() }
	var st [2]*c04Peer
	for i := 0; i < 2; i++ {
		i := i
		st[i] = &c04Peer{prevState: 1}
		pc := w.peers[i].pc
		pc.OnNegotiationNeeded(func() {
			f := c04Fire{state: int(pc.SignalingState()), closed: pc.VerifIsClosed()}
			st[i].mu.Lock()
			st[i].fires = append(st[i].fires, f)
			st[i].mu.Unlock()
		})
	}
	var fail *Verdict
	bad := func(sig, what string) {
		if fail == nil {
			v := Fail(sig, what)
			fail = &v
		}
	}
	exchanges := 0
	// state needed by the oracle that must be read before the call
	type pre struct {
		state    int
		closed   bool
		dcs      int
		localApp bool
	}
	var before pre
	snapshot := func(p int) pre {
		pc := w.peers[p].pc
		return pre{state: int(pc.SignalingState()), closed: pc.VerifIsClosed(), dcs: w.peers[p].dcs,
			localApp: c04HasApp(pc.CurrentLocalDescription())}
	}
	w.afterCall = func(w *nWorld, p int, op nOp, status string) {
		pc := w.peers[p].pc
		s := st[p]
		s.mu.Lock()
		fresh := append([]c04Fire(nil), s.fires[s.seen:]...)
		s.seen = len(s.fires)
		s.mu.Unlock()
		o := st[1-p]
		o.mu.Lock()
		if len(o.fires) != o.seen {
			bad("firing-on-the-peer-that-made-no-call", fmt.Sprintf("peer %d fired during a call on peer %d", 1-p, p))
			o.seen = len(o.fires)
		}
		o.mu.Unlock()
		after := int(pc.SignalingState())
		flag := pc.VerifNegotiationNeededFlag()
		fv := VL{}
		for _, f := range fresh {
			fv = append(fv, VL{VZ(f.state), VB(f.closed)})
		}
		s.obs = append(s.obs, VL{VS(status), fv, VB(flag), VZ(after)})
		s.total += len(fresh)

		// ---- direct oracle ----
		// sentence 1: never while not stable or closed
		for _, f := range fresh {
			if f.closed {
				bad("fired-while-closed", fmt.Sprintf("peer %d call %s", p, op.K))
			} else if f.state != 1 {
				bad("fired-while-not-stable", fmt.Sprintf("peer %d call %s in state %d", p, op.K, f.state))
			}
		}
		toStable := before.state != 1 && after == 1
		if toStable {
			exchanges++
			s.firedSinceStable = false
			s.withdrawn = false
		}
		// sentence 3: no second firing until an exchange completes
		for range fresh {
			if s.firedSinceStable {
				if s.withdrawn {
					bad("refire-after-need-withdrawn",
						fmt.Sprintf("peer %d call %s: fired again without a completed exchange; in between the flag had been cleared because negotiation was no longer needed", p, op.K))
				} else {
					bad("second-firing-before-exchange-completes", fmt.Sprintf("peer %d call %s", p, op.K))
				}
			}
			s.firedSinceStable = true
			s.withdrawn = false
		}
		if s.firedSinceStable && !flag {
			s.withdrawn = true
		}
		// sentence 2: after a change that requires renegotiation it fires once stable
		if status == "ok" && before.state == 1 && !before.closed && !toStable {
			change, cause := false, "no-firing-after-change"
			switch op.K {
			case nAddTcvKind, nAddTcvTrack:
				change = true
			case nAddTrack:
				change = true
				// the transceiver that now carries the track
				for _, t := range pc.GetTransceivers() {
					if sn := t.Sender(); sn != nil && sn.Track() != nil && sn.Track().ID() == op.ID &&
						sn.Track().StreamID() == op.Stream &&
						c04Advertised(pc.CurrentLocalDescription(), t.Mid(), op.Stream+" "+op.ID) {
						cause = "addtrack-reuse-already-advertised-no-firing"
					}
				}
			case nDataChannel:
				change = before.dcs == 0 && !before.localApp
			}
			if change && !s.firedSinceStable && len(fresh) == 0 {
				bad(cause, fmt.Sprintf("peer %d call %s in stable state with the flag clear: no negotiationneeded", p, op.K))
			}
			if change && len(fresh) > 1 {
				bad("several-firings-for-one-change", fmt.Sprintf("peer %d call %s: %d", p, op.K, len(fresh)))
			}
		}
		// ... including a change made while an exchange was in progress
		if toStable && !pc.VerifIsClosed() {
			for ti, t := range pc.GetTransceivers() {
				if t.Mid() == "" && len(fresh) == 0 {
					bad("no-firing-on-stable-with-unnegotiated-transceiver",
						fmt.Sprintf("peer %d call %s: transceiver %d has no mid", p, op.K, ti))
				}
			}
		}
		s.prevState = after
	}
	for _, op := range c.Ops {
		before = snapshot(op.P)
		w.exec(op)
	}
	total := st[0].total + st[1].total
	v := Pass(fmt.Sprintf("firings%d/exchanges%d", min(total, 6)/2*2, min(exchanges, 4)/2*2), total > 0)
	if fail != nil {
		v = *fail
	}
	return nDigest(VL{st[0].obs, st[1].obs}), w.coqCase(), v
}

var c04Cache = newNCache()

func c04Gen(r *Rand, i int) nCase {
	c := nGenCase(r, false)
	// a remote peer that answers with other directions than pion would
	for k := range c.Ops {
		if c.Ops[k].K == nDeliverA && r.Chance(1, 8) {
			c.Ops[k].Munge = r.Range(1, 4)
		}
	}
	return c
}

func init() {
	corpus := func() []nCase {
		xa := nExchange(0)
		munged := func(dir int) []nOp {
			e := append([]nOp{}, xa...)
			e[5].Munge = dir
			return e
		}
		return []nCase{
			// the design probe: one firing per change on a pair
			{Engine: [2]int{1, 1}, Ops: append(append(append(append([]nOp{
				{P: 0, K: nAddTrack, Kind: 2, ID: "ta", Stream: "s1"},
				{P: 0, K: nDataChannel}},
				xa...),
				nOp{P: 0, K: nAddTcvKind, Kind: 1, Dir: 3}),
				xa...),
				nOp{P: 0, K: nRemoveTrack, TI: 0}, nOp{P: 1, K: nAddTrack, Kind: 1, ID: "tb", Stream: "s2"})},
			// witness of c04_no_refire_refuted: the remote answers inactive; RemoveTrack
			// fires, AddTrack of the same track withdraws the need, RemoveTrack fires again
			{Ops: append(append([]nOp{{P: 0, K: nAddTrack, Kind: 2, ID: "ta", Stream: "s1"}}, munged(4)...),
				nOp{P: 0, K: nRemoveTrack, TI: 0},
				nOp{P: 0, K: nAddTrack, Kind: 2, ID: "ta", Stream: "s1"},
				nOp{P: 0, K: nRemoveTrack, TI: 0})},
			// witness of c04_fires_after_change_refuted: the remote answers sendonly;
			// RemoveTrack then AddTrack of the same track: no firing at all
			{Ops: append(append([]nOp{{P: 0, K: nAddTrack, Kind: 2, ID: "ta", Stream: "s1"}}, munged(2)...),
				nOp{P: 0, K: nRemoveTrack, TI: 0},
				nOp{P: 0, K: nAddTrack, Kind: 2, ID: "ta", Stream: "s1"})},
			// a change in the middle of an exchange fires when stable is reached
			{Ops: []nOp{{P: 0, K: nAddTrack, Kind: 1, ID: "ta", Stream: "s1"}, xa[0], xa[1],
				{P: 0, K: nAddTcvKind, Kind: 2, Dir: 1}, xa[2], xa[3], xa[4], xa[5], {P: 0, K: nClose},
				{P: 0, K: nAddTrack, Kind: 1, ID: "tb", Stream: "s1"}}},
		}
	}
	Register(Spec[nCase]{
		ID: "C04", Suite: "hist", CoqImports: []string{"Model.OfferShape", "Check.C12", "Check.C04"},
		CoqType: "list (bool * list op)", CoqRun: nCoqRun("Check.C04.run", "Check.C04.run_d"),
		Quick: 300, Thorough: 5000, Parallel: 8, Timeout: 60 * time.Second,
		Corpus: corpus,
		Gen:    c04Gen,
		Run: func(c nCase) (V, Verdict) {
			obs, coq, v := c04Exec(c)
			c04Cache.put(c, coq)
			return obs, v
		},
		Coq:    func(c nCase) string { return c04Cache.take(c) },
		Shrink: nShrink,
	})
}
