//go:build verif_c04

package main

// C04: negotiationneeded fires only in stable state, once per needed
// negotiation. Seeded call histories on two real PeerConnections (signalling
// only); after every call both operations queues are quiesced (worker ended,
// including the updateNegotiationNeededFlagOnEmptyChain re-check); the handler
// records SignalingState() and [[IsClosed]] at each invocation. Compared with
// Model.Negotiation per call, and checked directly against the property's
// three sentences, read with W3C's check / flag algorithm (transcribed again
// here, independently of the Coq model) as the meaning of "requires
// renegotiation" and "needed negotiation".

import (
	"fmt"
	"sync"
	"time"

	"github.com/pion/sdp/v3"
	"github.com/pion/webrtc/v4"
)

type c04Fire struct {
	state  int
	closed bool
}

type c04Peer struct {
	mu    sync.Mutex
	fires []c04Fire
	seen  int // fires already attributed to a call
	obs   VL
	// oracle bookkeeping: W3C's [[NegotiationNeeded]] as the oracle's own
	// transcription of "update the negotiation-needed flag" maintains it
	outstanding bool
	total       int
	ambiguous   int
}

func c04HasApp(d *webrtc.SessionDescription) bool {
	if d == nil {
		return false
	}
	parsed := &sdp.SessionDescription{}
	if parsed.UnmarshalString(d.SDP) != nil {
		return false
	}
	for _, m := range parsed.MediaDescriptions {
		if nMediaKind(m) == 3 {
			return true
		}
	}
	return false
}

func c04Parse(d *webrtc.SessionDescription) *sdp.SessionDescription {
	if d == nil {
		return nil
	}
	parsed := &sdp.SessionDescription{}
	if parsed.UnmarshalString(d.SDP) != nil {
		return nil
	}
	return parsed
}

func c04Section(d *sdp.SessionDescription, mid string) *sdp.MediaDescription {
	if d == nil {
		return nil
	}
	for _, m := range d.MediaDescriptions {
		if v, ok := nMid(m); ok && v == mid {
			return m
		}
	}
	return nil
}

// what this side may do when it wants `want` and the remote offered `offered`
// (JSEP 5.3.1): send only if the offerer receives, receive only if it sends
func c04Intersect(want, offered int) int {
	send := (want == 1 || want == 2) && (offered == 1 || offered == 3)
	recv := (want == 1 || want == 3) && (offered == 1 || offered == 2)
	switch {
	case send && recv:
		return 1
	case send:
		return 2
	case recv:
		return 3
	}
	return 4
}

// W3C webrtc-pc "check if negotiation is needed", transcribed from the spec text
// onto what the API shows: CurrentLocalDescription / CurrentRemoteDescription,
// GetTransceivers(), the number of data channels this side created.
// ambiguous: the type-answer clause gives different verdicts with and without
// "intersected with the offered direction" -- that only happens when the local
// answer was not a legal response to the offer (C08's finding), and the oracle
// then makes no prediction.
func c04W3CNeeded(p *nPeer) (needed, ambiguous bool) {
	pc := p.pc
	local := pc.CurrentLocalDescription()
	if local == nil {
		return true, false // step 3: no current local description yet
	}
	ld := c04Parse(local)
	rd := c04Parse(pc.CurrentRemoteDescription())
	// step 4: data channels created, none negotiated
	if p.dcs > 0 && !c04HasApp(local) {
		return true, false
	}
	for _, t := range pc.GetTransceivers() { // step 5
		if t.Mid() == "" {
			return true, false // 5.2 not associated with an m= section
		}
		sec := c04Section(ld, t.Mid())
		if sec == nil {
			return true, false
		}
		dir := int(t.Direction())
		if dir == 1 || dir == 2 { // 5.3.1 sending: the msid must be the one announced
			sn := t.Sender()
			if sn == nil {
				return true, false
			}
			if sn.Track() == nil {
				continue // replaceTrack(null) needs no negotiation
			}
			v, ok := sec.Attribute("msid")
			if !ok || v != sn.Track().StreamID()+" "+sn.Track().ID() {
				return true, false
			}
		}
		switch local.Type {
		case webrtc.SDPTypeOffer: // 5.3.2 neither description matches the direction
			rsec := c04Section(rd, t.Mid())
			if rsec == nil {
				return true, false
			}
			rev := dir
			if dir == 2 {
				rev = 3
			} else if dir == 3 {
				rev = 2
			}
			if nDirOf(sec) != dir && nDirOf(rsec) != rev {
				return true, false
			}
		case webrtc.SDPTypeAnswer: // 5.3.3
			direct := nDirOf(sec) != dir
			withOffer := direct
			if rsec := c04Section(rd, t.Mid()); rsec != nil && nDirOf(rsec) != 0 {
				withOffer = nDirOf(sec) != c04Intersect(dir, nDirOf(rsec))
			}
			if direct != withOffer {
				// c04_answer_clause_readings_differ_iff: pion's plain comparison and W3C's
				// clause differ. After a local answer that was NOT a legal response to
				// the offer (C08's open findings) no prediction is made; after a legal
				// answer W3C's clause decides.
				rsec := c04Section(rd, t.Mid())
				a, o := nDirOf(sec), nDirOf(rsec)
				if c04Intersect(a, o) != a {
					return false, true
				}
			}
			if withOffer {
				return true, false
			}
		}
	}
	return false, false
}

func c04Exec(c nCase) (V, string, Verdict) {
	w := nNewWorld(c)
	defer w.close()
	w.settle = func(pc *webrtc.PeerConnection) { pc.VerifOpsQuiesce() }
	var st [2]*c04Peer
	for i := 0; i < 2; i++ {
		i := i
		st[i] = &c04Peer{}
		pc := w.peers[i].pc
		pc.OnNegotiationNeeded(func() {
			f := c04Fire{state: int(pc.SignalingState()), closed: pc.VerifIsClosed()}
			st[i].mu.Lock()
			st[i].fires = append(st[i].fires, f)
			st[i].mu.Unlock()
		})
	}
	var fail *Verdict
	bad := func(sig, what string) {
		if fail == nil {
			v := Fail(sig, what)
			fail = &v
		}
	}
	exchanges := 0
	// state needed by the oracle that must be read before the call
	type pre struct {
		state    int
		closed   bool
		dcs      int
		localApp bool
	}
	var before pre
	snapshot := func(p int) pre {
		pc := w.peers[p].pc
		return pre{state: int(pc.SignalingState()), closed: pc.VerifIsClosed(), dcs: w.peers[p].dcs,
			localApp: c04HasApp(pc.CurrentLocalDescription())}
	}
	w.afterCall = func(w *nWorld, p int, op nOp, status string) {
		pc := w.peers[p].pc
		s := st[p]
		s.mu.Lock()
		fresh := append([]c04Fire(nil), s.fires[s.seen:]...)
		s.seen = len(s.fires)
		s.mu.Unlock()
		o := st[1-p]
		o.mu.Lock()
		if len(o.fires) != o.seen {
			bad("firing-on-the-peer-that-made-no-call", fmt.Sprintf("peer %d fired during a call on peer %d", 1-p, p))
			o.seen = len(o.fires)
		}
		o.mu.Unlock()
		after := int(pc.SignalingState())
		flag := pc.VerifNegotiationNeededFlag()
		fv := VL{}
		for _, f := range fresh {
			fv = append(fv, VL{VZ(f.state), VB(f.closed)})
		}
		s.obs = append(s.obs, VL{VS(status), fv, VB(flag), VZ(after)})
		s.total += len(fresh)

		// ---- direct oracle ----
		closedNow := pc.VerifIsClosed()
		// sentence 1: never while not stable or closed
		for _, f := range fresh {
			if f.closed {
				bad("fired-while-closed", fmt.Sprintf("peer %d call %s", p, op.K))
			} else if f.state != 1 {
				bad("fired-while-not-stable", fmt.Sprintf("peer %d call %s in state %d", p, op.K, f.state))
			}
		}
		toStable := before.state != 1 && after == 1
		if toStable {
			exchanges++
			s.outstanding = false // an exchange completed
		}
		// the calls that run "update the negotiation-needed flag"
		change := false
		if status == "ok" {
			switch op.K {
			case nAddTrack, nAddTcvKind, nAddTcvTrack, nDataChannel:
				change = true
			}
		}
		update := toStable || change || (status == "ok" && op.K == nRemoveTrack)
		if update && after == 1 && !closedNow {
			needed, ambiguous := c04W3CNeeded(w.peers[p])
			switch {
			case ambiguous:
				s.ambiguous++
				s.outstanding = flag // no prediction; follow the implementation
			case !needed:
				// sentence 2, negative half / "once per NEEDED negotiation"
				s.outstanding = false
				if len(fresh) > 0 {
					bad("firing-without-need", fmt.Sprintf("peer %d call %s: the W3C check is false", p, op.K))
				}
			case s.outstanding:
				// sentence 3: the need has been there since the last firing
				if len(fresh) > 0 {
					bad("second-firing-while-need-outstanding", fmt.Sprintf("peer %d call %s", p, op.K))
				}
			default:
				// sentence 2: a change that requires renegotiation, stable: fires once
				switch {
				case len(fresh) == 0 && toStable:
					bad("no-firing-on-reaching-stable-with-need", fmt.Sprintf("peer %d call %s", p, op.K))
				case len(fresh) == 0:
					bad("no-firing-after-change-requiring-renegotiation", fmt.Sprintf("peer %d call %s in stable state", p, op.K))
				case len(fresh) > 1:
					bad("several-firings-for-one-change", fmt.Sprintf("peer %d call %s: %d", p, op.K, len(fresh)))
				}
				s.outstanding = true
			}
		} else if len(fresh) > 0 && after == 1 && !closedNow {
			bad("firing-without-update-step", fmt.Sprintf("peer %d call %s", p, op.K))
		}
	}
	for _, op := range c.Ops {
		before = snapshot(op.P)
		w.exec(op)
	}
	total := st[0].total + st[1].total
	amb := ""
	if st[0].ambiguous+st[1].ambiguous > 0 {
		amb = "/answer-direction-ambiguous"
	}
	v := Pass(fmt.Sprintf("firings%d/exchanges%d%s", min(total, 6)/2*2, min(exchanges, 4)/2*2, amb), total > 0)
	if fail != nil {
		v = *fail
	}
	return nDigest(VL{st[0].obs, st[1].obs}), w.coqCase(), v
}

var c04Cache = newNCache()

func c04Gen(r *Rand, i int) nCase {
	c := nGenCase(r, false)
	// a remote peer that answers with other directions than pion would
	for k := range c.Ops {
		if c.Ops[k].K == nDeliverA && r.Chance(1, 8) {
			c.Ops[k].Munge = r.Range(1, 4)
		}
	}
	return c
}

func init() {
	corpus := func() []nCase {
		xa := nExchange(0)
		munged := func(dir int) []nOp {
			e := append([]nOp{}, xa...)
			e[5].Munge = dir
			return e
		}
		return []nCase{
			// the design probe: one firing per change on a pair
			{Engine: [2]int{1, 1}, Ops: append(append(append(append([]nOp{
				{P: 0, K: nAddTrack, Kind: 2, ID: "ta", Stream: "s1"},
				{P: 0, K: nDataChannel}},
				xa...),
				nOp{P: 0, K: nAddTcvKind, Kind: 1, Dir: 3}),
				xa...),
				nOp{P: 0, K: nRemoveTrack, TI: 0}, nOp{P: 1, K: nAddTrack, Kind: 1, ID: "tb", Stream: "s2"})},
			// c04_literal_reading_counterexample_withdrawn_need (passes under the W3C reading): the remote answers inactive; RemoveTrack
			// fires, AddTrack of the same track withdraws the need, RemoveTrack fires again
			{Ops: append(append([]nOp{{P: 0, K: nAddTrack, Kind: 2, ID: "ta", Stream: "s1"}}, munged(4)...),
				nOp{P: 0, K: nRemoveTrack, TI: 0},
				nOp{P: 0, K: nAddTrack, Kind: 2, ID: "ta", Stream: "s1"},
				nOp{P: 0, K: nRemoveTrack, TI: 0})},
			// c04_literal_reading_counterexample_already_advertised (passes): the remote answers sendonly;
			// RemoveTrack then AddTrack of the same track: no firing at all
			{Ops: append(append([]nOp{{P: 0, K: nAddTrack, Kind: 2, ID: "ta", Stream: "s1"}}, munged(2)...),
				nOp{P: 0, K: nRemoveTrack, TI: 0},
				nOp{P: 0, K: nAddTrack, Kind: 2, ID: "ta", Stream: "s1"})},
			// a change in the middle of an exchange fires when stable is reached
			{Ops: []nOp{{P: 0, K: nAddTrack, Kind: 1, ID: "ta", Stream: "s1"}, xa[0], xa[1],
				{P: 0, K: nAddTcvKind, Kind: 2, Dir: 1}, xa[2], xa[3], xa[4], xa[5], {P: 0, K: nClose},
				{P: 0, K: nAddTrack, Kind: 1, ID: "tb", Stream: "s1"}}},
		}
	}
	Register(Spec[nCase]{
		ID: "C04", Suite: "hist", CoqImports: []string{"Model.OfferShape", "Check.C12", "Check.C04"},
		CoqType: "list (bool * list op)", CoqRun: nCoqRun("Check.C04.run", "Check.C04.run_d"),
		Quick: 300, Thorough: 5000, Parallel: 8, Timeout: 60 * time.Second,
		Corpus: corpus,
		Gen:    c04Gen,
		Run: func(c nCase) (V, Verdict) {
			obs, coq, v := c04Exec(c)
			c04Cache.put(c, coq)
			return obs, v
		},
		Coq:    func(c nCase) string { return c04Cache.take(c) },
		Shrink: nShrink,
	})
}
