//go:build verif_c26

package main

import (
	"bytes"
	"encoding/binary"
	"encoding/hex"
	"fmt"

	"github.com/pion/webrtc/v4"
)

// C26: RTX unwrap (rtpreceiver.go:maybeStartRepairStreamReader) observed through
// TrackRemote.Read. One case = one receive buffer handed to the repair reader.

type c26In struct {
	PT   int    `json:"pt"`   // primary payload type
	SSRC uint32 `json:"ssrc"` // primary SSRC
	Buf  string `json:"buf"`  // whole receive buffer, hex (packet then stale bytes)
	N    int    `json:"n"`    // byte count the repair interceptor reports
}

// ---- packet construction (harness side; deliberately not pion/rtp) ----

type c26Pkt struct {
	Ver, CC     int
	Pad, Ext, M bool
	PT          int
	Seq         uint16
	TS, SSRC    uint32
	CSRC        []byte // 4*CC bytes
	ExtProfile  uint16
	ExtData     []byte // whole words
	Payload     []byte
	PadBytes    []byte // last byte = len when Pad
}

func (p c26Pkt) bytes() []byte {
	b0 := byte(p.Ver<<6 | p.CC)
	if p.Pad {
		b0 |= 0x20
	}
	if p.Ext {
		b0 |= 0x10
	}
	b1 := byte(p.PT & 0x7f)
	if p.M {
		b1 |= 0x80
	}
	out := []byte{b0, b1, 0, 0, 0, 0, 0, 0, 0, 0, 0, 0}
	binary.BigEndian.PutUint16(out[2:], p.Seq)
	binary.BigEndian.PutUint32(out[4:], p.TS)
	binary.BigEndian.PutUint32(out[8:], p.SSRC)
	out = append(out, p.CSRC...)
	if p.Ext {
		var e [4]byte
		binary.BigEndian.PutUint16(e[0:], p.ExtProfile)
		binary.BigEndian.PutUint16(e[2:], uint16(len(p.ExtData)/4))
		out = append(out, e[:]...)
		out = append(out, p.ExtData...)
	}
	out = append(out, p.Payload...)
	out = append(out, p.PadBytes...)
	return out
}

// c26Parse is the direct oracle's own reading of RFC 3550 section 5.1.
func c26Parse(b []byte) (p c26Pkt, ok bool) {
	if len(b) < 12 {
		return p, false
	}
	p.Ver = int(b[0] >> 6)
	p.Pad = b[0]&0x20 != 0
	p.Ext = b[0]&0x10 != 0
	p.CC = int(b[0] & 0x0f)
	p.M = b[1]&0x80 != 0
	p.PT = int(b[1] & 0x7f)
	p.Seq = binary.BigEndian.Uint16(b[2:])
	p.TS = binary.BigEndian.Uint32(b[4:])
	p.SSRC = binary.BigEndian.Uint32(b[8:])
	n := 12 + 4*p.CC
	if len(b) < n {
		return p, false
	}
	p.CSRC = b[12:n]
	if p.Ext {
		if len(b) < n+4 {
			return p, false
		}
		p.ExtProfile = binary.BigEndian.Uint16(b[n:])
		words := int(binary.BigEndian.Uint16(b[n+2:]))
		n += 4
		if len(b) < n+4*words {
			return p, false
		}
		p.ExtData = b[n : n+4*words]
		n += 4 * words
	}
	end := len(b)
	if p.Pad {
		if end <= n {
			return p, false
		}
		k := int(b[end-1])
		if k == 0 || n+k > end {
			return p, false
		}
		p.PadBytes = b[end-k:]
		end -= k
	}
	p.Payload = b[n:end]
	return p, true
}

var c26Sentinel = c26Pkt{Ver: 2, PT: 97, Seq: 0x7777, TS: 0x01020304, SSRC: 0x0a0b0c0d,
	Payload: []byte{0xbe, 0xef, 0xca, 0xfe, 0x42}}

func c26Run(in c26In) (V, Verdict) {
	buf, err := hex.DecodeString(in.Buf)
	if err != nil || len(buf) < 76 || in.N < 1 || in.N > len(buf) {
		panic("c26: case outside the harness domain")
	}
	const rtxSSRC = 0x52545821
	sent := make([]byte, len(buf))
	sentPkt := c26Sentinel.bytes()
	copy(sent, sentPkt)
	reads, err := webrtc.VerifRTXUnwrap(uint(len(buf)), uint8(in.PT), in.SSRC, rtxSSRC,
		[][]byte{buf, sent}, []int{in.N, len(sentPkt)})
	if err != nil {
		return VS("ERR"), Fail("rtx-wrapper-error", err.Error())
	}
	// the sentinel must always come out, last
	if len(reads) < 1 || len(reads) > 2 {
		return VS("COUNT"), Fail("rtx-read-count", fmt.Sprintf("%d packets read", len(reads)))
	}
	last := reads[len(reads)-1]
	wantSent := c26Sentinel
	wantSent.PT, wantSent.SSRC, wantSent.Seq, wantSent.Payload = in.PT, in.SSRC, 0xbeef, c26Sentinel.Payload[2:]
	if !bytes.Equal(last.Packet, wantSent.bytes()) {
		return VS("SENTINEL"), Fail("rtx-sentinel-differs", fmt.Sprintf("sentinel came out as %x", last.Packet))
	}
	var obs V = VL{VS("ok"), VL{}}
	delivered := len(reads) == 2
	var got webrtc.VerifRTXRead
	if delivered {
		got = reads[0]
		obs = VL{VS("ok"), VL{VL{VBy(got.Packet), VZ(got.RtxPT), VZ(got.RtxSeq), VZ(got.RtxSSRC)}}}
	}

	// ---- direct oracle: the property on the implementation's output ----
	return obs, c26Oracle(buf[:in.N], delivered, got, in.PT, in.SSRC)
}

// c26Oracle restates the property for one repair packet pkt, given whether
// TrackRemote.Read delivered something for it (got) and the primary stream's
// payload type and SSRC at that moment.
func c26Oracle(pkt []byte, delivered bool, got webrtc.VerifRTXRead, pt int, ssrc uint32) Verdict {
	p, ok := c26Parse(pkt)
	if !ok {
		return Pass(fmt.Sprintf("malformed/delivered=%v", delivered), false)
	}
	class := fmt.Sprintf("cc%s/x%v/p%v/pay%s", c26CCBucket(p.CC), p.Ext, p.Pad, c26PayBucket(len(p.Payload)))
	if len(p.Payload) < 2 {
		if delivered {
			return Fail("rtx-short-packet-delivered",
				fmt.Sprintf("payload of %d bytes cannot carry an OSN but %x was delivered", len(p.Payload), got.Packet))
		}
		return Pass(class, false)
	}
	if !delivered {
		return Fail("rtx-valid-packet-dropped", fmt.Sprintf("well-formed RTX packet %x was ignored", pkt))
	}
	q, ok := c26Parse(got.Packet)
	switch {
	case !ok:
		return Fail("rtx-output-unparseable", fmt.Sprintf("output %x is not an RTP packet", got.Packet))
	case q.Seq != binary.BigEndian.Uint16(p.Payload):
		return Fail("rtx-osn-not-restored", fmt.Sprintf("sequence number %d, OSN %d", q.Seq, binary.BigEndian.Uint16(p.Payload)))
	case q.PT != pt:
		return Fail("rtx-pt-not-primary", fmt.Sprintf("payload type %d, primary %d", q.PT, pt))
	case q.SSRC != ssrc:
		return Fail("rtx-ssrc-not-primary", fmt.Sprintf("ssrc %d, primary %d", q.SSRC, ssrc))
	case !bytes.Equal(q.Payload, p.Payload[2:]):
		return Fail("rtx-payload-differs", fmt.Sprintf("payload %x, want %x", q.Payload, p.Payload[2:]))
	case q.Ver != p.Ver || q.M != p.M || q.TS != p.TS || q.CC != p.CC || !bytes.Equal(q.CSRC, p.CSRC) ||
		q.Ext != p.Ext || q.ExtProfile != p.ExtProfile || !bytes.Equal(q.ExtData, p.ExtData):
		return Fail("rtx-header-field-changed", fmt.Sprintf("header %+v became %+v", p, q))
	case q.Pad != p.Pad || !bytes.Equal(q.PadBytes, p.PadBytes):
		return Fail("rtx-padding-changed", fmt.Sprintf("padding %v %x became %v %x", p.Pad, p.PadBytes, q.Pad, q.PadBytes))
	case !got.HasAttr || int(got.RtxPT) != p.PT || got.RtxSeq != p.Seq || got.RtxSSRC != p.SSRC:
		return Fail("rtx-attributes-wrong", fmt.Sprintf("attributes (%v %d %d %d), RTX packet had (%d %d %d)",
			got.HasAttr, got.RtxPT, got.RtxSeq, got.RtxSSRC, p.PT, p.Seq, p.SSRC))
	}
	return Pass(class, true)
}

func c26CCBucket(cc int) string {
	switch {
	case cc == 0:
		return "0"
	case cc == 15:
		return "15"
	}
	return "1-14"
}

func c26PayBucket(n int) string {
	switch {
	case n < 2:
		return "0-1"
	case n == 2:
		return "2"
	case n <= 400:
		return "s"
	}
	return "L"
}

func c26Coq(in c26In) string {
	buf, _ := hex.DecodeString(in.Buf)
	return fmt.Sprintf("(%d, %d, %s, %d)", in.PT, in.SSRC, CoqBytes(buf), in.N)
}

// c26Case wraps a packet into a case: stale tail so that the buffer is >= 76.
func c26Case(r *Rand, pkt []byte, pt int, ssrc uint32, tailExtra int) c26In {
	n := len(pkt)
	total := n + tailExtra
	if total < 76 {
		total = 76
	}
	buf := make([]byte, total)
	copy(buf, pkt)
	if r != nil {
		copy(buf[n:], r.Bytes(total-n))
	} else {
		for k := n; k < total; k++ {
			buf[k] = 0xa5
		}
	}
	return c26In{PT: pt, SSRC: ssrc, Buf: hex.EncodeToString(buf), N: n}
}

func c26PadBytes(r *Rand, k int) []byte {
	if k == 0 {
		return nil
	}
	var b []byte
	if r != nil {
		b = r.Bytes(k)
	} else {
		b = make([]byte, k)
	}
	b[k-1] = byte(k)
	return b
}

func c26GenValid(r *Rand, i int) c26In {
	p := c26Pkt{Ver: 2, CC: i % 16, M: r.Bool(), PT: r.Range(0, 127), Seq: uint16(r.U64()), TS: uint32(r.U64()),
		SSRC: uint32(r.U64())}
	if r.Chance(1, 20) {
		p.Ver = r.Range(0, 3)
	}
	p.CSRC = r.Bytes(4 * p.CC)
	switch r.Intn(6) {
	case 0, 1:
	case 2:
		p.Ext, p.ExtProfile = true, 0xbede
	case 3:
		p.Ext, p.ExtProfile, p.ExtData = true, 0xbede, r.Bytes(4*r.Range(1, 4))
	case 4:
		p.Ext, p.ExtProfile, p.ExtData = true, 0x1000, r.Bytes(4*r.Range(1, 20))
	default:
		p.Ext, p.ExtProfile, p.ExtData = true, uint16(r.U64()), r.Bytes(4*r.Range(0, 12))
		if r.Chance(1, 8) {
			p.ExtData = r.Bytes(4 * r.Range(13, 63))
		}
	}
	switch r.Intn(9) {
	case 0, 1, 2, 3:
	case 4, 5:
		p.Pad, p.PadBytes = true, c26PadBytes(r, 1)
	case 6, 7:
		p.Pad, p.PadBytes = true, c26PadBytes(r, r.Range(2, 16))
	default:
		p.Pad, p.PadBytes = true, c26PadBytes(r, Pick(r, []int{17, 32, 64, 200, 254, 255}))
	}
	hdr := len(p.bytes())
	room := 1500 - hdr
	var pay int
	switch k := r.Intn(48); {
	case k == 0:
		pay = room // exactly MTU
	case k == 1:
		pay = room - r.Range(0, 3)
	case k == 2:
		pay = r.Range(2, room)
	case k < 9:
		pay = r.Range(0, 3)
	case k < 30:
		pay = r.Range(2, 40)
	default:
		pay = r.Range(2, 160)
	}
	if pay > room {
		pay = room
	}
	p.Payload = r.Bytes(pay)
	extra := 0
	if r.Chance(1, 2) {
		extra = r.Range(0, min(16, 1500-len(p.bytes())))
	}
	return c26Case(r, p.bytes(), r.Range(0, 127), uint32(r.U64()), extra)
}

// malformed / hostile stream: mutations of valid packets and raw bytes
func c26GenMalformed(r *Rand, i int) c26In {
	base := c26GenValid(r, r.Intn(16))
	buf, _ := hex.DecodeString(base.Buf)
	n := base.N
	if n > 200 && r.Chance(7, 8) { // keep most of these small
		n = r.Range(12, 200)
		buf = buf[:max(n, 76)]
	}
	switch i % 8 {
	case 0: // truncate at a random offset (the tail keeps the rest as stale bytes)
		n = r.Range(1, n)
	case 1: // hostile extension length
		cc := int(buf[0] & 0x0f)
		buf[0] |= 0x10
		off := 12 + 4*cc + 2
		v := Pick(r, []uint16{0xffff, 0x3fff, 0x4000, 0x3ffc, 0x3ffd, 0x7fff, 0x8000, uint16(r.U64()), uint16(r.Range(0, 400))})
		binary.BigEndian.PutUint16(buf[off:], v)
		if n < off+2 && r.Bool() {
			n = min(off+2, len(buf))
		}
	case 2: // hostile padding count
		buf[0] |= 0x20
		buf[n-1] = Pick(r, []byte{0, 1, 2, 255, byte(n), byte(n - 12), byte(r.U64())})
	case 3: // random flags byte
		buf[0] = byte(r.U64())
	case 4: // raw random bytes
		n = r.Range(1, 120)
		buf = r.Bytes(max(n, 76) + r.Intn(8))
	case 5: // header only / header plus 0..3 bytes
		cc := int(buf[0] & 0x0f)
		buf[0] &^= 0x30
		n = min(12+4*cc+r.Range(0, 3), len(buf))
	case 6: // truncate inside the header, flags kept
		n = r.Range(1, min(n, 12+4*int(buf[0]&0x0f)+8))
	default: // flip a few bytes anywhere in the first 80
		for k := 0; k < 3; k++ {
			buf[r.Intn(min(len(buf), 80))] ^= byte(1 << r.Intn(8))
		}
	}
	if n < 1 {
		n = 1
	}
	if n > len(buf) {
		n = len(buf)
	}
	return c26In{PT: base.PT, SSRC: base.SSRC, Buf: hex.EncodeToString(buf), N: n}
}

func c26Layouts() []c26In {
	var out []c26In
	exts := []struct {
		on      bool
		profile uint16
		words   int
	}{{false, 0, 0}, {true, 0xbede, 0}, {true, 0xbede, 1}, {true, 0x1000, 5}}
	pads := []int{0, 1, 4}
	pays := []int{0, 1, 2, 3, 10}
	k := 0
	for cc := 0; cc <= 15; cc++ {
		for _, e := range exts {
			for _, pd := range pads {
				for _, py := range pays {
					k++
					p := c26Pkt{Ver: 2, CC: cc, M: k%2 == 0, PT: 96 + k%30, Seq: uint16(1000 + k), TS: uint32(90000 * k),
						SSRC: 0x11220000 + uint32(k), Ext: e.on, ExtProfile: e.profile, Pad: pd > 0, PadBytes: c26PadBytes(nil, pd)}
					p.CSRC = make([]byte, 4*cc)
					for j := range p.CSRC {
						p.CSRC[j] = byte(0x40 + j)
					}
					p.ExtData = make([]byte, 4*e.words)
					for j := range p.ExtData {
						p.ExtData[j] = byte(0xe0 + j)
					}
					p.Payload = make([]byte, py)
					for j := range p.Payload {
						p.Payload[j] = byte(0x10*(j+1) + j)
					}
					out = append(out, c26Case(nil, p.bytes(), 100+k%20, 0xcafe0000+uint32(k), 3))
				}
			}
		}
	}
	return out
}

func c26Shrink(in c26In) []c26In {
	buf, _ := hex.DecodeString(in.Buf)
	var out []c26In
	// drop stale tail, shorten the packet from the end, zero fields
	if len(buf) > 76 && len(buf) > in.N {
		out = append(out, c26In{in.PT, in.SSRC, hex.EncodeToString(buf[:max(76, in.N)]), in.N})
	}
	if in.N > 14 {
		nb := append(append([]byte{}, buf[:in.N-1]...), buf[in.N:]...)
		if len(nb) < 76 {
			nb = append(nb, make([]byte, 76-len(nb))...)
		}
		out = append(out, c26In{in.PT, in.SSRC, hex.EncodeToString(nb), in.N - 1})
	}
	if in.SSRC != 1 {
		out = append(out, c26In{in.PT, 1, in.Buf, in.N})
	}
	return out
}

func init() {
	corpus := func() []c26In {
		mk := func(p c26Pkt, pt int, ssrc uint32) c26In { return c26Case(nil, p.bytes(), pt, ssrc, 0) }
		return []c26In{
			// plain RTX packet, no csrc/extension/padding
			mk(c26Pkt{Ver: 2, PT: 97, Seq: 5, TS: 1, SSRC: 2222, Payload: []byte{0x12, 0x34, 9, 8, 7}}, 96, 1111),
			// cc=15 + one-byte extension + padding, marker set
			mk(c26Pkt{Ver: 2, CC: 15, CSRC: bytes.Repeat([]byte{1, 2, 3, 4}, 15), Ext: true, ExtProfile: 0xbede,
				ExtData: []byte{0x10, 0xaa, 0, 0}, Pad: true, PadBytes: []byte{0, 0, 0, 4}, M: true, PT: 99, Seq: 65535,
				TS: 0xffffffff, SSRC: 0xffffffff, Payload: []byte{0xff, 0xff, 1}}, 127, 0xfffffffe),
			// exactly the OSN and nothing else (empty original payload)
			mk(c26Pkt{Ver: 2, PT: 97, Seq: 5, TS: 1, SSRC: 2222, Payload: []byte{0, 1}}, 96, 1111),
			// one payload byte: dropped; zero payload bytes with padding: dropped
			mk(c26Pkt{Ver: 2, PT: 97, Seq: 5, TS: 1, SSRC: 2222, Payload: []byte{7}}, 96, 1111),
			mk(c26Pkt{Ver: 2, PT: 97, Seq: 5, TS: 1, SSRC: 2222, Pad: true, PadBytes: []byte{0, 0, 3}}, 96, 1111),
			// extension length field 0x3ffc: uint16 headerLength wraps to 0 (malformed, must not crash)
			{PT: 96, SSRC: 1111, N: 40, Buf: "90610005000000010000115dbede3ffc" + hex.EncodeToString(make([]byte, 60))},
		}
	}
	Register(Spec[c26In]{
		ID: "C26", Suite: "layout", CoqImports: []string{"Common.BytesUtil", "Check.C26"},
		CoqType: "Z * Z * list byte * Z", CoqRun: "Check.C26.run",
		Corpus: corpus, Exhaustive: c26Layouts, Run: c26Run, Coq: c26Coq, Parallel: 8,
	})
	Register(Spec[c26In]{
		ID: "C26", Suite: "packets", CoqImports: []string{"Common.BytesUtil", "Check.C26"},
		CoqType: "Z * Z * list byte * Z", CoqRun: "Check.C26.run",
		Quick: 700, Thorough: 6000, Parallel: 8,
		Gen: c26GenValid, Run: c26Run, Coq: c26Coq, Shrink: c26Shrink,
	})
	Register(Spec[c26In]{
		ID: "C26", Suite: "malformed", CoqImports: []string{"Common.BytesUtil", "Check.C26"},
		CoqType: "Z * Z * list byte * Z", CoqRun: "Check.C26.run",
		Quick: 400, Thorough: 3000, Parallel: 8,
		Gen: c26GenMalformed, Run: c26Run, Coq: c26Coq, Shrink: c26Shrink,
	})
}
