//go:build verif_c11

package main

// C11: updateSDPOrigin (sdp.go): fixed session id, strictly increasing version.
//   seq : sequential call lists on one saved origin
//   conc: hook-forced schedules of 2..8 concurrent calls (all schedules for 2-3 threads)
//   pc  : CreateOffer / CreateAnswer from several goroutines on real PeerConnections
//   recompute: histories that force CreateOffer through its recompute loop (c11_recompute.go)

import (
	"fmt"
	"runtime"
	"sort"
	"strconv"
	"strings"
	"sync"
	"sync/atomic"
	"time"

	"github.com/pion/webrtc/v4"
)

func vU64(x uint64) V { return VL{VZ(int64(x >> 32)), VZ(int64(x & 0xffffffff))} }

// ---------- seq ----------

type c11Seq struct {
	Calls [][2]uint64 `json:"calls"` // fresh (session id, session version) of each call
}

// premises of c11_seq: first description non-zero, no wrap
func c11Premise(calls [][2]uint64) bool {
	if len(calls) == 0 {
		return true
	}
	return calls[0][0] != 0 && calls[0][1] != 0 && calls[0][1] <= ^uint64(0)-uint64(len(calls))
}

// a call that does not return within the limit is reported once; later cases
// of the run then fail at once instead of piling up spinning goroutines
var c11Hung atomic.Bool

func c11Update(o *webrtc.VerifOrigin, sid, ver uint64) (uint64, uint64, bool) {
	type res struct{ a, b uint64 }
	ch := make(chan res, 1)
	go func() {
		a, b := o.Update(sid, ver)
		ch <- res{a, b}
	}()
	select {
	case r := <-ch:
		return r.a, r.b, true
	case <-time.After(5 * time.Second):
		c11Hung.Store(true)
		return 0, 0, false
	}
}

func c11SeqRun(in c11Seq) (V, Verdict) {
	if c11Hung.Load() {
		return VS("hung"), Fail("update-never-returns", "an earlier updateSDPOrigin call of this run never returned")
	}
	var o webrtc.VerifOrigin
	out := VL{}
	type res struct{ sid, ver uint64 }
	var got []res
	hung := false
	for _, c := range in.Calls {
		_, savedVer := o.State()
		savedSid, _ := o.State()
		if savedVer != 0 && savedSid == 0 {
			// the call would wait for an id nobody will store; do not make it
			out = append(out, VL{})
			hung = true
			break
		}
		s, v, ok := c11Update(&o, c[0], c[1])
		if !ok {
			return out, Fail("update-never-returns", fmt.Sprintf("call %d (%d, %d) did not return although the saved id is %d", len(got), c[0], c[1], savedSid))
		}
		got = append(got, res{s, v})
		out = append(out, VL{vU64(s), vU64(v)})
	}
	if !c11Premise(in.Calls) {
		return out, Pass("premise-violated", len(in.Calls) >= 2)
	}
	if hung {
		return out, Fail("call-waits-forever-with-valid-first-description", "saved id 0 after a first description with non-zero id")
	}
	for k, r := range got {
		if r.sid != in.Calls[0][0] {
			return out, Fail("session-id-changed", fmt.Sprintf("call %d carries id %d, first was %d", k, r.sid, in.Calls[0][0]))
		}
		if k > 0 && r.ver <= got[k-1].ver {
			return out, Fail("session-version-not-increasing", fmt.Sprintf("call %d version %d after %d", k, r.ver, got[k-1].ver))
		}
	}
	if len(got) > 0 && (got[0].sid != in.Calls[0][0] || got[0].ver != in.Calls[0][1]) {
		return out, Fail("first-description-altered", "the first description does not carry its own origin")
	}
	return out, Pass(fmt.Sprintf("valid/len%d", min(len(in.Calls)/4*4, 16)), len(in.Calls) >= 2)
}

func c11Pairs(calls [][2]uint64) string {
	parts := make([]string, len(calls))
	for i, c := range calls {
		parts[i] = fmt.Sprintf("(%d, %d)", c[0], c[1])
	}
	return CoqList(parts)
}

// ---------- conc ----------

type c11Conc struct {
	Calls [][2]uint64 `json:"calls"` // one call per thread
	Sched []int       `json:"sched"`
	Drain bool        `json:"drain"`
	Spins int         `json:"spins"` // how many fruitless loop iterations a thread may be given
}

type c11Trace struct {
	executed []int
	cands    [][]int
	steps    VL
	outs     [][2]uint64
	done     []bool
	lin      []int // threads in the order of their linearisation step (CAS won / add)
	verdict  Verdict
}

func c11Execute(in c11Conc) *c11Trace {
	n := len(in.Calls)
	tr := &c11Trace{outs: make([][2]uint64, n), done: make([]bool, n)}
	liveOuts, liveDone := make([][2]uint64, n), make([]bool, n)
	var o webrtc.VerifOrigin
	s := NewSched().Only("sdp.origin.")
	s.Grace = 0
	defer s.Close()
	defer func() {
		s.freeAll()
		// with a zero id stored a waiting thread would spin forever: store one
		waitClientsGoneOrSpinning(s, n, &o)
	}()
	var mu sync.Mutex
	for i, c := range in.Calls {
		i, c := i, c
		s.Add(fmt.Sprintf("t%d", i), func() {
			a, b := o.Update(c[0], c[1])
			mu.Lock()
			liveOuts[i] = [2]uint64{a, b}
			liveDone[i] = true
			mu.Unlock()
		})
	}
	stutters := make([]int, n)
	code := func(st string) int {
		switch st {
		case "idle":
			return 0
		case "parked:sdp.origin.won":
			return 1
		case "parked:sdp.origin.spin":
			return 2
		case "parked:sdp.origin.add":
			return 3
		case "finished":
			return 4
		}
		return 7
	}
	candidates := func() []int {
		sid, _ := o.State()
		var c []int
		for i := 0; i < n; i++ {
			st := s.Status(i)
			if st == "idle" || st == "parked:sdp.origin.won" || st == "parked:sdp.origin.add" {
				c = append(c, i)
			} else if st == "parked:sdp.origin.spin" && (sid != 0 || stutters[i] < in.Spins) {
				c = append(c, i)
			}
		}
		return c
	}
	doStep := func(t int) {
		before := s.Status(t)
		sid0, _ := o.State()
		st := robustStep(s, t)
		res := 1
		if st == "disabled" {
			res = 0
		}
		if st == "blocked" {
			tr.verdict = Fail("thread-blocked", "updateSDPOrigin has no blocking operation, yet a thread is blocked")
		}
		if before == "parked:sdp.origin.spin" && st == "parked:sdp.origin.spin" {
			stutters[t]++
			if sid0 != 0 && tr.verdict.Sig == "" {
				tr.verdict = Fail("spins-although-id-stored", fmt.Sprintf("thread %d loaded id %d and kept waiting", t, sid0))
			}
		}
		if (before == "idle" && st == "parked:sdp.origin.won") || before == "parked:sdp.origin.add" {
			tr.lin = append(tr.lin, t)
		}
		pack := 0
		for i := n - 1; i >= 0; i-- {
			pack = pack*8 + code(s.Status(i))
		}
		sid, ver := o.State()
		tr.executed = append(tr.executed, t)
		tr.steps = append(tr.steps, VL{VZ(res), VZ(pack), vU64(sid), vU64(ver)})
	}
	for _, t := range in.Sched {
		if t < 0 || t >= n {
			continue
		}
		tr.cands = append(tr.cands, candidates())
		doStep(t)
	}
	if in.Drain {
		for guard := 0; guard < 100000; guard++ {
			c := candidates()
			if len(c) == 0 {
				break
			}
			tr.cands = append(tr.cands, c)
			doStep(c[0])
		}
	}
	// what had returned when the schedule ended (the clean-up below lets the rest finish)
	mu.Lock()
	copy(tr.outs, liveOuts)
	copy(tr.done, liveDone)
	mu.Unlock()
	// direct oracle
	if tr.verdict.Sig == "" {
		tr.verdict = c11ConcOracle(in, tr)
	}
	return tr
}

func c11ConcOracle(in c11Conc, tr *c11Trace) Verdict {
	n := len(in.Calls)
	valid := true
	for _, c := range in.Calls {
		if c[0] == 0 || c[1] == 0 || c[1] > ^uint64(0)-uint64(n) {
			valid = false
		}
	}
	switches := 0
	for k := 1; k < len(tr.executed); k++ {
		if tr.executed[k] != tr.executed[k-1] {
			switches++
		}
	}
	if !valid {
		return Pass("premise-violated", switches >= 2)
	}
	if len(tr.lin) > 0 {
		w := tr.lin[0]
		var prev uint64
		for k, t := range tr.lin {
			if !tr.done[t] {
				continue
			}
			if tr.outs[t][0] != in.Calls[w][0] {
				return Fail("session-id-not-the-winners", fmt.Sprintf("thread %d carries id %d, CAS winner %d had %d", t, tr.outs[t][0], w, in.Calls[w][0]))
			}
			if k > 0 && prev != 0 && tr.outs[t][1] <= prev {
				return Fail("versions-not-increasing-in-linearisation-order", fmt.Sprintf("thread %d got %d after %d", t, tr.outs[t][1], prev))
			}
			prev = tr.outs[t][1]
		}
	}
	seen := map[uint64]int{}
	alldone := true
	for t := 0; t < n; t++ {
		if !tr.done[t] {
			alldone = false
			continue
		}
		if u, dup := seen[tr.outs[t][1]]; dup {
			return Fail("duplicate-session-version", fmt.Sprintf("threads %d and %d both got version %d", u, t, tr.outs[t][1]))
		}
		seen[tr.outs[t][1]] = t
	}
	class := "partial"
	if alldone {
		class = "complete"
	}
	return Pass(fmt.Sprintf("%s/threads%d", class, n), switches >= 2)
}

// after a run: wait until every thread has returned; a thread waiting for an
// id that is 0 forever (premise-violating inputs) is released by storing one.
func waitClientsGoneOrSpinning(s *Sched, n int, o *webrtc.VerifOrigin) {
	for t := 0; t < n; t++ {
		if s.Status(t) == "idle" {
			continue
		}
		for k := 0; s.Status(t) == "running"; k++ {
			if k > 2000 {
				if sid, _ := o.State(); sid == 0 {
					o.ForceID(1)
				}
			}
			runtime.Gosched()
		}
	}
}

func (tr *c11Trace) obs() V {
	outs := make(VL, len(tr.outs))
	for i := range tr.outs {
		if tr.done[i] {
			outs[i] = VL{vU64(tr.outs[i][0]), vU64(tr.outs[i][1])}
		} else {
			outs[i] = VL{}
		}
	}
	return VL{tr.steps, outs, VInts(tr.lin)}
}

var c11Exec sync.Map

func c11Key(in c11Conc) string { return fmt.Sprintf("%v|%v|%v|%d", in.Calls, in.Sched, in.Drain, in.Spins) }

func c11ConcRun(in c11Conc) (V, Verdict) {
	tr := c11Execute(in)
	c11Exec.Store(c11Key(in), tr.executed)
	v := tr.verdict
	v.Key = fmt.Sprintf("%v|%v", in.Calls, tr.executed)
	return tr.obs(), v
}

func c11ConcCoq(in c11Conc) string {
	ex, ok := c11Exec.Load(c11Key(in))
	if !ok {
		return ""
	}
	ss := []string{}
	for _, t := range ex.([]int) {
		ss = append(ss, strconv.Itoa(t))
	}
	return fmt.Sprintf("(%s, %s)", c11Pairs(in.Calls), CoqList(ss))
}

func c11Enumerate(calls [][2]uint64, spins int) []c11Conc {
	var out []c11Conc
	for _, ex := range enumSchedules(func(prefix []int) ([]int, [][]int) {
		tr := c11Execute(c11Conc{Calls: calls, Sched: prefix, Drain: true, Spins: spins})
		return tr.executed, tr.cands
	}, 0) {
		out = append(out, c11Conc{Calls: calls, Sched: ex, Spins: spins})
	}
	return out
}

// ---------- pc ----------

type c11PC struct {
	Goroutines int  `json:"goroutines"`
	PerG       int  `json:"per_goroutine"`
	N          int  `json:"n"`
	Answerer   bool `json:"answerer"` // run on a PeerConnection in have-remote-offer, mixing CreateAnswer and CreateOffer
}

var c11PCCoq sync.Map

func c11Origin(sdp string) (uint64, uint64, bool) {
	for _, line := range strings.Split(sdp, "\n") {
		line = strings.TrimSpace(line)
		if strings.HasPrefix(line, "o=") {
			f := strings.Fields(line[2:])
			if len(f) < 3 {
				return 0, 0, false
			}
			a, e1 := strconv.ParseUint(f[1], 10, 64)
			b, e2 := strconv.ParseUint(f[2], 10, 64)
			return a, b, e1 == nil && e2 == nil
		}
	}
	return 0, 0, false
}

func c11PCRun(in c11PC) (V, Verdict) {
	signalOnly(true)
	api := newQuietAPI(nil)
	pc, err := api.NewPeerConnection(webrtc.Configuration{})
	if err != nil {
		panic(err)
	}
	defer pc.Close() //nolint
	if _, err = pc.CreateDataChannel("c11", nil); err != nil {
		panic(err)
	}
	if in.Answerer {
		other, err := api.NewPeerConnection(webrtc.Configuration{})
		if err != nil {
			panic(err)
		}
		defer other.Close() //nolint
		if _, err = other.CreateDataChannel("x", nil); err != nil {
			panic(err)
		}
		off, err := other.CreateOffer(nil)
		if err != nil {
			panic(err)
		}
		if err = pc.SetRemoteDescription(off); err != nil {
			panic(err)
		}
	}
	type rec struct{ sid, ver uint64 }
	per := make([][]rec, in.Goroutines)
	var wg sync.WaitGroup
	var emu sync.Mutex
	var firstErr error
	start := make(chan struct{})
	for g := 0; g < in.Goroutines; g++ {
		g := g
		wg.Add(1)
		go func() {
			defer wg.Done()
			<-start
			for k := 0; k < in.PerG; k++ {
				var d webrtc.SessionDescription
				var err error
				if in.Answerer && (g+k)%2 == 0 {
					d, err = pc.CreateAnswer(nil)
				} else {
					d, err = pc.CreateOffer(nil)
				}
				if err != nil {
					emu.Lock()
					if firstErr == nil {
						firstErr = err
					}
					emu.Unlock()
					return
				}
				a, b, ok := c11Origin(d.SDP)
				if !ok {
					emu.Lock()
					firstErr = fmt.Errorf("no o= line")
					emu.Unlock()
					return
				}
				per[g] = append(per[g], rec{a, b})
			}
		}()
	}
	close(start)
	wg.Wait()
	if firstErr != nil {
		return VS("error"), Fail("create-offer-or-answer-failed", firstErr.Error())
	}
	var all []rec
	verdict := Pass(fmt.Sprintf("g%d/answerer=%v", in.Goroutines, in.Answerer), in.Goroutines >= 2)
	for g := range per {
		for k, r := range per[g] {
			all = append(all, r)
			if k > 0 && r.ver <= per[g][k-1].ver && verdict.OK {
				verdict = Fail("session-version-not-increasing", fmt.Sprintf("goroutine %d: version %d after %d", g, r.ver, per[g][k-1].ver))
			}
		}
	}
	sort.Slice(all, func(i, j int) bool { return all[i].ver < all[j].ver })
	out := VL{}
	for k, r := range all {
		out = append(out, VL{vU64(r.sid), vU64(r.ver)})
		if r.sid != all[0].sid && verdict.OK {
			verdict = Fail("session-id-changed", fmt.Sprintf("ids %d and %d from one PeerConnection", all[0].sid, r.sid))
		}
		if k > 0 && r.ver == all[k-1].ver && verdict.OK {
			verdict = Fail("duplicate-session-version", fmt.Sprintf("version %d twice", r.ver))
		}
		if (r.sid == 0 || r.ver == 0) && verdict.OK {
			verdict = Fail("zero-origin", "a generated description carries a zero session id or version")
		}
	}
	if len(all) > 0 {
		c11PCCoq.Store(fmt.Sprintf("%+v", in), fmt.Sprintf("(%d, %d, %d)", all[0].sid, all[0].ver, len(all)))
	}
	verdict.Key = fmt.Sprintf("%+v/%d", in, len(all))
	return out, verdict
}

func init() {
	max := ^uint64(0)
	Register(Spec[c11Seq]{
		ID: "C11", Suite: "seq", CoqImports: []string{"Check.C11"},
		CoqType: "list (Z * Z)", CoqRun: "Check.C11.run_seq",
		Quick: 400, Thorough: 20000,
		Corpus: func() []c11Seq {
			return []c11Seq{
				{[][2]uint64{{7, 100}, {8, 200}, {9, 300}}},
				{[][2]uint64{{7, 0}, {8, 200}, {9, 300}}},           // version 0: outside the contract, id changes
				{[][2]uint64{{0, 100}, {8, 200}}},                   // id 0: outside the contract, next call would hang
				{[][2]uint64{{7, max}, {8, 5}, {9, 6}, {10, 7}}},    // wrap-around: outside the premise
				{[][2]uint64{{7, max - 3}, {8, 5}, {9, 6}, {1, 1}}}, // right below the wrap
				{[][2]uint64{{max, max - 1}, {1, 1}}},
				{[][2]uint64{{1 << 63, 1 << 63}, {1, 1}, {2, 2}}},
				{nil},
			}
		},
		Gen: func(r *Rand, i int) c11Seq {
			n := r.Range(1, 20)
			var in c11Seq
			val := func() uint64 {
				switch r.Intn(8) {
				case 0:
					return 0
				case 1:
					return max - uint64(r.Intn(4))
				case 2:
					return uint64(r.Intn(3))
				}
				return r.U64() >> uint(r.Intn(40))
			}
			for k := 0; k < n; k++ {
				if k == 0 && r.Chance(4, 5) { // mostly valid first descriptions
					in.Calls = append(in.Calls, [2]uint64{r.U64()>>1 | 1, uint64(1700000000 + r.Intn(1000))})
					continue
				}
				in.Calls = append(in.Calls, [2]uint64{val(), val()})
			}
			return in
		},
		Run: c11SeqRun,
		Coq: func(in c11Seq) string { return c11Pairs(in.Calls) },
		Shrink: func(in c11Seq) []c11Seq {
			var out []c11Seq
			for i := range in.Calls {
				out = append(out, c11Seq{append(append([][2]uint64{}, in.Calls[:i]...), in.Calls[i+1:]...)})
			}
			return out
		},
	})
	Register(Spec[c11Conc]{
		ID: "C11", Suite: "conc", CoqImports: []string{"Check.C11"},
		CoqType: "list (Z * Z) * list Z", CoqRun: "Check.C11.run_conc",
		Quick: 200, Thorough: 8000,
		Corpus: func() []c11Conc {
			return []c11Conc{
				{Calls: [][2]uint64{{7, 100}, {8, 200}, {9, 300}}, Sched: []int{1, 0, 2, 0, 2, 1, 2, 0, 0, 2}, Drain: true, Spins: 2},
				{Calls: [][2]uint64{{7, max}, {8, 5}, {9, 6}}, Drain: true, Spins: 1},                 // wrap
				{Calls: [][2]uint64{{7, 0}, {8, 200}}, Sched: []int{0, 1, 1, 0}, Drain: true, Spins: 1}, // two CAS winners
				{Calls: [][2]uint64{{0, 100}, {8, 200}}, Sched: []int{0, 0, 1, 1, 1}, Spins: 2},       // id 0: endless wait
			}
		},
		Exhaustive: func() []c11Conc {
			out := c11Enumerate([][2]uint64{{7, 100}, {8, 200}}, 2)
			out = append(out, c11Enumerate([][2]uint64{{7, 100}, {8, 200}, {9, 300}}, 1)...)
			if argTier() == "thorough" {
				out = append(out, c11Enumerate([][2]uint64{{7, 100}, {8, 200}, {9, 300}}, 2)...)
				out = append(out, c11Enumerate([][2]uint64{{7, max - 2}, {8, max - 2}}, 2)...)
			}
			return out
		},
		Gen: func(r *Rand, i int) c11Conc {
			n := r.Range(2, 8)
			in := c11Conc{Drain: true, Spins: 3}
			for k := 0; k < n; k++ {
				in.Calls = append(in.Calls, [2]uint64{uint64(10 + k), uint64(1000 * (k + 1))})
			}
			if r.Chance(1, 10) {
				in.Calls[r.Intn(n)][1] = max - uint64(r.Intn(n))
			}
			m := r.Range(0, 6*n)
			for k := 0; k < m; k++ {
				in.Sched = append(in.Sched, r.Intn(n))
			}
			return in
		},
		Run: c11ConcRun, Coq: c11ConcCoq,
		Shrink: func(in c11Conc) []c11Conc {
			var out []c11Conc
			for i := range in.Sched {
				c := in
				c.Sched = append(append([]int{}, in.Sched[:i]...), in.Sched[i+1:]...)
				c.Drain = true
				out = append(out, c)
			}
			return out
		},
	})
	Register(Spec[c11PC]{
		ID: "C11", Suite: "pc", CoqImports: []string{"Check.C11"},
		CoqType: "Z * Z * Z", CoqRun: "Check.C11.run_pc",
		Quick: 40, Thorough: 1500, Parallel: 4,
		Gen: func(r *Rand, i int) c11PC {
			return c11PC{N: i, Goroutines: r.Range(1, 8), PerG: r.Range(1, 6), Answerer: r.Bool()}
		},
		Run: c11PCRun,
		Coq: func(in c11PC) string {
			s, ok := c11PCCoq.Load(fmt.Sprintf("%+v", in))
			if !ok {
				return ""
			}
			return s.(string)
		},
	})
}
