//go:build verif_jsepa

package main

// Shared by the checks of C06, C07 and C09: JSEP histories on real
// PeerConnections in signalling-only mode, against a second pion peer and
// against synthetic remote descriptions rendered from an abstract record; every
// generated / received SDP is projected through pion/sdp parsing (never text).

import (
	"encoding/json"
	"fmt"
	"os"
	"sort"
	"strconv"
	"strings"
	"sync"

	"github.com/pion/sdp/v3"
	"github.com/pion/webrtc/v4"
)

// ---------- abstract remote description (coq: Model.JsepMid.rdesc) ----------

type jSec struct {
	Kind  string `json:"k"`  // audio | video | application | anything else = unknown kind
	Mid   string `json:"m"`  // "" = no a=mid
	Dir   string `json:"d"`  // "" = no direction attribute
	Port0 bool   `json:"p0"` // m= line port 0
	Codec bool   `json:"c"`  // a codec the default media engine knows
}

type jDesc struct {
	Secs  []jSec  `json:"s"`
	Group *string `json:"g"` // value of a=group (nil = none)
}

// one call on one peer
type jOp struct {
	P    int    `json:"p"`
	Op   string `json:"op"` // add addtrack rmtrack stop dc offer answer sld srd srdext srdmirror srdpeer
	Kind string `json:"k,omitempty"`
	Dir  string `json:"d,omitempty"`
	Ty   string `json:"ty,omitempty"` // offer | pranswer | answer
	Idx  int    `json:"i,omitempty"`
	Desc *jDesc `json:"desc,omitempty"`
	// srdext: a remote offer = what the remote last sent or answered (its view
	// of the session) followed by New; srdmirror: a remote answer mirroring the
	// peer's last created offer. Seed/H drive the variations deterministically.
	New  []jSec `json:"new,omitempty"`
	Seed uint64 `json:"seed,omitempty"`
	H    int    `json:"h,omitempty"`
}

type jCase struct {
	Peers int   `json:"peers"`
	Ops   []jOp `json:"ops"`
}

// ---------- rendering a synthetic description pion accepts ----------

const jFingerprint = "a=fingerprint:sha-256 0F:74:31:25:CB:A2:13:EC:28:6F:6D:2C:61:FF:5D:C2:BC:B9:DB:3D:98:14:8D:1A:BB:EA:33:0C:A4:60:A8:8E\r\n"

func jRender(d *jDesc, ty string) string {
	var b strings.Builder
	b.WriteString("v=0\r\no=- 4596489990601351948 2 IN IP4 127.0.0.1\r\ns=-\r\nt=0 0\r\n")
	if d.Group != nil {
		b.WriteString("a=group:" + *d.Group + "\r\n")
	}
	b.WriteString(jFingerprint)
	// session-level credentials too: pion takes the media-level ones from the
	// section the BUNDLE group names first, which hostile groups may not contain
	b.WriteString("a=ice-ufrag:abcd\r\na=ice-pwd:abcdefghijklmnopqrstuvwx\r\n")
	setup := "actpass"
	if ty != "offer" {
		setup = "active"
	}
	for _, s := range d.Secs {
		port := "9"
		if s.Port0 {
			port = "0"
		}
		switch s.Kind {
		case "application":
			b.WriteString("m=application " + port + " UDP/DTLS/SCTP webrtc-datachannel\r\nc=IN IP4 0.0.0.0\r\n")
		case "audio":
			if s.Codec {
				b.WriteString("m=audio " + port + " UDP/TLS/RTP/SAVPF 111\r\nc=IN IP4 0.0.0.0\r\na=rtpmap:111 opus/48000/2\r\n")
			} else {
				b.WriteString("m=audio " + port + " UDP/TLS/RTP/SAVPF 120\r\nc=IN IP4 0.0.0.0\r\na=rtpmap:120 foo/8000\r\n")
			}
		default:
			if s.Codec {
				b.WriteString("m=" + s.Kind + " " + port + " UDP/TLS/RTP/SAVPF 96\r\nc=IN IP4 0.0.0.0\r\na=rtpmap:96 VP8/90000\r\n")
			} else {
				b.WriteString("m=" + s.Kind + " " + port + " UDP/TLS/RTP/SAVPF 120\r\nc=IN IP4 0.0.0.0\r\na=rtpmap:120 bar/90000\r\n")
			}
		}
		b.WriteString("a=setup:" + setup + "\r\n")
		if s.Mid != "" {
			b.WriteString("a=mid:" + s.Mid + "\r\n")
		}
		b.WriteString("a=ice-ufrag:abcd\r\na=ice-pwd:abcdefghijklmnopqrstuvwx\r\n")
		if s.Kind == "application" {
			b.WriteString("a=sctp-port:5000\r\n")
		} else {
			b.WriteString("a=rtcp-mux\r\n")
		}
		if s.Dir != "" {
			b.WriteString("a=" + s.Dir + "\r\n")
		}
	}
	return b.String()
}

// ---------- projections through pion/sdp ----------

func jIsDir(k string) bool {
	return k == "sendrecv" || k == "sendonly" || k == "recvonly" || k == "inactive"
}

// what SetRemoteDescription's own accessors would read from a description
func jProjectRemote(text string) (*jDesc, error) {
	var p sdp.SessionDescription
	if err := p.UnmarshalString(text); err != nil {
		return nil, err
	}
	d := &jDesc{}
	for _, a := range p.Attributes {
		if a.Key == "group" {
			v := a.Value
			d.Group = &v
			break
		}
	}
	for _, m := range p.MediaDescriptions {
		s := jSec{Kind: m.MediaName.Media, Port0: m.MediaName.Port.Value == 0}
		for _, a := range m.Attributes {
			if a.Key == "mid" {
				s.Mid = a.Value
				break
			}
		}
		for _, a := range m.Attributes {
			if jIsDir(a.Key) {
				s.Dir = a.Key
				break
			}
		}
		for _, a := range m.Attributes {
			if a.Key == "rtpmap" && (strings.Contains(a.Value, " opus/48000") || strings.Contains(a.Value, " VP8/90000")) {
				s.Codec = true
			}
		}
		if s.Kind == "application" {
			s.Codec = true
		}
		d.Secs = append(d.Secs, s)
	}
	return d, nil
}

type lSec struct {
	Kind    string
	HasMid  bool
	Mid     string
	Port0   bool
	Dirs    []string
	Creds   bool // media-level ice-ufrag and ice-pwd
	Setup   bool // media-level setup
	FP      bool // media-level fingerprint
	Codecs  int
	SessOK  bool // creds / setup available at session level instead
	HasSSRC bool
}

type lDesc struct {
	Secs      []lSec
	Group     bool
	Bundle    []string
	FPSession bool
}

func jProjectLocal(text string) (*lDesc, error) {
	var p sdp.SessionDescription
	if err := p.UnmarshalString(text); err != nil {
		return nil, err
	}
	d := &lDesc{}
	for _, a := range p.Attributes {
		if a.Key == "group" && strings.HasPrefix(a.Value, "BUNDLE") && !d.Group {
			d.Group = true
			f := strings.Split(a.Value, " ")
			d.Bundle = append([]string{}, f[1:]...)
		}
		if a.Key == "fingerprint" {
			d.FPSession = true
		}
	}
	for _, m := range p.MediaDescriptions {
		s := lSec{Kind: m.MediaName.Media, Port0: m.MediaName.Port.Value == 0}
		uf, pw := false, false
		for _, a := range m.Attributes {
			switch {
			case a.Key == "mid" && !s.HasMid:
				s.HasMid, s.Mid = true, a.Value
			case jIsDir(a.Key):
				s.Dirs = append(s.Dirs, a.Key)
			case a.Key == "ice-ufrag":
				uf = true
			case a.Key == "ice-pwd":
				pw = true
			case a.Key == "setup":
				s.Setup = true
			case a.Key == "fingerprint":
				s.FP = true
			case a.Key == "rtpmap":
				s.Codecs++
			}
		}
		s.Creds = uf && pw
		d.Secs = append(d.Secs, s)
	}
	return d, nil
}

// jToRemote: what the other peer reads in a description pion generated
// (coq: Model/JsepMidPair.v to_remote, used by the two-peer theorem of C09)
func jToRemote(l *lDesc) *jDesc {
	d := &jDesc{}
	for _, x := range l.Secs {
		s := jSec{Kind: x.Kind, Port0: x.Port0, Codec: x.Creds}
		if x.HasMid {
			s.Mid = x.Mid
		}
		if len(x.Dirs) > 0 {
			s.Dir = x.Dirs[0]
		}
		d.Secs = append(d.Secs, s)
	}
	if len(l.Bundle) > 0 {
		v := "BUNDLE " + strings.Join(l.Bundle, " ")
		d.Group = &v
	}
	return d
}

func jDescDiff(a, b *jDesc) string {
	if len(a.Secs) != len(b.Secs) {
		return fmt.Sprintf("%d sections vs %d", len(a.Secs), len(b.Secs))
	}
	for i := range a.Secs {
		if a.Secs[i] != b.Secs[i] {
			return fmt.Sprintf("section %d: %+v vs %+v", i, a.Secs[i], b.Secs[i])
		}
	}
	switch {
	case (a.Group == nil) != (b.Group == nil):
		return "group present on one side only"
	case a.Group != nil && *a.Group != *b.Group:
		return fmt.Sprintf("group %q vs %q", *a.Group, *b.Group)
	}
	return ""
}

// a delivered description that is not to_remote of what was generated: the two-peer
// model (not pion) would be wrong about what the receiving peer reads
func (l *jLog) projFailure() (string, string) {
	for _, e := range l.inOrder() {
		if e.ProjDiff != "" {
			return "delivered-description-differs-from-to_remote", fmt.Sprintf("peer %d call %d: %s", e.Op.P, e.Seq, e.ProjDiff)
		}
	}
	return "", ""
}

func jKindCh(k string) string {
	switch k {
	case "audio":
		return "a"
	case "video":
		return "v"
	case "application":
		return "p"
	}
	return "o"
}

func jDirAb(d string) string {
	switch d {
	case "sendrecv":
		return "sr"
	case "sendonly":
		return "so"
	case "recvonly":
		return "ro"
	case "inactive":
		return "in"
	case "unknown":
		return "un"
	}
	return "??"
}

func jFlag(b bool, c string) string {
	if b {
		return c
	}
	return "-"
}

// compact rendering (coq: Check/JsepMidRun.v S_ldesc):
// sections/bundle/S ; section = k(=mid|~),0|9,directions,csf
func (d *lDesc) S() string {
	secs := []string{}
	for _, s := range d.Secs {
		x := jKindCh(s.Kind)
		if s.HasMid {
			x += "=" + s.Mid
		} else {
			x += "~"
		}
		if s.Port0 {
			x += ",0,"
		} else {
			x += ",9,"
		}
		for _, dd := range s.Dirs {
			x += jDirAb(dd)
		}
		x += "," + jFlag(s.Creds, "c") + jFlag(s.Setup, "s") + jFlag(s.FP, "f")
		secs = append(secs, x)
	}
	return strings.Join(secs, ";") + "/" + strings.Join(d.Bundle, " ") + "/" + jFlag(d.FPSession, "S")
}

// ---------- running a history on real PeerConnections ----------

// Cur / RCur: currentDirection / currentRemoteDirection ("unknown" when unset);
// Snd: Sender() != nil
type jTr struct {
	Mid, Kind, Dir, Cur, RCur string
	Snd                       bool
}

func (t jTr) S() string {
	return t.Mid + "," + jKindCh(t.Kind) + "," + jDirAb(t.Dir) + "," + jDirAb(t.Cur) + "," + jDirAb(t.RCur) + "," + jFlag(t.Snd, "s")
}

type jEntry struct {
	Seq     int    // position of the call in the case (global order over both peers)
	Op      jOp    // resolved: srdpeer carries the projected description
	InModel bool   // false: skipped (srdpeer with nothing to deliver)
	Status  string // "ok" or an error class
	Text    string // SDP returned by CreateOffer / CreateAnswer
	Local   *lDesc // its projection (nil if none or it did not parse)
	ParseEr string
	Trs     []jTr // transceivers after the call
	Before  []jTr // transceivers before the call
	// for the cause analysis of the oracles: application mids of the remote
	// description the generation reads
	RemoteAppMids []string
	RemoteAllMids []string
	RemoteSecs    []jSec   // all sections of that remote description
	RemoteGroup   *string  // its first session-level a=group value (nil = none)
	PendingMids   []string // mids of the pending remote description, if any
	Err           string
	// srdpeer: how the delivered description (read as a remote description) differs from
	// to_remote (coq: Model/JsepMidPair.v) of the same text read as a generated description
	ProjDiff string
}

type jLog struct {
	Peers [][]jEntry
}

// the calls of all peers in the order they were made
func (l *jLog) inOrder() []*jEntry {
	var out []*jEntry
	for pi := range l.Peers {
		for k := range l.Peers[pi] {
			out = append(out, &l.Peers[pi][k])
		}
	}
	sort.Slice(out, func(i, j int) bool { return out[i].Seq < out[j].Seq })
	return out
}

func jDirOf(s string) webrtc.RTPTransceiverDirection {
	return webrtc.NewRTPTransceiverDirection(s)
}

func jSnapshot(pc *webrtc.PeerConnection) []jTr {
	var out []jTr
	for _, t := range pc.GetTransceivers() {
		cur, rcur := t.VerifJsepCurrentDirections()
		out = append(out, jTr{t.Mid(), t.Kind().String(), t.Direction().String(), jDirName(cur), jDirName(rcur), t.Sender() != nil})
	}
	return out
}

func jDirName(d webrtc.RTPTransceiverDirection) string {
	if d == webrtc.RTPTransceiverDirectionUnknown {
		return "unknown"
	}
	return d.String()
}

// the track AddTrack is given: the codec AddTransceiverFromKind would pick from
// the default media engine
func jNewTrack(kind string) webrtc.TrackLocal {
	c := webrtc.RTPCodecCapability{MimeType: webrtc.MimeTypeOpus, ClockRate: 48000, Channels: 2, SDPFmtpLine: "minptime=10;useinbandfec=1"}
	if kind == "video" {
		c = webrtc.RTPCodecCapability{MimeType: webrtc.MimeTypeVP8, ClockRate: 90000}
	}
	t, err := webrtc.NewTrackLocalStaticSample(c, "track", "stream")
	if err != nil {
		panic(err)
	}
	return t
}

func jRemoteMids(pc *webrtc.PeerConnection, forOffer bool) (app, all []string, secs []jSec, group *string) {
	cur := pc.CurrentRemoteDescription()
	pend := pc.PendingRemoteDescription()
	var rd *webrtc.SessionDescription
	if forOffer {
		if cur == nil {
			return nil, nil, nil, nil
		}
		rd = cur
		if pend != nil {
			rd = pend
		}
	} else {
		rd = pend
		if rd == nil {
			rd = cur
		}
	}
	if rd == nil {
		return nil, nil, nil, nil
	}
	d, err := jProjectRemote(rd.SDP)
	if err != nil {
		return nil, nil, nil, nil
	}
	for _, s := range d.Secs {
		all = append(all, s.Mid)
		if s.Kind == "application" {
			app = append(app, s.Mid)
		}
	}
	return app, all, d.Secs, d.Group
}

func jsepRun(c jCase) *jLog {
	api := newQuietAPI(nil)
	n := c.Peers
	if n < 1 {
		n = 1
	}
	pcs := make([]*webrtc.PeerConnection, n)
	for i := range pcs {
		me := &webrtc.MediaEngine{}
		if err := me.RegisterDefaultCodecs(); err != nil {
			panic(err)
		}
		api = newQuietAPI(me)
		pc, err := api.NewPeerConnection(webrtc.Configuration{SDPSemantics: webrtc.SDPSemanticsUnifiedPlan})
		if err != nil {
			panic(err)
		}
		pcs[i] = pc
	}
	defer func() {
		for _, pc := range pcs {
			_ = pc.Close()
		}
	}()
	log := &jLog{Peers: make([][]jEntry, n)}
	// last description created by each peer, per type
	lastCreated := make([]map[string]string, n)
	for i := range lastCreated {
		lastCreated[i] = map[string]string{}
	}
	view := make([][]jSec, n) // per peer: sections of the last remote description
	// the offer (text) each peer's last created answer responds to: an answer is
	// delivered only to answer the offer it was created for
	answerBasis := make([]string, n)
	for seq, op := range c.Ops {
		if op.P < 0 || op.P >= n {
			continue
		}
		pc := pcs[op.P]
		e := jEntry{Seq: seq, Op: op, InModel: true, Before: jSnapshot(pc)}
		var err error
		switch op.Op {
		case "add":
			kind := webrtc.NewRTPCodecType(op.Kind)
			_, err = pc.AddTransceiverFromKind(kind, webrtc.RTPTransceiverInit{Direction: jDirOf(op.Dir)})
		case "addtrack":
			_, err = pc.AddTrack(jNewTrack(op.Kind))
		case "rmtrack":
			ts := pc.GetTransceivers()
			if op.Idx < 0 || op.Idx >= len(ts) || ts[op.Idx].Sender() == nil {
				e.Status = "no-such-sender"
			} else {
				err = pc.RemoveTrack(ts[op.Idx].Sender())
			}
		case "stop":
			ts := pc.GetTransceivers()
			if op.Idx < 0 || op.Idx >= len(ts) {
				e.Status = "no-such-transceiver"
			} else {
				err = ts[op.Idx].Stop()
			}
		case "dc":
			_, err = pc.CreateDataChannel("d", nil)
		case "offer", "answer":
			e.RemoteAppMids, e.RemoteAllMids, e.RemoteSecs, e.RemoteGroup = jRemoteMids(pc, op.Op == "offer")
			if pend := pc.PendingRemoteDescription(); pend != nil {
				if pd, perr := jProjectRemote(pend.SDP); perr == nil {
					for _, x := range pd.Secs {
						e.PendingMids = append(e.PendingMids, x.Mid)
					}
				}
			}
			var sd webrtc.SessionDescription
			if op.Op == "offer" {
				sd, err = pc.CreateOffer(nil)
			} else {
				sd, err = pc.CreateAnswer(nil)
			}
			if err == nil {
				e.Text = sd.SDP
				lastCreated[op.P][op.Op] = sd.SDP
				if op.Op == "answer" {
					answerBasis[op.P] = ""
					if pend := pc.PendingRemoteDescription(); pend != nil {
						answerBasis[op.P] = pend.SDP
					}
				}
				ld, perr := jProjectLocal(sd.SDP)
				if perr != nil {
					e.ParseEr = perr.Error()
				} else {
					e.Local = ld
				}
			}
		case "sld":
			err = pc.SetLocalDescription(webrtc.SessionDescription{Type: webrtc.NewSDPType(op.Ty)})
			drain(pc)
		case "srd", "srdext", "srdmirror":
			d := op.Desc
			switch op.Op {
			case "srdext":
				d = jExtend(view[op.P], op.New, op.Seed, op.H)
			case "srdmirror":
				if lastCreated[op.P]["offer"] == "" {
					e.InModel = false
					e.Status = "skipped"
				} else {
					d = jMirror(lastCreated[op.P]["offer"], op.Seed, op.H)
				}
			}
			if e.InModel && len(d.Secs) == 0 {
				// a description without m-sections has no ICE credentials; pion
				// rejects it after the state change (C03's subject, not modelled here)
				e.InModel = false
				e.Status = "skipped"
			}
			if !e.InModel {
				break
			}
			e.Op.Desc = d
			view[op.P] = jCopySecs(d.Secs)
			err = pc.SetRemoteDescription(webrtc.SessionDescription{Type: webrtc.NewSDPType(op.Ty), SDP: jRender(d, op.Ty)})
			drain(pc)
		case "srdpeer":
			other := 1 - op.P
			text := ""
			key := op.Ty
			if key == "pranswer" {
				key = "answer" // a provisional answer is the answerer's last created answer, sent as pranswer
			}
			if other >= 0 && other < n {
				text = lastCreated[other][key]
			}
			if text != "" && key == "answer" && answerBasis[other] != lastCreated[op.P]["offer"] {
				text = "" // a stale answer (to an older offer): a real remote would not send it
			}
			if text == "" {
				e.InModel = false
				e.Status = "skipped"
				break
			}
			d, perr := jProjectRemote(text)
			if perr != nil {
				panic(perr)
			}
			if len(d.Secs) == 0 {
				e.InModel = false
				e.Status = "skipped"
				break
			}
			e.Op.Desc = d
			if ld, lerr := jProjectLocal(text); lerr == nil {
				e.ProjDiff = jDescDiff(jToRemote(ld), d)
			}
			err = pc.SetRemoteDescription(webrtc.SessionDescription{Type: webrtc.NewSDPType(op.Ty), SDP: text})
			drain(pc)
		default:
			panic("unknown op " + op.Op)
		}
		if e.Status == "" {
			e.Status = webrtc.VerifJsepErrClass(err)
			if err != nil {
				e.Err = err.Error()
				if e.Status == "other" && os.Getenv("JSEPA_DEBUG") != "" {
					b, _ := json.Marshal(e.Op)
					fmt.Fprintln(os.Stderr, "other error:", op.Op, err, string(b))
				}
			}
		}
		e.Trs = jSnapshot(pc)
		log.Peers[op.P] = append(log.Peers[op.P], e)
	}
	return log
}

// JSEPA_FULL=1: observations as full strings (slow to read back into Coq; for
// diagnosis). Default: per call the status and a 55-bit hash of
// "description|transceivers" (coq: Check/JsepMidRun.v hash_str).
var jFull = os.Getenv("JSEPA_FULL") != ""

func jRunName(prop string) string {
	if jFull {
		return "Check." + prop + ".run_full"
	}
	return "Check." + prop + ".run"
}

func jHash(s string) int64 {
	const m = 36028797018963913
	h := uint64(7)
	for i := 0; i < len(s); i++ {
		// h < 2^55, so h*131 + c < 2^63
		h = (h*131 + uint64(s[i])) % m
	}
	return int64(h)
}

// the observation compared with the model: per peer, per call:
// status, description (when one was generated), transceivers afterwards (when changed)
func (l *jLog) V() V {
	out := VL{}
	for _, peer := range l.Peers {
		pv := VL{}
		prev := ""
		for _, e := range peer {
			if !e.InModel {
				continue
			}
			d := ""
			if e.Local != nil {
				d = e.Local.S()
			} else if e.Text != "" {
				d = "unparsable"
			}
			trs := []string{}
			for _, t := range e.Trs {
				trs = append(trs, t.S())
			}
			cur := strings.Join(trs, ";")
			body := d + "|" + cur
			if cur == prev {
				body = d + "|="
			}
			prev = cur
			switch {
			case jFull:
				pv = append(pv, VS(e.Status+"|"+body))
			case body == "|=":
				pv = append(pv, VL{VS(e.Status), VZ(0)})
			default:
				pv = append(pv, VL{VS(e.Status), VZ(jHash(body))})
			}
		}
		out = append(out, pv)
	}
	return out
}

// ---------- the case as a Gallina term: list (list op) ----------

func jCoqKind(k string) string {
	switch k {
	case "audio":
		return "KAudio"
	case "video":
		return "KVideo"
	case "application":
		return "KApplication"
	}
	return "KOther"
}

func jCoqDir(d string) string {
	switch d {
	case "sendrecv":
		return "Sendrecv"
	case "sendonly":
		return "Sendonly"
	case "recvonly":
		return "Recvonly"
	}
	return "Inactive"
}

func jCoqTy(t string) string {
	switch t {
	case "offer":
		return "TOffer"
	case "pranswer":
		return "TPranswer"
	}
	return "TAnswer"
}

func jPrintable(s string) bool {
	for i := 0; i < len(s); i++ {
		if s[i] < 32 || s[i] > 126 {
			return false
		}
	}
	return true
}

func jCoqDesc(d *jDesc) (string, bool) {
	secs := []string{}
	for _, s := range d.Secs {
		if !jPrintable(s.Mid) {
			return "", false
		}
		secs = append(secs, fmt.Sprintf("RS %s %s %s %s %s", jCoqKind(s.Kind), CoqString(s.Mid),
			CoqOpt(s.Dir != "", jCoqDir(s.Dir)), CoqBool(s.Port0), CoqBool(s.Codec)))
	}
	g := "None"
	if d.Group != nil {
		if !jPrintable(*d.Group) {
			return "", false
		}
		g = "(Some " + CoqString(*d.Group) + ")"
	}
	return "(RD " + CoqList(secs) + " " + g + ")", true
}

// jsepCoq prints the calls that were actually made (srdpeer resolved to the
// description that was delivered); "" when something is outside the model.
func jsepCoq(l *jLog) string {
	peers := []string{}
	for _, peer := range l.Peers {
		ops := []string{}
		for _, e := range peer {
			if !e.InModel {
				continue
			}
			op := e.Op
			switch op.Op {
			case "add":
				k := "MAudio"
				if op.Kind == "video" {
					k = "MVideo"
				} else if op.Kind != "audio" {
					return ""
				}
				if !jIsDir(op.Dir) {
					return ""
				}
				ops = append(ops, "AddTransceiver "+k+" "+jCoqDir(op.Dir))
			case "addtrack":
				k := "MAudio"
				if op.Kind == "video" {
					k = "MVideo"
				} else if op.Kind != "audio" {
					return ""
				}
				ops = append(ops, "AddTrack "+k)
			case "rmtrack":
				if op.Idx < 0 {
					return ""
				}
				ops = append(ops, "RemoveTrack "+strconv.Itoa(op.Idx))
			case "stop":
				if op.Idx < 0 {
					return ""
				}
				ops = append(ops, "StopTransceiver "+strconv.Itoa(op.Idx))
			case "dc":
				ops = append(ops, "CreateDataChannel")
			case "offer":
				ops = append(ops, "CreateOffer")
			case "answer":
				ops = append(ops, "CreateAnswer")
			case "sld":
				ops = append(ops, "SetLocal "+jCoqTy(op.Ty))
			case "srd", "srdext", "srdmirror", "srdpeer":
				d, ok := jCoqDesc(op.Desc)
				if !ok {
					return ""
				}
				ops = append(ops, "SetRemote "+jCoqTy(op.Ty)+" "+d)
			}
		}
		peers = append(peers, CoqList(ops))
	}
	return CoqList(peers)
}

// ---------- generators ----------

var jMidVocab = [][]string{
	{"0", "1", "2", "3", "4", "5", "6", "7"},                                       // dense numeric
	{"1", "3", "7", "10", "12", "40", "41", "100"},                                 // sparse numeric
	{"audio0", "a", "b", "video1", "data0", "x-1", "m_2", "Q"},                     // non-numeric
	{"00", "01", "+1", "-1", "+0", "007", "-0", "+12"},                             // signed / zero padded
	{"0", "a", "2", "01", "9223372036854775806", "99999999999999999999", "3", "B"}, // mixed / huge
}

var jDirs = []string{"sendrecv", "sendonly", "recvonly", "inactive"}

type jGen struct {
	r     *Rand
	vocab []string
	used  map[string]bool
}

func newJGen(r *Rand) *jGen {
	return &jGen{r: r, vocab: jMidVocab[r.Intn(len(jMidVocab))], used: map[string]bool{}}
}

// a mid the remote has not used yet (remote descriptions keep distinct mids)
func (g *jGen) freshMid() string {
	for tries := 0; tries < 20; tries++ {
		m := Pick(g.r, g.vocab)
		if !g.used[m] {
			g.used[m] = true
			return m
		}
	}
	for i := 0; ; i++ {
		m := "z" + strconv.Itoa(i)
		if !g.used[m] {
			g.used[m] = true
			return m
		}
	}
}

// hostile: share of sections with unknown kind / no direction / unsupported
// codec / rejected, in percent
func (g *jGen) newSection(hostile int) jSec {
	r := g.r
	s := jSec{Mid: g.freshMid(), Codec: true}
	switch x := r.Intn(100); {
	case x < 40:
		s.Kind = "audio"
	case x < 80:
		s.Kind = "video"
	case x < 92:
		s.Kind = "application"
	default:
		s.Kind = "video"
		if r.Intn(100) < hostile*3 {
			s.Kind = Pick(r, []string{"text", "message"})
		}
	}
	if s.Kind != "application" {
		s.Dir = Pick(r, jDirs)
		if r.Intn(100) < 55 {
			s.Dir = "sendrecv"
		}
		if r.Intn(100) < hostile {
			s.Dir = ""
		}
		if r.Intn(100) < hostile/2 {
			s.Codec = false
		}
	}
	if r.Intn(100) < hostile/2 {
		s.Port0 = true
	}
	return s
}

func jGroupFor(r *Rand, secs []jSec, hostile int) *string {
	mids := []string{}
	for _, s := range secs {
		if s.Mid != "" {
			mids = append(mids, s.Mid)
		}
	}
	var v string
	switch x := r.Intn(100); {
	case x < 100-3*hostile:
		v = "BUNDLE " + strings.Join(mids, " ")
	case x < 100-2*hostile:
		return nil
	case x < 100-hostile:
		keep := []string{}
		for _, m := range mids {
			if r.Bool() {
				keep = append(keep, m)
			}
		}
		v = "BUNDLE " + strings.Join(keep, " ")
	default:
		v = Pick(r, []string{"LS ", "BUNDLE  ", "BUNDLE", "FID ", "DUB "}) + strings.Join(mids, " ")
	}
	return &v
}

func jReverse(d string) string {
	switch d {
	case "sendonly":
		return "recvonly"
	case "recvonly":
		return "sendonly"
	}
	return d
}

func jCopySecs(s []jSec) []jSec { return append([]jSec{}, s...) }

// jExtend: the remote re-offers its view of the session (same kinds and mids,
// directions possibly changed) followed by new sections; mids stay distinct.
func jExtend(view, add []jSec, seed uint64, hostile int) *jDesc {
	r := NewRand(seed)
	secs := jCopySecs(view)
	seen := map[string]bool{}
	for i := range secs {
		seen[secs[i].Mid] = true
		if secs[i].Kind != "application" && secs[i].Dir != "" && r.Intn(100) < 15 {
			secs[i].Dir = Pick(r, jDirs)
		}
	}
	for _, s := range add {
		for s.Mid != "" && seen[s.Mid] {
			s.Mid += "n"
		}
		seen[s.Mid] = true
		secs = append(secs, s)
	}
	return &jDesc{Secs: secs, Group: jGroupFor(r, secs, hostile)}
}

// jMirror: a remote answer to the given local offer: same kinds and mids,
// reversed directions; with hostility some sections rejected or direction-less.
func jMirror(offer string, seed uint64, hostile int) *jDesc {
	r := NewRand(seed)
	d, err := jProjectRemote(offer)
	if err != nil {
		panic(err)
	}
	for i := range d.Secs {
		s := &d.Secs[i]
		s.Dir = jReverse(s.Dir)
		s.Codec = true
		if r.Intn(100) < hostile/2 {
			s.Port0 = true
		}
		if s.Kind != "application" && r.Intn(100) < hostile/2 {
			s.Dir = ""
		}
	}
	d.Group = jGroupFor(r, d.Secs, hostile)
	return d
}

// ---------- history generators ----------

func jGenAdds(r *Rand, p int, max int) []jOp {
	var ops []jOp
	for k := r.Intn(max + 1); k > 0; k-- {
		kind := Pick(r, []string{"audio", "video"})
		if r.Intn(100) < 35 {
			// AddTrack: reuses a transceiver that may send this kind, else creates one
			ops = append(ops, jOp{P: p, Op: "addtrack", Kind: kind})
			continue
		}
		d := Pick(r, []string{"sendrecv", "sendrecv", "sendonly", "recvonly", "recvonly"})
		if r.Intn(100) < 3 {
			d = "inactive"
		}
		ops = append(ops, jOp{P: p, Op: "add", Kind: kind, Dir: d})
	}
	return ops
}

// removals: Stop of a transceiver, RemoveTrack of a transceiver's sender
func jGenRemovals(r *Rand, p int, stopPct, rmPct int) []jOp {
	var ops []jOp
	if r.Intn(100) < stopPct {
		ops = append(ops, jOp{P: p, Op: "stop", Idx: r.Intn(4)})
	}
	if r.Intn(100) < rmPct {
		ops = append(ops, jOp{P: p, Op: "rmtrack", Idx: r.Intn(4)})
	}
	return ops
}

// one peer against a synthetic remote
func jGenSynth(r *Rand, hostile int) jCase {
	g := newJGen(r)
	var ops []jOp
	ops = append(ops, jGenAdds(r, 0, 2)...)
	if r.Intn(100) < 20 {
		ops = append(ops, jOp{Op: "dc"})
	}
	rounds := r.Range(1, 4)
	for k := 0; k < rounds; k++ {
		if r.Intn(100) < 55 {
			n := r.Intn(3)
			if k == 0 || r.Intn(100) < 30 {
				n++
			}
			var add []jSec
			for i := 0; i < n; i++ {
				add = append(add, g.newSection(hostile))
			}
			ops = append(ops, jOp{Op: "srdext", Ty: "offer", New: add, Seed: r.U64(), H: hostile})
			ops = append(ops, jGenAdds(r, 0, 1)...)
			ops = append(ops, jGenRemovals(r, 0, 0, 6)...)
			if r.Intn(100) < 10 {
				ops = append(ops, jOp{Op: "dc"})
			}
			if r.Intn(100) < 4+hostile/2 {
				ops = append(ops, jOp{Op: "offer"})
			}
			if r.Intn(100) < 100-hostile/2 {
				ops = append(ops, jOp{Op: "answer"})
				if r.Intn(100) < 14 {
					// a provisional answer first; the final one is re-created in most cases
					ops = append(ops, jOp{Op: "sld", Ty: "pranswer"})
					ops = append(ops, jGenAdds(r, 0, 1)...)
					if r.Intn(100) < 75 {
						ops = append(ops, jOp{Op: "answer"})
					}
				}
				if r.Intn(100) < 100-hostile/2 {
					ops = append(ops, jOp{Op: "sld", Ty: "answer"})
				}
			}
		} else {
			ops = append(ops, jGenAdds(r, 0, 2)...)
			if r.Intn(100) < 25 {
				ops = append(ops, jOp{Op: "dc"})
			}
			ops = append(ops, jGenRemovals(r, 0, 8, 12)...)
			ops = append(ops, jOp{Op: "offer"})
			if r.Intn(100) < 12+hostile/2 {
				continue // the offer is abandoned (glare: the application drops it)
			}
			if r.Intn(100) < 15 {
				ops = append(ops, jGenAdds(r, 0, 1)...)
				ops = append(ops, jOp{Op: "offer"})
			}
			ops = append(ops, jOp{Op: "sld", Ty: "offer"})
			if r.Intn(100) < 14 {
				ops = append(ops, jOp{Op: "srdmirror", Ty: "pranswer", Seed: r.U64(), H: hostile})
				ops = append(ops, jGenAdds(r, 0, 1)...)
				if r.Intn(100) < 5+hostile/2 {
					ops = append(ops, jOp{Op: "offer"})
				}
			}
			ops = append(ops, jOp{Op: "srdmirror", Ty: "answer", Seed: r.U64(), H: hostile})
		}
	}
	if r.Intn(100) < 60 {
		ops = append(ops, jGenAdds(r, 0, 1)...)
		ops = append(ops, jGenRemovals(r, 0, 0, 8)...)
		ops = append(ops, jOp{Op: "offer"})
	}
	return jCase{Peers: 1, Ops: ops}
}

// two pion peers offering alternately
func jGenPair(r *Rand, chaos int) jCase {
	var ops []jOp
	rounds := r.Range(1, 4)
	for k := 0; k < rounds; k++ {
		p := r.Intn(2)
		q := 1 - p
		ops = append(ops, jGenAdds(r, p, 2)...)
		if k == 0 && len(ops) == 0 {
			ops = append(ops, jOp{P: p, Op: "add", Kind: "audio", Dir: "sendrecv"})
		}
		ops = append(ops, jGenAdds(r, q, 1)...)
		if r.Intn(100) < 25 {
			ops = append(ops, jOp{P: r.Intn(2), Op: "dc"})
		}
		ops = append(ops, jGenRemovals(r, r.Intn(2), 6, 10)...)
		if r.Intn(100) < chaos {
			ops = append(ops, jOp{P: q, Op: "offer"}) // created, never applied
		}
		round := []jOp{
			{P: p, Op: "offer"}, {P: p, Op: "sld", Ty: "offer"}, {P: q, Op: "srdpeer", Ty: "offer"},
			{P: q, Op: "answer"}, {P: q, Op: "sld", Ty: "answer"}, {P: p, Op: "srdpeer", Ty: "answer"},
		}
		if r.Intn(100) < 14 {
			// the answerer sends a provisional answer first
			mid := []jOp{{P: q, Op: "sld", Ty: "pranswer"}, {P: p, Op: "srdpeer", Ty: "pranswer"}}
			if r.Intn(100) < 75 {
				mid = append(mid, jGenAdds(r, q, 1)...)
				mid = append(mid, jOp{P: q, Op: "answer"})
			}
			round = append(round[:4], append(mid, round[4:]...)...)
		}
		if r.Intn(100) < 30 {
			extra := jGenAdds(r, q, 1)
			round = append(round[:3], append(extra, round[3:]...)...)
		}
		if r.Intn(100) < chaos {
			i := r.Intn(len(round))
			round = append(round[:i], round[i+1:]...)
		}
		ops = append(ops, round...)
	}
	if r.Intn(100) < 50 {
		p := r.Intn(2)
		ops = append(ops, jGenAdds(r, p, 1)...)
		ops = append(ops, jGenRemovals(r, p, 0, 8)...)
		ops = append(ops, jOp{P: p, Op: "offer"})
	}
	return jCase{Peers: 2, Ops: ops}
}

// corpus shared by C06, C07 and C09: the operations added to the model later
// (AddTrack with and without reuse, RemoveTrack, provisional answers)
func jCorpusOps() []jCase {
	sec := func(k, m, d string) jSec { return jSec{Kind: k, Mid: m, Dir: d, Codec: true} }
	offer := func(secs ...jSec) *jDesc {
		mids := []string{}
		for _, x := range secs {
			mids = append(mids, x.Mid)
		}
		return &jDesc{Secs: secs, Group: jStr("BUNDLE " + strings.Join(mids, " "))}
	}
	return []jCase{
		// AddTrack reuses the recvonly transceiver the remote offer created (after the answer is
		// applied: currentDirection recvonly), the second AddTrack has to create one
		{Peers: 1, Ops: []jOp{
			{Op: "srd", Ty: "offer", Desc: offer(sec("audio", "a", "sendrecv"), sec("video", "v", "sendonly"))},
			{Op: "answer"}, {Op: "sld", Ty: "answer"},
			{Op: "addtrack", Kind: "audio"}, {Op: "addtrack", Kind: "video"}, {Op: "addtrack", Kind: "audio"}, {Op: "offer"}}},
		// AddTrack before the answer is applied; remote recvonly section: sendonly transceiver without sender
		{Peers: 1, Ops: []jOp{
			{Op: "srd", Ty: "offer", Desc: offer(sec("audio", "0", "recvonly"), sec("video", "1", "inactive"))},
			{Op: "addtrack", Kind: "audio"}, {Op: "addtrack", Kind: "video"},
			{Op: "answer"}, {Op: "sld", Ty: "answer"}, {Op: "addtrack", Kind: "video"}, {Op: "offer"}}},
		// RemoveTrack: sendrecv -> recvonly, sendonly -> inactive, then AddTrack reuses them; removing twice
		{Peers: 1, Ops: []jOp{
			{Op: "addtrack", Kind: "audio"}, {Op: "add", Kind: "video", Dir: "sendonly"}, {Op: "add", Kind: "video", Dir: "recvonly"},
			{Op: "offer"}, {Op: "sld", Ty: "offer"}, {Op: "srdmirror", Ty: "answer"},
			{Op: "rmtrack", Idx: 0}, {Op: "rmtrack", Idx: 1}, {Op: "rmtrack", Idx: 2}, {Op: "rmtrack", Idx: 0}, {Op: "offer"},
			{Op: "addtrack", Kind: "video"}, {Op: "addtrack", Kind: "audio"}, {Op: "offer"},
			{Op: "sld", Ty: "offer"}, {Op: "srdmirror", Ty: "answer"}, {Op: "offer"}}},
		// RemoveTrack on a stopped transceiver: the sender goes, the call reports an error
		{Peers: 1, Ops: []jOp{
			{Op: "add", Kind: "audio", Dir: "sendrecv"}, {Op: "stop", Idx: 0}, {Op: "rmtrack", Idx: 0}, {Op: "addtrack", Kind: "audio"}, {Op: "offer"}}},
		// local provisional answer, a transceiver added meanwhile, final answer re-created
		{Peers: 1, Ops: []jOp{
			{Op: "add", Kind: "video", Dir: "sendrecv"},
			{Op: "srd", Ty: "offer", Desc: offer(sec("audio", "0", "sendrecv"), sec("video", "1", "sendrecv"), sec("application", "2", ""))},
			{Op: "answer"}, {Op: "sld", Ty: "pranswer"}, {Op: "sld", Ty: "pranswer"}, {Op: "addtrack", Kind: "audio"}, {Op: "offer"},
			{Op: "answer"}, {Op: "sld", Ty: "answer"}, {Op: "offer"}}},
		// remote provisional answer that adds a section: the matching loop runs on it
		// (a new transceiver appears); CreateOffer in have-remote-pranswer; final answer
		{Peers: 1, Ops: []jOp{
			{Op: "add", Kind: "audio", Dir: "sendrecv"}, {Op: "offer"}, {Op: "sld", Ty: "offer"},
			{Op: "srd", Ty: "pranswer", Desc: offer(sec("audio", "0", "sendrecv"), sec("video", "5", "sendonly"))},
			{Op: "add", Kind: "video", Dir: "sendonly"}, {Op: "offer"},
			{Op: "srd", Ty: "answer", Desc: offer(sec("audio", "0", "recvonly"), sec("video", "5", "sendonly"))},
			{Op: "addtrack", Kind: "audio"}, {Op: "offer"}}},
		// two pion peers, tracks on both sides, provisional answer delivered, then the final one
		{Peers: 2, Ops: []jOp{
			{P: 0, Op: "addtrack", Kind: "audio"}, {P: 0, Op: "add", Kind: "video", Dir: "recvonly"}, {P: 1, Op: "addtrack", Kind: "video"},
			{P: 0, Op: "offer"}, {P: 0, Op: "sld", Ty: "offer"}, {P: 1, Op: "srdpeer", Ty: "offer"},
			{P: 1, Op: "answer"}, {P: 1, Op: "sld", Ty: "pranswer"}, {P: 0, Op: "srdpeer", Ty: "pranswer"},
			{P: 1, Op: "addtrack", Kind: "audio"}, {P: 1, Op: "answer"}, {P: 1, Op: "sld", Ty: "answer"}, {P: 0, Op: "srdpeer", Ty: "answer"},
			{P: 0, Op: "rmtrack", Idx: 0}, {P: 1, Op: "addtrack", Kind: "audio"},
			{P: 1, Op: "offer"}, {P: 1, Op: "sld", Ty: "offer"}, {P: 0, Op: "srdpeer", Ty: "offer"},
			{P: 0, Op: "answer"}, {P: 0, Op: "sld", Ty: "answer"}, {P: 1, Op: "srdpeer", Ty: "answer"},
			{P: 0, Op: "addtrack", Kind: "audio"}, {P: 0, Op: "offer"}}},
	}
}

func jShrink(c jCase) []jCase {
	var out []jCase
	for i := range c.Ops {
		ops := append(append([]jOp{}, c.Ops[:i]...), c.Ops[i+1:]...)
		out = append(out, jCase{Peers: c.Peers, Ops: ops})
	}
	for i, op := range c.Ops {
		for j := range op.New {
			ops := append([]jOp{}, c.Ops...)
			o := op
			o.New = append(append([]jSec{}, op.New[:j]...), op.New[j+1:]...)
			ops[i] = o
			out = append(out, jCase{Peers: c.Peers, Ops: ops})
		}
		if op.Desc != nil && (op.Op == "srd") {
			for j := range op.Desc.Secs {
				ops := append([]jOp{}, c.Ops...)
				o := op
				d := *op.Desc
				d.Secs = append(append([]jSec{}, op.Desc.Secs[:j]...), op.Desc.Secs[j+1:]...)
				o.Desc = &d
				ops[i] = o
				out = append(out, jCase{Peers: c.Peers, Ops: ops})
			}
		}
	}
	return out
}

func jStr(s string) *string { return &s }

// resolved Coq terms of the cases run last (Run and Coq are called in turn)
var jCoqCache sync.Map

func jKey(c jCase) string {
	b, _ := json.Marshal(c)
	return string(b)
}

func jCoqOf(c jCase) string {
	if v, ok := jCoqCache.LoadAndDelete(jKey(c)); ok {
		return v.(string)
	}
	return jsepCoq(jsepRun(c))
}
