//go:build verif_c02

package main

import "fmt"

// C02: rollback cancels an in-progress offer/answer exchange.

// direct oracle: the property's clauses on every rollback call of the trace
func c02Oracle(tr *sigTrace) (Verdict, int) {
	rollbacks := 0
	for i, s := range tr.Steps {
		if !s.isSet() || s.Op.Ty != tyRollback || s.Before == ssClosed {
			continue
		}
		rollbacks++
		local := s.Op.K == sigSetLocal
		named := (local && (s.Before == ssHLO || s.Before == ssHLP)) ||
			(!local && (s.Before == ssHRO || s.Before == ssHRP))
		switch {
		case s.Before == ssStable:
			// rollback from stable is rejected (and, being rejected, changes nothing)
			if s.Err == "ok" {
				return Fail("rollback-from-stable-accepted", s.describe(i)), rollbacks
			}
			if !s.unchanged() || len(s.Events) > 0 {
				return Fail("rollback-from-stable-changed-state", s.describe(i)), rollbacks
			}
		case named && s.Err != "ok":
			return Fail(fmt.Sprintf("rollback-rejected-from-%s-%s", sigStateNames[s.Before], sigSideName(s.Op.K)),
				s.describe(i)), rollbacks
		}
		if s.Err == "ok" {
			// a successful rollback returns to stable, discards the pending
			// descriptions, leaves the current ones
			switch {
			case s.After != ssStable:
				return Fail("rollback-accepted-not-stable", s.describe(i)), rollbacks
			case s.Now[0] != nil || s.Now[2] != nil:
				return Fail("rollback-accepted-pending-kept", s.describe(i)+fmt.Sprintf(": pending local %v, pending remote %v", s.Now[0], s.Now[2])), rollbacks
			case !sigDescEq(s.Prev[1], s.Now[1]) || !sigDescEq(s.Prev[3], s.Now[3]):
				return Fail("rollback-accepted-currents-changed", s.describe(i)), rollbacks
			}
		}
	}
	return Pass("", false), rollbacks
}

func c02Run(c sigCase) (V, Verdict) {
	tr := sigExec(c)
	v, n := c02Oracle(tr)
	if v.OK {
		v.NonTrivial = n > 0
		v.Class = fmt.Sprintf("rollbacks%d", min(n, 3))
	}
	sigNote(c, tr, &v)
	return tr.V(), v
}

// prefixes that bring pc0 into each signaling state (pc1 is the peer)
func c02Prefix(state int, renegotiation bool) []sigOp {
	var ops []sigOp
	if renegotiation {
		ops = c01Exchange(ops, 1, false)
	}
	n := len(ops)
	hlo := []sigOp{{K: sigCreateOffer, PC: 0}, {K: sigSetLocal, PC: 0, Ty: tyOffer, Ref: n}}
	hro := []sigOp{{K: sigCreateOffer, PC: 1}, {K: sigSetLocal, PC: 1, Ty: tyOffer, Ref: n},
		{K: sigSetRemote, PC: 0, Ty: tyOffer, Ref: n}}
	switch state {
	case ssHLO:
		ops = append(ops, hlo...)
	case ssHRO:
		ops = append(ops, hro...)
	case ssHLP:
		ops = append(ops, hro...)
		ops = append(ops, sigOp{K: sigCreateAnswer, PC: 0}, sigOp{K: sigSetLocal, PC: 0, Ty: tyPranswer, Ref: n + 3})
	case ssHRP:
		ops = append(ops, hlo...)
		ops = append(ops, sigOp{K: sigSetRemote, PC: 1, Ty: tyOffer, Ref: n}, sigOp{K: sigCreateAnswer, PC: 1},
			sigOp{K: sigSetLocal, PC: 1, Ty: tyPranswer, Ref: n + 3}, sigOp{K: sigSetRemote, PC: 0, Ty: tyPranswer, Ref: n + 3})
	}
	return ops
}

func c02Scenarios() []sigCase {
	var out []sigCase
	for _, reneg := range []bool{false, true} {
		for _, state := range []int{ssStable, ssHLO, ssHRO, ssHLP, ssHRP} {
			pre := c02Prefix(state, reneg)
			lastCreate, firstCreate := -1, -1
			for i, o := range pre {
				if o.K <= sigCreateAnswer {
					lastCreate = i
					if firstCreate < 0 {
						firstCreate = i
					}
				}
			}
			for _, side := range []int{sigSetLocal, sigSetRemote} {
				for _, ref := range []int{-1, lastCreate, firstCreate} {
					if ref == firstCreate && (firstCreate == lastCreate) && ref != -1 {
						continue
					}
					if ref == -1 && lastCreate == -1 && side == sigSetRemote {
						// still a case: empty text from a fresh connection
					}
					for follow := 0; follow < 3; follow++ {
						ops := append([]sigOp{}, pre...)
						ops = append(ops, sigOp{K: side, PC: 0, Ty: tyRollback, Ref: ref})
						switch follow {
						case 1: // the application starts over with a new offer
							k := len(ops)
							ops = append(ops, sigOp{K: sigCreateOffer, PC: 0}, sigOp{K: sigSetLocal, PC: 0, Ty: tyOffer, Ref: k})
						case 2: // or tries to finish the exchange that was in progress
							k := len(ops)
							ops = append(ops, sigOp{K: sigCreateAnswer, PC: 0}, sigOp{K: sigSetLocal, PC: 0, Ty: tyAnswer, Ref: k},
								sigOp{K: sigCreateAnswer, PC: 1}, sigOp{K: sigSetLocal, PC: 1, Ty: tyAnswer, Ref: k + 2},
								sigOp{K: sigSetRemote, PC: 0, Ty: tyAnswer, Ref: k + 2})
						}
						out = append(out, sigCase{Cfg: [2]int{len(out) % 3, (len(out) / 3) % 3}, Ops: ops})
					}
				}
			}
		}
	}
	return out
}

// sigInsert puts op at position pos, re-indexing references
func sigInsert(c sigCase, pos int, op sigOp) sigCase {
	n := sigCase{Cfg: c.Cfg}
	for i, o := range c.Ops {
		if i == pos {
			n.Ops = append(n.Ops, op)
		}
		if o.Ref >= pos {
			o.Ref++
		}
		n.Ops = append(n.Ops, o)
	}
	if pos >= len(c.Ops) {
		n.Ops = append(n.Ops, op)
	}
	return n
}

func init() {
	Register(Spec[sigCase]{
		ID: "C02", Suite: "rollback", CoqImports: []string{"Check.C02"},
		CoqType: "list Check.C01.hop", CoqRun: "Check.C02.run",
		Parallel:   8,
		Exhaustive: c02Scenarios,
		Run:        c02Run, Coq: sigCoq, Shrink: sigShrink,
	})
	Register(Spec[sigCase]{
		ID: "C02", Suite: "hist", CoqImports: []string{"Check.C02"},
		CoqType: "list Check.C01.hop", CoqRun: "Check.C02.run",
		Quick: 400, Thorough: 6000, Parallel: 8,
		Corpus: func() []sigCase {
			// the four witnesses of c02_full_refuted (Properties/C02.v `reach`), rollback without and with text
			var out []sigCase
			for _, st := range []int{ssHLO, ssHLP, ssHRO, ssHRP} {
				side := sigSetLocal
				if st == ssHRO || st == ssHRP {
					side = sigSetRemote
				}
				pre := c02Prefix(st, false)
				out = append(out, sigCase{Ops: append(append([]sigOp{}, pre...), sigOp{K: side, Ty: tyRollback, Ref: -1})},
					sigCase{Ops: append(append([]sigOp{}, pre...), sigOp{K: side, Ty: tyRollback, Ref: 0})})
			}
			return out
		},
		Gen: func(r *Rand, i int) sigCase {
			c := sigGenHistory(r, 10, nil, i%4 == 3)
			for k := r.Range(1, 3); k > 0; k-- {
				pos := r.Range(1, len(c.Ops))
				ref := -1
				if r.Bool() {
					for j := pos - 1; j >= 0; j-- {
						if c.Ops[j].K <= sigCreateAnswer {
							ref = j
							break
						}
					}
				}
				pc := r.Intn(2)
				if i%4 == 3 {
					pc = 0
				}
				c = sigInsert(c, pos, sigOp{K: sigSetLocal + r.Intn(2), PC: pc, Ty: tyRollback, Ref: ref})
			}
			return c
		},
		Run: c02Run, Coq: sigCoq, Shrink: sigShrink,
	})
}
