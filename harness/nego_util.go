//go:build verif_c12

package main

// Shared driver of the negotiation family (C12, C04): two real PeerConnections
// in signalling-only mode, driven by a list of primitive calls. Every call made
// on a peer is recorded twice: as a Gallina term of Model.OfferShape.op (with
// the values the implementation drew at random, and the remote description
// projected to mid / media / direction) and as the observation of that call.

import (
	"encoding/json"
	"errors"
	"fmt"
	"math/bits"
	"os"
	"strings"
	"sync"

	"github.com/pion/sdp/v3"
	"github.com/pion/webrtc/v4"
)

type nOp struct {
	P      int    `json:"p"`                // peer the call is made on
	K      string `json:"k"`                // which call
	Kind   int    `json:"kind,omitempty"`   // 1 audio, 2 video
	Dir    int    `json:"dir,omitempty"`    // 0 = no direction given, 1..4
	TI     int    `json:"ti,omitempty"`     // transceiver index
	ID     string `json:"id,omitempty"`     // track id
	Stream string `json:"stream,omitempty"` // stream id
	RID    string `json:"rid,omitempty"`
	Nil    bool   `json:"nil,omitempty"`   // ReplaceTrack(nil)
	Munge  int    `json:"munge,omitempty"` // deliver-answer: rewrite every media direction to this value
	MidTo  string `json:"midto,omitempty"` // deliver-answer / deliver-pranswer: the last m-section's mid becomes this
}

type nCase struct {
	Always [2]bool `json:"always"` // AlwaysNegotiateDataChannels per peer
	Engine [2]int  `json:"engine"` // MediaEngine variant per peer
	Ops    []nOp   `json:"ops"`
}

const (
	nAddTrack     = "addtrack"
	nAddTcvKind   = "addtcvkind"
	nAddTcvTrack  = "addtcvtrack"
	nAddEncoding  = "addenc"
	nRemoveTrack  = "removetrack"
	nReplaceTrack = "replacetrack"
	nDataChannel  = "dc"
	nOffer        = "offer"
	nAnswer       = "answer"
	nSetLocalO    = "setlocal-offer"
	nSetLocalA    = "setlocal-answer"
	nDeliverO     = "deliver-offer"  // P receives the other peer's last offer
	nDeliverA     = "deliver-answer" // P receives the other peer's last answer
	nSetLocalP    = "setlocal-pranswer" // the last created answer, set as type pranswer
	nDeliverP     = "deliver-pranswer"  // P receives the other peer's last answer as type pranswer
	nClose        = "close"
)

// MediaEngine variants: 0 opus+VP8, 1 default codecs (video RTX), 2 default +
// flexfec-03, 3 opus+VP8+flexfec-03
func nEngine(variant int) *webrtc.MediaEngine {
	me := &webrtc.MediaEngine{}
	must := func(err error) {
		if err != nil {
			panic(err)
		}
	}
	fec := webrtc.RTPCodecParameters{
		RTPCodecCapability: webrtc.RTPCodecCapability{MimeType: webrtc.MimeTypeFlexFEC03, ClockRate: 90000,
			SDPFmtpLine: "repair-window=10000000"},
		PayloadType: 120,
	}
	switch variant {
	case 1:
		must(me.RegisterDefaultCodecs())
	case 2:
		must(me.RegisterDefaultCodecs())
		must(me.RegisterCodec(fec, webrtc.RTPCodecTypeVideo))
	default:
		must(me.RegisterCodec(webrtc.RTPCodecParameters{
			RTPCodecCapability: webrtc.RTPCodecCapability{MimeType: webrtc.MimeTypeOpus, ClockRate: 48000, Channels: 2,
				SDPFmtpLine: "minptime=10;useinbandfec=1"},
			PayloadType: 111,
		}, webrtc.RTPCodecTypeAudio))
		must(me.RegisterCodec(webrtc.RTPCodecParameters{
			RTPCodecCapability: webrtc.RTPCodecCapability{MimeType: webrtc.MimeTypeVP8, ClockRate: 90000},
			PayloadType:        96,
		}, webrtc.RTPCodecTypeVideo))
		if variant == 3 {
			must(me.RegisterCodec(fec, webrtc.RTPCodecTypeVideo))
		}
	}
	return me
}

func nEngineRepair(variant int) (rtxVideo, fecVideo bool) {
	return variant == 1 || variant == 2, variant == 2 || variant == 3
}

type nPeer struct {
	pc         *webrtc.PeerConnection
	always     bool
	engine     int
	lastOffer  string // SDP of the last successful CreateOffer
	lastAnswer string
	dcs        int
	remoteSeen bool // a remote description was applied (RTX/FEC may have been negotiated away)
	coq        []string
	obs        VL
	calls      int
}

type nWorld struct {
	peers [2]*nPeer
	// hooks
	afterCall func(w *nWorld, p int, op nOp, status string) // after each executed call (queues drained)
	onOffer   func(w *nWorld, p int, offer *sdp.SessionDescription)
	settle    func(pc *webrtc.PeerConnection)
}

func nKind(k int) webrtc.RTPCodecType {
	if k == 1 {
		return webrtc.RTPCodecTypeAudio
	}
	return webrtc.RTPCodecTypeVideo
}
func nCoqKind(k int) string {
	if k == 1 {
		return "Audio"
	}
	return "Video"
}
func nCoqDirOpt(d int) string {
	switch d {
	case 1:
		return "(Some Sendrecv)"
	case 2:
		return "(Some Sendonly)"
	case 3:
		return "(Some Recvonly)"
	case 4:
		return "(Some Inactive)"
	}
	return "None"
}

func nTrack(op nOp) *webrtc.TrackLocalStaticSample {
	cp := webrtc.RTPCodecCapability{MimeType: webrtc.MimeTypeVP8, ClockRate: 90000}
	if op.Kind == 1 {
		cp = webrtc.RTPCodecCapability{MimeType: webrtc.MimeTypeOpus, ClockRate: 48000, Channels: 2}
	}
	var opts []func(*webrtc.TrackLocalStaticRTP)
	if op.RID != "" {
		opts = append(opts, webrtc.WithRTPStreamID(op.RID))
	}
	t, err := webrtc.NewTrackLocalStaticSample(cp, op.ID, op.Stream, opts...)
	if err != nil {
		panic(err)
	}
	return t
}

// the encoding a sender just got, as the model's encin
func nCoqEncIn(s *webrtc.RTPSender, idx int) string {
	if s == nil {
		return `(I "" "" "" 0 0 0)`
	}
	encs := s.GetParameters().Encodings
	if idx < 0 {
		idx = len(encs) - 1
	}
	if idx >= len(encs) {
		return `(I "" "" "" 0 0 0)`
	}
	e := encs[idx]
	id, stream := "", ""
	if t := s.Track(); t != nil {
		id, stream = t.ID(), t.StreamID()
	}
	return fmt.Sprintf("(I %s %s %s %d %d %d)", CoqString(id), CoqString(stream), CoqString(e.RID),
		uint32(e.SSRC), uint32(e.RTX.SSRC), uint32(e.FEC.SSRC))
}

const nNoEnc = `(I "" "" "" 0 0 0)`

// the track the harness handed in (its own ids) with the SSRCs the sender drew
func nCoqEncOf(op nOp, s *webrtc.RTPSender, idx int, ok bool) string {
	var ssrc, rtx, fec uint32
	if ok && s != nil {
		encs := s.GetParameters().Encodings
		if idx < 0 {
			idx = len(encs) - 1
		}
		if idx < len(encs) {
			ssrc, rtx, fec = uint32(encs[idx].SSRC), uint32(encs[idx].RTX.SSRC), uint32(encs[idx].FEC.SSRC)
		}
	}
	return fmt.Sprintf("(I %s %s %s %d %d %d)", CoqString(op.ID), CoqString(op.Stream), CoqString(op.RID), ssrc, rtx, fec)
}

func nStatus(err error) string {
	switch {
	case err == nil:
		return "ok"
	case errors.Is(err, webrtc.ErrConnectionClosed):
		return "closed"
	}
	return "err"
}

func nDirOf(m *sdp.MediaDescription) int {
	for _, a := range m.Attributes {
		switch a.Key {
		case "sendrecv":
			return 1
		case "sendonly":
			return 2
		case "recvonly":
			return 3
		case "inactive":
			return 4
		}
	}
	return 0
}

func nMediaKind(m *sdp.MediaDescription) int {
	switch {
	case strings.EqualFold(m.MediaName.Media, "audio"):
		return 1
	case strings.EqualFold(m.MediaName.Media, "video"):
		return 2
	case m.MediaName.Media == "application":
		return 3
	}
	return 0
}

func nMid(m *sdp.MediaDescription) (string, bool) { return m.Attribute("mid") }

// attributes of a section that addSenderSDP is responsible for, in order
func nSenderAttrs(m *sdp.MediaDescription) [][2]string {
	var out [][2]string
	for _, a := range m.Attributes {
		switch a.Key {
		case "msid", "ssrc", "ssrc-group":
			out = append(out, [2]string{a.Key, a.Value})
		case "rid":
			if strings.HasSuffix(a.Value, " send") {
				out = append(out, [2]string{a.Key, a.Value})
			}
		case "simulcast":
			if strings.HasPrefix(a.Value, "send ") {
				out = append(out, [2]string{a.Key, a.Value})
			}
		}
	}
	return out
}

func nVOpt(present bool, v V) V {
	if !present {
		return VL{}
	}
	return VL{v}
}

// projection of a generated description (coq/Check/C12.v V_desc)
func nVDesc(d *sdp.SessionDescription) V {
	out := VL{}
	for _, m := range d.MediaDescriptions {
		mid, ok := nMid(m)
		dir := nDirOf(m)
		attrs := VL{}
		for _, a := range nSenderAttrs(m) {
			attrs = append(attrs, VL{VS(a[0]), VS(a[1])})
		}
		out = append(out, VL{nVOpt(ok, VS(mid)), VZ(nMediaKind(m)), nVOpt(dir != 0, VZ(dir)), attrs})
	}
	return out
}

// a remote description as the model's list of sections
func nCoqSecs(d *sdp.SessionDescription) string {
	var parts []string
	for _, m := range d.MediaDescriptions {
		mid, ok := nMid(m)
		mk := [...]string{"MOther", "MAudio", "MVideo", "MApp"}[nMediaKind(m)]
		parts = append(parts, fmt.Sprintf("S %s %s %s", CoqOpt(ok, CoqString(mid)), mk, nCoqDirOpt(nDirOf(m))))
	}
	return CoqList(parts)
}

// coq/Check/C12.v V_tcv over GetTransceivers()
func nVTcvs(pc *webrtc.PeerConnection) V {
	out := VL{}
	for _, t := range pc.GetTransceivers() {
		kind := 2
		if t.Kind() == webrtc.RTPCodecTypeAudio {
			kind = 1
		}
		sv := VL{}
		if s := t.Sender(); s != nil {
			tv := VL{}
			if tr := s.Track(); tr != nil {
				tv = VL{VL{VS(tr.ID()), VS(tr.StreamID())}}
			}
			encs := VL{}
			for _, e := range s.GetParameters().Encodings {
				encs = append(encs, VL{VS(e.RID), VZ(int64(e.SSRC)), VZ(int64(e.RTX.SSRC)), VZ(int64(e.FEC.SSRC))})
			}
			sv = VL{VL{tv, encs}}
		}
		out = append(out, VL{VS(t.Mid()), VZ(kind), VZ(int(t.Direction())), sv})
	}
	return out
}

func nNewWorld(c nCase) *nWorld {
	signalOnly(true)
	w := &nWorld{}
	for i := 0; i < 2; i++ {
		api := newQuietAPI(nEngine(c.Engine[i]))
		pc, err := api.NewPeerConnection(webrtc.Configuration{AlwaysNegotiateDataChannels: c.Always[i]})
		if err != nil {
			panic(err)
		}
		w.peers[i] = &nPeer{pc: pc, always: c.Always[i], engine: c.Engine[i]}
	}
	w.settle = drain
	return w
}

func (w *nWorld) close() {
	for _, p := range w.peers {
		_ = p.pc.Close()
	}
}

func (w *nWorld) settleAll() {
	for _, p := range w.peers {
		w.settle(p.pc)
	}
}

func nMungeDirections(sdpText string, dir int) string {
	name := [...]string{"", "sendrecv", "sendonly", "recvonly", "inactive"}[dir]
	lines := strings.Split(sdpText, "\r\n")
	inMedia, isApp := false, false
	for i, l := range lines {
		if strings.HasPrefix(l, "m=") {
			inMedia = true
			isApp = strings.HasPrefix(l, "m=application")
		}
		if inMedia && !isApp {
			switch l {
			case "a=sendrecv", "a=sendonly", "a=recvonly", "a=inactive":
				lines[i] = "a=" + name
			}
		}
	}
	return strings.Join(lines, "\r\n")
}

// the last m-section's a=mid becomes `to` (a remote description naming a mid
// this side has no transceiver for)
func nMungeLastMid(sdpText, to string) string {
	lines := strings.Split(sdpText, "\r\n")
	was := ""
	for i := len(lines) - 1; i >= 0; i-- {
		if strings.HasPrefix(lines[i], "a=mid:") {
			was = strings.TrimPrefix(lines[i], "a=mid:")
			lines[i] = "a=mid:" + to
			break
		}
	}
	// keep the BUNDLE group consistent (extractICEDetails reads the credentials
	// of the bundle's first mid)
	for i, l := range lines {
		if strings.HasPrefix(l, "a=group:BUNDLE") && was != "" {
			f := strings.Split(l, " ")
			for j := 1; j < len(f); j++ {
				if f[j] == was {
					f[j] = to
				}
			}
			lines[i] = strings.Join(f, " ")
		}
	}
	return strings.Join(lines, "\r\n")
}

// exec makes one call on the real PeerConnection; returns false when the call
// is not made at all (nothing recorded).
func (w *nWorld) exec(op nOp) bool {
	p := w.peers[op.P]
	q := w.peers[1-op.P]
	pc := p.pc
	var (
		coq    string
		status string
		descV  V = VL{}
	)
	tcvAt := func(i int) *webrtc.RTPTransceiver {
		ts := pc.GetTransceivers()
		if i < 0 || i >= len(ts) {
			return nil
		}
		return ts[i]
	}
	switch op.K {
	case nAddTrack:
		s, err := pc.AddTrack(nTrack(op))
		status = nStatus(err)
		coq = fmt.Sprintf("OAddTrack %s %s", nCoqKind(op.Kind), nCoqEncOf(op, s, 0, err == nil))
	case nAddTcvKind:
		var (
			t   *webrtc.RTPTransceiver
			err error
		)
		if op.Dir == 0 {
			t, err = pc.AddTransceiverFromKind(nKind(op.Kind), webrtc.RTPTransceiverInit{})
		} else {
			t, err = pc.AddTransceiverFromKind(nKind(op.Kind),
				webrtc.RTPTransceiverInit{Direction: webrtc.RTPTransceiverDirection(op.Dir)})
		}
		status = nStatus(err)
		enc := nNoEnc
		if err == nil {
			enc = nCoqEncIn(t.Sender(), 0)
		}
		coq = fmt.Sprintf("OAddTcvKind %s %s %s", nCoqKind(op.Kind), nCoqDirOpt(op.Dir), enc)
	case nAddTcvTrack:
		var (
			t   *webrtc.RTPTransceiver
			err error
		)
		if op.Dir == 0 {
			t, err = pc.AddTransceiverFromTrack(nTrack(op), webrtc.RTPTransceiverInit{})
		} else {
			t, err = pc.AddTransceiverFromTrack(nTrack(op),
				webrtc.RTPTransceiverInit{Direction: webrtc.RTPTransceiverDirection(op.Dir)})
		}
		status = nStatus(err)
		var snd *webrtc.RTPSender
		if err == nil {
			snd = t.Sender()
		}
		coq = fmt.Sprintf("OAddTcvTrack %s %s %s", nCoqKind(op.Kind), nCoqDirOpt(op.Dir), nCoqEncOf(op, snd, 0, err == nil))
	case nAddEncoding:
		t := tcvAt(op.TI)
		enc := nCoqEncOf(op, nil, 0, false)
		if t == nil || t.Sender() == nil {
			status = "skip"
		} else {
			err := t.Sender().AddEncoding(nTrack(op))
			status = nStatus(err)
			enc = nCoqEncOf(op, t.Sender(), -1, err == nil)
		}
		coq = fmt.Sprintf("OAddEncoding %d %s %s", op.TI, nCoqKind(op.Kind), enc)
	case nRemoveTrack:
		t := tcvAt(op.TI)
		if t == nil || t.Sender() == nil {
			status = "skip"
		} else {
			status = nStatus(pc.RemoveTrack(t.Sender()))
		}
		coq = fmt.Sprintf("ORemoveTrack %d", op.TI)
	case nReplaceTrack:
		t := tcvAt(op.TI)
		trk := "None"
		if !op.Nil {
			trk = fmt.Sprintf(`(Some (T %s %s ""))`, CoqString(op.ID), CoqString(op.Stream))
		}
		if t == nil || t.Sender() == nil {
			status = "skip"
		} else if op.Nil {
			status = nStatus(t.Sender().ReplaceTrack(nil))
		} else {
			o2 := op
			o2.RID = ""
			status = nStatus(t.Sender().ReplaceTrack(nTrack(o2)))
		}
		coq = fmt.Sprintf("OReplaceTrack %d %s %s", op.TI, nCoqKind(op.Kind), trk)
	case nDataChannel:
		_, err := pc.CreateDataChannel(fmt.Sprintf("dc%d", p.dcs), nil)
		status = nStatus(err)
		if err == nil {
			p.dcs++
		}
		coq = "OCreateDC"
	case nOffer:
		offer, err := pc.CreateOffer(nil)
		status = nStatus(err)
		coq = "OCreateOffer"
		if err == nil {
			p.lastOffer = offer.SDP
			parsed := &sdp.SessionDescription{}
			if e := parsed.UnmarshalString(offer.SDP); e != nil {
				panic(e)
			}
			descV = VL{nVDesc(parsed)}
			if w.onOffer != nil {
				w.onOffer(w, op.P, parsed)
			}
		}
	case nAnswer:
		answer, err := pc.CreateAnswer(nil)
		status = nStatus(err)
		coq = "OCreateAnswer"
		if err == nil {
			p.lastAnswer = answer.SDP
			parsed := &sdp.SessionDescription{}
			if e := parsed.UnmarshalString(answer.SDP); e != nil {
				panic(e)
			}
			descV = VL{nVDesc(parsed)}
		}
	case nSetLocalO:
		// empty SDP: JSEP 5.4, the last created offer is used
		status = nStatus(pc.SetLocalDescription(webrtc.SessionDescription{Type: webrtc.SDPTypeOffer}))
		coq = "OSetLocal TOffer"
	case nSetLocalA:
		status = nStatus(pc.SetLocalDescription(webrtc.SessionDescription{Type: webrtc.SDPTypeAnswer}))
		coq = "OSetLocal TAnswer"
	case nSetLocalP:
		status = nStatus(pc.SetLocalDescription(webrtc.SessionDescription{Type: webrtc.SDPTypePranswer}))
		coq = "OSetLocal TPranswer"
	case nDeliverO, nDeliverA, nDeliverP:
		text, ty, cty := q.lastOffer, webrtc.SDPTypeOffer, "TOffer"
		if op.K != nDeliverO {
			text, ty, cty = q.lastAnswer, webrtc.SDPTypeAnswer, "TAnswer"
			if op.K == nDeliverP {
				ty, cty = webrtc.SDPTypePranswer, "TPranswer"
			}
			if op.Munge != 0 && text != "" {
				text = nMungeDirections(text, op.Munge)
			}
			if op.MidTo != "" && text != "" {
				text = nMungeLastMid(text, op.MidTo)
			}
		}
		if text == "" {
			return false
		}
		parsed := &sdp.SessionDescription{}
		if e := parsed.UnmarshalString(text); e != nil {
			panic(e)
		}
		status = nStatus(pc.SetRemoteDescription(webrtc.SessionDescription{Type: ty, SDP: text}))
		w.settleAll()
		ra, fa := pc.VerifRepairEnabled(webrtc.RTPCodecTypeAudio)
		rv, fv := pc.VerifRepairEnabled(webrtc.RTPCodecTypeVideo)
		p.remoteSeen = true
		coq = fmt.Sprintf("OSetRemote %s %s (E %s %s %s %s)", cty, nCoqSecs(parsed),
			CoqBool(ra), CoqBool(rv), CoqBool(fa), CoqBool(fv))
	case nClose:
		status = nStatus(pc.Close())
		coq = "OClose"
	default:
		panic("unknown op " + op.K)
	}
	w.settleAll()
	p.coq = append(p.coq, coq)
	p.obs = append(p.obs, VL{VS(status), descV, nVTcvs(pc)})
	p.calls++
	if w.afterCall != nil {
		w.afterCall(w, op.P, op, status)
	}
	return true
}

// the case as a Gallina term: list (bool * list op)
func (w *nWorld) coqCase() string {
	var peers []string
	for _, p := range w.peers {
		peers = append(peers, fmt.Sprintf("(%s, %s)", CoqBool(p.always), CoqList(p.coq)))
	}
	return CoqList(peers)
}

func (w *nWorld) observation() V {
	return VL{w.peers[0].obs, w.peers[1].obs}
}

// ---------- generator ----------

var (
	nTrackIDs  = []string{"ta", "tb", "tc", "td"}
	nStreamIDs = []string{"s1", "s2"}
	nRIDs      = []string{"q", "h", "f"}
)

func nGenLocal(r *Rand, p int) nOp {
	op := nOp{P: p, Kind: r.Range(1, 2), ID: Pick(r, nTrackIDs), Stream: Pick(r, nStreamIDs)}
	switch x := r.Intn(100); {
	case x < 22:
		op.K = nAddTrack
		if r.Chance(1, 4) {
			op.RID = Pick(r, nRIDs)
		}
	case x < 38:
		op.K = nAddTcvKind
		op.Dir = Pick(r, []int{1, 1, 2, 3, 3, 4, 0})
	case x < 52:
		op.K = nAddTcvTrack
		op.Dir = Pick(r, []int{1, 2, 2, 3, 0})
		if r.Chance(1, 3) {
			op.RID = Pick(r, nRIDs)
		}
	case x < 62:
		op.K = nAddEncoding
		op.TI = r.Intn(5)
		op.RID = Pick(r, append(nRIDs, ""))
	case x < 76:
		op.K = nRemoveTrack
		op.TI = r.Intn(5)
	case x < 88:
		op.K = nReplaceTrack
		op.TI = r.Intn(5)
		op.Nil = r.Chance(1, 3)
	default:
		op.K = nDataChannel
	}
	return op
}

// a full exchange offered by peer a, as primitive calls
func nExchange(a int) []nOp {
	b := 1 - a
	return []nOp{{P: a, K: nOffer}, {P: a, K: nSetLocalO}, {P: b, K: nDeliverO}, {P: b, K: nAnswer},
		{P: b, K: nSetLocalA}, {P: a, K: nDeliverA}}
}

// the same with provisional answers: b sets its answer as pranswer first, a
// receives it as pranswer, then the final answer follows on both sides
func nExchangePranswer(a int, again bool) []nOp {
	b := 1 - a
	ops := []nOp{{P: a, K: nOffer}, {P: a, K: nSetLocalO}, {P: b, K: nDeliverO}, {P: b, K: nAnswer},
		{P: b, K: nSetLocalP}, {P: a, K: nDeliverP}}
	if again {
		ops = append(ops, nOp{P: b, K: nAnswer})
	}
	return append(ops, nOp{P: b, K: nSetLocalA}, nOp{P: a, K: nDeliverA})
}

func nGenCase(r *Rand, offerAfterEach bool) nCase {
	c := nCase{Always: [2]bool{r.Chance(1, 6), r.Chance(1, 8)}, Engine: [2]int{r.Intn(4), r.Intn(4)}}
	n := r.Range(2, 9)
	for k := 0; k < n; k++ {
		switch x := r.Intn(100); {
		case x < 55:
			p := 0
			if r.Chance(1, 3) {
				p = 1
			}
			c.Ops = append(c.Ops, nGenLocal(r, p))
			if offerAfterEach && (p == 0 || r.Chance(1, 2)) {
				c.Ops = append(c.Ops, nOp{P: p, K: nOffer})
			}
		case x < 85:
			a := 0
			if r.Chance(2, 5) {
				a = 1
			}
			ex := nExchange(a)
			if r.Chance(1, 4) {
				ex = nExchangePranswer(a, r.Chance(1, 2))
			}
			for _, e := range ex {
				if (e.K == nDeliverA || e.K == nDeliverP) && r.Chance(1, 14) {
					e.MidTo = Pick(r, []string{"9", "7", "x"}) // the answer names a mid unknown here
				}
				if r.Chance(1, 12) { // something else happens in the middle of the exchange
					c.Ops = append(c.Ops, nGenLocal(r, r.Intn(2)))
				}
				if r.Chance(1, 40) {
					continue // a step is lost
				}
				c.Ops = append(c.Ops, e)
			}
			if offerAfterEach {
				c.Ops = append(c.Ops, nOp{P: r.Intn(2), K: nOffer})
			}
		case x < 93:
			c.Ops = append(c.Ops, nOp{P: r.Intn(2), K: Pick(r, []string{nOffer, nOffer, nAnswer, nSetLocalO, nSetLocalA, nDeliverO, nDeliverA,
				nSetLocalP, nDeliverP})})
		case x < 97:
			c.Ops = append(c.Ops, nOp{P: r.Intn(2), K: nClose})
		default:
			c.Ops = append(c.Ops, nOp{P: 0, K: nOffer})
		}
	}
	return c
}

func nShrink(c nCase) []nCase {
	var out []nCase
	for i := range c.Ops {
		d := c
		d.Ops = append(append([]nOp{}, c.Ops[:i]...), c.Ops[i+1:]...)
		out = append(out, d)
	}
	for i := 0; i < 2; i++ {
		if c.Engine[i] != 0 {
			d := c
			d.Engine[i] = 0
			out = append(out, d)
		}
		if c.Always[i] {
			d := c
			d.Always[i] = false
			out = append(out, d)
		}
	}
	return out
}

// ---------- Run -> Coq hand-over ----------
// lib.go calls Run(in) and then Coq(in) for the same input; the model input of
// this family contains values observed during Run, so Run leaves it here.

type nCacheEntry struct {
	coq       string
	pending   int
	ambiguous bool
}

type nCache struct {
	mu sync.Mutex
	m  map[string]*nCacheEntry
}

func newNCache() *nCache { return &nCache{m: map[string]*nCacheEntry{}} }
func nKey(c nCase) string {
	b, _ := json.Marshal(c)
	return string(b)
}

// put: two executions of the same input in flight at once cannot be told apart
// by Coq(in); both are then left out of the model comparison (direct oracle only).
func (n *nCache) put(c nCase, coq string) {
	n.mu.Lock()
	defer n.mu.Unlock()
	k := nKey(c)
	if e, ok := n.m[k]; ok {
		e.ambiguous = true
		e.pending++
		return
	}
	n.m[k] = &nCacheEntry{coq: coq, pending: 1}
}
func (n *nCache) take(c nCase) string {
	n.mu.Lock()
	defer n.mu.Unlock()
	k := nKey(c)
	e, ok := n.m[k]
	if !ok {
		return ""
	}
	e.pending--
	if e.pending <= 0 {
		delete(n.m, k)
	}
	if e.ambiguous {
		return ""
	}
	return e.coq
}

// ---------- digest of an observation (coq/Common/NegoDigest.v) ----------

const dgP = uint64(2305843009213693951) // 2^61 - 1

func dgStep(h, x uint64) uint64 {
	hi, lo := bits.Mul64(h, 1000003)
	_, r := bits.Div64(hi, lo, dgP)
	return (r + x%dgP + 1) % dgP
}

func dgV(h uint64, v V) uint64 {
	switch x := v.(type) {
	case VZ:
		var e uint64
		switch {
		case x > 0:
			e = 2 * uint64(x)
		case x < 0:
			e = 2*uint64(-x) - 1
		}
		return dgStep(dgStep(h, 1), e)
	case VS:
		h = dgStep(dgStep(h, 2), uint64(len(x)))
		for i := 0; i < len(x); i++ {
			h = dgStep(h, uint64(x[i]))
		}
		return h
	case VB:
		b := uint64(0)
		if x {
			b = 1
		}
		return dgStep(dgStep(h, 3), b)
	case VL:
		h = dgStep(dgStep(h, 4), uint64(len(x)))
		for _, e := range x {
			h = dgV(h, e)
		}
		return h
	}
	panic("dgV: unknown V")
}

// nFull: NEGO_FULL=1 keeps the full observation in the case files (slow to
// parse; for diagnosing a digest mismatch)
var nFull = os.Getenv("NEGO_FULL") == "1"

func nDigest(v V) V {
	if nFull {
		return v
	}
	return VZ(int64(dgV(7, v)))
}
func nCoqRun(full, digest string) string {
	if nFull {
		return full
	}
	return digest
}
