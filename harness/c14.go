//go:build verif_c14

package main

// C14: DTLS authenticates the peer against the signalled fingerprint.
//
// Suites
//   extract   generated descriptions (fingerprint at session / media / both /
//             conflicting / absent, bundle groups, malformed values) through
//             pion/sdp and extractFingerprint
//   validate  fingerprint lists against real ECDSA / RSA certificates through
//             validateFingerPrint and the DTLS VerifyPeerCertificate callback
//   chain     certificate chains of 0..3 raw certificates (signalled certificate
//             first / later / absent, duplicates, unparseable entries) through
//             the DTLS VerifyPeerCertificate callback: only the leaf counts
//   rawpeer   (c14_rawpeer.go) CONNECTED: a regular DTLSTransport against a bare
//             pion/ice + pion/dtls peer that presents a chain of its choosing
//   advertise real offers: where the fingerprint is written and what it is
//   conn      CONNECTED in-process pairs over loopback (real ICE/DTLS/SCTP)
//             with the signalled fingerprint munged, plus control runs

import (
	"crypto"
	"crypto/ecdsa"
	"crypto/elliptic"
	"crypto/md5"
	"crypto/rand"
	"crypto/rsa"
	"crypto/sha1"
	"crypto/sha256"
	"crypto/sha512"
	"crypto/x509"
	"encoding/pem"
	"fmt"
	"hash"
	"regexp"
	"strings"
	"sync"
	"time"

	"github.com/pion/dtls/v3/pkg/crypto/fingerprint"
	"github.com/pion/ice/v4"
	"github.com/pion/sdp/v3"
	"github.com/pion/webrtc/v4"
)

// ---------------------------------------------------------------- certificates

type c14Cert struct {
	cert *webrtc.Certificate
	x509 *x509.Certificate
	der  []byte
	name string
	key  crypto.PrivateKey
}

var (
	c14PoolOnce sync.Once
	c14Pool     []c14Cert
)

// 0: ECDSA P-256, 1: RSA-2048, 2: ECDSA P-384, 3: a second ECDSA P-256
func c14Certs() []c14Cert {
	c14PoolOnce.Do(func() {
		add := func(name string, key crypto.PrivateKey) {
			c, err := webrtc.GenerateCertificate(key)
			if err != nil {
				panic(err)
			}
			text, err := c.PEM()
			if err != nil {
				panic(err)
			}
			blk, _ := pem.Decode([]byte(text))
			x, err := x509.ParseCertificate(blk.Bytes)
			if err != nil {
				panic(err)
			}
			c14Pool = append(c14Pool, c14Cert{c, x, blk.Bytes, name, key})
		}
		k0, _ := ecdsa.GenerateKey(elliptic.P256(), rand.Reader)
		add("ecdsa-p256", k0)
		k1, err := rsa.GenerateKey(rand.Reader, 2048)
		if err != nil {
			panic(err)
		}
		add("rsa-2048", k1)
		k2, _ := ecdsa.GenerateKey(elliptic.P384(), rand.Reader)
		add("ecdsa-p384", k2)
		k3, _ := ecdsa.GenerateKey(elliptic.P256(), rand.Reader)
		add("ecdsa-p256-b", k3)
	})
	return c14Pool
}

// independent digest: crypto/* directly, lower hex pairs joined by ':'
func c14Digest(algo string, der []byte) (string, bool) {
	var h hash.Hash
	switch strings.ToLower(algo) {
	case "md5":
		h = md5.New()
	case "sha-1":
		h = sha1.New()
	case "sha-224":
		h = sha256.New224()
	case "sha-256":
		h = sha256.New()
	case "sha-384":
		h = sha512.New384()
	case "sha-512":
		h = sha512.New()
	default:
		return "", false
	}
	h.Write(der)
	sum := h.Sum(nil)
	parts := make([]string, len(sum))
	for i, b := range sum {
		parts[i] = fmt.Sprintf("%02x", b)
	}
	return strings.Join(parts, ":"), true
}

// the library's view (what the model's H is instantiated with)
func c14LibFingerprint(algo string, x *x509.Certificate) (string, bool) {
	h, err := fingerprint.HashFromString(algo)
	if err != nil {
		return "", false
	}
	v, err := fingerprint.Fingerprint(x, h)
	if err != nil {
		return "", false
	}
	return v, true
}

func c14Printable(s string) bool {
	for i := 0; i < len(s); i++ {
		if s[i] < 32 || s[i] > 126 {
			return false
		}
	}
	return true
}

// ---------------------------------------------------------------- extract

type c14Attr [2]string

type c14Desc struct {
	Session []c14Attr   `json:"session"`
	Media   [][]c14Attr `json:"media"`
}

func c14BuildSDP(in c14Desc) *sdp.SessionDescription {
	d := &sdp.SessionDescription{
		Origin:      sdp.Origin{Username: "-", SessionID: 1, SessionVersion: 1, NetworkType: "IN", AddressType: "IP4", UnicastAddress: "0.0.0.0"},
		SessionName: "-",
		TimeDescriptions: []sdp.TimeDescription{{}},
	}
	for _, a := range in.Session {
		d.Attributes = append(d.Attributes, sdp.Attribute{Key: a[0], Value: a[1]})
	}
	for i, m := range in.Media {
		md := &sdp.MediaDescription{
			MediaName: sdp.MediaName{Media: []string{"audio", "video", "application"}[i%3], Port: sdp.RangedPort{Value: 9},
				Protos: []string{"UDP", "TLS", "RTP", "SAVPF"}, Formats: []string{"111"}},
			ConnectionInformation: &sdp.ConnectionInformation{NetworkType: "IN", AddressType: "IP4", Address: &sdp.Address{Address: "0.0.0.0"}},
		}
		for _, a := range m {
			md.Attributes = append(md.Attributes, sdp.Attribute{Key: a[0], Value: a[1]})
		}
		d.MediaDescriptions = append(d.MediaDescriptions, md)
	}
	return d
}

func c14SameAttrs(d *sdp.SessionDescription, in c14Desc) bool {
	if len(d.Attributes) != len(in.Session) || len(d.MediaDescriptions) != len(in.Media) {
		return false
	}
	for i, a := range in.Session {
		if d.Attributes[i].Key != a[0] || d.Attributes[i].Value != a[1] {
			return false
		}
	}
	for i, m := range in.Media {
		if len(d.MediaDescriptions[i].Attributes) != len(m) {
			return false
		}
		for k, a := range m {
			if d.MediaDescriptions[i].Attributes[k].Key != a[0] || d.MediaDescriptions[i].Attributes[k].Value != a[1] {
				return false
			}
		}
	}
	return true
}

func c14ExtractRun(in c14Desc) (V, Verdict) {
	direct := c14BuildSDP(in)
	use, route := direct, "struct"
	// the route SetRemoteDescription takes: text through pion/sdp's parser
	if text, err := direct.Marshal(); err == nil {
		sd := webrtc.SessionDescription{Type: webrtc.SDPTypeOffer, SDP: string(text)}
		if parsed, err := sd.Unmarshal(); err == nil && c14SameAttrs(parsed, in) {
			use, route = parsed, "text"
		}
	}
	value, hashName, err := webrtc.VerifExtractFingerprint(use)
	var obs V
	if err != nil {
		obs = VL{VS("err"), VS(webrtc.VerifFingerprintErrClass(err))}
	} else {
		obs = VL{VS("ok"), VL{VS(value), VS(hashName)}}
	}
	// direct oracle: the pair used for authentication is one that the
	// description carries; the session level has priority; no fingerprint, no success
	var all []string
	sessionFP, haveSession := "", false
	for _, a := range in.Session {
		if a[0] == "fingerprint" {
			all = append(all, a[1])
			if !haveSession {
				sessionFP, haveSession = a[1], true
			}
		}
	}
	for _, m := range in.Media {
		for _, a := range m {
			if a[0] == "fingerprint" {
				all = append(all, a[1])
			}
		}
	}
	if err == nil {
		found := false
		for _, f := range all {
			found = found || f == hashName+" "+value
		}
		if !found {
			return obs, Fail("extracted-fingerprint-not-in-description", fmt.Sprintf("(%q,%q) is not an attribute of %+v", hashName, value, in))
		}
		if haveSession && sessionFP != "" && sessionFP != hashName+" "+value {
			return obs, Fail("session-level-fingerprint-not-preferred", fmt.Sprintf("session has %q, extracted (%q,%q)", sessionFP, hashName, value))
		}
	}
	nonEmpty := 0
	for _, f := range all {
		if f != "" {
			nonEmpty++
		}
	}
	if nonEmpty == 0 && (err == nil || webrtc.VerifFingerprintErrClass(err) != "no-fingerprint") {
		return obs, Fail("no-fingerprint-not-reported", fmt.Sprintf("%+v -> %v", in, err))
	}
	if haveSession && sessionFP != "" && len(strings.Split(sessionFP, " ")) == 2 && err != nil {
		return obs, Fail("wellformed-session-fingerprint-rejected", fmt.Sprintf("%q -> %v", sessionFP, err))
	}
	cl := route + "/"
	switch {
	case len(all) == 0:
		cl += "absent"
	case haveSession && len(all) > 1:
		cl += "both"
	case haveSession:
		cl += "session"
	default:
		cl += "media"
	}
	if err != nil {
		cl += "/" + webrtc.VerifFingerprintErrClass(err)
	}
	return obs, Pass(cl, len(all) > 0)
}

func c14AttrsCoq(l []c14Attr) string {
	parts := make([]string, len(l))
	for i, a := range l {
		parts[i] = "(" + CoqString(a[0]) + ", " + CoqString(a[1]) + ")"
	}
	return CoqList(parts)
}

func c14ExtractCoq(in c14Desc) string {
	for _, a := range in.Session {
		if !c14Printable(a[0]) || !c14Printable(a[1]) {
			return ""
		}
	}
	ms := make([]string, len(in.Media))
	for i, m := range in.Media {
		for _, a := range m {
			if !c14Printable(a[0]) || !c14Printable(a[1]) {
				return ""
			}
		}
		ms[i] = c14AttrsCoq(m)
	}
	return "(" + c14AttrsCoq(in.Session) + ", " + CoqList(ms) + ")"
}

var c14HashNames = []string{"sha-256", "sha-1", "sha-384", "sha-512", "md5", "sha-224", "SHA-256", "sha-999", "sha256", ""}

func c14FPValue(r *Rand) string {
	certs := c14Certs()
	c := certs[r.Intn(len(certs))]
	algo := Pick(r, c14HashNames[:6])
	v, _ := c14Digest(algo, c.der)
	v = strings.ToUpper(v)
	switch r.Intn(12) {
	case 0:
		return "" // attribute without value
	case 1:
		return algo // one token
	case 2:
		return algo + "  " + v // double space: three pieces
	case 3:
		return algo + " " + v + " extra"
	case 4:
		return " " + algo + " " + v
	case 5:
		return algo + " " + strings.ToLower(v)
	case 6:
		return Pick(r, c14HashNames) + " " + v
	}
	return algo + " " + v
}

func c14ExtractGen(r *Rand, _ int) c14Desc {
	var d c14Desc
	nm := r.Range(1, 4)
	if r.Chance(1, 15) {
		nm = 0
	}
	mids := []string{"0", "1", "2", "audio", "data"}
	group := Pick(r, []string{"", "", "BUNDLE 0 1 2", "BUNDLE 1 0", "BUNDLE 0", "BUNDLE", "BUNDLE  0", "LS 0 1",
		"BUNDLE audio data", "xBUNDLEx 2", "BUNDLE 7"})
	// 0 session, 1 media(all), 2 both, 3 conflicting media, 4 absent, 5 some media
	placement := Pick(r, []int{0, 0, 0, 1, 1, 1, 2, 2, 3, 4, 5, 5})
	same := c14FPValue(r)
	d.Session = append(d.Session, c14Attr{"ice-lite", ""})
	if group != "" {
		d.Session = append(d.Session, c14Attr{"group", group})
	}
	if placement == 0 || placement == 2 {
		d.Session = append(d.Session, c14Attr{"fingerprint", same})
		if r.Chance(1, 8) {
			d.Session = append(d.Session, c14Attr{"fingerprint", c14FPValue(r)}) // a second one: the first counts
		}
	}
	if r.Chance(1, 10) {
		d.Session = append(d.Session, c14Attr{"msid-semantic", " WMS"})
	}
	for i := 0; i < nm; i++ {
		var m []c14Attr
		if !r.Chance(1, 8) {
			m = append(m, c14Attr{"mid", mids[i]})
		}
		m = append(m, c14Attr{"setup", "actpass"})
		switch placement {
		case 1:
			m = append(m, c14Attr{"fingerprint", same})
		case 2:
			if r.Bool() {
				m = append(m, c14Attr{"fingerprint", c14FPValue(r)})
			} else {
				m = append(m, c14Attr{"fingerprint", same})
			}
		case 3:
			m = append(m, c14Attr{"fingerprint", c14FPValue(r)})
		case 5:
			if r.Bool() {
				m = append(m, c14Attr{"fingerprint", c14FPValue(r)})
			}
		}
		if r.Chance(1, 6) {
			m = append(m, c14Attr{"ice-ufrag", "abcd"})
		}
		if r.Chance(1, 10) { // mid after the fingerprint, duplicate mid
			m = append(m, c14Attr{"mid", mids[(i+1)%5]})
		}
		d.Media = append(d.Media, m)
	}
	return d
}

func c14ExtractCorpus() []c14Desc {
	fp := "sha-256 AA:BB"
	return []c14Desc{
		{Session: []c14Attr{{"fingerprint", fp}}},
		{Media: [][]c14Attr{{{"mid", "0"}, {"fingerprint", fp}}}},
		{Session: []c14Attr{{"fingerprint", fp}}, Media: [][]c14Attr{{{"mid", "0"}, {"fingerprint", "sha-1 CC"}}}},
		{Session: []c14Attr{{"group", "BUNDLE 1 0"}}, Media: [][]c14Attr{{{"mid", "0"}, {"fingerprint", fp}}, {{"mid", "1"}, {"fingerprint", "sha-1 CC"}}}},
		{Session: []c14Attr{{"group", "BUNDLE 1 0"}}, Media: [][]c14Attr{{{"mid", "0"}, {"fingerprint", fp}}, {{"mid", "1"}}}},
		{Session: []c14Attr{{"group", "BUNDLE 0"}}, Media: [][]c14Attr{{{"mid", "0"}}}},
		{},
		{Session: []c14Attr{{"fingerprint", ""}}, Media: [][]c14Attr{{{"fingerprint", fp}}}},
		{Session: []c14Attr{{"fingerprint", "sha-256"}}},
		{Session: []c14Attr{{"fingerprint", "sha-256 AA BB"}}},
		{Session: []c14Attr{{"fingerprint", "sha-256  AA"}}},
		{Media: [][]c14Attr{{{"fingerprint", ""}}, {{"fingerprint", fp}}}},
	}
}

func c14ExtractShrink(in c14Desc) []c14Desc {
	var out []c14Desc
	for i := range in.Media {
		d := c14Desc{Session: in.Session}
		d.Media = append(append([][]c14Attr{}, in.Media[:i]...), in.Media[i+1:]...)
		out = append(out, d)
	}
	for i := range in.Session {
		d := c14Desc{Media: in.Media}
		d.Session = append(append([]c14Attr{}, in.Session[:i]...), in.Session[i+1:]...)
		out = append(out, d)
	}
	for i, m := range in.Media {
		for k := range m {
			d := c14Desc{Session: in.Session}
			d.Media = append([][]c14Attr{}, in.Media...)
			d.Media[i] = append(append([]c14Attr{}, m[:k]...), m[k+1:]...)
			out = append(out, d)
		}
	}
	return out
}

// ---------------------------------------------------------------- validate

type c14ValIn struct {
	Cert int       `json:"cert"`
	Fps  []c14Attr `json:"fps"` // (algorithm, value)
}

func c14ValidateRun(in c14ValIn) (V, Verdict) {
	c := c14Certs()[in.Cert]
	fps := make([]webrtc.DTLSFingerprint, len(in.Fps))
	for i, f := range in.Fps {
		fps[i] = webrtc.DTLSFingerprint{Algorithm: f[0], Value: f[1]}
	}
	err := webrtc.VerifValidateFingerprint(fps, c.x509)
	cls := webrtc.VerifFingerprintErrClass(err)
	var obs V
	if err != nil {
		obs = VL{VS("err"), VS(cls)}
	} else {
		obs = VL{VS("ok"), VL{}}
	}
	// the callback pion/dtls actually calls must say the same; with
	// verification explicitly disabled it accepts
	cbErr := webrtc.NewAPI().VerifVerifyPeerCertificate(fps, [][]byte{c.der})
	if (cbErr == nil) != (err == nil) || webrtc.VerifFingerprintErrClass(cbErr) != cls {
		return obs, Fail("verify-callback-differs-from-validate", fmt.Sprintf("validate: %v, callback: %v", err, cbErr))
	}
	se := webrtc.SettingEngine{}
	se.DisableCertificateFingerprintVerification(true)
	if e := webrtc.NewAPI(webrtc.WithSettingEngine(se)).VerifVerifyPeerCertificate(fps, [][]byte{c.der}); e != nil {
		return obs, Fail("verify-callback-rejects-with-verification-disabled", e.Error())
	}
	if e := webrtc.NewAPI().VerifVerifyPeerCertificate(fps, nil); e == nil {
		return obs, Fail("verify-callback-accepts-without-certificate", "no raw certificate, nil error")
	}
	// direct oracle, with digests computed here
	anyMatch, firstMatch := false, false
	for i, f := range in.Fps {
		d, known := c14Digest(f[0], c.der)
		m := known && strings.EqualFold(d, f[1])
		anyMatch = anyMatch || m
		if i == 0 {
			firstMatch = m
		}
	}
	if err == nil && !anyMatch {
		return obs, Fail("accepted-without-matching-fingerprint", fmt.Sprintf("cert %s accepted against %v", c.name, in.Fps))
	}
	if err != nil && firstMatch {
		return obs, Fail("matching-first-fingerprint-rejected", fmt.Sprintf("cert %s rejected (%v) against %v", c.name, err, in.Fps))
	}
	cl := c.name + "/"
	switch {
	case err == nil:
		cl += "accepted"
	default:
		cl += cls
	}
	return obs, Pass(cl, len(in.Fps) > 0)
}

func c14ValidateCoq(in c14ValIn) string {
	c := c14Certs()[in.Cert]
	fps := make([]string, len(in.Fps))
	seen := map[string]bool{}
	var table []string
	for i, f := range in.Fps {
		if !c14Printable(f[0]) || !c14Printable(f[1]) {
			return ""
		}
		fps[i] = "(" + CoqString(f[0]) + ", " + CoqString(f[1]) + ")"
		if !seen[f[0]] {
			seen[f[0]] = true
			v, ok := c14LibFingerprint(f[0], c.x509)
			table = append(table, "("+CoqString(f[0])+", "+CoqOpt(ok, CoqString(v))+")")
		}
	}
	return "(" + CoqList(fps) + ", " + CoqList(table) + ")"
}

const c14Hex = "0123456789abcdef"

func c14AlterDigit(v string, pos int, r *Rand) string {
	// pos counts hex digits, skipping colons
	b := []byte(v)
	k := -1
	for i := range b {
		if b[i] == ':' {
			continue
		}
		k++
		if k == pos {
			old := strings.IndexByte(c14Hex, strings.ToLower(string(b[i]))[0])
			nw := (old + 1 + r.Intn(15)) % 16
			b[i] = c14Hex[nw]
			if r.Bool() {
				b[i] = strings.ToUpper(string(b[i]))[0]
			}
			break
		}
	}
	return string(b)
}

// each hex digit of the SHA-256 value altered, for the ECDSA and the RSA certificate
func c14ValidateExhaustive() []c14ValIn {
	var out []c14ValIn
	r := NewRand(14)
	for ci := 0; ci < 2; ci++ {
		d, _ := c14Digest("sha-256", c14Certs()[ci].der)
		up := strings.ToUpper(d)
		for pos := 0; pos < 64; pos++ {
			out = append(out, c14ValIn{ci, []c14Attr{{"sha-256", c14AlterDigit(up, pos, r)}}})
		}
	}
	return out
}

// a fingerprint list aimed at certificate ci of the pool: right values in any
// letter case, and every kind of wrong one
func c14GenFps(r *Rand, ci int) []c14Attr {
	certs := c14Certs()
	c := certs[ci]
	right := func() c14Attr {
		algo := Pick(r, c14HashNames[:7])
		v, _ := c14Digest(algo, c.der)
		switch r.Intn(3) {
		case 0:
			v = strings.ToUpper(v)
		case 1:
			b := []byte(v)
			for i := range b {
				if r.Bool() {
					b[i] = strings.ToUpper(string(b[i]))[0]
				}
			}
			v = string(b)
		}
		return c14Attr{algo, v}
	}
	wrong := func() c14Attr {
		f := right()
		switch r.Intn(9) {
		case 0:
			f[1] = c14AlterDigit(f[1], r.Intn(len(strings.ReplaceAll(f[1], ":", ""))), r)
		case 1: // another hash's name for this value
			f[0] = Pick(r, c14HashNames[:6])
		case 2:
			f[0] = Pick(r, c14HashNames[7:]) // unknown name
		case 3: // another certificate's value
			o := certs[(ci+1+r.Intn(len(certs)-1))%len(certs)]
			f[1], _ = c14Digest(f[0], o.der)
		case 4:
			f[1] = f[1][:len(f[1])-3]
		case 5:
			f[1] = strings.ReplaceAll(f[1], ":", "")
		case 6:
			f[1] = ""
		case 7:
			f[1] += ":00"
		case 8:
			f[1] = " " + f[1]
		}
		return f
	}
	var fps []c14Attr
	switch r.Intn(8) {
	case 0:
		fps = []c14Attr{right()}
	case 1:
		fps = []c14Attr{wrong()}
	case 2:
		fps = []c14Attr{wrong(), right()}
	case 3:
		fps = []c14Attr{right(), wrong()}
	case 4:
		fps = []c14Attr{wrong(), wrong(), wrong()}
	case 5:
		fps = []c14Attr{}
	default:
		for i, n := 0, r.Range(1, 4); i < n; i++ {
			if r.Chance(1, 3) {
				fps = append(fps, right())
			} else {
				fps = append(fps, wrong())
			}
		}
	}
	return fps
}

func c14ValidateGen(r *Rand, _ int) c14ValIn {
	ci := r.Intn(len(c14Certs()))
	return c14ValIn{ci, c14GenFps(r, ci)}
}

func c14ValidateCorpus() []c14ValIn {
	c := c14Certs()
	d0, _ := c14Digest("sha-256", c[0].der)
	d1, _ := c14Digest("sha-256", c[1].der)
	s1, _ := c14Digest("sha-1", c[1].der)
	return []c14ValIn{
		{0, []c14Attr{{"sha-256", strings.ToUpper(d0)}}},
		{1, []c14Attr{{"sha-256", d1}}},
		{1, []c14Attr{{"sha-1", s1}}},
		{0, []c14Attr{{"sha-256", d1}}},                              // the other peer's value
		{0, []c14Attr{{"sha-1", d0}}},                                // right value, other hash name
		{0, []c14Attr{{"sha-999", d0}}},                              // unknown hash name
		{0, []c14Attr{{"sha-999", d0}, {"sha-256", d0}}},             // unknown name before the right one
		{0, []c14Attr{{"SHA-256", d0}}},                              // names are case-insensitive
		{0, nil},                                                     // no fingerprint
		{1, []c14Attr{{"sha-256", d0}, {"sha-512", d1}, {"sha-256", d1}}}, // the right one last
	}
}

// ---------------------------------------------------------------- chain

// The certificate chain of the peer's Certificate message as pion/dtls hands
// it to the VerifyPeerCertificate callback: 0..3 raw certificates.  The DTLS
// handshake authenticates the key of the FIRST one (the leaf); "a peer whose
// certificate doesn't match any fingerprint" is therefore a peer whose leaf
// does not match, whatever else the chain carries.
type c14ChainIn struct {
	Chain    []int     `json:"chain"` // pool indices; c14Garbage / c14Truncated: not a certificate
	Fps      []c14Attr `json:"fps"`
	Disabled bool      `json:"disabled"`
}

const (
	c14Garbage   = 100 // bytes that are not DER at all
	c14Truncated = 101 // the first half of pool certificate 0
)

func c14ChainDER(k int) []byte {
	switch k {
	case c14Garbage:
		return []byte("-----not a certificate-----")
	case c14Truncated:
		d := c14Certs()[0].der
		return append([]byte{}, d[:len(d)/2]...)
	default:
		return c14Certs()[k].der
	}
}

// does the certificate with these bytes match the list, and MUST the loop
// accept it (a match not preceded by an entry whose hash name is unknown)?
func c14Matches(fps []c14Attr, der []byte) (any, must bool) {
	blocked := false
	for _, f := range fps {
		d, known := c14Digest(f[0], der)
		if !known {
			blocked = true
			continue
		}
		if strings.EqualFold(d, f[1]) {
			any = true
			if !blocked {
				must = true
			}
		}
	}
	return any, must
}

func c14ChainAPI(disabled bool) *webrtc.API {
	se := webrtc.SettingEngine{}
	se.DisableCertificateFingerprintVerification(disabled)
	return webrtc.NewAPI(webrtc.WithSettingEngine(se))
}

func c14ChainCall(in c14ChainIn, chain []int) (remote []byte, err error, cls string) {
	fps := make([]webrtc.DTLSFingerprint, len(in.Fps))
	for i, f := range in.Fps {
		fps[i] = webrtc.DTLSFingerprint{Algorithm: f[0], Value: f[1]}
	}
	raw := make([][]byte, len(chain))
	for i, k := range chain {
		raw[i] = c14ChainDER(k)
	}
	remote, err = c14ChainAPI(in.Disabled).VerifVerifyPeerCertificateChain(fps, raw)
	cls = webrtc.VerifFingerprintErrClass(err)
	if cls == "hash-error" && len(raw) > 0 {
		// an error that is none of the sentinels: x509.ParseCertificate's, if it
		// is what parsing the first entry gives here
		if _, perr := x509.ParseCertificate(raw[0]); perr != nil && perr.Error() == err.Error() {
			cls = "parse-error"
		}
	}
	return remote, err, cls
}

func c14ChainRun(in c14ChainIn) (V, Verdict) {
	remote, err, cls := c14ChainCall(in, in.Chain)
	pos := -1
	if remote != nil {
		pos = len(in.Chain) // recorded something that is not in the chain
		for i, k := range in.Chain {
			if string(c14ChainDER(k)) == string(remote) {
				pos = i
				break
			}
		}
	}
	var res V
	if err != nil {
		res = VL{VS("err"), VS(cls)}
	} else {
		res = VL{VS("ok"), VL{}}
	}
	obs := VL{res, VZ(int64(pos))}
	desc := fmt.Sprintf("chain %v fps %v disabled=%v", in.Chain, in.Fps, in.Disabled)

	if len(in.Chain) == 0 {
		if err == nil {
			return obs, Fail("verify-callback-accepts-without-certificate", desc)
		}
		return obs, Pass("empty-chain/rejected", false)
	}
	leaf := c14ChainDER(in.Chain[0])
	_, leafErr := x509.ParseCertificate(leaf)
	leafAny, leafMust := false, false
	if leafErr == nil {
		leafAny, leafMust = c14Matches(in.Fps, leaf)
	}
	laterAny := false
	for _, k := range in.Chain[1:] {
		der := c14ChainDER(k)
		if _, e := x509.ParseCertificate(der); e == nil && string(der) != string(leaf) {
			if a, _ := c14Matches(in.Fps, der); a {
				laterAny = true
			}
		}
	}
	if in.Disabled {
		if err != nil {
			return obs, Fail("verify-callback-rejects-with-verification-disabled", desc+": "+err.Error())
		}
		if string(remote) != string(leaf) {
			return obs, Fail("remote-certificate-is-not-the-leaf", fmt.Sprintf("%s: recorded chain position %d", desc, pos))
		}
		return obs, Pass(fmt.Sprintf("len%d/verification-disabled", len(in.Chain)), true)
	}
	switch {
	case err == nil && !leafAny && laterAny:
		return obs, Fail("accepted-on-non-leaf-chain-certificate",
			desc+": the leaf matches no signalled fingerprint, a later chain entry does")
	case err == nil && !leafAny:
		return obs, Fail("accepted-without-matching-fingerprint", desc)
	case err != nil && leafMust:
		return obs, Fail("matching-leaf-rejected", desc+": "+err.Error())
	}
	// the certificate the transport reports as the peer's is the one the
	// handshake authenticated: the leaf
	if string(remote) != string(leaf) {
		return obs, Fail("remote-certificate-is-not-the-leaf", fmt.Sprintf("%s: recorded chain position %d", desc, pos))
	}
	// nothing after the leaf may influence the verdict
	if len(in.Chain) > 1 {
		_, err1, cls1 := c14ChainCall(in, in.Chain[:1])
		if (err1 == nil) != (err == nil) || cls1 != cls {
			return obs, Fail("chain-tail-changes-verdict", fmt.Sprintf("%s: %v, leaf alone: %v", desc, err, err1))
		}
	}
	where := "absent"
	switch {
	case leafAny:
		where = "leaf"
	case laterAny:
		where = "later"
	}
	out := "accepted"
	if err != nil {
		out = cls
	}
	return obs, Pass(fmt.Sprintf("len%d/match-%s/%s", len(in.Chain), where, out), len(in.Chain) > 1 || len(in.Fps) > 0)
}

func c14ChainCoq(in c14ChainIn) string {
	fps := make([]string, len(in.Fps))
	var names []string
	seen := map[string]bool{}
	for i, f := range in.Fps {
		if !c14Printable(f[0]) || !c14Printable(f[1]) {
			return ""
		}
		fps[i] = "(" + CoqString(f[0]) + ", " + CoqString(f[1]) + ")"
		if !seen[f[0]] {
			seen[f[0]] = true
			names = append(names, f[0])
		}
	}
	chain := make([]string, len(in.Chain))
	for i, k := range in.Chain {
		x, err := x509.ParseCertificate(c14ChainDER(k))
		if err != nil {
			chain[i] = "None"
			continue
		}
		table := make([]string, len(names))
		for j, a := range names {
			v, ok := c14LibFingerprint(a, x)
			table[j] = "(" + CoqString(a) + ", " + CoqOpt(ok, CoqString(v)) + ")"
		}
		chain[i] = "Some " + CoqList(table)
	}
	return "(" + CoqBool(in.Disabled) + ", " + CoqList(fps) + ", " + CoqList(chain) + ")"
}

func c14ChainCorpus() []c14ChainIn {
	c := c14Certs()
	g0, _ := c14Digest("sha-256", c[0].der)
	g1, _ := c14Digest("sha-256", c[1].der)
	s1, _ := c14Digest("sha-1", c[1].der)
	G0 := []c14Attr{{"sha-256", strings.ToUpper(g0)}}
	return []c14ChainIn{
		{[]int{3, 0}, G0, false},                 // the peer authenticates with its own certificate and appends the signalled one
		{[]int{0, 3}, G0, false},                 // the signalled one is the leaf
		{[]int{0}, G0, false},                    //
		{[]int{3}, G0, false},                    //
		{[]int{1, 2, 0}, G0, false},              // signalled certificate last of three
		{[]int{3, 0, 0}, G0, false},              // duplicates after a foreign leaf
		{[]int{0, 0}, G0, false},                 // duplicate leaf
		{[]int{3, 0}, G0, true},                  // verification disabled: the only bypass
		{[]int{0, c14Garbage}, G0, false},        // garbage after a matching leaf is never parsed
		{[]int{3, c14Garbage}, G0, false},        //
		{[]int{c14Garbage, 0}, G0, false},        // unparseable leaf
		{[]int{c14Truncated, 0}, G0, false},      //
		{[]int{c14Garbage, 0}, G0, true},         // disabled: not even parsed
		{nil, G0, false},                         // no certificate
		{nil, G0, true},                          //
		{[]int{2, 1}, []c14Attr{{"sha-999", g1}, {"sha-1", s1}}, false}, // unknown hash name first; the later entry matches
		{[]int{0, 1}, []c14Attr{{"sha-256", g1}, {"sha-256", g0}}, false}, // both signalled: the leaf's is second in the list
		{[]int{2, 1, 0}, nil, false},             // nothing signalled
	}
}

// every arrangement of up to three of {signalled certificate G, two others}
// (with repetition) against G's advertised fingerprint, verification on
func c14ChainExhaustive() []c14ChainIn {
	g, _ := c14Digest("sha-256", c14Certs()[1].der)
	fps := []c14Attr{{"sha-256", strings.ToUpper(g)}}
	els := []int{1, 0, 3}
	var out []c14ChainIn
	for _, a := range els {
		out = append(out, c14ChainIn{[]int{a}, fps, false})
		for _, b := range els {
			out = append(out, c14ChainIn{[]int{a, b}, fps, false})
			for _, c := range els {
				out = append(out, c14ChainIn{[]int{a, b, c}, fps, false})
			}
		}
	}
	return out
}

func c14ChainGen(r *Rand, _ int) c14ChainIn {
	certs := c14Certs()
	gi := r.Intn(len(certs)) // the certificate the fingerprint list is aimed at
	in := c14ChainIn{Fps: c14GenFps(r, gi), Disabled: r.Chance(1, 12)}
	other := func() int {
		if r.Chance(1, 10) {
			return Pick(r, []int{c14Garbage, c14Truncated})
		}
		return (gi + 1 + r.Intn(len(certs)-1)) % len(certs)
	}
	n := r.Range(1, 3)
	if r.Chance(1, 40) {
		n = 0
	}
	where := r.Intn(4) // 0: G first, 1: G later, 2: G absent, 3: free mix with duplicates
	for i := 0; i < n; i++ {
		switch where {
		case 0:
			if i == 0 {
				in.Chain = append(in.Chain, gi)
			} else {
				in.Chain = append(in.Chain, other())
			}
		case 1:
			if i == 0 {
				in.Chain = append(in.Chain, other())
			} else if i == n-1 || r.Bool() {
				in.Chain = append(in.Chain, gi)
			} else {
				in.Chain = append(in.Chain, other())
			}
		case 2:
			in.Chain = append(in.Chain, other())
		default:
			if i > 0 && r.Chance(1, 3) {
				in.Chain = append(in.Chain, in.Chain[r.Intn(i)]) // duplicate
			} else if r.Bool() {
				in.Chain = append(in.Chain, gi)
			} else {
				in.Chain = append(in.Chain, other())
			}
		}
	}
	if r.Chance(1, 6) { // a second signalled certificate: fingerprints of two certificates in one list
		in.Fps = append(in.Fps, c14GenFps(r, (gi+1)%len(certs))...)
	}
	return in
}

func c14ChainShrink(in c14ChainIn) []c14ChainIn {
	var out []c14ChainIn
	for i := range in.Chain {
		if len(in.Chain) > 1 {
			c := append(append([]int{}, in.Chain[:i]...), in.Chain[i+1:]...)
			out = append(out, c14ChainIn{c, in.Fps, in.Disabled})
		}
	}
	for i := range in.Fps {
		f := append(append([]c14Attr{}, in.Fps[:i]...), in.Fps[i+1:]...)
		out = append(out, c14ChainIn{in.Chain, f, in.Disabled})
	}
	return out
}

// ---------------------------------------------------------------- advertise

type c14AdvIn struct {
	Cert       int  `json:"cert"`
	MediaLevel bool `json:"media_level"`
	Audio      bool `json:"audio"`
	Video      bool `json:"video"`
	Data       bool `json:"data"`
}

func c14AdvObserve(in c14AdvIn) (session []string, media [][]string, group *string, mids []string, ex V, err error) {
	se := webrtc.SettingEngine{}
	se.SetICEMulticastDNSMode(ice.MulticastDNSModeDisabled)
	se.SetNetworkTypes([]webrtc.NetworkType{webrtc.NetworkTypeUDP4})
	se.SetInterfaceFilter(func(string) bool { return false })
	se.SetSDPMediaLevelFingerprints(in.MediaLevel)
	api := webrtc.NewAPI(webrtc.WithSettingEngine(se))
	pc, err := api.NewPeerConnection(webrtc.Configuration{Certificates: []webrtc.Certificate{*c14Certs()[in.Cert].cert}})
	if err != nil {
		return nil, nil, nil, nil, nil, err
	}
	defer pc.Close() //nolint:errcheck
	if in.Audio {
		if _, err = pc.AddTransceiverFromKind(webrtc.RTPCodecTypeAudio); err != nil {
			return
		}
	}
	if in.Video {
		if _, err = pc.AddTransceiverFromKind(webrtc.RTPCodecTypeVideo); err != nil {
			return
		}
	}
	if in.Data {
		if _, err = pc.CreateDataChannel("c14", nil); err != nil {
			return
		}
	}
	offer, err := pc.CreateOffer(nil)
	if err != nil {
		return
	}
	parsed, err := offer.Unmarshal()
	if err != nil {
		return
	}
	for _, a := range parsed.Attributes {
		if a.Key == "fingerprint" {
			session = append(session, a.Value)
		}
		if a.Key == "group" && group == nil {
			g := a.Value
			group = &g
		}
	}
	for _, m := range parsed.MediaDescriptions {
		var fs []string
		for _, a := range m.Attributes {
			if a.Key == "fingerprint" {
				fs = append(fs, a.Value)
			}
		}
		media = append(media, fs)
		mid, _ := m.Attribute("mid")
		mids = append(mids, mid)
	}
	v, h, xerr := webrtc.VerifExtractFingerprint(parsed)
	if xerr != nil {
		ex = VL{VS("err"), VS(webrtc.VerifFingerprintErrClass(xerr))}
	} else {
		ex = VL{VS("ok"), VL{VS(v), VS(h)}}
	}
	return session, media, group, mids, ex, nil
}

func c14StrsV(l []string) V {
	out := VL{}
	for _, s := range l {
		out = append(out, VS(s))
	}
	return out
}

func c14AdvRun(in c14AdvIn) (V, Verdict) {
	session, media, _, _, ex, err := c14AdvObserve(in)
	if err != nil {
		return VS("error"), Fail("offer-not-created", err.Error())
	}
	mv := VL{}
	for _, m := range media {
		mv = append(mv, c14StrsV(m))
	}
	obs := VL{c14StrsV(session), mv, ex}
	// direct oracle: SHA-256 of the configured certificate, upper case, at exactly one level
	d, _ := c14Digest("sha-256", c14Certs()[in.Cert].der)
	want := "sha-256 " + strings.ToUpper(d)
	count := 0
	for _, f := range session {
		count++
		if !strings.EqualFold(f, want) {
			return obs, Fail("advertised-fingerprint-is-not-sha256-of-certificate", fmt.Sprintf("session %q, want %q", f, want))
		}
	}
	mediaWith := 0
	for _, m := range media {
		if len(m) > 0 {
			mediaWith++
		}
		for _, f := range m {
			count++
			if !strings.EqualFold(f, want) {
				return obs, Fail("advertised-fingerprint-is-not-sha256-of-certificate", fmt.Sprintf("media %q, want %q", f, want))
			}
		}
	}
	switch {
	case count == 0:
		return obs, Fail("no-fingerprint-advertised", fmt.Sprintf("%+v", in))
	case len(session) > 0 && mediaWith > 0:
		return obs, Fail("fingerprint-advertised-at-both-levels", fmt.Sprintf("%+v", in))
	case in.MediaLevel && (len(session) > 0 || mediaWith != len(media)):
		return obs, Fail("media-level-fingerprint-missing-in-a-section", fmt.Sprintf("%+v: %d of %d", in, mediaWith, len(media)))
	case !in.MediaLevel && len(session) != 1:
		return obs, Fail("session-level-fingerprint-missing", fmt.Sprintf("%+v", in))
	}
	return obs, Pass(fmt.Sprintf("%s/media-level=%v/sections=%d", c14Certs()[in.Cert].name, in.MediaLevel, len(media)), true)
}

func c14AdvCoq(in c14AdvIn) string {
	_, _, group, mids, _, err := c14AdvObserve(in)
	if err != nil {
		return ""
	}
	h, ok := c14LibFingerprint("sha-256", c14Certs()[in.Cert].x509)
	if !ok {
		return ""
	}
	g := "None"
	if group != nil {
		g = "(Some " + CoqString(*group) + ")"
	}
	ms := make([]string, len(mids))
	for i, m := range mids {
		ms[i] = CoqString(m)
	}
	return fmt.Sprintf("(%s, %s, %s, %s)", CoqBool(in.MediaLevel), CoqString(h), g, CoqList(ms))
}

func c14AdvAll() []c14AdvIn {
	var out []c14AdvIn
	for cert := 0; cert < 3; cert++ {
		for ml := 0; ml < 2; ml++ {
			for mask := 1; mask < 8; mask++ {
				out = append(out, c14AdvIn{cert, ml == 1, mask&1 != 0, mask&2 != 0, mask&4 != 0})
			}
		}
	}
	return out
}

// ---------------------------------------------------------------- connected pairs

type c14ConnIn struct {
	OfferCert  int    `json:"offer_cert"`
	AnswerCert int    `json:"answer_cert"`
	Side       string `json:"side"`  // whose description is munged: "answer" (seen by the offerer) or "offer"
	Munge      string `json:"munge"` // none | digit:<n> | hash:<name> | other-cert | lower | drop | media-level
	Disabled   bool   `json:"disabled"` // verification explicitly disabled on the verifying side
	MediaLevel bool   `json:"media_level"`
}

func c14ConnAPI(mediaLevel, disabled bool) *webrtc.API {
	se := webrtc.SettingEngine{}
	se.SetICEMulticastDNSMode(ice.MulticastDNSModeDisabled)
	se.SetNetworkTypes([]webrtc.NetworkType{webrtc.NetworkTypeUDP4})
	se.SetInterfaceFilter(func(name string) bool { return name == "lo" })
	se.SetIncludeLoopbackCandidate(true)
	se.SetSDPMediaLevelFingerprints(mediaLevel)
	se.DisableCertificateFingerprintVerification(disabled)
	return webrtc.NewAPI(webrtc.WithSettingEngine(se))
}

var c14FPLine = regexp.MustCompile(`a=fingerprint:(\S+) (\S+)\r\n`)

// returns the munged SDP and the (algorithm, value) the verifying side will hold
func c14Munge(sdpText, munge string, otherDER []byte) (string, [][2]string) {
	var fps [][2]string
	out := c14FPLine.ReplaceAllStringFunc(sdpText, func(line string) string {
		m := c14FPLine.FindStringSubmatch(line)
		algo, val := m[1], m[2]
		switch {
		case munge == "none" || munge == "media-level":
		case strings.HasPrefix(munge, "digit:"):
			var n int
			fmt.Sscanf(munge, "digit:%d", &n)
			val = c14AlterDigit(val, n, NewRand(uint64(n)+99))
		case strings.HasPrefix(munge, "hash:"):
			algo = strings.TrimPrefix(munge, "hash:")
		case munge == "other-cert":
			d, _ := c14Digest("sha-256", otherDER)
			val = strings.ToUpper(d)
		case munge == "lower":
			val = strings.ToLower(val)
		case munge == "drop":
			return ""
		}
		fps = append(fps, [2]string{algo, val})
		return "a=fingerprint:" + algo + " " + val + "\r\n"
	})
	return out, fps
}

type c14Side struct {
	mu       sync.Mutex
	dtls     []webrtc.DTLSTransportState
	opens    int
	messages []string
}

func (s *c14Side) sawConnected() bool {
	s.mu.Lock()
	defer s.mu.Unlock()
	for _, st := range s.dtls {
		if st == webrtc.DTLSTransportStateConnected {
			return true
		}
	}
	return false
}
func (s *c14Side) terminal() bool {
	s.mu.Lock()
	defer s.mu.Unlock()
	for _, st := range s.dtls {
		if st == webrtc.DTLSTransportStateFailed || st == webrtc.DTLSTransportStateClosed {
			return true
		}
	}
	return false
}
func (s *c14Side) delivered() (int, int) {
	s.mu.Lock()
	defer s.mu.Unlock()
	return s.opens, len(s.messages)
}

func c14Watch(pc *webrtc.PeerConnection, s *c14Side) {
	pc.SCTP().Transport().OnStateChange(func(st webrtc.DTLSTransportState) {
		s.mu.Lock()
		s.dtls = append(s.dtls, st)
		s.mu.Unlock()
	})
}

func c14Wire(dc *webrtc.DataChannel, s *c14Side, hello string) {
	dc.OnOpen(func() {
		s.mu.Lock()
		s.opens++
		s.mu.Unlock()
		_ = dc.SendText(hello)
	})
	dc.OnMessage(func(m webrtc.DataChannelMessage) {
		s.mu.Lock()
		s.messages = append(s.messages, string(m.Data))
		s.mu.Unlock()
	})
}

func c14ConnRun(in c14ConnIn) (V, Verdict) {
	certs := c14Certs()
	verifierIsOfferer := in.Side == "answer"
	apiO := c14ConnAPI(in.MediaLevel, in.Disabled && verifierIsOfferer)
	apiA := c14ConnAPI(in.MediaLevel, in.Disabled && !verifierIsOfferer)
	pcO, err := apiO.NewPeerConnection(webrtc.Configuration{Certificates: []webrtc.Certificate{*certs[in.OfferCert].cert}})
	if err != nil {
		panic(err)
	}
	defer pcO.Close() //nolint:errcheck
	pcA, err := apiA.NewPeerConnection(webrtc.Configuration{Certificates: []webrtc.Certificate{*certs[in.AnswerCert].cert}})
	if err != nil {
		panic(err)
	}
	defer pcA.Close() //nolint:errcheck
	var sO, sA c14Side
	c14Watch(pcO, &sO)
	c14Watch(pcA, &sA)
	dc, err := pcO.CreateDataChannel("c14", nil)
	if err != nil {
		panic(err)
	}
	c14Wire(dc, &sO, "from-offerer")
	pcA.OnDataChannel(func(d *webrtc.DataChannel) { c14Wire(d, &sA, "from-answerer") })

	otherDER := certs[3].der
	setupErr := func() error {
		offer, err := pcO.CreateOffer(nil)
		if err != nil {
			return err
		}
		g := webrtc.GatheringCompletePromise(pcO)
		if err = pcO.SetLocalDescription(offer); err != nil {
			return err
		}
		<-g
		off := *pcO.LocalDescription()
		if in.Side == "offer" {
			off.SDP, _ = c14Munge(off.SDP, in.Munge, otherDER)
		}
		if err = pcA.SetRemoteDescription(off); err != nil {
			return fmt.Errorf("answerer SetRemoteDescription: %w", err)
		}
		answer, err := pcA.CreateAnswer(nil)
		if err != nil {
			return err
		}
		g = webrtc.GatheringCompletePromise(pcA)
		if err = pcA.SetLocalDescription(answer); err != nil {
			return err
		}
		<-g
		ans := *pcA.LocalDescription()
		if in.Side == "answer" {
			ans.SDP, _ = c14Munge(ans.SDP, in.Munge, otherDER)
		}
		if err = pcO.SetRemoteDescription(ans); err != nil {
			return fmt.Errorf("offerer SetRemoteDescription: %w", err)
		}
		return nil
	}()

	verifier, other := &sO, &sA
	verifierPC, presentedDER := pcO, certs[in.AnswerCert].der
	if !verifierIsOfferer {
		verifier, other = &sA, &sO
		verifierPC, presentedDER = pcA, certs[in.OfferCert].der
	}
	// what the verifying side holds, judged with digests computed here
	expectMatch := false
	{
		var text string
		if verifierIsOfferer {
			if d := pcA.LocalDescription(); d != nil {
				text = d.SDP
			}
		} else if d := pcO.LocalDescription(); d != nil {
			text = d.SDP
		}
		_, fps := c14Munge(text, in.Munge, otherDER)
		if len(fps) > 0 { // extractFingerprint settles on one value; all lines carry the same here
			d, known := c14Digest(fps[0][0], presentedDER)
			expectMatch = known && strings.EqualFold(d, fps[0][1])
		}
	}
	mustConnect := expectMatch || in.Disabled

	deadline := time.Now().Add(12 * time.Second)
	if setupErr == nil {
		for time.Now().Before(deadline) {
			if mustConnect {
				oo, om := sO.delivered()
				ao, am := sA.delivered()
				if oo > 0 && om > 0 && ao > 0 && am > 0 {
					break
				}
			} else if verifier.terminal() {
				break
			}
			time.Sleep(5 * time.Millisecond)
		}
		if !mustConnect {
			time.Sleep(400 * time.Millisecond) // anything late would show up now
		}
	}
	vo, vm := verifier.delivered()
	oo, om := other.delivered()
	connected := verifier.sawConnected()
	obs := VL{VB(setupErr == nil), VB(connected)}

	switch {
	case in.Munge == "drop":
		if setupErr == nil {
			return obs, Fail("description-without-fingerprint-accepted", "SetRemoteDescription returned nil")
		}
		if connected || vo+vm+oo+om > 0 {
			return obs, Fail("connected-without-fingerprint", fmt.Sprintf("dtls connected=%v opens/messages %d/%d %d/%d", connected, vo, vm, oo, om))
		}
		return obs, Pass("no-fingerprint/rejected-at-SetRemoteDescription", false)
	case setupErr != nil:
		return obs, Fail("signalling-failed", setupErr.Error())
	case !mustConnect:
		if connected {
			return obs, Fail("dtls-connected-despite-fingerprint-mismatch", fmt.Sprintf("%+v: verifier DTLS states %v", in, verifier.dtls))
		}
		if vo+vm > 0 {
			return obs, Fail("data-delivered-despite-fingerprint-mismatch", fmt.Sprintf("%+v: verifier opens %d messages %d", in, vo, vm))
		}
		if oo+om > 0 {
			return obs, Fail("data-delivered-to-peer-despite-fingerprint-mismatch", fmt.Sprintf("%+v: peer opens %d messages %d", in, oo, om))
		}
		if !verifier.terminal() {
			return obs, Pass("mismatch/never-connected-within-timeout", false)
		}
		return obs, Pass("mismatch/dtls-failed", false)
	}
	// control runs: must connect, deliver, and present the advertised certificate
	if !connected || vo == 0 || vm == 0 || oo == 0 || om == 0 {
		return obs, Fail("control-pair-did-not-connect", fmt.Sprintf("%+v: connected=%v opens/messages %d/%d %d/%d, verifier DTLS %v", in, connected, vo, vm, oo, om, verifier.dtls))
	}
	got := verifierPC.SCTP().Transport().GetRemoteCertificate()
	if string(got) != string(presentedDER) {
		return obs, Fail("presented-certificate-is-not-the-configured-one", "remote certificate differs from Configuration.Certificates[0]")
	}
	// the other direction: what the peer advertised is the SHA-256 of what it presented
	for _, p := range []struct {
		pc  *webrtc.PeerConnection
		der []byte
	}{{pcO, certs[in.OfferCert].der}, {pcA, certs[in.AnswerCert].der}} {
		d, _ := c14Digest("sha-256", p.der)
		ms := c14FPLine.FindAllStringSubmatch(p.pc.LocalDescription().SDP, -1)
		if len(ms) == 0 {
			return obs, Fail("no-fingerprint-advertised", "local description has no fingerprint line")
		}
		for _, m := range ms {
			if m[1] != "sha-256" || !strings.EqualFold(m[2], d) {
				return obs, Fail("advertised-fingerprint-is-not-sha256-of-certificate", m[0])
			}
		}
	}
	cl := "control"
	if in.Disabled {
		cl = "verification-disabled"
	}
	return obs, Pass(cl+"/"+certs[in.OfferCert].name+"+"+certs[in.AnswerCert].name, true)
}

// model view of a connected case: the fingerprint the verifying side holds and
// the hash table of the certificate the peer presents; under the assumed DTLS
// contract the pair connects iff validate accepts
func c14ConnCoq(in c14ConnIn) string {
	if in.Munge == "drop" || in.Disabled {
		return ""
	}
	certs := c14Certs()
	presenter := certs[in.AnswerCert]
	if in.Side == "offer" {
		presenter = certs[in.OfferCert]
	}
	d, _ := c14Digest("sha-256", presenter.der)
	line := "a=fingerprint:sha-256 " + strings.ToUpper(d) + "\r\n"
	_, fps := c14Munge(line, in.Munge, certs[3].der)
	if len(fps) != 1 {
		return ""
	}
	v, ok := c14LibFingerprint(fps[0][0], presenter.x509)
	return fmt.Sprintf("([(%s, %s)], [(%s, %s)])", CoqString(fps[0][0]), CoqString(fps[0][1]),
		CoqString(fps[0][0]), CoqOpt(ok, CoqString(v)))
}

func c14ConnCorpus() []c14ConnIn {
	return []c14ConnIn{
		{0, 0, "answer", "none", false, false},
		{1, 0, "answer", "none", false, false},
		{0, 1, "offer", "lower", false, false},
		{1, 1, "answer", "media-level", false, true},
		{0, 0, "answer", "digit:0", false, false},
		{0, 1, "answer", "digit:63", false, false},
		{1, 0, "offer", "digit:31", false, false},
		{0, 0, "offer", "digit:7", false, true},
		{0, 0, "answer", "hash:sha-1", false, false},
		{0, 1, "answer", "hash:sha-999", false, false},
		{1, 0, "offer", "hash:sha-512", false, false},
		{0, 0, "answer", "other-cert", false, false},
		{0, 1, "offer", "other-cert", false, false},
		{0, 0, "answer", "drop", false, false},
		{0, 0, "offer", "drop", false, false},
		{0, 0, "answer", "digit:12", true, false}, // verification explicitly disabled: the only bypass
	}
}

func c14ConnGen(r *Rand, _ int) c14ConnIn {
	in := c14ConnIn{OfferCert: r.Intn(2), AnswerCert: r.Intn(2), Side: Pick(r, []string{"answer", "offer"}),
		MediaLevel: r.Chance(1, 4)}
	switch r.Intn(8) {
	case 0:
		in.Munge = "none"
	case 1:
		in.Munge = "lower"
	case 2:
		in.Munge = "hash:" + Pick(r, []string{"sha-1", "sha-384", "sha-512", "md5", "sha-999", "sha256"})
	case 3:
		in.Munge = "other-cert"
	default:
		in.Munge = fmt.Sprintf("digit:%d", r.Intn(64))
	}
	return in
}

func init() {
	Register(Spec[c14Desc]{
		ID: "C14", Suite: "extract", CoqImports: []string{"Check.C14"},
		CoqType: "list (string * string) * list (list (string * string))", CoqRun: "Check.C14.run_extract",
		Quick: 1000, Thorough: 10000,
		Corpus: c14ExtractCorpus, Gen: c14ExtractGen, Run: c14ExtractRun, Coq: c14ExtractCoq, Shrink: c14ExtractShrink,
	})
	Register(Spec[c14ValIn]{
		ID: "C14", Suite: "validate", CoqImports: []string{"Check.C14"},
		CoqType: "list (string * string) * list (string * option string)", CoqRun: "Check.C14.run_validate",
		Quick: 800, Thorough: 10000,
		Corpus: c14ValidateCorpus, Exhaustive: c14ValidateExhaustive, Gen: c14ValidateGen,
		Run: c14ValidateRun, Coq: c14ValidateCoq,
	})
	Register(Spec[c14ChainIn]{
		ID: "C14", Suite: "chain", CoqImports: []string{"Check.C14"},
		CoqType: "bool * list (string * string) * list (option (list (string * option string)))", CoqRun: "Check.C14.run_chain",
		Quick: 800, Thorough: 4000,
		Corpus: c14ChainCorpus, Exhaustive: c14ChainExhaustive, Gen: c14ChainGen,
		Run: c14ChainRun, Coq: c14ChainCoq, Shrink: c14ChainShrink,
	})
	Register(Spec[c14AdvIn]{
		ID: "C14", Suite: "advertise", CoqImports: []string{"Check.C14"},
		CoqType: "bool * string * option string * list string", CoqRun: "Check.C14.run_advertise",
		Exhaustive: c14AdvAll, Run: c14AdvRun, Coq: c14AdvCoq, Parallel: 8,
	})
	Register(Spec[c14ConnIn]{
		ID: "C14", Suite: "conn", CoqImports: []string{"Check.C14"},
		CoqType: "list (string * string) * list (string * option string)", CoqRun: "Check.C14.run_conn",
		Quick: 8, Thorough: 240, Parallel: 12, Timeout: 40 * time.Second,
		Corpus: c14ConnCorpus, Gen: c14ConnGen, Run: c14ConnRun, Coq: c14ConnCoq,
	})
}
