//go:build verif_c21

package main

// C21 suite "connected": real in-process pairs over loopback (ICE + DTLS +
// SCTP, own API: loopback candidates on "lo" only), closed by 1-4 concurrent
// Close / GracefulClose callers at four setup stages, then every mutating API,
// then a goroutine census after GracefulClose (a runtime observation).

import (
	"errors"
	"fmt"
	"runtime"
	"strings"
	"sync"
	"time"

	"github.com/pion/webrtc/v4"
	"github.com/pion/webrtc/v4/pkg/media"
	"github.com/pion/webrtc/v4/pkg/rtcerr"
)

type c21ConnCase struct {
	Stage   int   `json:"stage"`   // 0 before SDP, 1 during ICE, 2 connected, 3 during data transfer
	Closers []int `json:"closers"` // 0 Close, 1 GracefulClose; all released together on the offerer
	Stagger int   `json:"stagger"` // microseconds between releases (0 = all at once)
}

// goroutines with a pion frame on their stack
func c21PionGoroutines() (int, string) {
	buf := make([]byte, 1<<20)
	for {
		n := runtime.Stack(buf, true)
		if n < len(buf) {
			buf = buf[:n]
			break
		}
		buf = make([]byte, 2*len(buf))
	}
	count, sample := 0, ""
	for _, g := range strings.Split(string(buf), "\n\n") {
		if strings.Contains(g, "github.com/pion/") && !strings.Contains(g, "verifharness") &&
			!strings.Contains(g, "main.") {
			count++
			if sample == "" {
				lines := strings.Split(g, "\n")
				if len(lines) > 3 {
					lines = lines[:3]
				}
				sample = strings.Join(lines, " | ")
			}
		}
	}
	return count, sample
}

func c21WaitState(pc *webrtc.PeerConnection, want webrtc.PeerConnectionState, d time.Duration) bool {
	deadline := time.Now().Add(d)
	for pc.ConnectionState() != want {
		if time.Now().After(deadline) {
			return false
		}
		time.Sleep(time.Millisecond)
	}
	return true
}

func c21RunConn(c c21ConnCase) (V, Verdict) {
	base, _ := c21PionGoroutines()
	a, b := c21NewEnv(true), c21NewEnv(true)
	class := fmt.Sprintf("stage%d/closers%v", c.Stage, c.Closers)
	cleanup := func() {
		_ = a.pc.GracefulClose()
		_ = b.pc.GracefulClose()
	}
	track, err := webrtc.NewTrackLocalStaticSample(webrtc.RTPCodecCapability{MimeType: webrtc.MimeTypeVP8}, "video", "c21")
	if err != nil {
		panic(err)
	}
	sender, err := a.pc.AddTrack(track)
	if err != nil {
		panic(err)
	}
	dc, err := a.pc.CreateDataChannel("c21", nil)
	if err != nil {
		panic(err)
	}
	dcOpen := make(chan struct{})
	var once sync.Once
	dc.OnOpen(func() { once.Do(func() { close(dcOpen) }) })
	b.pc.OnDataChannel(func(d *webrtc.DataChannel) { d.OnMessage(func(webrtc.DataChannelMessage) {}) })

	var offer, answer webrtc.SessionDescription
	if c.Stage >= 1 {
		// trickle: candidates are handed over as they appear
		a.pc.OnICECandidate(func(cand *webrtc.ICECandidate) {
			if cand != nil {
				_ = b.pc.AddICECandidate(cand.ToJSON())
			}
		})
		b.pc.OnICECandidate(func(cand *webrtc.ICECandidate) {
			if cand != nil {
				_ = a.pc.AddICECandidate(cand.ToJSON())
			}
		})
		if offer, err = a.pc.CreateOffer(nil); err != nil {
			panic(err)
		}
		if err = a.pc.SetLocalDescription(offer); err != nil {
			panic(err)
		}
		if err = b.pc.SetRemoteDescription(offer); err != nil {
			panic(err)
		}
		if answer, err = b.pc.CreateAnswer(nil); err != nil {
			panic(err)
		}
		if err = b.pc.SetLocalDescription(answer); err != nil {
			panic(err)
		}
		if err = a.pc.SetRemoteDescription(answer); err != nil {
			panic(err)
		}
	}
	stopTraffic := make(chan struct{})
	var traffic sync.WaitGroup
	if c.Stage >= 2 {
		okA := c21WaitState(a.pc, webrtc.PeerConnectionStateConnected, 15*time.Second)
		okB := okA && c21WaitState(b.pc, webrtc.PeerConnectionStateConnected, 15*time.Second)
		opened := false
		if okB {
			select {
			case <-dcOpen:
				opened = true
			case <-time.After(15 * time.Second):
			}
		}
		if !okA || !okB || !opened {
			// the pair did not get connected in time (loaded machine): close it at
			// whatever point of the setup it reached -- still a legitimate close point
			class += "/setup-incomplete"
		}
	}
	if c.Stage >= 3 {
		traffic.Add(2)
		go func() {
			defer traffic.Done()
			for {
				select {
				case <-stopTraffic:
					return
				default:
				}
				if err := dc.SendText("x"); err != nil {
					time.Sleep(200 * time.Microsecond)
				}
			}
		}()
		go func() {
			defer traffic.Done()
			for {
				select {
				case <-stopTraffic:
					return
				default:
				}
				_ = track.WriteSample(media.Sample{Data: []byte{0, 1, 2, 3}, Duration: time.Millisecond})
				time.Sleep(100 * time.Microsecond)
			}
		}()
		time.Sleep(3 * time.Millisecond)
	}

	// the closers
	start := make(chan struct{})
	returned := make([]chan struct{}, len(c.Closers))
	saw := make([]int32, len(c.Closers))
	var panicMu sync.Mutex
	var panics []string
	for i, k := range c.Closers {
		i, k := i, k
		returned[i] = make(chan struct{})
		go func() {
			defer func() {
				if p := recover(); p != nil {
					panicMu.Lock()
					panics = append(panics, fmt.Sprint(p))
					panicMu.Unlock()
					close(returned[i])
				}
			}()
			<-start
			if c.Stagger > 0 {
				time.Sleep(time.Duration(i*c.Stagger) * time.Microsecond)
			}
			if k == 1 {
				_ = a.pc.GracefulClose()
				saw[i] = a.closes.Load()
			} else {
				_ = a.pc.Close()
			}
			close(returned[i])
		}()
	}
	close(start)
	allBack := true
	deadline := time.After(30 * time.Second)
	for i := range returned {
		select {
		case <-returned[i]:
		case <-deadline:
			allBack = false
		}
	}
	close(stopTraffic)
	verdict := Pass(class, len(c.Closers) >= 2)
	fail := func(sig, what string) {
		if verdict.OK {
			verdict = Fail(sig, what)
		}
	}
	anyGraceful := false
	for i, k := range c.Closers {
		if k == 1 {
			anyGraceful = true
			if allBack && saw[i] != 1 {
				fail("graceful-close-returned-early", fmt.Sprintf("GracefulClose caller %d returned with interceptor closes=%d", i, saw[i]))
			}
		}
	}
	panicMu.Lock()
	if len(panics) > 0 {
		fail("close-panics", "panic in a Close/GracefulClose caller: "+panics[0])
	}
	panicMu.Unlock()
	if !allBack {
		fail("closer-never-returns", fmt.Sprintf("a Close/GracefulClose caller of %v at stage %d did not return within 30 s", c.Closers, c.Stage))
	}
	isClosed, gflag, closeDone, gracefulDone := a.pc.VerifC21CloseFlags()
	a.waitArrivals(2 * time.Second)
	dispatch := a.logger.snapshot()
	if allBack {
		switch {
		case !isClosed || !closeDone || gflag != anyGraceful || gracefulDone != anyGraceful:
			fail("close-flags-not-final", fmt.Sprintf("isClosed=%v graceful=%v closeDone=%v gracefulDone=%v", isClosed, gflag, closeDone, gracefulDone))
		case a.pc.SignalingState() != webrtc.SignalingStateClosed:
			fail("signaling-state-not-closed-after-close", a.pc.SignalingState().String())
		case a.pc.ConnectionState() != webrtc.PeerConnectionStateClosed:
			fail("connection-state-not-closed-after-close", a.pc.ConnectionState().String())
		case a.closes.Load() != 1:
			fail("teardown-more-than-once", fmt.Sprintf("interceptor closed %d times", a.closes.Load()))
		case !c21ClosedIsFinal(dispatch):
			fail("stale-connection-state-after-closed", fmt.Sprintf("states handed to the handler, in order: %v", dispatch))
		case len(dispatch) == 0 || dispatch[len(dispatch)-1] != 6:
			fail("closed-never-reported", fmt.Sprintf("states handed to the handler: %v", dispatch))
		}
	}
	// every mutating API now answers InvalidStateError
	if allBack && verdict.OK {
		track2, _ := webrtc.NewTrackLocalStaticSample(webrtc.RTPCodecCapability{MimeType: webrtc.MimeTypeVP8}, "v2", "c21")
		calls := []func() error{
			func() error { _, e := a.pc.CreateOffer(nil); return e },
			func() error { _, e := a.pc.CreateAnswer(nil); return e },
			func() error { return a.pc.SetLocalDescription(offer) },
			func() error { return a.pc.SetRemoteDescription(answer) },
			func() error { _, e := a.pc.AddTrack(track2); return e },
			func() error { return a.pc.RemoveTrack(sender) },
			func() error { _, e := a.pc.AddTransceiverFromKind(webrtc.RTPCodecTypeAudio); return e },
			func() error { _, e := a.pc.AddTransceiverFromTrack(track2); return e },
			func() error { _, e := a.pc.CreateDataChannel("late", nil); return e },
			func() error { return a.pc.SetConfiguration(webrtc.Configuration{}) },
			func() error {
				return a.pc.AddICECandidate(webrtc.ICECandidateInit{Candidate: "candidate:1 1 udp 2130706431 127.0.0.1 50000 typ host"})
			},
		}
		for i, call := range calls {
			var ise *rtcerr.InvalidStateError
			if e := call(); !errors.As(e, &ise) {
				fail("api-after-close-not-invalid-state:"+c21APINames[i], fmt.Sprintf("%s after close at stage %d returned %v", c21APINames[i], c.Stage, e))
			}
		}
	}
	traffic.Wait()
	// census: after GracefulClose on both sides nothing of pion keeps running
	cleanup()
	left, sample := 0, ""
	for deadline := time.Now().Add(5 * time.Second); ; {
		left, sample = c21PionGoroutines()
		if left <= base || time.Now().After(deadline) {
			break
		}
		time.Sleep(2 * time.Millisecond)
	}
	if left > base && allBack {
		fail("goroutine-left-after-graceful-close", fmt.Sprintf("%d goroutine(s) with pion frames 5 s after GracefulClose of both peers, e.g. %s", left-base, sample))
	}
	if verdict.OK && !c21ClosedIsFinal(a.arrived()) {
		verdict.Class += "/handler-goroutines-reordered"
	}
	last := len(dispatch) > 0 && dispatch[len(dispatch)-1] == 6 && c21ClosedIsFinal(dispatch)
	obs := VL{VB(isClosed), VB(gflag), VB(closeDone), VB(gracefulDone),
		VB(a.pc.SignalingState() == webrtc.SignalingStateClosed), VZ(int64(a.pc.ConnectionState())), VB(last)}
	return obs, verdict
}

func init() {
	Register(Spec[c21ConnCase]{
		ID: "C21", Suite: "connected", CoqImports: []string{"Check.C21"},
		CoqType: "list Z", CoqRun: "Check.C21.run_final",
		Quick: 14, Thorough: 400, Parallel: 1, Timeout: 180 * time.Second,
		Corpus: func() []c21ConnCase {
			var out []c21ConnCase
			for stage := 0; stage <= 3; stage++ {
				out = append(out, c21ConnCase{stage, []int{0}, 0}, c21ConnCase{stage, []int{1}, 0},
					c21ConnCase{stage, []int{0, 1}, 0}, c21ConnCase{stage, []int{1, 0, 1, 0}, 0})
			}
			return out
		},
		Gen: func(r *Rand, i int) c21ConnCase {
			n := r.Range(1, 4)
			cl := make([]int, n)
			for k := range cl {
				cl[k] = r.Intn(2)
			}
			return c21ConnCase{r.Intn(4), cl, Pick(r, []int{0, 0, 20, 200, 2000})}
		},
		Run: c21RunConn,
		Coq: func(c c21ConnCase) string {
			parts := make([]string, len(c.Closers))
			for i, k := range c.Closers {
				parts[i] = CoqZ(int64(k))
			}
			return CoqList(parts)
		},
	})
}
