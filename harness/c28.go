//go:build verif_c28

package main

import (
	"fmt"
	"math/big"
	"time"

	"github.com/pion/interceptor"
	"github.com/pion/rtp"
	"github.com/pion/webrtc/v4"
	"github.com/pion/webrtc/v4/pkg/media"
)

// C28: sample sequences through a real TrackLocalStaticSample bound to a
// capturing writer; timestamps and sequence numbers of every packet observed.

type c28Sample struct {
	D int64  `json:"d"` // duration, ns
	N uint16 `json:"n"` // PrevDroppedPackets
	L int    `json:"l"` // len(Data)
	K uint8  `json:"k"` // 0: WriteSample(D, N, L); 1: GeneratePadding(P)
	P uint16 `json:"p"` // padding packets asked for (K == 1)
}

type c28In struct {
	Cfg     int         `json:"cfg"` // index into c28Cfgs
	TS0     uint32      `json:"ts0"`
	Seq0    uint16      `json:"seq0"`
	Samples []c28Sample `json:"samples"`
}

type c28Cfg struct {
	name   string
	cap    webrtc.RTPCodecCapability
	custom int // > 0: harness payloader cutting Data into chunks of this size
}

var c28Cfgs = []c28Cfg{
	{"opus48000", webrtc.RTPCodecCapability{MimeType: webrtc.MimeTypeOpus, ClockRate: 48000, Channels: 2}, 0},
	{"pcmu8000", webrtc.RTPCodecCapability{MimeType: webrtc.MimeTypePCMU, ClockRate: 8000}, 0},
	{"g722-8000", webrtc.RTPCodecCapability{MimeType: webrtc.MimeTypeG722, ClockRate: 8000}, 0},
	{"vp8-90000", webrtc.RTPCodecCapability{MimeType: webrtc.MimeTypeVP8, ClockRate: 90000}, 0},
	{"x90000", webrtc.RTPCodecCapability{MimeType: "video/x-verif", ClockRate: 90000}, 500},
	{"x44100", webrtc.RTPCodecCapability{MimeType: "audio/x-verif", ClockRate: 44100}, 500},
	{"x16000", webrtc.RTPCodecCapability{MimeType: "audio/x-verif", ClockRate: 16000}, 300},
	{"x1000", webrtc.RTPCodecCapability{MimeType: "audio/x-verif", ClockRate: 1000}, 500},
	{"x1", webrtc.RTPCodecCapability{MimeType: "audio/x-verif", ClockRate: 1}, 500},
	{"x65537", webrtc.RTPCodecCapability{MimeType: "audio/x-verif", ClockRate: 65537}, 500},
	{"x4e9", webrtc.RTPCodecCapability{MimeType: "video/x-verif", ClockRate: 4000000000}, 700},
}

type c28Chunker struct{ size int }

func (c *c28Chunker) Payload(_ uint16, payload []byte) [][]byte {
	var out [][]byte
	for len(payload) > 0 {
		n := min(c.size, len(payload))
		out = append(out, append([]byte{}, payload[:n]...))
		payload = payload[n:]
	}
	return out
}

type c28Pk struct {
	seq uint16
	ts  uint32
	pad bool // Header.Padding with PaddingSize 255 and no payload
}

type c28Writer struct{ got []c28Pk }

func (w *c28Writer) WriteRTP(h *rtp.Header, payload []byte) (int, error) {
	w.got = append(w.got, c28Pk{h.SequenceNumber, h.Timestamp, h.Padding && h.PaddingSize == 255 && len(payload) == 0})
	return 0, nil
}
func (w *c28Writer) Write([]byte) (int, error) { panic("c28: Write not expected") }

type c28Ctx struct {
	codecs []webrtc.RTPCodecParameters
	w      *c28Writer
}

func (c *c28Ctx) CodecParameters() []webrtc.RTPCodecParameters           { return c.codecs }
func (c *c28Ctx) HeaderExtensions() []webrtc.RTPHeaderExtensionParameter { return nil }
func (c *c28Ctx) SSRC() webrtc.SSRC                                      { return 7 }
func (c *c28Ctx) SSRCRetransmission() webrtc.SSRC                        { return 0 }
func (c *c28Ctx) SSRCForwardErrorCorrection() webrtc.SSRC                { return 0 }
func (c *c28Ctx) WriteStream() webrtc.TrackLocalWriter                   { return c.w }
func (c *c28Ctx) ID() string                                             { return "c28" }
func (c *c28Ctx) RTCPReader() interceptor.RTCPReader                     { return nil }

// c28Counts: how many packets each sample yields (the payloaders' cutting rule,
// restated here; a wrong restatement shows up as a harness failure).
func c28Counts(cfg c28Cfg, samples []c28Sample) []int {
	out := make([]int, len(samples))
	frames := 0 // non-empty frames seen by the VP8 payloader
	const room = 1200 - 12
	for i, s := range samples {
		if s.K == 1 {
			out[i] = int(s.P)
			continue
		}
		if s.L == 0 {
			continue
		}
		switch {
		case cfg.custom > 0:
			out[i] = (s.L + cfg.custom - 1) / cfg.custom
		case cfg.cap.MimeType == webrtc.MimeTypeOpus:
			out[i] = 1
		case cfg.cap.MimeType == webrtc.MimeTypeVP8:
			hdr := 1
			if pid := frames & 0x7fff; pid >= 128 {
				hdr = 4
			} else if pid > 0 {
				hdr = 3
			}
			frames++
			out[i] = (s.L + room - hdr - 1) / (room - hdr)
		default: // G711, G722
			out[i] = (s.L + room - 1) / room
		}
	}
	return out
}

var c28Data = make([]byte, 8192)

func c28Run(in c28In) (V, Verdict) {
	cfg := c28Cfgs[in.Cfg]
	opts := []func(*webrtc.TrackLocalStaticRTP){webrtc.WithRTPTimestamp(in.TS0), webrtc.WithRTPSequenceNumber(in.Seq0)}
	if cfg.custom > 0 {
		opts = append(opts, webrtc.WithPayloader(func(webrtc.RTPCodecCapability) (rtp.Payloader, error) {
			return &c28Chunker{cfg.custom}, nil
		}))
	}
	track, err := webrtc.NewTrackLocalStaticSample(cfg.cap, "a", "b", opts...)
	if err != nil {
		panic(err)
	}
	w := &c28Writer{}
	ctx := &c28Ctx{codecs: []webrtc.RTPCodecParameters{{RTPCodecCapability: cfg.cap, PayloadType: 111}}, w: w}
	if _, err = track.Bind(ctx); err != nil {
		panic(err)
	}
	want := c28Counts(cfg, in.Samples)

	verdict := Pass("", false)
	fail := func(sig, what string) {
		if verdict.OK {
			verdict = Fail(sig, what)
		}
	}
	obs := make([]byte, 0, 16*len(in.Samples))
	// direct oracle state: exact rationals
	acc := new(big.Rat) // ticks of media time before the current sample
	rate := new(big.Rat).SetInt64(int64(cfg.cap.ClockRate))
	giga := new(big.Rat).SetInt64(1000000000)
	consumed := uint16(0) // sequence numbers used so far
	withPackets, fractional, offByOne, maxAbs, paddings := 0, 0, 0, 0, 0
	for k, s := range in.Samples {
		w.got = w.got[:0]
		if s.K == 1 {
			if werr := track.GeneratePadding(uint32(s.P)); werr != nil {
				fail("sample-write-error", fmt.Sprintf("call %d: GeneratePadding: %v", k, werr))
			}
			s.D, s.N = 0, 0 // for the oracle: a burst of padding takes sequence numbers, no time
			paddings++
		} else if werr := track.WriteSample(media.Sample{Data: c28Data[:s.L], Duration: time.Duration(s.D), PrevDroppedPackets: s.N}); werr != nil {
			fail("sample-write-error", fmt.Sprintf("sample %d: %v", k, werr))
		}
		obs = append(obs, byte(len(w.got)>>8), byte(len(w.got)))
		for _, p := range w.got {
			obs = append(obs, byte(p.seq>>8), byte(p.seq), byte(p.ts>>24), byte(p.ts>>16), byte(p.ts>>8), byte(p.ts))
		}
		// ---- direct oracle ----
		tick := new(big.Rat).Mul(new(big.Rat).Quo(new(big.Rat).SetInt64(s.D), giga), rate)
		if !tick.IsInt() {
			fractional++
		}
		dropped := new(big.Rat).Mul(tick, new(big.Rat).SetInt64(int64(s.N)))
		at := new(big.Rat).Add(acc, dropped)
		ideal := new(big.Int).Quo(at.Num(), at.Denom()) // floor, at >= 0
		idealTS := uint32(new(big.Int).Add(ideal, big.NewInt(int64(in.TS0))).Uint64())
		acc.Add(at, tick)
		consumed += s.N
		if len(w.got) != want[k] {
			fail("harness-packet-count", fmt.Sprintf("sample %d (%d bytes, %s): %d packets, the harness expected %d", k, s.L, cfg.name, len(w.got), want[k]))
		}
		if len(w.got) > 0 {
			withPackets++
		}
		for j, p := range w.got {
			if p.pad != (s.K == 1) {
				fail("padding-flag-wrong", fmt.Sprintf("call %d packet %d: padding-only %v, call kind %d", k, j, p.pad, s.K))
			}
			if p.ts != w.got[0].ts {
				fail("sample-ts-differs-within-sample", fmt.Sprintf("sample %d packet %d: timestamp %d, first packet %d", k, j, p.ts, w.got[0].ts))
			}
			d := int(int32(p.ts - idealTS))
			if d < 0 {
				d = -d
			}
			if d > maxAbs {
				maxAbs = d
			}
			if d > 1 {
				fail("sample-ts-drift", fmt.Sprintf("sample %d: timestamp %d, ideal %d (initial %d + floor(%s))", k, p.ts, idealTS, in.TS0, at.FloatString(6)))
			} else if d == 1 && j == 0 {
				offByOne++
			}
			if wantSeq := in.Seq0 + consumed + uint16(j); p.seq != wantSeq {
				sig := "sample-seq-not-consecutive"
				if j == 0 {
					sig = "sample-seq-skip-wrong"
				}
				fail(sig, fmt.Sprintf("sample %d packet %d: sequence number %d, want %d (dropped %d)", k, j, p.seq, wantSeq, s.N))
			}
		}
		consumed += uint16(len(w.got))
	}
	_ = track.Unbind(ctx)
	if verdict.OK {
		verdict.NonTrivial = withPackets >= 10 && fractional >= 1
		verdict.Class = fmt.Sprintf("%s/maxdiff%d", cfg.name, maxAbs)
		if paddings > 0 {
			verdict.Class += "/padding"
		}
	}
	_ = offByOne
	return VBy(obs), verdict
}

func c28Coq(in c28In) string {
	if len(in.Samples) > 3000 {
		return "" // long runs: direct oracle only
	}
	cfg := c28Cfgs[in.Cfg]
	r := cfg.cap.ClockRate
	out := []byte{byte(r >> 24), byte(r >> 16), byte(r >> 8), byte(r), byte(in.TS0 >> 24), byte(in.TS0 >> 16), byte(in.TS0 >> 8),
		byte(in.TS0), byte(in.Seq0 >> 8), byte(in.Seq0)}
	counts := c28Counts(cfg, in.Samples)
	for i, s := range in.Samples {
		d := uint64(s.D)
		if s.K == 1 {
			out = append(out, 1, 0, 0, 0, 0, 0, 0, 0, 0, byte(s.P>>8), byte(s.P))
			continue
		}
		out = append(out, 0, byte(d>>40), byte(d>>32), byte(d>>24), byte(d>>16), byte(d>>8), byte(d), byte(s.N>>8), byte(s.N),
			byte(counts[i]>>8), byte(counts[i]))
	}
	return CoqBytes(out)
}

var c28Durations = []int64{
	20000000, 10000000, 33333333, 33366667, 16666667, 41666667, 40000000, 2500000, 5000000, 60000000, 1, 0, 999999999,
	1000000000, 1000000001, 22675737, 23219955, 125000, 124999, 125001, 11111, 333333333,
}

func c28Gen(maxLen int) func(r *Rand, i int) c28In {
	return func(r *Rand, i int) c28In {
		in := c28In{Cfg: i % len(c28Cfgs), TS0: uint32(r.U64()), Seq0: uint16(r.U64())}
		if r.Chance(1, 4) { // close to the wrap-arounds
			in.TS0 = 0xffffffff - uint32(r.Intn(5000))
			in.Seq0 = 0xffff - uint16(r.Intn(50))
		}
		n := r.Range(10, maxLen)
		// a sequence is either one repeated duration (where drift would accumulate) or a mix
		fixed := int64(-1)
		if r.Chance(1, 2) {
			fixed = Pick(r, c28Durations)
		}
		for k := 0; k < n; k++ {
			s := c28Sample{D: fixed}
			if fixed < 0 {
				switch r.Intn(4) {
				case 0:
					s.D = Pick(r, c28Durations)
				case 1:
					s.D = int64(r.Intn(100000000))
				case 2:
					s.D = int64(r.Intn(3000000000))
				default:
					s.D = int64(r.Intn(2000)) * 12500 // around the 8 kHz tick
				}
			}
			switch l := r.Intn(20); {
			case l == 0:
				s.L = 0
			case l < 12:
				s.L = r.Range(1, 200)
			case l < 16:
				s.L = r.Range(1100, 1300)
			default:
				s.L = r.Range(1, 5000)
			}
			switch d := r.Intn(40); {
			case d == 0:
				s.N = uint16(r.Range(1, 400))
			case d < 4:
				s.N = uint16(r.Range(1, 5))
			}
			if c28Cfgs[in.Cfg].cap.ClockRate > 1000000 { // keep every uint32() conversion in range
				s.D %= 200000000
				if s.N > 5 {
					s.N = 5
				}
			}
			in.Samples = append(in.Samples, s)
			if r.Chance(1, 10) { // padding between samples: sequence numbers, no time
				in.Samples = append(in.Samples, c28Sample{K: 1, P: uint16(r.Intn(5))})
			}
		}
		return in
	}
}

func c28Shrink(in c28In) []c28In {
	var out []c28In
	n := len(in.Samples)
	if n > 1 {
		out = append(out, c28In{in.Cfg, in.TS0, in.Seq0, in.Samples[:n/2]}, c28In{in.Cfg, in.TS0, in.Seq0, in.Samples[:n-1]})
		out = append(out, c28In{in.Cfg, in.TS0, in.Seq0, in.Samples[1:]})
	}
	return out
}

func c28Rep(s c28Sample, n int) []c28Sample {
	out := make([]c28Sample, n)
	for i := range out {
		out[i] = s
	}
	return out
}

func init() {
	Register(Spec[c28In]{
		ID: "C28", Suite: "seq", CoqImports: []string{"Common.BytesUtil", "Check.C28"},
		CoqType: "list byte", CoqRun: "Check.C28.run",
		Quick: 96, Thorough: 800, Parallel: 8,
		Corpus: func() []c28In {
			return []c28In{
				// 30 fps video at 90 kHz: 33.333333 ms = 2999.99997 ticks, the remainder must carry
				{Cfg: 3, TS0: 1000, Seq0: 65530, Samples: c28Rep(c28Sample{D: 33333333, L: 2500}, 120)},
				// 20 ms Opus: exactly 960 ticks
				{Cfg: 0, TS0: 0xfffffc00, Seq0: 0, Samples: c28Rep(c28Sample{D: 20000000, L: 80}, 60)},
				// dropped packets: skip numbers and time
				{Cfg: 1, TS0: 5, Seq0: 10, Samples: []c28Sample{{D: 20000000, L: 160}, {D: 20000000, L: 160, N: 3}, {D: 20000000, L: 0},
					{D: 20000000, L: 160, N: 1}, {D: 12345678, L: 3000, N: 2}, {D: 12345678, L: 10}}},
				// clock rate 1 Hz with sub-tick durations
				{Cfg: 8, TS0: 0, Seq0: 1, Samples: c28Rep(c28Sample{D: 333333333, L: 600}, 30)},
				// GeneratePadding before the first sample, between samples, with a dropped report after it, and of zero packets
				{Cfg: 3, TS0: 0xfffffff0, Seq0: 65533, Samples: []c28Sample{{K: 1, P: 2}, {D: 33333333, L: 2500}, {K: 1, P: 3}, {D: 33333333, L: 100, N: 2},
					{K: 1, P: 0}, {D: 33333333, L: 100}, {K: 1, P: 1}, {K: 1, P: 1}, {D: 33333333, L: 1300}, {D: 33333333, L: 10}, {D: 33333333, L: 10},
					{D: 33333333, L: 10}, {D: 33333333, L: 10}, {D: 33333333, L: 10}, {D: 33333333, L: 10}, {D: 33333333, L: 10}}},
			}
		},
		Gen: func(r *Rand, i int) c28In {
			if i%8 == 7 {
				return c28GenLong(r, i/8)
			}
			return c28Gen(160)(r, i)
		},
		Run: c28Run, Coq: c28Coq, Shrink: c28Shrink,
	})
}

// long runs of one repeated duration (direct oracle only: see c28Coq)
var c28GenLong = func(r *Rand, i int) c28In {
	in := c28Gen(20)(r, i)
	// one duration repeated many times: the case where rounding could accumulate
	s := c28Sample{D: Pick(r, c28Durations[:10]), L: r.Range(1, 1500)}
	n := 20000
	if i >= 12 && i < 30 { // thorough tier only
		n = 100000
	}
	if c28Cfgs[in.Cfg].cap.ClockRate > 1000000 {
		s.D %= 200000000
	}
	in.Samples = c28Rep(s, n)
	if r.Chance(1, 3) {
		for k := 0; k < len(in.Samples); k += r.Range(50, 500) {
			in.Samples[k].N = uint16(r.Range(1, 3))
		}
	}
	return in
}
