//go:build verif_c21

package main

import (
	"os"

	"github.com/pion/webrtc/v4"
)

// c21UcsLocked: is connectionStateMu (the mutex that makes
// updateConnectionState one critical section) held right now?
func c21UcsLocked(pc *webrtc.PeerConnection) bool { return pc.VerifC21ConnectionStateLocked() }

func c21Thorough() bool {
	for i, a := range os.Args {
		if a == "--tier" && i+1 < len(os.Args) && os.Args[i+1] == "thorough" {
			return true
		}
		if a == "--tier=thorough" {
			return true
		}
	}
	return false
}
