//go:build verif_c27

package main

// C27 suite "race": no hooks, no gates. Datagrams are queued before the
// endpoint exists; then NewEndpoint runs while the read loop dispatches later
// datagrams of the same class as fast as it can. Which interleaving happens is
// up to the scheduler; the oracle only demands what the property demands of
// every interleaving: the queued datagrams reach the endpoint, in arrival
// order, before any datagram that arrived after the endpoint was created, and
// nothing is delivered twice. On the unchanged code NewEndpoint registers the
// endpoint and hands over the queue in one critical section, so every trial
// passes; code that moves part of the hand-over out of that critical section
// is exposed with high probability (several trials per case, many cases).

import (
	"fmt"
	"runtime"
	"sync"
	"time"

	"github.com/pion/webrtc/v4/internal/mux"
)

type c27RaceIn struct {
	Queued int `json:"queued"` // datagrams queued before NewEndpoint (1..8)
	Later  int `json:"later"`  // datagrams dispatched while NewEndpoint runs (1..12)
	Big    int `json:"big"`    // index of a large queued datagram (-1: none): widens a hand-over window
	Trials int `json:"trials"`
}

// blockingConn hands out datagrams in two phases: the queued ones at once, the
// later ones after release; Read blocks in between.
type c27RaceConn struct {
	c27Conn
	first   [][]byte
	later   [][]byte
	release chan struct{}
	idle    chan struct{}
	mu2     sync.Mutex
	phase   int
	done    chan struct{}
}

func (c *c27RaceConn) Read(p []byte) (int, error) {
	c.mu2.Lock()
	if len(c.first) > 0 {
		b := c.first[0]
		c.first = c.first[1:]
		c.mu2.Unlock()
		return copy(p, b), nil
	}
	if c.phase == 0 {
		c.phase = 1
		close(c.idle) // every queued datagram has been handed to the mux's read loop
	}
	c.mu2.Unlock()
	<-c.release
	c.mu2.Lock()
	defer c.mu2.Unlock()
	if len(c.later) > 0 {
		b := c.later[0]
		c.later = c.later[1:]
		return copy(p, b), nil
	}
	select {
	case <-c.done:
	default:
		close(c.done)
	}
	return 0, fmt.Errorf("eof")
}

func c27RaceRun(in c27RaceIn) (V, Verdict) {
	verdict := Pass(fmt.Sprintf("queued%d/later%d/big%v", in.Queued, min(in.Later, 4)/2*2, in.Big >= 0), true)
	for trial := 0; trial < in.Trials && verdict.OK; trial++ {
		mk := func(tag byte, i int, big bool) []byte {
			n := 24
			if big {
				n = 1400
			}
			b := make([]byte, n)
			b[0], b[1], b[2], b[3] = 144, 96, tag, byte(i) // SRTP class
			return b
		}
		conn := &c27RaceConn{release: make(chan struct{}), idle: make(chan struct{}), done: make(chan struct{})}
		for i := 0; i < in.Queued; i++ {
			conn.first = append(conn.first, mk(1, i, i == in.Big))
		}
		for i := 0; i < in.Later; i++ {
			conn.later = append(conn.later, mk(2, i, false))
		}
		m := mux.NewMux(mux.Config{Conn: conn, BufferSize: 2048, LoggerFactory: c27Logger()})
		<-conn.idle
		// the read loop is about to block for the next datagram; give its last dispatch a moment to finish
		for i := 0; i < 50; i++ {
			runtime.Gosched()
		}
		time.Sleep(200 * time.Microsecond)
		var ep *mux.Endpoint
		var wg sync.WaitGroup
		wg.Add(1)
		start := make(chan struct{})
		go func() {
			defer wg.Done()
			<-start
			ep = m.NewEndpoint(mux.MatchSRTP)
		}()
		close(start)
		close(conn.release)
		wg.Wait()
		select {
		case <-conn.done:
		case <-time.After(5 * time.Second):
			verdict = Fail("mux-reader-stuck", "the read loop did not consume the later datagrams")
		}
		time.Sleep(100 * time.Microsecond)
		_ = m.Close()
		got := c27Drain(ep)
		// oracle
		seen := map[[2]byte]bool{}
		nextQ, sawLater := 0, false
		for _, b := range got {
			k := [2]byte{b[2], b[3]}
			if seen[k] {
				verdict = Fail("datagram-delivered-twice", fmt.Sprintf("trial %d: datagram %v read twice", trial, k))
				break
			}
			seen[k] = true
			if b[2] == 1 {
				if sawLater {
					verdict = Fail("queued-datagram-overtaken-by-later-one",
						fmt.Sprintf("trial %d: queued datagram %d was read after a datagram that arrived once the endpoint existed", trial, b[3]))
					break
				}
				if int(b[3]) != nextQ {
					verdict = Fail("queued-datagrams-out-of-arrival-order", fmt.Sprintf("trial %d: queued %d read when %d was due", trial, b[3], nextQ))
					break
				}
				nextQ++
			} else {
				sawLater = true
			}
		}
		if verdict.OK && nextQ != in.Queued {
			verdict = Fail("queued-datagram-never-delivered", fmt.Sprintf("trial %d: %d of %d queued datagrams reached the endpoint", trial, nextQ, in.Queued))
		}
	}
	return VL{VZ(int64(in.Queued)), VZ(int64(in.Later))}, verdict
}

func init() {
	Register(Spec[c27RaceIn]{
		ID: "C27", Suite: "race", CoqImports: []string{"Check.C27"}, CoqType: "Z", CoqRun: "(fun _ => VL [])",
		Quick: 160, Thorough: 3000, Parallel: 8, Timeout: 60 * time.Second,
		Corpus: func() []c27RaceIn {
			return []c27RaceIn{{Queued: 3, Later: 6, Big: 0, Trials: 60}, {Queued: 8, Later: 12, Big: 3, Trials: 60}, {Queued: 1, Later: 1, Big: -1, Trials: 60}, {Queued: 8, Later: 2, Big: 7, Trials: 60}}
		},
		Gen: func(r *Rand, i int) c27RaceIn {
			q := r.Range(1, 8)
			big := -1
			if r.Bool() {
				big = r.Intn(q)
			}
			return c27RaceIn{Queued: q, Later: r.Range(1, 12), Big: big, Trials: 25}
		},
		Run: c27RaceRun,
		Coq: func(c27RaceIn) string { return "" }, // direct oracle only: the interleaving is not controlled
	})
}
