//go:build verif_c06

package main

import (
	"fmt"
	"strconv"
)

// C06: every generated description has pairwise distinct mids on all
// m-sections, a BUNDLE group listing exactly the accepted sections' mids once
// each, and on each accepted section ICE credentials, exactly one direction,
// a setup attribute and a fingerprint at session or media level.

// direct oracle on one generated description (projected from the real SDP).
// Returns (signature, text) of the first clause that fails, "" if none.
func c06Oracle(e *jEntry) (string, string) {
	if e.Text == "" {
		return "", ""
	}
	if e.Local == nil {
		return "generated-sdp-does-not-parse", e.ParseEr
	}
	d := e.Local
	what := func(s string) string {
		return fmt.Sprintf("%s %s: %s", e.Op.Op, c06Shape(d), s)
	}
	// clause 1: each m-section has a mid no other section shares
	first := map[string]int{}
	dupSig, dupWhat := "", ""
	for j, s := range d.Secs {
		if !s.HasMid {
			if s.Port0 {
				return "rejected-section-has-no-mid", what(fmt.Sprintf("section %d (m=%s, port 0) has no a=mid", j, s.Kind))
			}
			return "section-without-mid", what(fmt.Sprintf("section %d has no a=mid", j))
		}
		if i, ok := first[s.Mid]; ok && dupSig == "" {
			dupSig = c06DupCause(e, i, j)
			dupWhat = what(fmt.Sprintf("sections %d and %d share mid %q", i, j, s.Mid))
		} else if !ok {
			first[s.Mid] = j
		}
	}
	if dupSig != "" {
		return dupSig, dupWhat
	}
	// clause 2: BUNDLE = mids of the accepted sections, each once
	want := map[string]bool{}
	for _, s := range d.Secs {
		if !s.Port0 {
			want[s.Mid] = true
		}
	}
	seen := map[string]bool{}
	for _, b := range d.Bundle {
		if seen[b] {
			return "bundle-lists-a-mid-twice", what("BUNDLE repeats " + b)
		}
		seen[b] = true
		if !want[b] {
			return "bundle-lists-unaccepted-mid", what("BUNDLE lists " + b + " which is not an accepted section")
		}
	}
	for m := range want {
		if !seen[m] {
			return "accepted-mid-missing-from-bundle", what("accepted section " + m + " is not in BUNDLE")
		}
	}
	// clause 3: per accepted section
	for j, s := range d.Secs {
		if s.Port0 {
			continue
		}
		switch {
		case !s.Creds:
			return "accepted-section-lacks-ice-credentials", what(fmt.Sprintf("section %d", j))
		case len(s.Dirs) != 1:
			return "accepted-section-direction-count", what(fmt.Sprintf("section %d has %d direction attributes", j, len(s.Dirs)))
		case !s.Setup:
			return "accepted-section-lacks-setup", what(fmt.Sprintf("section %d", j))
		case !(s.FP || d.FPSession):
			return "accepted-section-lacks-fingerprint", what(fmt.Sprintf("section %d", j))
		}
	}
	return "", ""
}

func c06Shape(d *lDesc) string {
	s := "["
	for i, x := range d.Secs {
		if i > 0 {
			s += " "
		}
		m := "-"
		if x.HasMid {
			m = x.Mid
		}
		s += x.Kind[:1] + ":" + m
		if x.Port0 {
			s += "!"
		}
	}
	return s + "] BUNDLE " + fmt.Sprint(d.Bundle)
}

// why two sections i < j of a generated description share a mid
func c06DupCause(e *jEntry, i, j int) string {
	d := e.Local
	mid := d.Secs[j].Mid
	inRemoteApp := false
	for _, m := range e.RemoteAppMids {
		if m == mid {
			inRemoteApp = true
		}
	}
	si, sj := d.Secs[i], d.Secs[j]
	switch {
	case e.Op.Op == "offer" && sj.Kind == "application" && j == len(d.Secs)-1 && !inRemoteApp && mid == strconv.Itoa(j):
		// the data section was appended by this offer with mid Itoa(len(sections))
		return "data-mid-equals-existing-mid"
	case e.Op.Op == "offer" && inRemoteApp && (si.Kind == "application") != (sj.Kind == "application"):
		// a local transceiver's mid equals the mid of the remote's application section
		return "local-mid-equals-remote-application-mid"
	}
	for _, x := range d.Secs {
		if x.Mid == "-9223372036854775808" {
			// greaterMid++ wrapped around (a mid MinInt64 was allocated); later
			// allocations repeat the values that follow
			return "greater-mid-overflow"
		}
	}
	if e.Op.Op == "offer" {
		// this CreateOffer gave an unset transceiver a mid another transceiver already had
		// (the numbering loop has not yet seen transceivers later in the list, nor the
		// pending remote description)
		had, fresh := false, false
		for k, t := range e.Trs {
			if t.Mid != mid {
				continue
			}
			if k < len(e.Before) && e.Before[k].Mid == mid {
				had = true
			} else if k < len(e.Before) && e.Before[k].Mid == "" {
				fresh = true
			}
		}
		if had && fresh {
			return "fresh-mid-equals-existing-transceiver-mid"
		}
	}
	dup := map[string]bool{}
	for _, m := range e.RemoteAllMids {
		if dup[m] && m == mid {
			return "remote-description-repeats-a-mid"
		}
		dup[m] = true
	}
	return "duplicate-mid"
}

func c06Run(c jCase) (V, Verdict) {
	log := jsepRun(c)
	jCoqCache.Store(jKey(c), jsepCoq(log))
	v := Pass("", false)
	descs, maxSecs, errs := 0, 0, 0
	remoteDup := 0
	// in the order the calls were made: the first description that breaks C06 names the cause
	for _, e := range log.inOrder() {
		if e.Status != "ok" && e.Status != "skipped" {
			errs++
		}
		if e.Text == "" {
			continue
		}
		descs++
		if e.Local != nil && len(e.Local.Secs) > maxSecs {
			maxSecs = len(e.Local.Secs)
		}
		sig, what := c06Oracle(e)
		if sig == "remote-description-repeats-a-mid" {
			// outside the quantifier (remote descriptions have pairwise distinct mids);
			// between two pion peers the description that first repeated a mid was
			// generated - and flagged - earlier, on the other peer
			remoteDup++
			continue
		}
		if sig != "" && v.OK {
			v = Fail(sig, fmt.Sprintf("peer %d call %d: %s", e.Op.P, e.Seq, what))
		}
	}
	if sig, what := log.projFailure(); sig != "" && v.OK {
		v = Fail(sig, what)
	}
	if v.OK {
		v.NonTrivial = descs >= 1 && maxSecs >= 2
		v.Class = fmt.Sprintf("peers%d/descs%d/maxsecs%d/errs%d", c.Peers, min(descs, 4), min(maxSecs, 4), min(errs, 2))
		if remoteDup > 0 {
			v.Class += "/remote-repeats-a-mid"
		}
	}
	return log.V(), v
}

func c06Corpus() []jCase {
	sec := func(k, m, d string) jSec { return jSec{Kind: k, Mid: m, Dir: d, Codec: true} }
	return append([]jCase{
		// the design probe: remote audio mid "1"; answer; data channel; offer => BUNDLE 1 1
		{Peers: 1, Ops: []jOp{
			{Op: "srd", Ty: "offer", Desc: &jDesc{Secs: []jSec{sec("audio", "1", "sendrecv")}, Group: jStr("BUNDLE 1")}},
			{Op: "answer"}, {Op: "sld", Ty: "answer"}, {Op: "dc"}, {Op: "offer"}, {Op: "offer"}}},
		// a mid allocated by an offer that was never sent, then used by the remote for its data section
		{Peers: 1, Ops: []jOp{
			{Op: "srd", Ty: "offer", Desc: &jDesc{Secs: []jSec{sec("audio", "0", "sendrecv")}, Group: jStr("BUNDLE 0")}},
			{Op: "answer"}, {Op: "sld", Ty: "answer"},
			{Op: "add", Kind: "video", Dir: "sendrecv"}, {Op: "offer"},
			{Op: "srd", Ty: "offer", Desc: &jDesc{Secs: []jSec{sec("audio", "0", "sendrecv"), sec("application", "1", "")}, Group: jStr("BUNDLE 0 1")}},
			{Op: "answer"}, {Op: "sld", Ty: "answer"}, {Op: "offer"}}},
		// first video section with no known codec: rejected section without mid; the next offer cannot be created
		{Peers: 1, Ops: []jOp{
			{Op: "srd", Ty: "offer", Desc: &jDesc{Secs: []jSec{sec("audio", "0", "sendrecv"), {Kind: "video", Mid: "1", Dir: "sendrecv"}, sec("application", "2", "")}}},
			{Op: "answer"}, {Op: "sld", Ty: "answer"}, {Op: "offer"}}},
		// groups: none, partial, not BUNDLE at all
		{Peers: 1, Ops: []jOp{
			{Op: "srd", Ty: "offer", Desc: &jDesc{Secs: []jSec{sec("audio", "a", "sendrecv"), sec("video", "b", "sendonly"), sec("application", "S", "")}, Group: jStr("LS a S")}},
			{Op: "answer"}, {Op: "sld", Ty: "answer"}, {Op: "offer"}}},
		// CreateOffer while a remote offer is pending: the unset transceiver is numbered
		// before the loop has seen the transceiver the remote offer just bound to mid "0"
		{Peers: 1, Ops: []jOp{
			{Op: "add", Kind: "audio", Dir: "recvonly"},
			{Op: "srd", Ty: "offer", Desc: &jDesc{Secs: []jSec{sec("video", "0", "sendrecv")}, Group: jStr("BUNDLE 0")}},
			{Op: "offer"}}},
		// greaterMid wraps around after a remote mid MaxInt64-1
		{Peers: 1, Ops: []jOp{
			{Op: "srd", Ty: "offer", Desc: &jDesc{Secs: []jSec{sec("video", "9223372036854775806", "sendrecv")}, Group: jStr("BUNDLE 9223372036854775806")}},
			{Op: "answer"}, {Op: "sld", Ty: "answer"},
			{Op: "add", Kind: "audio", Dir: "recvonly"}, {Op: "add", Kind: "audio", Dir: "recvonly"}, {Op: "offer"},
			{Op: "add", Kind: "audio", Dir: "recvonly"}, {Op: "offer"}}},
		// plain two-peer exchange with data channel and renegotiation from the other side
		{Peers: 2, Ops: []jOp{
			{P: 0, Op: "add", Kind: "audio", Dir: "sendrecv"}, {P: 0, Op: "dc"},
			{P: 0, Op: "offer"}, {P: 0, Op: "sld", Ty: "offer"}, {P: 1, Op: "srdpeer", Ty: "offer"},
			{P: 1, Op: "answer"}, {P: 1, Op: "sld", Ty: "answer"}, {P: 0, Op: "srdpeer", Ty: "answer"},
			{P: 1, Op: "add", Kind: "video", Dir: "sendonly"},
			{P: 1, Op: "offer"}, {P: 1, Op: "sld", Ty: "offer"}, {P: 0, Op: "srdpeer", Ty: "offer"},
			{P: 0, Op: "answer"}, {P: 0, Op: "sld", Ty: "answer"}, {P: 1, Op: "srdpeer", Ty: "answer"}}},
	}, jCorpusOps()...)
}

type c06Num struct {
	Z int64  `json:"z"`
	S string `json:"s"`
}

func init() {
	signalOnly(true)
	imports := []string{"Model.JsepMid", "Check.JsepMidRun", "Check.C06"}
	Register(Spec[jCase]{
		ID: "C06", Suite: "synth", CoqImports: imports,
		CoqType: "list (list op)", CoqRun: jRunName("C06"),
		Quick: 150, Thorough: 3000, Parallel: 8,
		Corpus: c06Corpus,
		Gen:    func(r *Rand, i int) jCase { return jGenSynth(r, 10) },
		Run:    c06Run, Coq: jCoqOf, Shrink: jShrink,
	})
	Register(Spec[jCase]{
		ID: "C06", Suite: "hostile", CoqImports: imports,
		CoqType: "list (list op)", CoqRun: jRunName("C06"),
		Quick: 80, Thorough: 1500, Parallel: 8,
		Gen: func(r *Rand, i int) jCase { return jGenSynth(r, 30) },
		Run: c06Run, Coq: jCoqOf, Shrink: jShrink,
	})
	Register(Spec[jCase]{
		ID: "C06", Suite: "pair", CoqImports: imports,
		CoqType: "list (list op)", CoqRun: jRunName("C06"),
		Quick: 80, Thorough: 1500, Parallel: 8,
		Gen: func(r *Rand, i int) jCase { return jGenPair(r, 10) },
		Run: c06Run, Coq: jCoqOf, Shrink: jShrink,
	})
	// strconv.Itoa / Atoi against Common.JsepNumeral
	Register(Spec[c06Num]{
		ID: "C06", Suite: "numeral", CoqImports: imports,
		CoqType: "Z * string", CoqRun: "Check.C06.run_numeral",
		Quick: 200, Thorough: 5000,
		Corpus: func() []c06Num {
			return []c06Num{{0, ""}, {-1, "+"}, {9223372036854775807, "9223372036854775807"}, {-9223372036854775808, "-9223372036854775808"},
				{1, "9223372036854775808"}, {2, "-9223372036854775809"}, {3, "-0"}, {4, "+007"}, {5, "1_0"}, {6, " 1"}, {7, "0x10"}, {8, "--1"}, {9, "+-1"}, {10, "1 "}}
		},
		Gen: func(r *Rand, i int) c06Num {
			z := int64(r.U64())
			switch r.Intn(4) {
			case 0:
				z = int64(r.Intn(2000)) - 1000
			case 1:
				z >>= uint(r.Intn(63))
			}
			alphabet := "0123456789+-_ a0019"
			n := r.Intn(22)
			b := make([]byte, n)
			for k := range b {
				b[k] = alphabet[r.Intn(len(alphabet))]
				if r.Intn(100) < 70 {
					b[k] = byte('0' + r.Intn(10))
				}
			}
			if n > 0 && r.Intn(100) < 30 {
				b[0] = "+-"[r.Intn(2)]
			}
			return c06Num{z, string(b)}
		},
		Run: func(in c06Num) (V, Verdict) {
			s := strconv.Itoa(int(in.Z))
			back, err := strconv.Atoi(s)
			v := Pass("numeral", true)
			if err != nil || int64(back) != in.Z {
				v = Fail("atoi-itoa-roundtrip", fmt.Sprintf("Atoi(Itoa(%d)) = %d, %v", in.Z, back, err))
			}
			n, err := strconv.Atoi(in.S)
			a := VL{}
			if err == nil {
				a = VL{VZ(int64(n))}
				v.Class = "numeral/parses"
			}
			return VL{VS(s), a}, v
		},
		Coq: func(in c06Num) string { return fmt.Sprintf("(%s, %s)", CoqZ(in.Z), CoqString(in.S)) },
	})
}
