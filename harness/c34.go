//go:build verif_c34 || verif_c35

package main

import (
	"errors"
	"fmt"
	"io"

	"github.com/pion/webrtc/v4/pkg/media/h264reader"
	"github.com/pion/webrtc/v4/pkg/media/h265reader"
)

// C34: the Annex-B readers return exactly the framed NAL units.
//
// input: codec, SEI inclusion, the units (each: start-code width, bytes as a
// list of pieces), the read sizes the io.Reader hands out (cyclically, never
// more than the reader's 4096-byte buffer; 0 = a (0, nil) read).
// Valid=false marks streams outside the property's premises (raw bytes,
// trailing zeros, emulated start codes): compared with the model only.

type c34NAL struct {
	Four  bool    `json:"four"`
	Parts []m1Pay `json:"parts"`
}
type c34In struct {
	H265  bool     `json:"h265"`
	SEI   bool     `json:"sei"` // WithIncludeSEI
	NALs  []c34NAL `json:"nals"`
	Raw   []m1Pay  `json:"raw,omitempty"` // when set: the stream itself, NALs unused
	Sizes []int    `json:"sizes"`
	Valid bool     `json:"valid"`
}

func (n c34NAL) Bytes() []byte {
	var out []byte
	for _, p := range n.Parts {
		out = append(out, p.Bytes()...)
	}
	return out
}

func (in c34In) stream() []byte {
	var out []byte
	if in.Raw != nil {
		for _, p := range in.Raw {
			out = append(out, p.Bytes()...)
		}
		return out
	}
	for _, n := range in.NALs {
		if n.Four {
			out = append(out, 0, 0, 0, 1)
		} else {
			out = append(out, 0, 0, 1)
		}
		out = append(out, n.Bytes()...)
	}
	return out
}

// the property's premises on one unit
func c34NalOK(b []byte) bool {
	if len(b) == 0 || b[len(b)-1] == 0 {
		return false
	}
	for i := 0; i+2 < len(b); i++ {
		if b[i] == 0 && b[i+1] == 0 && b[i+2] <= 1 {
			return false
		}
	}
	return true
}

// is the unit an SEI unit (property: skipped when SEI inclusion is off)
func c34IsSEI(h265 bool, b []byte) bool {
	if h265 {
		t := (b[0] >> 1) & 0x3f
		return t == 39 || t == 40
	}
	return b[0]&0x1f == 6
}

type c34Unit struct {
	Data   []byte
	Fields []int64 // h264: forbidden, ref_idc, type; h265: forbidden, type, layer, tid
}

func c34ErrClass(err error) string {
	switch {
	case err == nil:
		return "ok"
	case errors.Is(err, io.EOF):
		return "eof"
	}
	return "notstream"
}

func b2i(b bool) int64 {
	if b {
		return 1
	}
	return 0
}

// c34ReadAll runs the real reader over the stream delivered in the given read sizes.
func c34ReadAll(h265, sei bool, data []byte, sizes []int) (units []c34Unit, end error, delivered []int) {
	src := &shortReader{data: append([]byte{}, data...), sizes: sizes}
	limit := len(data) + 3
	if h265 {
		rd, err := h265reader.NewReaderWithOptions(src, h265reader.WithIncludeSEI(sei))
		if err != nil {
			panic(err)
		}
		for i := 0; i < limit; i++ {
			n, err := rd.NextNAL()
			if err != nil {
				return units, err, src.Delivered
			}
			units = append(units, c34Unit{Data: append([]byte{}, n.Data...),
				Fields: []int64{b2i(n.ForbiddenZeroBit), int64(n.NalUnitType), int64(n.LayerID), int64(n.TemporalIDPlus1)}})
		}
	} else {
		rd, err := h264reader.NewReaderWithOptions(src, h264reader.WithIncludeSEI(sei))
		if err != nil {
			panic(err)
		}
		for i := 0; i < limit; i++ {
			n, err := rd.NextNAL()
			if err != nil {
				return units, err, src.Delivered
			}
			units = append(units, c34Unit{Data: append([]byte{}, n.Data...),
				Fields: []int64{b2i(n.ForbiddenZeroBit), int64(n.RefIdc), int64(n.UnitType)}})
		}
	}
	return units, errors.New("reader does not terminate"), src.Delivered
}

// header fields as the codec specifications lay them out (independent of the readers)
func c34Fields(h265 bool, b []byte) []int64 {
	if !h265 {
		return []int64{int64(b[0] >> 7), int64(b[0]>>5) & 3, int64(b[0] & 31)}
	}
	if len(b) < 2 {
		return []int64{0, 0, 0, 0} // the reader leaves its defaults
	}
	w := int64(b[0])<<8 | int64(b[1])
	return []int64{w >> 15, (w >> 9) & 63, (w >> 3) & 63, w & 7}
}

func c34Run(in c34In) (V, Verdict) {
	data := in.stream()
	units, end, _ := c34ReadAll(in.H265, in.SEI, data, in.Sizes)
	uv := make(VL, len(units))
	for i, u := range units {
		uv[i] = VL{m1Digest(u.Data), VInts(u.Fields)}
	}
	obs := VL{uv, VS(c34ErrClass(end))}
	codec := "h264"
	if in.H265 {
		codec = "h265"
	}
	if !in.Valid {
		return obs, Pass(fmt.Sprintf("outside-premises/%s/%s", codec, c34ErrClass(end)), false)
	}
	// expected: the units in order, SEI units dropped when inclusion is off
	var want [][]byte
	lastSkipped := false
	nsei := 0
	for _, n := range in.NALs {
		b := n.Bytes()
		if !c34NalOK(b) {
			panic("generator produced a unit outside the premises")
		}
		sk := !in.SEI && c34IsSEI(in.H265, b)
		if c34IsSEI(in.H265, b) {
			nsei++
		}
		lastSkipped = sk
		if !sk {
			want = append(want, b)
		}
	}
	same := func(k int) bool { return k < len(units) && k < len(want) && string(units[k].Data) == string(want[k]) }
	for k := 0; k < len(want) || k < len(units); k++ {
		if same(k) {
			if f := c34Fields(in.H265, want[k]); fmt.Sprint(f) != fmt.Sprint(units[k].Fields) {
				return obs, Fail("header-fields-differ", fmt.Sprintf("unit %d header % x: fields %v, want %v", k, want[k][:min(2, len(want[k]))], units[k].Fields, f))
			}
			continue
		}
		if k == len(want) && k == len(units)-1 && lastSkipped && string(units[k].Data) == string(in.NALs[len(in.NALs)-1].Bytes()) {
			return obs, Fail("trailing-skipped-nal-returned",
				fmt.Sprintf("%s, SEI inclusion off: the last unit (SEI, %d bytes) was returned as unit %d", codec, len(units[k].Data), k))
		}
		return obs, Fail("nal-sequence-differs", fmt.Sprintf("%s: %d units expected, %d returned; first difference at %d", codec, len(want), len(units), k))
	}
	if !errors.Is(end, io.EOF) {
		return obs, Fail("no-eof-after-last-unit", fmt.Sprintf("after %d units: %v", len(units), end))
	}
	class := fmt.Sprintf("%s/sei-%v/units%d/sei-units%d", codec, in.SEI, min(len(in.NALs), 8)/2*2, min(nsei, 2))
	return obs, Pass(class, len(in.NALs) >= 2)
}

func c34Coq(in c34In) string {
	var parts []string
	if in.Raw != nil {
		for _, p := range in.Raw {
			parts = append(parts, p.Coq())
		}
	} else {
		for _, n := range in.NALs {
			if n.Four {
				parts = append(parts, "(PHex \"00000001\")")
			} else {
				parts = append(parts, "(PHex \"000001\")")
			}
			for _, p := range n.Parts {
				parts = append(parts, p.Coq())
			}
		}
	}
	sizes := make([]string, len(in.Sizes))
	for i, s := range in.Sizes {
		sizes[i] = fmt.Sprint(s)
	}
	if len(sizes) == 0 {
		sizes = []string{"4096"}
	}
	return fmt.Sprintf("(%s, %s, %s, %s%%N)", CoqBool(in.H265), CoqBool(in.SEI), CoqList(parts), CoqList(sizes))
}

// ---------- generators ----------

var c34Types264 = []int{1, 1, 1, 5, 5, 6, 6, 6, 7, 8, 9, 0, 2, 12, 19, 23, 24, 28, 31}
var c34Types265 = []int{0, 1, 1, 19, 20, 21, 32, 33, 34, 35, 39, 39, 40, 40, 38, 48, 49, 63}

func c34Sanitize(b []byte) []byte {
	for i := 0; i+2 < len(b); i++ {
		if b[i] == 0 && b[i+1] == 0 && b[i+2] <= 1 {
			b[i+2] = 3
		}
	}
	if b[len(b)-1] == 0 {
		b[len(b)-1] = 0x80
	}
	return b
}

// bytes with many zeros, ones and threes, so that the zero counter is exercised
func c34Body(r *Rand, n int) []byte {
	b := make([]byte, n)
	for i := range b {
		switch r.Intn(6) {
		case 0, 1:
			b[i] = 0
		case 2:
			b[i] = byte(1 + r.Intn(3))
		default:
			b[i] = byte(r.U64())
		}
	}
	return b
}

func c34GenNAL(r *Rand, h265 bool, typ int, size int) c34NAL {
	n := c34NAL{Four: r.Bool()}
	var hdr []byte
	if h265 {
		hdr = []byte{byte(typ<<1) | byte(r.Intn(2)) | byte(r.Intn(2))<<7, byte(r.Intn(256))}
		if hdr[1] == 0 {
			hdr[1] = 1
		}
	} else {
		hdr = []byte{byte(typ) | byte(r.Intn(4))<<5 | byte(r.Intn(8)/7)<<7}
	}
	if size < len(hdr) {
		size = len(hdr)
	}
	if h265 && r.Chance(1, 40) {
		// a one-byte unit: the h265 reader leaves its header defaults
		hdr, size = hdr[:1], 1
	}
	if size <= 40 {
		n.Parts = []m1Pay{m1Lit(c34Sanitize(append(hdr, c34Body(r, size-len(hdr))...)))}
		return n
	}
	head := c34Sanitize(append(hdr, c34Body(r, 12)...))
	tail := c34Sanitize(c34Body(r, 12))
	if tail[0] < 2 {
		tail[0] = 0x42
	}
	fill := m1Pay{Len: size - len(head) - len(tail), A: r.Intn(256), B: 1 + r.Intn(255)}
	n.Parts = []m1Pay{m1Lit(head), fill, m1Lit(tail)}
	if !c34NalOK(n.Bytes()) {
		panic("c34GenNAL: unit outside the premises")
	}
	return n
}

func c34Size(r *Rand) int {
	switch r.Intn(10) {
	case 0:
		return r.Range(1, 4)
	case 1, 2:
		return r.Range(200, 3000)
	case 3:
		if r.Chance(1, 3) {
			return r.Range(3000, 10240)
		}
	}
	return r.Range(2, 60)
}

func c34GenSizes(r *Rand) []int {
	switch r.Intn(6) {
	case 0:
		return []int{1}
	case 1:
		return []int{4096}
	case 2:
		return []int{r.Range(2, 7)}
	case 3:
		return []int{r.Range(1, 4096)}
	}
	n := r.Range(2, 5)
	out := make([]int, n)
	for i := range out {
		out[i] = Pick(r, []int{1, 1, 2, 3, 4, 5, 7, 64, 1000, 4095, 4096, 5000})
		if r.Chance(1, 3) {
			out[i] = r.Range(1, 4096)
		}
	}
	return out
}

func c34Gen(r *Rand, i int) c34In {
	in := c34In{H265: r.Bool(), SEI: r.Chance(1, 3), Valid: true, Sizes: c34GenSizes(r)}
	types := c34Types264
	if in.H265 {
		types = c34Types265
	}
	k := r.Range(1, 7)
	for j := 0; j < k; j++ {
		in.NALs = append(in.NALs, c34GenNAL(r, in.H265, Pick(r, types), c34Size(r)))
	}
	if r.Chance(1, 4) { // SEI last
		sei := 6
		if in.H265 {
			sei = 39 + r.Intn(2)
		}
		in.NALs = append(in.NALs, c34GenNAL(r, in.H265, sei, c34Size(r)))
	}
	if r.Chance(1, 8) { // outside the premises
		in.Valid = false
		switch r.Intn(6) {
		case 0: // trailing zeros on some unit
			j := r.Intn(len(in.NALs))
			in.NALs[j].Parts = append(in.NALs[j].Parts, m1Lit(make([]byte, r.Range(1, 3))))
		case 1: // emulated start code inside a unit
			j := r.Intn(len(in.NALs))
			in.NALs[j].Parts = append(in.NALs[j].Parts, m1Lit([]byte{0, 0, byte(r.Intn(2)), 9}))
		case 2: // raw bytes
			in.Raw = []m1Pay{m1Lit(c34Body(r, r.Range(0, 40)))}
		case 3: // garbage before the first start code
			in.Raw = append([]m1Pay{m1Lit(c34Body(r, r.Range(1, 5)))}, m1Lit(in.stream()[:min(40, len(in.stream()))]))
		case 4: // very short streams
			in.Raw = []m1Pay{m1Lit([][]byte{{}, {0}, {0, 0}, {0, 0, 1}, {0, 0, 0}, {0, 0, 0, 1}, {0, 0, 1, 9}, {0, 0, 0, 1, 9}, {1, 2, 3, 4}}[r.Intn(9)])}
		case 5: // (0, nil) reads in the cycle
			in.Sizes = append(in.Sizes, 0)
		}
	}
	return in
}

func c34Shrink(in c34In) []c34In {
	var out []c34In
	for i := range in.NALs {
		if len(in.NALs) > 1 {
			c := in
			c.NALs = append(append([]c34NAL{}, in.NALs[:i]...), in.NALs[i+1:]...)
			out = append(out, c)
		}
	}
	if len(in.Sizes) != 1 || in.Sizes[0] != 4096 {
		c := in
		c.Sizes = []int{4096}
		out = append(out, c)
	}
	return out
}

func c34Corpus() []c34In {
	lit := func(four bool, b ...byte) c34NAL { return c34NAL{Four: four, Parts: []m1Pay{m1Lit(b)}} }
	var out []c34In
	for _, sz := range [][]int{{4096}, {1}, {3}} {
		out = append(out,
			// design probe: SEI inclusion off, the stream [SPS; SEI] returns the trailing SEI (repaired)
			c34In{Valid: true, Sizes: sz, NALs: []c34NAL{lit(true, 0x67, 0x42, 0x00, 0x1f), lit(true, 0x06, 0x05, 0x01, 0x80)}},
			c34In{Valid: true, H265: true, Sizes: sz, NALs: []c34NAL{lit(true, 0x42, 0x01, 0x01), lit(false, 0x4e, 0x01, 0x05), lit(false, 0x50, 0x01, 0x05)}},
			c34In{Valid: true, Sizes: sz, NALs: []c34NAL{lit(false, 0x06, 0x80)}}, // only an SEI
			// SEI first / in the middle / several in a row; included
			c34In{Valid: true, Sizes: sz, NALs: []c34NAL{lit(false, 0x06, 0x05), lit(true, 0x67, 0x42), lit(false, 0x06, 0x01), lit(false, 0x06, 0x02), lit(true, 0x65, 0x88)}},
			c34In{Valid: true, SEI: true, Sizes: sz, NALs: []c34NAL{lit(false, 0x06, 0x05), lit(true, 0x67, 0x42), lit(false, 0x06, 0x01)}},
			// units that start with zero bytes, single-byte units, 0 0 2 / 0 0 3 inside
			c34In{Valid: true, Sizes: sz, NALs: []c34NAL{lit(false, 0x00, 0x00, 0x09), lit(false, 0x00, 0x01), lit(true, 0x09), lit(false, 0x01, 0x01), lit(true, 0x65, 0, 0, 3, 0, 0, 2, 0, 1)}},
		)
	}
	return out
}

// ---------- suite hdr: every header value ----------

type c34Hdr struct {
	H265 bool `json:"h265"`
	B0   int  `json:"b0"`
	B1   int  `json:"b1"`
}

func c34RunHdr(in c34Hdr) (V, Verdict) {
	unit := []byte{byte(in.B0), 0x80}
	if in.H265 {
		unit = []byte{byte(in.B0), byte(in.B1), 0x80}
	}
	units, end, _ := c34ReadAll(in.H265, true, append([]byte{0, 0, 0, 1}, unit...), nil)
	if len(units) != 1 || string(units[0].Data) != string(unit) || !errors.Is(end, io.EOF) {
		return VL{}, Fail("nal-sequence-differs", fmt.Sprintf("single unit % x: %d units, then %v", unit, len(units), end))
	}
	obs := VInts(units[0].Fields)
	if f := c34Fields(in.H265, unit); fmt.Sprint(f) != fmt.Sprint(units[0].Fields) {
		return obs, Fail("header-fields-differ", fmt.Sprintf("header % x: fields %v, want %v", unit[:len(unit)-1], units[0].Fields, f))
	}
	if in.H265 {
		return obs, Pass("h265", true)
	}
	return obs, Pass("h264", true)
}

func init() {
	Register(Spec[c34Hdr]{
		ID: "C34", Suite: "hdr", CoqImports: []string{"Check.C34"},
		CoqType: "bool * Z * Z", CoqRun: "Check.C34.run_hdr",
		Exhaustive: func() []c34Hdr {
			var out []c34Hdr
			for b := 0; b < 256; b++ {
				out = append(out, c34Hdr{B0: b})
			}
			for b0 := 0; b0 < 256; b0++ {
				for b1 := 0; b1 < 256; b1++ {
					out = append(out, c34Hdr{H265: true, B0: b0, B1: b1})
				}
			}
			return out
		},
		Run: c34RunHdr, Parallel: 8,
		// the model side takes all 256 h264 values and 1536 of the 65536 h265 ones
		// (every b0 with three b1, every b1 with three b0); Coq proves the rest
		Coq: func(in c34Hdr) string {
			if in.H265 && !(in.B1 == 0 || in.B1 == 0xff || in.B1 == 0xa5 || in.B0 == 0x40 || in.B0 == 0x41 || in.B0 == 0xff) {
				return ""
			}
			return fmt.Sprintf("(%s, %d, %d)", CoqBool(in.H265), in.B0, in.B1)
		},
	})
	Register(Spec[c34In]{
		ID: "C34", Suite: "nals", CoqImports: []string{"Common.Media1Util", "Check.C34"},
		CoqType: "Check.C34.c34_in", CoqRun: "Check.C34.run",
		Quick: 500, Thorough: 10000, Parallel: 8,
		Corpus: c34Corpus, Gen: c34Gen, Run: c34Run, Coq: c34Coq, Shrink: c34Shrink,
	})
}
