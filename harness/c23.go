//go:build verif_c23

package main

// C23: media written to a local track arrives intact on the negotiated stream.
//
// suite "details" (no network): what addSenderSDP announces is what
//   trackDetailsFromSDP parses back - real offers of real PeerConnections with
//   varied ids / RTX / FEC / kinds, plus hand-built attribute lists that walk
//   the parser's other branches; compared with the model.
// suite "media" (connected): a configuration matrix of real pairs over
//   loopback; RTP with random payloads through TrackLocalStaticRTP, read from
//   the remote TrackRemote.

import (
	"context"
	"encoding/binary"
	"encoding/json"
	"fmt"
	"sort"
	"strings"
	"sync"
	"time"

	"github.com/pion/interceptor"
	"github.com/pion/logging"
	"github.com/pion/rtp"
	"github.com/pion/sdp/v3"
	"github.com/pion/webrtc/v4"
)

// ---------- codec tables ----------

type c23CodecDef struct {
	Name string
	Cap  webrtc.RTPCodecCapability
	PT   uint8
	Kind webrtc.RTPCodecType
}

var c23Codecs = map[string]c23CodecDef{
	"opus": {"opus", webrtc.RTPCodecCapability{MimeType: webrtc.MimeTypeOpus, ClockRate: 48000, Channels: 2, SDPFmtpLine: "minptime=10;useinbandfec=1"}, 111, webrtc.RTPCodecTypeAudio},
	"vp8":  {"vp8", webrtc.RTPCodecCapability{MimeType: webrtc.MimeTypeVP8, ClockRate: 90000}, 96, webrtc.RTPCodecTypeVideo},
	"vp9":  {"vp9", webrtc.RTPCodecCapability{MimeType: webrtc.MimeTypeVP9, ClockRate: 90000, SDPFmtpLine: "profile-id=0"}, 98, webrtc.RTPCodecTypeVideo},
	"h264": {"h264", webrtc.RTPCodecCapability{MimeType: webrtc.MimeTypeH264, ClockRate: 90000, SDPFmtpLine: "level-asymmetry-allowed=1;packetization-mode=1;profile-level-id=42001f"}, 102, webrtc.RTPCodecTypeVideo},
	"av1":  {"av1", webrtc.RTPCodecCapability{MimeType: webrtc.MimeTypeAV1, ClockRate: 90000}, 45, webrtc.RTPCodecTypeVideo},
	// the further variants RegisterDefaultCodecs registers for one codec family:
	// same mime type, clock rate and channels, another fmtp line
	"h264-pm0":        {"h264-pm0", c23H264("0", "42001f"), 30, webrtc.RTPCodecTypeVideo},
	"h264-42e01f":     {"h264-42e01f", c23H264("1", "42e01f"), 32, webrtc.RTPCodecTypeVideo},
	"h264-42e01f-pm0": {"h264-42e01f-pm0", c23H264("0", "42e01f"), 34, webrtc.RTPCodecTypeVideo},
	"h264-4d001f":     {"h264-4d001f", c23H264("1", "4d001f"), 36, webrtc.RTPCodecTypeVideo},
	"h264-4d001f-pm0": {"h264-4d001f-pm0", c23H264("0", "4d001f"), 38, webrtc.RTPCodecTypeVideo},
	"vp9-p2":          {"vp9-p2", webrtc.RTPCodecCapability{MimeType: webrtc.MimeTypeVP9, ClockRate: 90000, SDPFmtpLine: "profile-id=2"}, 40, webrtc.RTPCodecTypeVideo},
	"h264-64001f":     {"h264-64001f", c23H264("1", "64001f"), 42, webrtc.RTPCodecTypeVideo},
}

func c23H264(pm, plid string) webrtc.RTPCodecCapability {
	return webrtc.RTPCodecCapability{MimeType: webrtc.MimeTypeH264, ClockRate: 90000,
		SDPFmtpLine: "level-asymmetry-allowed=1;packetization-mode=" + pm + ";profile-level-id=" + plid}
}

var c23VideoOrder = []string{"vp8", "h264", "av1", "vp9"}

// with the variants, in the order of RegisterDefaultCodecs: the families'
// first entries stand BEFORE their other variants
var c23VideoOrderVariants = []string{"vp8", "h264", "h264-pm0", "h264-42e01f", "h264-42e01f-pm0", "h264-4d001f", "h264-4d001f-pm0",
	"av1", "vp9", "vp9-p2", "h264-64001f"}

func c23IsVariant(codec string) bool {
	for _, n := range c23VideoOrder {
		if n == codec {
			return false
		}
	}
	return codec != "opus"
}

// c23Engine registers opus and the four video codecs (in a fixed order), each
// video codec followed by its RTX codec when rtx is set, flexfec-03 when fec is
// set. ptShift moves every payload type (distinct tables on the two sides make
// "the negotiated payload type" differ from the sender's own).
func c23Engine(rtx, fec bool, ptShift int) *webrtc.MediaEngine {
	return c23EngineSwap(rtx, fec, ptShift, false, false)
}

// c23EngineSwap: with swap, VP8 and H264 exchange their payload types, so that
// a payload type of the other side's table names a different codec in this
// side's registered table (the negotiated table must win).
func c23EngineSwap(rtx, fec bool, ptShift int, swap, variants bool) *webrtc.MediaEngine {
	me := &webrtc.MediaEngine{}
	must := func(err error) {
		if err != nil {
			panic(err)
		}
	}
	fb := []webrtc.RTCPFeedback{{Type: "nack"}, {Type: "nack", Parameter: "pli"}}
	op := c23Codecs["opus"]
	must(me.RegisterCodec(webrtc.RTPCodecParameters{RTPCodecCapability: op.Cap, PayloadType: webrtc.PayloadType(int(op.PT) - ptShift)}, webrtc.RTPCodecTypeAudio))
	rtxPT := 70
	order := c23VideoOrder
	if variants {
		order = c23VideoOrderVariants
	}
	for _, n := range order {
		d := c23Codecs[n]
		cp := d.Cap
		cp.RTCPFeedback = fb
		pt := int(d.PT) + ptShift
		if swap && n == "vp8" {
			pt = int(c23Codecs["h264"].PT) + ptShift
		} else if swap && n == "h264" {
			pt = int(c23Codecs["vp8"].PT) + ptShift
		}
		must(me.RegisterCodec(webrtc.RTPCodecParameters{RTPCodecCapability: cp, PayloadType: webrtc.PayloadType(pt)}, webrtc.RTPCodecTypeVideo))
		if rtx {
			must(me.RegisterCodec(webrtc.RTPCodecParameters{
				RTPCodecCapability: webrtc.RTPCodecCapability{MimeType: webrtc.MimeTypeRTX, ClockRate: 90000, SDPFmtpLine: fmt.Sprintf("apt=%d", pt)},
				PayloadType:        webrtc.PayloadType(rtxPT + ptShift),
			}, webrtc.RTPCodecTypeVideo))
			rtxPT++
		}
	}
	if fec {
		must(me.RegisterCodec(webrtc.RTPCodecParameters{
			RTPCodecCapability: webrtc.RTPCodecCapability{MimeType: webrtc.MimeTypeFlexFEC03, ClockRate: 90000, SDPFmtpLine: "repair-window=10000000"},
			PayloadType:        webrtc.PayloadType(118 + ptShift),
		}, webrtc.RTPCodecTypeVideo))
	}
	return me
}

// ---------- SDP -> model input ----------

type c23Sec struct {
	Media string      `json:"media"`
	Attrs [][2]string `json:"attrs"`
}

func c23Sections(raw string) ([]c23Sec, error) {
	p := &sdp.SessionDescription{}
	if err := p.UnmarshalString(raw); err != nil {
		return nil, err
	}
	var out []c23Sec
	for _, m := range p.MediaDescriptions {
		s := c23Sec{Media: m.MediaName.Media}
		for _, a := range m.Attributes {
			s.Attrs = append(s.Attrs, [2]string{a.Key, a.Value})
		}
		out = append(out, s)
	}
	return out, nil
}

func c23Printable(s string) bool {
	for i := 0; i < len(s); i++ {
		if s[i] < 32 || s[i] > 126 {
			return false
		}
	}
	return true
}

// sections as a Gallina term; attributes the model never looks at are kept
// (they must be skipped by the model exactly as by the code) except
// candidates/fingerprints, which only add bulk
func c23SecsCoq(secs []c23Sec) (string, bool) {
	parts := make([]string, len(secs))
	for i, s := range secs {
		var as []string
		for _, a := range s.Attrs {
			if a[0] == "candidate" || a[0] == "fingerprint" || a[0] == "ice-pwd" || a[0] == "rtcp-fb" || a[0] == "extmap" {
				continue
			}
			if !c23Printable(a[0]) || !c23Printable(a[1]) {
				return "", false
			}
			if a[0] == "rid" || a[0] == "simulcast" {
				return "", false // simulcast is outside the model
			}
			as = append(as, fmt.Sprintf("(%s, %s)", CoqString(a[0]), CoqString(a[1])))
		}
		if !c23Printable(s.Media) {
			return "", false
		}
		parts[i] = fmt.Sprintf("(Sec %s %s)", CoqString(s.Media), CoqList(as))
	}
	return CoqList(parts), true
}

func c23SecsToSDP(secs []c23Sec) string {
	var b strings.Builder
	b.WriteString("v=0\r\no=- 1 1 IN IP4 0.0.0.0\r\ns=-\r\nt=0 0\r\n")
	for _, s := range secs {
		fmt.Fprintf(&b, "m=%s 9 UDP/TLS/RTP/SAVPF 96\r\nc=IN IP4 0.0.0.0\r\n", s.Media)
		for _, a := range s.Attrs {
			if a[1] == "" {
				fmt.Fprintf(&b, "a=%s\r\n", a[0])
			} else {
				fmt.Fprintf(&b, "a=%s:%s\r\n", a[0], a[1])
			}
		}
	}
	return b.String()
}

func c23DetailsV(ds []webrtc.VerifC23TrackDetails, withFEC bool) V {
	out := make(VL, 0, len(ds))
	for _, d := range ds {
		opt := func(p *webrtc.SSRC) V {
			if p == nil {
				return VL{}
			}
			return VL{VZ(int64(*p))}
		}
		row := VL{VS(d.Mid), VZ(int64(d.Kind)), VS(d.StreamID), VS(d.ID), VInts(d.SSRCs), opt(d.RTX)}
		if withFEC {
			row = append(row, opt(d.FEC))
		}
		out = append(out, row)
	}
	return out
}

// ---------- suite "details" ----------

type c23Track struct {
	Codec    string `json:"codec"`
	StreamID string `json:"stream_id"`
	TrackID  string `json:"track_id"`
}

type c23Details struct {
	Mode   string     `json:"mode"` // "pc": offer of a real PeerConnection; "raw": hand-built sections
	Tracks []c23Track `json:"tracks,omitempty"`
	RTX    bool       `json:"rtx,omitempty"`
	FEC    bool       `json:"fec,omitempty"`
	Data   bool       `json:"data,omitempty"`
	RecvV  bool       `json:"recv_video,omitempty"` // an extra recvonly video transceiver
	Secs   []c23Sec   `json:"secs,omitempty"`
}

func c23QuietAPI(me *webrtc.MediaEngine) *webrtc.API {
	se := webrtc.SettingEngine{}
	lf := logging.NewDefaultLoggerFactory()
	lf.DefaultLogLevel = logging.LogLevelDisabled
	se.LoggerFactory = lf
	se.SetInterfaceFilter(func(string) bool { return false })
	se.SetNetworkTypes([]webrtc.NetworkType{webrtc.NetworkTypeUDP4})
	return webrtc.NewAPI(webrtc.WithSettingEngine(se), webrtc.WithMediaEngine(me))
}

func c23HasSpace(s string) bool { return strings.Contains(s, " ") }

func c23DetailsRun(in c23Details) (V, Verdict) {
	if in.Mode == "raw" {
		raw := c23SecsToSDP(in.Secs)
		ds, err := webrtc.VerifC23TrackDetailsFromSDP(raw)
		if err != nil {
			return VL{VS("unparsable")}, Pass("raw/unparsable", false)
		}
		return c23DetailsV(ds, true), Pass(fmt.Sprintf("raw/%dtracks", min(len(ds), 3)), len(ds) > 0)
	}
	me := c23Engine(in.RTX, in.FEC, 0)
	pc, err := c23QuietAPI(me).NewPeerConnection(webrtc.Configuration{})
	if err != nil {
		panic(err)
	}
	defer func() { _ = pc.Close() }()
	type want struct {
		sender *webrtc.RTPSender
		tr     c23Track
	}
	var wants []want
	for _, t := range in.Tracks {
		tl, err := webrtc.NewTrackLocalStaticRTP(c23Codecs[t.Codec].Cap, t.TrackID, t.StreamID)
		if err != nil {
			panic(err)
		}
		s, err := pc.AddTrack(tl)
		if err != nil {
			return VS("addtrack"), Fail("addtrack-failed", err.Error())
		}
		wants = append(wants, want{s, t})
	}
	if in.RecvV {
		if _, err := pc.AddTransceiverFromKind(webrtc.RTPCodecTypeVideo,
			webrtc.RTPTransceiverInit{Direction: webrtc.RTPTransceiverDirectionRecvonly}); err != nil {
			panic(err)
		}
	}
	if in.Data {
		if _, err := pc.CreateDataChannel("d", nil); err != nil {
			panic(err)
		}
	}
	offer, err := pc.CreateOffer(nil)
	if err != nil {
		return VS("offer"), Fail("createoffer-failed", err.Error())
	}
	ds, err := webrtc.VerifC23TrackDetailsFromSDP(offer.SDP)
	if err != nil {
		return VS("parse"), Fail("own-offer-unparsable", err.Error())
	}
	obs := c23DetailsV(ds, true)
	if secs, err := c23Sections(offer.SDP); err == nil {
		if term, ok := c23SecsCoq(secs); ok {
			c23Remember(in, term)
		}
	}
	// direct oracle: one parsed track per sending track, carrying what the
	// sender announces (GetParameters) and the TrackLocal's ids
	spaced := false
	for _, w := range wants {
		spaced = spaced || c23HasSpace(w.tr.StreamID) || c23HasSpace(w.tr.TrackID)
	}
	if len(ds) != len(wants) {
		return obs, Fail("announced-track-count-differs", fmt.Sprintf("%d sending tracks, %d parsed back", len(wants), len(ds)))
	}
	trs := pc.GetTransceivers()
	for i, w := range wants {
		d := ds[i]
		p := w.sender.GetParameters()
		if len(p.Encodings) != 1 {
			return obs, Fail("sender-encodings-not-one", fmt.Sprint(len(p.Encodings)))
		}
		e := p.Encodings[0]
		mid := ""
		for _, tr := range trs {
			if tr.Sender() == w.sender {
				mid = tr.Mid()
			}
		}
		optEq := func(p *webrtc.SSRC, v webrtc.SSRC) bool {
			if v == 0 {
				return p == nil
			}
			return p != nil && *p == v
		}
		switch {
		case d.Mid != mid || mid == "":
			return obs, Fail("parsed-mid-differs", fmt.Sprintf("track %d: mid %q parsed as %q", i, mid, d.Mid))
		case d.Kind != c23Codecs[w.tr.Codec].Kind:
			return obs, Fail("parsed-kind-differs", fmt.Sprintf("track %d", i))
		case len(d.SSRCs) != 1 || d.SSRCs[0] != e.SSRC:
			return obs, Fail("parsed-ssrc-differs-from-announced", fmt.Sprintf("track %d: sender ssrc %d parsed %v", i, e.SSRC, d.SSRCs))
		case !optEq(d.RTX, e.RTX.SSRC):
			return obs, Fail("parsed-rtx-ssrc-differs", fmt.Sprintf("track %d: sender rtx ssrc %d", i, e.RTX.SSRC))
		case !optEq(d.FEC, e.FEC.SSRC):
			return obs, Fail("parsed-fec-ssrc-differs", fmt.Sprintf("track %d: sender fec ssrc %d", i, e.FEC.SSRC))
		case (e.RTX.SSRC != 0) != (in.RTX && c23Codecs[w.tr.Codec].Kind == webrtc.RTPCodecTypeVideo):
			return obs, Fail("rtx-ssrc-presence-wrong", fmt.Sprintf("track %d: rtx registered=%v ssrc=%d", i, in.RTX, e.RTX.SSRC))
		case d.StreamID != w.tr.StreamID || d.ID != w.tr.TrackID:
			if c23HasSpace(w.tr.StreamID) || c23HasSpace(w.tr.TrackID) {
				return obs, Fail("track-or-stream-id-with-space-not-parsed-back",
					fmt.Sprintf("track %d: ids (%q,%q) parsed back as (%q,%q)", i, w.tr.StreamID, w.tr.TrackID, d.StreamID, d.ID))
			}
			return obs, Fail("parsed-ids-differ", fmt.Sprintf("track %d: ids (%q,%q) parsed back as (%q,%q)", i, w.tr.StreamID, w.tr.TrackID, d.StreamID, d.ID))
		}
	}
	cls := fmt.Sprintf("pc/%dtracks", len(wants))
	if in.RTX {
		cls += "/rtx"
	}
	if in.FEC {
		cls += "/fec"
	}
	if spaced {
		cls += "/spaced-id"
	}
	return obs, Pass(cls, len(wants) > 0)
}

// The Coq input of a PeerConnection case is the parsed description, which is
// not a function of the JSON input (SSRCs are random): Run remembers it under
// the input's JSON, Coq (called by lib.go right after Run, same worker) looks
// it up. Inputs carry a nonce so that no two cases share a key.
var c23Cache sync.Map

func c23Key(in any) string {
	b, err := json.Marshal(in)
	if err != nil {
		panic(err)
	}
	return string(b)
}
func c23Remember(in any, term string) { c23Cache.Store(c23Key(in), term) }
func c23Recall(in any) string {
	v, ok := c23Cache.Load(c23Key(in))
	if !ok {
		return ""
	}
	return v.(string)
}

func c23DetailsCoq(in c23Details) string {
	if in.Mode == "raw" {
		// the text goes through pion/sdp: model what the parser hands to the code
		secs, err := c23Sections(c23SecsToSDP(in.Secs))
		if err != nil {
			return ""
		}
		if c23AmbiguousRepair(secs) {
			return "" // Go ranges over a map there: the result is not a function of the input
		}
		t, ok := c23SecsCoq(secs)
		if !ok {
			return ""
		}
		return t
	}
	return c23Recall(in)
}

// two repair flows of one kind naming the same base ssrc: trackDetailsFromSDP
// picks "the" repair ssrc by ranging over a map, so either may come out
func c23AmbiguousRepair(secs []c23Sec) bool {
	for _, s := range secs {
		seen := map[string]map[string]bool{}
		for _, a := range s.Attrs {
			if a[0] != "ssrc-group" {
				continue
			}
			f := strings.Split(a[1], " ")
			if len(f) != 3 || (f[0] != "FID" && f[0] != "FEC-FR") {
				continue
			}
			var base, rep uint64
			if n, _ := fmt.Sscanf(f[1]+" "+f[2], "%d %d", &base, &rep); n != 2 {
				continue
			}
			k := fmt.Sprintf("%s/%d", f[0], base)
			if seen[k] == nil {
				seen[k] = map[string]bool{}
			}
			seen[k][fmt.Sprint(rep)] = true
			if len(seen[k]) > 1 {
				return true
			}
		}
	}
	return false
}

var c23IDs = []string{"s", "stream", "webcam-0", "{6f1c}", "a:b", "msid:x", "0", "4294967296", "-", "cname:q", "A_B.C~d", ""}
var c23SpacedIDs = []string{"my stream", " lead", "trail ", "a  b"}

func c23GenDetails(r *Rand, i int) c23Details {
	if r.Chance(2, 5) {
		return c23Details{Mode: "raw", Secs: c23GenRaw(r)}
	}
	d := c23Details{Mode: "pc", RTX: r.Bool(), FEC: r.Chance(1, 3), Data: r.Chance(1, 3), RecvV: r.Chance(1, 4)}
	n := r.Range(1, 3)
	for k := 0; k < n; k++ {
		t := c23Track{Codec: Pick(r, []string{"opus", "vp8", "vp9", "h264", "av1"}),
			StreamID: fmt.Sprintf("%s%d", Pick(r, c23IDs), i), TrackID: Pick(r, c23IDs)}
		if r.Chance(1, 4) {
			t.StreamID = Pick(r, c23IDs) // ids need not be unique across tracks
		}
		d.Tracks = append(d.Tracks, t)
	}
	return d
}

// hand-built sections: the sender's attribute shapes in other orders, partial,
// duplicated, malformed numbers, other group semantics, skipped sections
func c23GenRaw(r *Rand) []c23Sec {
	ns := r.Range(1, 3)
	var secs []c23Sec
	ss := []string{"1", "2", "3", "77", "4294967295", "4294967296", "0", "007", "+5", "x", "", "12a"}
	for k := 0; k < ns; k++ {
		s := c23Sec{Media: Pick(r, []string{"video", "audio", "video", "audio", "text", "application"})}
		if !r.Chance(1, 8) {
			s.Attrs = append(s.Attrs, [2]string{"mid", Pick(r, []string{"0", "1", "a", "mid-x"})})
		}
		na := r.Range(0, 10)
		for j := 0; j < na; j++ {
			a, b, c := Pick(r, ss), Pick(r, ss), Pick(r, ss)
			id1, id2 := Pick(r, c23IDs), Pick(r, c23IDs)
			if r.Chance(1, 10) {
				id1 = Pick(r, c23SpacedIDs)
			}
			switch r.Intn(12) {
			case 0:
				s.Attrs = append(s.Attrs, [2]string{"ssrc-group", "FID " + a + " " + b})
			case 1:
				s.Attrs = append(s.Attrs, [2]string{"ssrc-group", "FEC-FR " + a + " " + b})
			case 2:
				s.Attrs = append(s.Attrs, [2]string{"ssrc-group", Pick(r, []string{"FID " + a, "FID " + a + " " + b + " " + c, "SIM " + a + " " + b, "FID", "fid " + a + " " + b})})
			case 3:
				s.Attrs = append(s.Attrs, [2]string{"msid", id1 + " " + id2})
			case 4:
				s.Attrs = append(s.Attrs, [2]string{"msid", Pick(r, []string{id1, id1 + " " + id2 + " x", "-"})})
			case 5, 6:
				s.Attrs = append(s.Attrs, [2]string{"ssrc", a + " msid:" + id1 + " " + id2})
			case 7:
				s.Attrs = append(s.Attrs, [2]string{"ssrc", a + " cname:" + id1})
			case 8:
				s.Attrs = append(s.Attrs, [2]string{"ssrc", Pick(r, []string{a, a + " label:" + id2, a + " mslabel:" + id1, a + " msid:" + id1, a + " MSID:" + id1 + " " + id2})})
			case 9:
				s.Attrs = append(s.Attrs, [2]string{Pick(r, []string{"sendrecv", "sendonly", "recvonly", "inactive", "sendrecv", "sendonly"}), ""})
			case 10:
				s.Attrs = append(s.Attrs, [2]string{"rtpmap", "96 VP8/90000"})
			case 11:
				s.Attrs = append(s.Attrs, [2]string{Pick(r, []string{"Ssrc", "ssrc-Group", "x-ssrc", "MSID"}), a + " " + b})
			}
		}
		secs = append(secs, s)
	}
	return secs
}

func c23DetailsCorpus() []c23Details {
	return []c23Details{
		{Mode: "pc", RTX: true, FEC: true, Data: true, RecvV: true, Tracks: []c23Track{
			{"vp8", "stream", "video"}, {"opus", "stream", "audio"}}},
		{Mode: "pc", Tracks: []c23Track{{"h264", "", ""}}},
		// ids with a space: outside the msid grammar; what the parser makes of them
		{Mode: "pc", RTX: true, Tracks: []c23Track{{"vp9", "my stream", "cam"}}},
		{Mode: "pc", Tracks: []c23Track{{"opus", "s", "front mic"}}},
		// ssrc lines first, groups afterwards (the filterTrackWithSSRC path)
		{Mode: "raw", Secs: []c23Sec{{Media: "video", Attrs: [][2]string{{"mid", "0"}, {"ssrc", "1 msid:s t"}, {"ssrc", "2 msid:s t"},
			{"ssrc", "3 msid:s t"}, {"ssrc-group", "FID 1 2"}, {"ssrc-group", "FEC-FR 1 3"}, {"msid", "s t"}}}}},
		// two repair flows naming the same base; a repair flow re-announced
		{Mode: "raw", Secs: []c23Sec{{Media: "video", Attrs: [][2]string{{"mid", "0"}, {"ssrc-group", "FID 1 2"}, {"ssrc", "1 cname:c"},
			{"ssrc-group", "FID 1 4"}, {"ssrc", "2 cname:c"}, {"ssrc", "1 msid:s t"}}}}},
		{Mode: "raw", Secs: []c23Sec{{Media: "audio", Attrs: [][2]string{{"mid", "0"}, {"recvonly", ""}, {"ssrc", "1 msid:s t"}}},
			{Media: "video", Attrs: [][2]string{{"ssrc", "5 msid:s t"}}},
			{Media: "text", Attrs: [][2]string{{"mid", "2"}, {"ssrc", "6 msid:s t"}}},
			{Media: "video", Attrs: [][2]string{{"mid", "3"}, {"ssrc", "4294967296 msid:s t"}, {"ssrc", "7 msid:s2 t2"}, {"ssrc", "8"}}}}},
	}
}

// ---------- suite "media" ----------

type c23MTrack struct {
	Codec    string `json:"codec"`
	StreamID string `json:"stream_id"`
	TrackID  string `json:"track_id"`
	N        int    `json:"n"`    // data packets
	Seed     uint64 `json:"seed"` // payloads, sizes, first sequence number / timestamp
}

type c23Media struct {
	Tracks        []c23MTrack `json:"tracks"`
	RTX           bool        `json:"rtx"`
	FEC           bool        `json:"fec"`
	Data          bool        `json:"data"`
	AnswererSends bool        `json:"answerer_sends"`
	PTShift       int         `json:"pt_shift"`           // the answerer's own payload-type table is shifted by this
	PTSwap        bool        `json:"pt_swap"`            // the answerer's table has VP8 and H264 payload types exchanged
	Variants      bool        `json:"variants,omitempty"` // both tables carry every H264 / VP9 variant of RegisterDefaultCodecs
	Shim          *e2eShim    `json:"shim,omitempty"`
	Nonce         int         `json:"nonce"`
}

// c23Tap is a receive-side interceptor that notes (SSRC, payload type) of
// every RTP packet handed to a bound remote stream, whether or not OnTrack
// ever fires: it lets a failure name its cause (wrong payload type vs. wrong
// SSRC vs. nothing arrived).
type c23Tap struct {
	interceptor.NoOp
	mu   sync.Mutex
	seen map[uint32]map[uint8]int
}

func (t *c23Tap) NewInterceptor(string) (interceptor.Interceptor, error) { return t, nil }
func (t *c23Tap) BindRemoteStream(_ *interceptor.StreamInfo, reader interceptor.RTPReader) interceptor.RTPReader {
	return interceptor.RTPReaderFunc(func(b []byte, a interceptor.Attributes) (int, interceptor.Attributes, error) {
		n, a, err := reader.Read(b, a)
		if err == nil && n >= 12 {
			ssrc := binary.BigEndian.Uint32(b[8:12])
			t.mu.Lock()
			if t.seen[ssrc] == nil {
				t.seen[ssrc] = map[uint8]int{}
			}
			t.seen[ssrc][b[1]&0x7f]++
			t.mu.Unlock()
		}
		return n, a, err
	})
}

// why no packet was read from the remote track of ssrc, as far as the tap knows
func (t *c23Tap) diagnose(ssrc uint32, wantPT int) (sig, what string) {
	t.mu.Lock()
	defer t.mu.Unlock()
	if pts := t.seen[ssrc]; len(pts) > 0 {
		for pt := range pts {
			if int(pt) != wantPT {
				return "packet-payload-type-not-negotiated",
					fmt.Sprintf("packets with SSRC %d arrive with payload type %d, the answer negotiates %d; the remote track never starts", ssrc, pt, wantPT)
			}
		}
		return "remote-track-never-delivers", fmt.Sprintf("packets with SSRC %d and payload type %d arrive but OnTrack/ReadRTP deliver none", ssrc, wantPT)
	}
	for other := range t.seen {
		return "packet-ssrc-differs-from-announced", fmt.Sprintf("packets arrive with SSRC %d, the description announces %d", other, ssrc)
	}
	return "no-packet-reached-the-announced-ssrc", fmt.Sprintf("nothing arrived for SSRC %d", ssrc)
}

type c23Sent struct {
	payload []byte
	ts      uint32
	marker  bool
	warm    bool
}

type c23RecvTrack struct {
	track *webrtc.TrackRemote
	recv  *webrtc.RTPReceiver
	mu    sync.Mutex
	pkts  []*rtp.Packet
	tick  chan struct{}
	err   error
}

func (t *c23RecvTrack) count() int { t.mu.Lock(); defer t.mu.Unlock(); return len(t.pkts) }

// independent reading of a description: per mid the msid, the primary ssrc,
// the FID repair ssrc and the payload type of each rtpmap
type c23Announced struct {
	stream, track string
	msidOK        bool
	ssrc, rtx     uint32
	hasSSRC       bool
	pts           map[string]int // lower-case encoding name -> first payload type
	codecs        []c23AnnCodec  // rtpmap lines in order, each with its fmtp line
	direction     string
}

type c23AnnCodec struct {
	pt   int
	name string // lower-case encoding name
	fmtp string
}

func c23Params(line string) map[string]string {
	out := map[string]string{}
	for _, p := range strings.Split(line, ";") {
		p = strings.TrimSpace(p)
		if p == "" {
			continue
		}
		k, v, _ := strings.Cut(p, "=")
		out[strings.ToLower(strings.TrimSpace(k))] = strings.TrimSpace(v)
	}
	return out
}

// "the same codec format", as the RTP payload format specifications define it
// (the harness's own reading; not internal/fmtp): H264 (RFC 6184): the same
// packetization-mode and the same profile_idc and profile-iop, i.e. the first
// two bytes of profile-level-id -- the level may differ; VP9: the same
// profile-id (default 0); AV1: the same profile (default 0); anything else:
// the same parameters.
func c23SameFormat(name, a, b string) bool {
	pa, pb := c23Params(a), c23Params(b)
	def := func(m map[string]string, k, d string) string {
		if v, ok := m[k]; ok {
			return v
		}
		return d
	}
	switch name {
	case "h264":
		ma, oka := pa["packetization-mode"]
		mb, okb := pb["packetization-mode"]
		la, lb := strings.ToLower(pa["profile-level-id"]), strings.ToLower(pb["profile-level-id"])
		return oka && okb && ma == mb && len(la) >= 4 && len(lb) >= 4 && la[:4] == lb[:4] && c23IsHex(la) && c23IsHex(lb)
	case "vp9":
		return def(pa, "profile-id", "0") == def(pb, "profile-id", "0")
	case "av1":
		return def(pa, "profile", "0") == def(pb, "profile", "0")
	}
	if len(pa) != len(pb) {
		return false
	}
	for k, v := range pa {
		if w, ok := pb[k]; !ok || w != v {
			return false
		}
	}
	return true
}

func c23IsHex(s string) bool {
	if len(s)%2 != 0 {
		return false
	}
	for _, c := range s {
		if !(c >= '0' && c <= '9' || c >= 'a' && c <= 'f' || c >= 'A' && c <= 'F') {
			return false
		}
	}
	return true
}

func c23EncName(mime string) string {
	return strings.ToLower(strings.SplitN(mime, "/", 2)[1])
}

// the payload type a description negotiates for a codec: the first rtpmap of
// that encoding name whose fmtp line names the same format
func (a *c23Announced) negotiatedPT(c webrtc.RTPCodecCapability) (int, bool) {
	name := c23EncName(c.MimeType)
	for _, x := range a.codecs {
		if x.name == name && c23SameFormat(name, x.fmtp, c.SDPFmtpLine) {
			return x.pt, true
		}
	}
	return -1, false
}

func c23ReadDescription(raw string) (map[string]*c23Announced, error) {
	secs, err := c23Sections(raw)
	if err != nil {
		return nil, err
	}
	out := map[string]*c23Announced{}
	for _, s := range secs {
		a := &c23Announced{pts: map[string]int{}}
		mid := ""
		repair := map[uint32]bool{}
		for _, at := range s.Attrs {
			if at[0] == "ssrc-group" {
				var sem string
				var x, y uint32
				if n, _ := fmt.Sscanf(at[1], "%s %d %d", &sem, &x, &y); n == 3 {
					repair[y] = true
					if sem == "FID" {
						a.rtx = y
					}
				}
			}
		}
		for _, at := range s.Attrs {
			switch at[0] {
			case "mid":
				mid = at[1]
			case "msid":
				if i := strings.IndexByte(at[1], ' '); i >= 0 {
					a.stream, a.track, a.msidOK = at[1][:i], at[1][i+1:], true
				}
			case "ssrc":
				var x uint32
				if n, _ := fmt.Sscanf(at[1], "%d", &x); n == 1 && !repair[x] && !a.hasSSRC {
					a.ssrc, a.hasSSRC = x, true
				}
			case "rtpmap":
				var pt int
				var name string
				if n, _ := fmt.Sscanf(at[1], "%d %s", &pt, &name); n == 2 {
					name = strings.ToLower(strings.SplitN(name, "/", 2)[0])
					if _, ok := a.pts[name]; !ok {
						a.pts[name] = pt
					}
					a.codecs = append(a.codecs, c23AnnCodec{pt: pt, name: name})
				}
			case "fmtp":
				var pt int
				if i := strings.IndexByte(at[1], ' '); i > 0 {
					if n, _ := fmt.Sscanf(at[1][:i], "%d", &pt); n == 1 {
						for k := range a.codecs {
							if a.codecs[k].pt == pt {
								a.codecs[k].fmtp = at[1][i+1:]
							}
						}
					}
				}
			case "sendrecv", "sendonly", "recvonly", "inactive":
				a.direction = at[0]
			}
		}
		out[mid] = a
	}
	return out, nil
}

func c23CdcCoq(c webrtc.RTPCodecParameters) string {
	return fmt.Sprintf("(Cdc %d %s %d %d %s)", c.PayloadType, CoqString(c.MimeType), c.ClockRate, c.Channels, CoqString(c.SDPFmtpLine))
}

func c23CodecList(cs []webrtc.RTPCodecParameters) string {
	parts := make([]string, len(cs))
	for i, c := range cs {
		parts[i] = fmt.Sprintf("(%d, %s)", c.PayloadType, CoqString(strings.ToLower(c.MimeType)))
	}
	return CoqList(parts)
}

func c23MediaRun(in c23Media) (V, Verdict) {
	ctx, cancel := context.WithTimeout(context.Background(), 40*time.Second)
	defer cancel()
	// a run that fails before the observation exists is still handed to the
	// model (as an empty description), so the suite always has a case file
	c23Remember(in, "(MediaIn [] (Eng false [] false [] [] []) [])")
	variants := in.Variants
	for _, t := range in.Tracks {
		variants = variants || c23IsVariant(t.Codec)
	}
	meO, meA := c23EngineSwap(in.RTX, in.FEC, 0, false, variants), c23EngineSwap(in.RTX, in.FEC, in.PTShift, in.PTSwap, variants)
	tap := &c23Tap{seen: map[uint32]map[uint8]int{}}
	irO, irA := &interceptor.Registry{}, &interceptor.Registry{}
	if in.AnswererSends {
		irO.Add(tap)
	} else {
		irA.Add(tap)
	}
	apiO, closeO := e2eAPI(e2eOpts{Media: meO, Shim: in.Shim, Interceptors: irO}, 0)
	apiA, closeA := e2eAPI(e2eOpts{Media: meA, Shim: in.Shim, Interceptors: irA}, 1)
	off, err := e2eNewPC(apiO, 0)
	if err != nil {
		panic(err)
	}
	ans, err := e2eNewPC(apiA, 1)
	if err != nil {
		panic(err)
	}
	defer func() { _ = off.Close(); _ = ans.Close(); closeO(); closeA() }()
	offConn, offBad := e2eConnWatch(off)
	ansConn, ansBad := e2eConnWatch(ans)
	snd, rcv := off, ans
	if in.AnswererSends {
		snd, rcv = ans, off
	}

	locals := make([]*webrtc.TrackLocalStaticRTP, len(in.Tracks))
	senders := make([]*webrtc.RTPSender, len(in.Tracks))
	for i, t := range in.Tracks {
		tl, err := webrtc.NewTrackLocalStaticRTP(c23Codecs[t.Codec].Cap, t.TrackID, t.StreamID)
		if err != nil {
			panic(err)
		}
		locals[i] = tl
		if senders[i], err = snd.AddTrack(tl); err != nil {
			return VS("addtrack"), Fail("addtrack-failed", err.Error())
		}
		if in.AnswererSends {
			if _, err := off.AddTransceiverFromKind(c23Codecs[t.Codec].Kind,
				webrtc.RTPTransceiverInit{Direction: webrtc.RTPTransceiverDirectionRecvonly}); err != nil {
				panic(err)
			}
		}
	}
	dcOpen := make(chan struct{})
	if in.Data {
		d, err := off.CreateDataChannel("bundle", nil)
		if err != nil {
			panic(err)
		}
		d.OnOpen(func() { close(dcOpen) })
	}
	var rmu sync.Mutex
	var rtracks []*c23RecvTrack
	newTrack := make(chan struct{}, 8)
	rcv.OnTrack(func(tr *webrtc.TrackRemote, r *webrtc.RTPReceiver) {
		rt := &c23RecvTrack{track: tr, recv: r, tick: make(chan struct{}, 1)}
		rmu.Lock()
		rtracks = append(rtracks, rt)
		rmu.Unlock()
		newTrack <- struct{}{}
		for {
			p, _, err := tr.ReadRTP()
			if err != nil {
				rt.mu.Lock()
				rt.err = err
				rt.mu.Unlock()
				return
			}
			rt.mu.Lock()
			rt.pkts = append(rt.pkts, p)
			rt.mu.Unlock()
			select {
			case rt.tick <- struct{}{}:
			default:
			}
		}
	})
	if err := e2eNegotiate(ctx, off, ans); err != nil {
		return VS("negotiate"), Fail("negotiation-failed", err.Error())
	}
	if err := e2eWait(ctx, "offerer connected", offConn, offBad); err != nil {
		return VS("connect"), Fail("pair-did-not-connect", err.Error())
	}
	if err := e2eWait(ctx, "answerer connected", ansConn, ansBad); err != nil {
		return VS("connect"), Fail("pair-did-not-connect", err.Error())
	}

	// what the sender's description announces, read independently
	sdesc, err := c23ReadDescription(snd.LocalDescription().SDP)
	if err != nil {
		return VS("sdp"), Fail("sender-description-unparsable", err.Error())
	}
	adesc, err := c23ReadDescription(ans.LocalDescription().SDP)
	if err != nil {
		return VS("sdp"), Fail("answer-unparsable", err.Error())
	}

	// ---- send: warm-up until the remote track delivers, then the data packets
	sent := make([]map[uint16]*c23Sent, len(in.Tracks))
	order := make([][]uint16, len(in.Tracks))
	findRecv := func(ssrc uint32) *c23RecvTrack {
		rmu.Lock()
		defer rmu.Unlock()
		for _, rt := range rtracks {
			if uint32(rt.track.SSRC()) == ssrc {
				return rt
			}
		}
		return nil
	}
	var wg sync.WaitGroup
	fails := make([]*Verdict, len(in.Tracks))
	for i := range in.Tracks {
		sent[i] = map[uint16]*c23Sent{}
		wg.Add(1)
		go func(i int) {
			defer wg.Done()
			t := in.Tracks[i]
			r := NewRand(t.Seed)
			seq := uint16(r.U64())
			ts := uint32(r.U64())
			var smu sync.Mutex
			write := func(warm bool) error {
				size := r.Range(1, 1100)
				if r.Chance(1, 8) {
					size = Pick(r, []int{1, 2, 1100})
				}
				s := &c23Sent{payload: r.Bytes(size), ts: ts, marker: r.Bool(), warm: warm}
				smu.Lock()
				sent[i][seq] = s
				order[i] = append(order[i], seq)
				smu.Unlock()
				err := locals[i].WriteRTP(&rtp.Packet{
					Header:  rtp.Header{Version: 2, SequenceNumber: seq, Timestamp: ts, Marker: s.marker, PayloadType: 0, SSRC: 0xdeadbeef},
					Payload: s.payload,
				})
				seq++
				ts += 3000
				return err
			}
			mid := ""
			for _, tr := range snd.GetTransceivers() {
				if tr.Sender() == senders[i] {
					mid = tr.Mid()
				}
			}
			an := sdesc[mid]
			if an == nil || !an.hasSSRC {
				v := Fail("sender-description-announces-no-ssrc", fmt.Sprintf("track %d mid %q", i, mid))
				fails[i] = &v
				return
			}
			// warm-up: until the first packet has been read from the remote track
			var rt *c23RecvTrack
			wantPT := -1
			if a := adesc[mid]; a != nil {
				if pt, ok := a.negotiatedPT(c23Codecs[t.Codec].Cap); ok {
					wantPT = pt
				}
			}
			warmDeadline := time.After(12 * time.Second)
			for k := 0; ; k++ {
				if err := write(true); err != nil {
					v := Fail("writertp-failed", err.Error())
					fails[i] = &v
					return
				}
				if rt == nil {
					rt = findRecv(an.ssrc)
				}
				if rt != nil && rt.count() > 0 {
					break
				}
				giveUp := false
				select {
				case <-ctx.Done():
					giveUp = true
				case <-warmDeadline:
					giveUp = true
				case <-time.After(15 * time.Millisecond):
				}
				if giveUp {
					sig, what := tap.diagnose(an.ssrc, wantPT)
					v := Fail(sig, fmt.Sprintf("track %d: %d warm-up packets written over 12 s, none read from a TrackRemote with SSRC %d: %s", i, k+1, an.ssrc, what))
					fails[i] = &v
					return
				}
			}
			smu.Lock()
			firstData := len(order[i])
			smu.Unlock()
			for k := 0; k < t.N; k++ {
				if err := write(false); err != nil {
					v := Fail("writertp-failed", err.Error())
					fails[i] = &v
					return
				}
			}
			// every data packet must arrive (loopback, loss-free): wait on the
			// reader's per-packet signal
			dataSeqs := map[uint16]bool{}
			for _, q := range order[i][firstData:] {
				dataSeqs[q] = true
			}
			deadline := time.After(15 * time.Second)
			for {
				rt.mu.Lock()
				have := 0
				for _, p := range rt.pkts {
					if dataSeqs[p.SequenceNumber] {
						have++
					}
				}
				rt.mu.Unlock()
				if have >= t.N {
					return
				}
				select {
				case <-rt.tick:
				case <-deadline:
					v := Fail("data-packet-not-delivered", fmt.Sprintf("track %d: %d of %d data packets read after 15 s", i, have, t.N))
					fails[i] = &v
					return
				case <-ctx.Done():
					v := Fail("data-packet-not-delivered", fmt.Sprintf("track %d: %d of %d data packets read at the case deadline", i, have, t.N))
					fails[i] = &v
					return
				}
			}
		}(i)
	}
	wg.Wait()
	for _, f := range fails {
		if f != nil {
			return VS("send"), *f
		}
	}
	if in.Data {
		select {
		case <-dcOpen:
		case <-ctx.Done():
			return VS("dc"), Fail("bundled-data-channel-did-not-open", "media flowed, the data channel of the same bundle did not open")
		}
	}

	// ---- observation + direct oracle ----
	type row struct {
		mid string
		v   V
		coq string
	}
	var rows []row
	verdict := Pass("", true)
	fail := func(v Verdict) {
		if verdict.OK {
			verdict = v
		}
	}
	// each PeerConnection works on its own copy of the MediaEngine
	nv, negV, na, negA, regV, regA := rcv.VerifC23MediaEngine().VerifC23EngineState()
	_, sNegV, _, sNegA, _, _ := snd.VerifC23MediaEngine().VerifC23EngineState()
	npk := 0
	for i, t := range in.Tracks {
		def := c23Codecs[t.Codec]
		smid := ""
		for _, tr := range snd.GetTransceivers() {
			if tr.Sender() == senders[i] {
				smid = tr.Mid()
			}
		}
		an := sdesc[smid]
		rt := findRecv(an.ssrc)
		rmid := ""
		for _, tr := range rcv.GetTransceivers() {
			if tr.Receiver() == rt.recv {
				rmid = tr.Mid()
			}
		}
		tr := rt.track
		name := c23EncName(def.Cap.MimeType)
		wantPT, okPT := -1, false
		if a := adesc[smid]; a != nil {
			wantPT, okPT = a.negotiatedPT(def.Cap)
		}
		rt.mu.Lock()
		pkts := append([]*rtp.Packet(nil), rt.pkts...)
		rt.mu.Unlock()
		npk += len(pkts)
		seen := map[uint16]bool{}
		lastIdx := -1
		idx := map[uint16]int{}
		for k, q := range order[i] {
			idx[q] = k
		}
		wirePT := -1
		for _, p := range pkts {
			s := sent[i][p.SequenceNumber]
			switch {
			case p.SSRC != an.ssrc:
				fail(Fail("packet-ssrc-differs-from-announced", fmt.Sprintf("track %d: packet SSRC %d, description announces %d", i, p.SSRC, an.ssrc)))
			case !okPT:
				fail(Fail("codec-missing-from-answer", fmt.Sprintf("track %d: no rtpmap for %s in mid %q of the answer", i, name, smid)))
			case int(p.PayloadType) != wantPT:
				sig := "packet-payload-type-not-negotiated"
				for _, x := range adesc[smid].codecs {
					if x.pt == int(p.PayloadType) && x.name == name {
						// a payload type of the right codec family, but of another format of it
						sig = "packet-payload-type-of-another-fmtp-variant"
					}
				}
				fail(Fail(sig, fmt.Sprintf("track %d (%s %q): packet PT %d, answer negotiates %d for that format", i, name, def.Cap.SDPFmtpLine, p.PayloadType, wantPT)))
			case s == nil:
				fail(Fail("packet-never-written", fmt.Sprintf("track %d: sequence number %d was not written", i, p.SequenceNumber)))
			case seen[p.SequenceNumber]:
				fail(Fail("packet-duplicated", fmt.Sprintf("track %d: sequence number %d read twice", i, p.SequenceNumber)))
			case string(p.Payload) != string(s.payload):
				fail(Fail("packet-payload-differs", fmt.Sprintf("track %d seq %d: %d bytes written, %d read, contents differ", i, p.SequenceNumber, len(s.payload), len(p.Payload))))
			case p.Timestamp != s.ts || p.Marker != s.marker:
				fail(Fail("packet-header-field-differs", fmt.Sprintf("track %d seq %d: timestamp/marker changed", i, p.SequenceNumber)))
			case in.Shim == nil && idx[p.SequenceNumber] < lastIdx:
				fail(Fail("packet-order-changed-on-loopback", fmt.Sprintf("track %d seq %d", i, p.SequenceNumber)))
			}
			seen[p.SequenceNumber] = true
			if s != nil {
				lastIdx = idx[p.SequenceNumber]
			}
			wirePT = int(p.PayloadType)
		}
		codec := tr.Codec()
		switch {
		case !strings.EqualFold(codec.MimeType, def.Cap.MimeType) || codec.ClockRate != def.Cap.ClockRate || codec.Channels != def.Cap.Channels:
			fail(Fail("remote-track-codec-differs", fmt.Sprintf("track %d: sent %s/%d/%d, TrackRemote.Codec() %s/%d/%d", i,
				def.Cap.MimeType, def.Cap.ClockRate, def.Cap.Channels, codec.MimeType, codec.ClockRate, codec.Channels)))
		case !c23SameFormat(name, codec.SDPFmtpLine, def.Cap.SDPFmtpLine):
			fail(Fail("remote-track-codec-fmtp-differs", fmt.Sprintf("track %d: sent %s %q, TrackRemote.Codec() reports %q (PT %d)", i,
				def.Cap.MimeType, def.Cap.SDPFmtpLine, codec.SDPFmtpLine, codec.PayloadType)))
		case int(codec.PayloadType) != wantPT || int(tr.PayloadType()) != wantPT:
			fail(Fail("remote-track-payload-type-differs", fmt.Sprintf("track %d: negotiated %d, TrackRemote reports %d/%d", i, wantPT, codec.PayloadType, tr.PayloadType())))
		case tr.Kind() != def.Kind:
			fail(Fail("remote-track-kind-differs", fmt.Sprintf("track %d", i)))
		case (!an.msidOK || an.stream != t.StreamID || an.track != t.TrackID) && !c23HasSpace(t.StreamID) && !c23HasSpace(t.TrackID):
			fail(Fail("description-msid-differs-from-track", fmt.Sprintf("track %d: ids (%q,%q), a=msid (%q,%q)", i, t.StreamID, t.TrackID, an.stream, an.track)))
		case (tr.StreamID() != t.StreamID || tr.ID() != t.TrackID) && (c23HasSpace(t.StreamID) || c23HasSpace(t.TrackID)):
			fail(Fail("track-or-stream-id-with-space-not-parsed-back",
				fmt.Sprintf("track %d: ids (%q,%q) reach the remote track as (%q,%q)", i, t.StreamID, t.TrackID, tr.StreamID(), tr.ID())))
		case tr.StreamID() != t.StreamID || tr.ID() != t.TrackID:
			fail(Fail("remote-track-ids-differ", fmt.Sprintf("track %d: sent (%q,%q), TrackRemote (%q,%q)", i, t.StreamID, t.TrackID, tr.StreamID(), tr.ID())))
		case uint32(tr.SSRC()) != an.ssrc:
			fail(Fail("remote-track-ssrc-differs", fmt.Sprintf("track %d", i)))
		case (an.rtx != 0) != tr.HasRTX() || (an.rtx != 0 && uint32(tr.RtxSSRC()) != an.rtx):
			fail(Fail("remote-track-rtx-ssrc-differs", fmt.Sprintf("track %d: announced FID %d, TrackRemote HasRTX=%v RtxSSRC=%d", i, an.rtx, tr.HasRTX(), tr.RtxSSRC())))
		case rmid != smid:
			fail(Fail("remote-track-mid-differs", fmt.Sprintf("track %d: sender mid %q, receiver mid %q", i, smid, rmid)))
		}
		rtxV := V(VL{})
		if tr.HasRTX() {
			rtxV = VL{VZ(int64(tr.RtxSSRC()))}
		}
		obs := VL{VS(rmid), VZ(int64(tr.Kind())), VS(tr.StreamID()), VS(tr.ID()), VL{VZ(int64(tr.SSRC()))}, rtxV,
			VL{VL{VZ(int64(codec.PayloadType)), VS(strings.ToLower(codec.MimeType))}}, VL{VZ(int64(wirePT))}}
		// model input for this track: the payload type seen on the wire and the
		// sender's Bind haystack as (payload type, match class of the track's codec)
		hay := sNegV
		if def.Kind == webrtc.RTPCodecTypeAudio {
			hay = sNegA
		}
		cls := make([]string, len(hay))
		for k, h := range hay {
			cls[k] = c23CdcCoq(h)
		}
		// cross-check of the class vector against the real search over the whole list
		if c, m := webrtc.VerifC23FuzzySearch(webrtc.RTPCodecParameters{RTPCodecCapability: def.Cap}, hay); m == 0 || int(c.PayloadType) != wirePT {
			fail(Fail("bound-payload-type-not-the-fuzzy-search-result", fmt.Sprintf("track %d: search gives PT %d (match %d), wire PT %d", i, c.PayloadType, m, wirePT)))
		}
		rows = append(rows, row{rmid, obs, fmt.Sprintf("(Wire %s %d %s %s)", CoqString(smid), wirePT,
			c23CdcCoq(webrtc.RTPCodecParameters{RTPCodecCapability: def.Cap}), CoqList(cls))})
	}
	rmu.Lock()
	if len(rtracks) != len(in.Tracks) {
		fail(Fail("ontrack-count-differs", fmt.Sprintf("%d tracks sent, OnTrack fired %d times", len(in.Tracks), len(rtracks))))
	}
	rmu.Unlock()
	// rows in the order of the sender's description (= model order)
	secs, _ := c23Sections(snd.LocalDescription().SDP)
	midOrder := map[string]int{}
	for k, s := range secs {
		for _, a := range s.Attrs {
			if a[0] == "mid" {
				midOrder[a[1]] = k
			}
		}
	}
	sort.SliceStable(rows, func(a, b int) bool { return midOrder[rows[a].mid] < midOrder[rows[b].mid] })
	obs := make(VL, len(rows))
	wires := make([]string, len(rows))
	for k, r := range rows {
		obs[k] = r.v
		wires[k] = r.coq
	}
	if term, ok := c23SecsCoq(secs); ok {
		c23Remember(in, fmt.Sprintf("(MediaIn %s (Eng %s %s %s %s %s %s) %s)", term, CoqBool(nv), c23CodecList(negV),
			CoqBool(na), c23CodecList(negA), c23CodecList(regV), c23CodecList(regA), CoqList(wires)))
	}
	if verdict.OK {
		names := make([]string, len(in.Tracks))
		for i, t := range in.Tracks {
			names[i] = t.Codec
		}
		cls := strings.Join(names, "+")
		if in.RTX {
			cls += "/rtx"
		}
		if in.FEC {
			cls += "/fec"
		}
		if in.Data {
			cls += "/dc"
		}
		if in.AnswererSends {
			cls += "/answerer-sends"
		}
		if in.PTShift != 0 {
			cls += "/pt-shift"
		}
		if in.PTSwap {
			cls += "/pt-swap"
		}
		if variants {
			cls += "/variants"
		}
		if in.Shim != nil {
			cls += "/shim"
		}
		verdict.Class = cls
		verdict.NonTrivial = npk > 0
	}
	return obs, verdict
}

func c23MediaCoq(in c23Media) string { return c23Recall(in) }

func c23MediaMatrix() []c23Media {
	t := func(codec string, n int, seed uint64) c23MTrack {
		return c23MTrack{Codec: codec, StreamID: "stream-" + codec, TrackID: "track-" + codec, N: n, Seed: seed}
	}
	return []c23Media{
		{Tracks: []c23MTrack{t("opus", 20, 1)}},
		{Tracks: []c23MTrack{t("vp8", 20, 2)}, RTX: true},
		{Tracks: []c23MTrack{t("vp8", 12, 3)}, AnswererSends: true},
		{Tracks: []c23MTrack{t("vp9", 20, 4)}, RTX: true, Data: true},
		{Tracks: []c23MTrack{t("vp9", 12, 5)}, AnswererSends: true, PTShift: 7, RTX: true},
		{Tracks: []c23MTrack{t("h264", 20, 6)}},
		{Tracks: []c23MTrack{t("h264", 16, 7)}, RTX: true, FEC: true, AnswererSends: true, Data: true},
		{Tracks: []c23MTrack{t("av1", 20, 8)}, RTX: true},
		{Tracks: []c23MTrack{t("av1", 12, 9)}, PTShift: 7},
		{Tracks: []c23MTrack{t("opus", 16, 10), t("vp8", 16, 11)}, RTX: true, Data: true},
		{Tracks: []c23MTrack{t("opus", 10, 12), t("h264", 10, 13)}, AnswererSends: true, PTShift: 7, Data: true},
		{Tracks: []c23MTrack{t("opus", 12, 14)}, AnswererSends: true, PTShift: 7},
		// the answerer's registered table names another codec under the offered payload type
		{Tracks: []c23MTrack{t("vp8", 10, 16)}, PTSwap: true, RTX: true},
		{Tracks: []c23MTrack{t("h264", 10, 17)}, PTSwap: true, AnswererSends: true},
		{Tracks: []c23MTrack{t("vp8", 10, 18), t("opus", 8, 19)}, PTSwap: true, AnswererSends: true, RTX: true, Data: true},
		// codec families with several registered variants that differ only in
		// fmtp: send with EACH variant, the table carrying all of them
		{Tracks: []c23MTrack{t("h264", 8, 20)}, Variants: true, RTX: true},
		{Tracks: []c23MTrack{t("h264-pm0", 8, 21)}, AnswererSends: true},
		{Tracks: []c23MTrack{t("h264-42e01f", 8, 22)}},
		{Tracks: []c23MTrack{t("h264-42e01f-pm0", 8, 23)}, RTX: true, AnswererSends: true, PTShift: 7},
		{Tracks: []c23MTrack{t("h264-4d001f", 8, 24)}, RTX: true, Data: true},
		{Tracks: []c23MTrack{t("h264-4d001f-pm0", 8, 25)}, PTSwap: true},
		{Tracks: []c23MTrack{t("h264-64001f", 8, 26)}, AnswererSends: true, RTX: true},
		{Tracks: []c23MTrack{t("vp9", 8, 27)}, Variants: true, PTShift: 7},
		{Tracks: []c23MTrack{t("vp9-p2", 8, 28)}, RTX: true},
		{Tracks: []c23MTrack{t("vp9-p2", 8, 29), t("opus", 6, 30)}, AnswererSends: true, FEC: true},
		{Tracks: []c23MTrack{t("h264-42e01f", 6, 31), t("h264-4d001f-pm0", 6, 32)}, RTX: true},
		// witness of the known finding: an id with a space (outside the msid grammar)
		{Tracks: []c23MTrack{{Codec: "vp8", StreamID: "my stream", TrackID: "cam", N: 6, Seed: 15}}, RTX: true},
	}
}

func c23GenMedia(r *Rand, i int, shim bool) c23Media {
	m := c23Media{RTX: r.Bool(), FEC: r.Chance(1, 4), Data: r.Chance(1, 3), AnswererSends: r.Bool(), Nonce: i + 1}
	if r.Chance(1, 3) {
		m.PTShift = 7
	} else if r.Chance(1, 3) {
		m.PTSwap = true
	}
	kinds := [][]string{{"opus"}, {"vp8"}, {"vp9"}, {"h264"}, {"av1"}, {"opus", "vp8"}, {"opus", "h264"}, {"opus", "av1"}, {"vp9", "opus"}}
	if r.Chance(1, 2) { // a variant of a family with several registered formats
		m.Variants = true
		v := Pick(r, c23VideoOrderVariants[1:])
		kinds = [][]string{{v}, {v}, {"opus", v}, {v, Pick(r, c23VideoOrderVariants[1:])}}
	}
	for _, c := range Pick(r, kinds) {
		m.Tracks = append(m.Tracks, c23MTrack{Codec: c, StreamID: Pick(r, []string{"s", "stream", "{6f1c}", "a:b"}) + fmt.Sprint(i),
			TrackID: Pick(r, c23IDs[:11]), N: r.Range(4, 30), Seed: r.U64() >> 12})
	}
	if shim {
		m.Shim = &e2eShim{Seed: r.U64() >> 12, MaxDelay: time.Duration(r.Range(1, 6)) * time.Millisecond, HoldPct: r.Range(10, 50)}
	}
	return m
}

func init() {
	Register(Spec[c23Details]{
		ID: "C23", Suite: "details", CoqImports: []string{"Check.C23"},
		CoqType: "list Check.C23.sec", CoqRun: "Check.C23.run_details",
		Quick: 300, Thorough: 4000, Parallel: 8, Timeout: 30 * time.Second,
		Corpus: c23DetailsCorpus, Gen: c23GenDetails,
		Run: c23DetailsRun, Coq: c23DetailsCoq,
	})
	Register(Spec[c23Media]{
		ID: "C23", Suite: "media", CoqImports: []string{"Check.C23"},
		CoqType: "Check.C23.media_in", CoqRun: "Check.C23.run_media",
		Quick: 4, Thorough: 150, Parallel: 8, Timeout: 60 * time.Second,
		Corpus: c23MediaMatrix,
		Gen:    func(r *Rand, i int) c23Media { return c23GenMedia(r, i, false) },
		Run:    c23MediaRun, Coq: c23MediaCoq,
	})
	// through the delaying / reordering shim: packets may arrive in another
	// order, each still intact, once, on the announced SSRC
	Register(Spec[c23Media]{
		ID: "C23", Suite: "mediashim", CoqImports: []string{"Check.C23"},
		CoqType: "Check.C23.media_in", CoqRun: "Check.C23.run_media",
		Quick: 4, Thorough: 100, Parallel: 8, Timeout: 90 * time.Second,
		Gen: func(r *Rand, i int) c23Media { return c23GenMedia(r, i, true) },
		Run: c23MediaRun, Coq: c23MediaCoq,
	})
}
