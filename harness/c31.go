//go:build verif_c31

package main

import (
	"encoding/hex"
	"errors"
	"fmt"
	"sort"
	"sync/atomic"
	"time"

	"github.com/pion/rtp"
	"github.com/pion/webrtc/v4/pkg/media"
	"github.com/pion/webrtc/v4/pkg/media/samplebuilder"
)

// C31: SampleBuilder. One case = a configuration, a ground-truth stream
// (frames of packets) and an op list (Push / Pop / Flush).
//
// Payload format of the harness's depacketizer (the Coq side has the same
// three functions, Model/SampleBuilder.v fk_*):
//   payload = [flags, chunk...]   flags bit0 partition head, bit1 partition tail, bit2 Unmarshal fails
//   chunk   = [len(chunk), g&255, g>>8, copy, extra...]      (Unmarshal returns the chunk)
// g is the packet's index in the ground-truth stream, copy the number of the
// duplicate, so the oracle can read off a sample's bytes which pushed packets
// went into it without looking at anything else the builder returns.

type c31Dep struct{}

var errC31 = errors.New("c31: unmarshal")

func (c31Dep) Unmarshal(p []byte) ([]byte, error) {
	if len(p) == 0 || p[0]&4 != 0 {
		return nil, errC31
	}
	return p[1:], nil
}
func (c31Dep) IsPartitionHead(p []byte) bool         { return len(p) > 0 && p[0]&1 != 0 }
func (c31Dep) IsPartitionTail(_ bool, p []byte) bool { return len(p) > 0 && p[0]&2 != 0 }

type c31Op struct {
	K       int    `json:"k"` // 0 push, 1 pop, 2 flush
	Seq     uint16 `json:"seq,omitempty"`
	TS      uint32 `json:"ts,omitempty"`
	Marker  bool   `json:"m,omitempty"`
	Payload string `json:"p,omitempty"` // hex
	G       int    `json:"g,omitempty"` // ground truth: stream index of the packet
	Copy    int    `json:"c,omitempty"`
}

type c31In struct {
	Class       string  `json:"class"`
	MaxLate     uint16  `json:"max_late"`
	DelayMs     int     `json:"delay_ms"` // -1: WithMaxTimeDelay not used
	Rate        uint32  `json:"rate"`     // power of two (Duration exact in float64)
	HeadHandler bool    `json:"head_handler"`
	RTPHeaders  bool    `json:"rtp_headers"`
	Frames      [][]int `json:"frames"`   // ground truth: stream indices of each frame
	Complete    bool    `json:"complete"` // completeness clause applies (see props rule)
	Ops         []c31Op `json:"ops"`
}

type c31Pushed struct {
	g, cp  int
	seq    uint16
	ts     uint32
	head   bool
	tail   bool
	opIdx  int
	epoch  int // number of times the buffer had drained completely before this Push
	aepoch int // number of times the buffer or the active window had drained before this Push
	pushNo int
	chunk  string // hex of what Unmarshal returns for it
}

type c31Emitted struct {
	gs     []int // stream indices in order
	keys   []string
	first  uint16
	last   uint16
	epoch  int
	aepoch int
	popIdx int
}

func c31RunInner(in c31In) (V, Verdict) {
	dep := c31Dep{}
	ids := map[*rtp.Packet]int{}
	var releasedNow []int
	released := map[int]int{}
	live := map[uint16]*rtp.Packet{}
	opts := []samplebuilder.Option{
		samplebuilder.WithPacketReleaseHandler(func(p *rtp.Packet) {
			id := ids[p]
			releasedNow = append(releasedNow, id)
			released[id]++
			if live[p.SequenceNumber] == p {
				delete(live, p.SequenceNumber)
			}
		}),
	}
	headCalls := 0
	if in.HeadHandler {
		opts = append(opts, samplebuilder.WithPacketHeadHandler(func(any) any { headCalls++; return headCalls }))
	}
	if in.RTPHeaders {
		opts = append(opts, samplebuilder.WithRTPHeaders(true))
	}
	if in.DelayMs >= 0 {
		opts = append(opts, samplebuilder.WithMaxTimeDelay(time.Duration(in.DelayMs)*time.Millisecond))
	}
	sb := samplebuilder.New(in.MaxLate, dep, in.Rate, opts...)

	verdict := Pass(in.Class, false)
	// a recorded cause is reported only when nothing unexplained was seen
	known := map[string]bool{
		"packet-below-first-pushed-seq-never-emitted":   true,
		"tail-flag-tested-before-timestamp-change":      true,
		"consumed-packets-rebuilt-after-active-drained": true,
		"stale-packet-accepted-after-buffer-drained":    true,
		"frame-after-dropped-headless-run-skipped":      true,
		"filled-head-advanced-past-filled-tail":         true,
		"filled-window-wraps-ring-maxlate-above-21844":  true,
		"frame-longer-than-maxlate-never-emitted":       true,
	}
	failKnown := func(sig, what string) {
		if verdict.OK {
			verdict = Fail(sig, what)
		}
	}
	failNew := func(sig, what string) {
		if verdict.OK || known[verdict.Sig] {
			verdict = Fail(sig, what)
		}
	}

	pushedByKey := map[string]c31Pushed{}
	var emitted []c31Emitted
	seenG := map[int]int{} // g -> index in emitted
	epoch, aepoch, pushes, firstG := 0, 0, 0, -1
	drained, flushed := false, false // last op was a Pop returning nil; a Flush came after the last Push
	// pastTail: after some operation filled was [tail+1, tail) with nothing buffered: purgeBuffers
	// incremented filled.head past filled.tail.  modelFault: the model's diagnostic flag, predicted
	// from the builder's state (c31EmptiedWindowBuild); it is part of the compared observation.
	pastTail, modelFault := false, 0
	obs := make(VL, 0, len(in.Ops))
	durLim := int64(8388608) * 1000000000 / int64(in.Rate)

	for k, op := range in.Ops {
		releasedNow = releasedNow[:0]
		var sampleV V = VL{}
		switch op.K {
		case 0:
			payload, err := hex.DecodeString(op.Payload)
			if err != nil {
				panic(err)
			}
			p := &rtp.Packet{Header: rtp.Header{Version: 2, SequenceNumber: op.Seq, Timestamp: op.TS, Marker: op.Marker}, Payload: payload}
			ids[p] = pushes
			if len(live) == 0 && pushes > 0 {
				epoch++ // every packet pushed so far has left the buffer
				aepoch++
			} else if b := sb.VerifState(); b.ActiveHead == b.ActiveTail && b.PreparedTail != 0 {
				aepoch++ // a forced build consumed the whole active window: the next buildSample re-anchors it on filled
			}
			if firstG < 0 {
				firstG = op.G
			}
			key := fmt.Sprintf("%d/%d", op.G, op.Copy)
			pushedByKey[key] = c31Pushed{g: op.G, cp: op.Copy, seq: op.Seq, ts: op.TS,
				head: dep.IsPartitionHead(payload), tail: dep.IsPartitionTail(op.Marker, payload),
				opIdx: k, epoch: epoch, aepoch: aepoch, pushNo: pushes, chunk: c31Chunk(op.Payload)}
			pushes++
			live[op.Seq] = p
			sb.Push(p)
			drained, flushed = false, false
		case 1:
			// is this Pop about to build a sample over an active window that the tail
			// extension empties (active.tail = filled.tail == active.head)?
			emptied := c31EmptiedWindowBuild(sb, live, dep)
			if emptied && modelFault == 0 {
				modelFault = 3
			}
			cause := ""
			if emptied {
				switch {
				case pastTail:
					cause = "filled-head-advanced-past-filled-tail"
				case in.MaxLate > 21844:
					cause = "filled-window-wraps-ring-maxlate-above-21844"
				}
			}
			s := sb.Pop()
			drained = s == nil
			if s != nil {
				sampleV = VL{c31SampleV(in, s, durLim)}
				c31CheckSample(s, k, pushedByKey, &emitted, seenG, failNew, failKnown, cause)
			}
		case 2:
			sb.Flush()
			drained, flushed = false, true
		}
		st := sb.VerifState()
		if st.FilledHead == st.FilledTail+1 && len(live) == 0 {
			pastTail = true
		}
		for _, id := range releasedNow {
			if released[id] > 1 {
				failNew("packet-released-twice", fmt.Sprintf("op %d: pushed packet #%d handed to the release handler %d times", k, id, released[id]))
			}
		}
		lastTS := int64(-1)
		if st.HasLastSampleTimestamp {
			lastTS = int64(st.LastSampleTimestamp)
		}
		obs = append(obs, VL{VInts(releasedNow), sampleV, VL{
			VL{VZ(st.FilledHead), VZ(st.FilledTail)}, VL{VZ(st.ActiveHead), VZ(st.ActiveTail)},
			VL{VZ(st.PreparedHead), VZ(st.PreparedTail)}, VZ(st.DroppedPackets), VZ(st.PaddingPackets), VZ(lastTS), VZ(int64(modelFault))}})
	}

	// completeness: loss-free, reordered within the bound, every frame emitted after Flush
	if in.Complete && flushed && drained {
		got := map[string]bool{}
		for _, e := range emitted {
			got[fmt.Sprint(e.gs)] = true
		}
		hasBelow := func(fr []int) bool {
			for _, g := range fr {
				if g < firstG {
					return true
				}
			}
			return false
		}
		// every frame from some frame with a packet below the first pushed one up to j-1 is missing
		skippedAfterHeadless := func(j int) bool {
			for i := j - 1; i >= 0; i-- {
				if got[fmt.Sprint(in.Frames[i])] {
					return false
				}
				if hasBelow(in.Frames[i]) {
					return true
				}
			}
			return false
		}
		// largest displacement of a packet in the delivery (position among the pushes vs stream index)
		maxDisp, nth := 0, 0
		for _, op := range in.Ops {
			if op.K == 0 {
				if d := nth - op.G; d > maxDisp {
					maxDisp = d
				} else if -d > maxDisp {
					maxDisp = -d
				}
				nth++
			}
		}
		for j, fr := range in.Frames {
			if got[fmt.Sprint(fr)] {
				continue
			}
			switch {
			case len(fr)+maxDisp > int(in.MaxLate):
				// maxLate bounds the buffer: a frame that does not fit into it together with the
				// reordering loses its first packet to the purge before its end has arrived
				failKnown("frame-longer-than-maxlate-never-emitted",
					fmt.Sprintf("loss-free stream: frame %v of %d packets (displacement up to %d) does not fit maxLate %d and is never emitted", fr, len(fr), maxDisp, in.MaxLate))
			case hasBelow(fr):
				failKnown("packet-below-first-pushed-seq-never-emitted",
					fmt.Sprintf("loss-free stream, first pushed packet is stream index %d; frame %v (complete, delivered) never emitted", firstG, fr))
			case skippedAfterHeadless(j):
				// a frame before lost its head to the cause above and was dropped as a headless run by a
				// forced build; purgeBuffers then advances active.head once more, over the next frame's
				// first packet, which makes that frame headless in turn, and so on down the buffer
				failKnown("frame-after-dropped-headless-run-skipped",
					fmt.Sprintf("frame %v never emitted: a forced build dropped the headless run before it and skipped its first packet", fr))
			default:
				failNew("complete-frame-not-emitted", fmt.Sprintf("loss-free stream within the reorder bound: frame %v never emitted", fr))
			}
		}
	}
	verdict.NonTrivial = len(emitted) >= 2
	if verdict.OK {
		verdict.Class = fmt.Sprintf("%s/samples%s", in.Class, c31Bucket(len(emitted)))
	}
	return obs, verdict
}

// c31EmptiedWindowBuild predicts, from the builder's bookkeeping before a Pop, whether
// buildSample will build over an active window it has just emptied: the window is not
// empty, its tail lies Inside filled and filled.tail == active.head (so the extension
// active.tail = filled.tail empties it), slot active.head is occupied, the occupied run
// from there reaches a partition tail, and the slot after that is occupied (Pop does not
// build otherwise).  This is what the model flags as fault 3.
func c31EmptiedWindowBuild(sb *samplebuilder.SampleBuilder, live map[uint16]*rtp.Packet, dep c31Dep) bool {
	st := sb.VerifState()
	if st.ActiveHead == st.ActiveTail || st.FilledHead == st.FilledTail {
		return false
	}
	if st.ActiveTail-st.FilledHead >= st.FilledTail-st.FilledHead { // active.tail not Inside filled
		return false
	}
	if st.FilledTail != st.ActiveHead {
		return false
	}
	i := st.ActiveHead
	for n := 0; n < 65536 && sb.VerifBuffered(i); n++ {
		p := live[i]
		if p == nil {
			return false
		}
		if dep.IsPartitionTail(p.Marker, p.Payload) {
			return sb.VerifBuffered(i + 1)
		}
		i++
	}
	return false
}

// c31Hung is set once a case did not finish: the builder is looping (a mutant, or a
// defect), every further run would cost the full deadline, so shrinking is switched off.
var c31Hung atomic.Bool

const c31Deadline = 25 * time.Second

func c31Run(in c31In) (V, Verdict) {
	type res struct {
		o V
		v Verdict
	}
	ch := make(chan res, 1)
	go func() {
		defer func() {
			if r := recover(); r != nil {
				ch <- res{VS("PANIC"), Fail("panic-in-builder", fmt.Sprintf("panic: %v", r))}
			}
		}()
		o, v := c31RunInner(in)
		ch <- res{o, v}
	}()
	select {
	case r := <-ch:
		return r.o, r.v
	case <-time.After(c31Deadline):
		c31Hung.Store(true)
		return VS("TIMEOUT"), Fail("builder-does-not-return", fmt.Sprintf("an operation did not return within %s", c31Deadline))
	}
}

func c31Bucket(n int) string {
	switch {
	case n == 0:
		return "0"
	case n < 2:
		return "1"
	case n < 10:
		return "2-9"
	case n < 30:
		return "10-29"
	}
	return "30+"
}

func c31SampleV(in c31In, s *media.Sample, durLim int64) V {
	dur := int64(s.Duration)
	if dur >= durLim || dur < 0 {
		dur = -1
	}
	meta := int64(-1)
	if n, ok := s.Metadata.(int); ok {
		meta = int64(n)
	}
	hdrs := VL{}
	for _, h := range s.RTPHeaders {
		hdrs = append(hdrs, VL{VZ(h.SequenceNumber), VZ(h.Timestamp), VB(h.Marker)})
	}
	return VL{VHex(s.Data), VZ(s.PacketTimestamp), VZ(s.PrevDroppedPackets), VZ(dur), VZ(meta), hdrs}
}

// the property's clauses on one emitted sample, from the generator's ground truth only
func c31CheckSample(s *media.Sample, k int, pushed map[string]c31Pushed, emitted *[]c31Emitted,
	seenG map[int]int, failNew, failKnown func(sig, what string), emptiedCause string) {
	// a sample built over an emptied active window has timestamp 0 and may join timestamps;
	// when the way the window got emptied is a recorded cause, that cause is reported
	tsFail := failNew
	tsSig := func(sig string) string { return sig }
	if emptiedCause != "" {
		tsFail = failKnown
		tsSig = func(string) string { return emptiedCause }
	}
	// the bytes must be a concatenation of whole chunks
	var run []c31Pushed
	var keys []string
	d := s.Data
	for len(d) > 0 {
		n := int(d[0])
		if n < 4 || n > len(d) {
			failNew("sample-not-a-concatenation-of-payloads", fmt.Sprintf("op %d: sample %x does not split into depacketized payloads", k, s.Data))
			return
		}
		key := fmt.Sprintf("%d/%d", int(d[1])|int(d[2])<<8, int(d[3]))
		p, ok := pushed[key]
		if !ok || hex.EncodeToString(d[:n]) != p.chunk {
			failNew("sample-contains-bytes-never-pushed", fmt.Sprintf("op %d: chunk %x is not the payload of a packet pushed so far", k, d[:n]))
			return
		}
		run = append(run, p)
		keys = append(keys, key)
		d = d[n:]
	}
	if len(run) == 0 {
		failNew("empty-sample", fmt.Sprintf("op %d: sample with no payload", k))
		return
	}
	e := c31Emitted{first: run[0].seq, last: run[len(run)-1].seq, epoch: run[0].epoch, aepoch: run[0].aepoch, popIdx: k, keys: keys}
	for i, p := range run {
		e.gs = append(e.gs, p.g)
		if i > 0 && p.seq != run[i-1].seq+1 {
			failNew("sample-run-not-contiguous", fmt.Sprintf("op %d: sample joins seq %d and %d", k, run[i-1].seq, p.seq))
		}
		if p.epoch != run[0].epoch {
			failNew("sample-spans-a-buffer-drain", fmt.Sprintf("op %d: sample joins packets pushed before and after the buffer was empty", k))
		}
	}
	if !run[0].head {
		failNew("sample-does-not-start-at-partition-head", fmt.Sprintf("op %d: first packet seq %d is not a partition head", k, run[0].seq))
	}
	if s.PacketTimestamp != run[0].ts {
		tsFail(tsSig("sample-timestamp-not-its-head-packets"), fmt.Sprintf("op %d: PacketTimestamp %d, head packet has %d", k, s.PacketTimestamp, run[0].ts))
	}
	mixed, mixedBeforeLast := false, false
	for i, p := range run {
		if p.ts != run[0].ts {
			mixed = true
			if i < len(run)-1 {
				mixedBeforeLast = true
			}
		}
	}
	if mixed {
		lastp := run[len(run)-1]
		if !mixedBeforeLast && lastp.tail {
			failKnown("tail-flag-tested-before-timestamp-change",
				fmt.Sprintf("op %d: sample of seq %d..%d has timestamp %d but its last packet (a partition tail) has %d", k, e.first, e.last, run[0].ts, lastp.ts))
		} else {
			tsFail(tsSig("sample-mixes-timestamps"), fmt.Sprintf("op %d: sample of seq %d..%d mixes timestamps", k, e.first, e.last))
		}
	}
	// once + order, against every earlier sample
	prevIdx := len(*emitted) - 1
	// e is made of the last packets of an earlier sample (compared by stream index: a duplicate
	// may have replaced a consumed packet in its slot meanwhile)
	suffixOf := func(a c31Emitted) bool {
		return len(e.gs) < len(a.gs) && fmt.Sprint(a.gs[len(a.gs)-len(e.gs):]) == fmt.Sprint(e.gs)
	}
	suffixOfEarlier := false
	if j, dup := seenG[e.gs[0]]; dup {
		suffixOfEarlier = suffixOf((*emitted)[j])
	}
	for _, g := range e.gs {
		if j, dup := seenG[g]; dup {
			a := (*emitted)[j]
			switch {
			case suffixOf(a):
				failKnown("consumed-packets-rebuilt-after-active-drained",
					fmt.Sprintf("op %d: sample %v is a suffix of the earlier sample %v: packets already consumed were built again", k, e.gs, a.gs))
			case a.aepoch != e.aepoch:
				failKnown("stale-packet-accepted-after-buffer-drained",
					fmt.Sprintf("op %d: stream packet %d emitted again (samples %v and %v); its copy was pushed after the buffer or the active window had drained", k, g, a.gs, e.gs))
			default:
				failNew("packet-in-two-samples", fmt.Sprintf("op %d: stream packet %d in samples %v and %v", k, g, a.gs, e.gs))
			}
			break
		}
	}
	if prevIdx >= 0 {
		a := (*emitted)[prevIdx]
		if int16(e.first-a.last) <= 0 {
			switch {
			case suffixOfEarlier:
				failKnown("consumed-packets-rebuilt-after-active-drained",
					fmt.Sprintf("op %d: sample %v repeats the end of an earlier sample and comes after %v", k, e.gs, a.gs))
			case a.aepoch != e.aepoch:
				failKnown("stale-packet-accepted-after-buffer-drained",
					fmt.Sprintf("op %d: sample seq %d..%d emitted after sample seq %d..%d; it was pushed after the buffer or the active window had drained", k, e.first, e.last, a.first, a.last))
			default:
				failNew("samples-out-of-sequence-order", fmt.Sprintf("op %d: sample seq %d..%d emitted after sample seq %d..%d", k, e.first, e.last, a.first, a.last))
			}
		}
	}
	for _, g := range e.gs {
		if _, dup := seenG[g]; !dup {
			seenG[g] = len(*emitted)
		}
	}
	*emitted = append(*emitted, e)
}

func c31Chunk(payloadHex string) string {
	if len(payloadHex) < 2 {
		return ""
	}
	return payloadHex[2:]
}

// ---------- Gallina rendering ----------

func c31Coq(in c31In) string {
	b2z := func(b bool) int64 {
		if b {
			return 1
		}
		return 0
	}
	out := []string{CoqZ(int64(in.MaxLate)), CoqZ(int64(in.DelayMs)), CoqZ(int64(in.Rate)),
		CoqZ(b2z(in.HeadHandler)), CoqZ(b2z(in.RTPHeaders))}
	var pseq uint16
	var pts uint32
	for _, op := range in.Ops {
		out = append(out, CoqZ(int64(op.K)))
		if op.K == 0 {
			payload, _ := hex.DecodeString(op.Payload)
			if len(payload) > 7 {
				return "" // outside the encoding (never generated)
			}
			var pv int64
			for i := len(payload) - 1; i >= 0; i-- {
				pv = pv<<8 | int64(payload[i])
			}
			// seq and timestamp as signed differences from the previous Push (shorter text)
			out = append(out, CoqZ(int64(int16(op.Seq-pseq))), CoqZ(int64(int32(op.TS-pts))),
				CoqZ(b2z(op.Marker)+2*int64(len(payload))), CoqZ(pv))
			pseq, pts = op.Seq, op.TS
		}
	}
	return CoqList(out)
}

// Adler-32 style digest of an observation; Check/C31.v ad_V is the same function
type c31Adler struct{ a, c uint32 }

func (d *c31Adler) b(x byte) {
	d.a += uint32(x)
	if d.a >= 65521 {
		d.a -= 65521
	}
	d.c += d.a
	if d.c >= 65521 {
		d.c -= 65521
	}
}
func (d *c31Adler) v(v V) {
	switch x := v.(type) {
	case VZ:
		neg, m := byte(0), uint64(x)
		if x < 0 {
			neg, m = 1, uint64(-x)
		}
		var mag []byte
		for ; m != 0; m >>= 8 {
			mag = append(mag, byte(m))
		}
		d.b(1)
		d.b(neg)
		d.b(byte(len(mag)))
		for _, y := range mag {
			d.b(y)
		}
	case VS:
		d.b(2)
		d.b(byte(len(x)))
		d.b(byte(len(x) >> 8))
		for i := 0; i < len(x); i++ {
			d.b(x[i])
		}
	case VB:
		d.b(3)
		if x {
			d.b(1)
		} else {
			d.b(0)
		}
	case VL:
		d.b(4)
		d.b(byte(len(x)))
		d.b(byte(len(x) >> 8))
		for _, y := range x {
			d.v(y)
		}
	default:
		panic("c31Adler: unknown V")
	}
}
func c31Digest(v V) V {
	d := c31Adler{a: 1}
	d.v(v)
	return VL{VZ(int64(d.c)*65536 + int64(d.a))}
}

func c31RunDigest(in c31In) (V, Verdict) {
	o, v := c31Run(in)
	return c31Digest(o), v
}

// ---------- generator ----------

type c31SP struct {
	seq         uint16
	ts          uint32
	flags       byte
	frame       int
	extra       []byte
	emptyPacket bool
}

func c31Payload(sp c31SP, g, cp int) string {
	if sp.emptyPacket {
		return ""
	}
	chunk := []byte{byte(4 + len(sp.extra)), byte(g), byte(g >> 8), byte(cp)}
	chunk = append(chunk, sp.extra...)
	return hex.EncodeToString(append([]byte{sp.flags}, chunk...))
}

func c31ExtraLen(r *Rand) int {
	if r.Chance(1, 5) {
		return r.Range(1, 2)
	}
	return 0
}

type c31GenOpt struct {
	class              string
	maxLates           []int
	delayChance        int // of 10
	nFramesLo, nFrames int
	wellFormed         bool
	multiHead          bool // every packet of a frame is a partition head (H.264 style access units)
	noTailChance       int  // of 100: frame end not flagged (timestamp-delimited)
	lossPct, dupPct    int
	burst              bool
	disp               int // max displacement; -1: maxLate/2-2
	popMode            int // 0 after every push, 1 half, 2 rarely, 3 only at the end
	midFlushPct        int
	complete           bool
	randomFlags        bool
	jumps              bool
	small              bool // a handful of frames (suite "detail": observations compared in full)
}

func c31Gen(r *Rand, o c31GenOpt) c31In {
	in := c31In{Class: o.class, DelayMs: -1}
	in.MaxLate = uint16(Pick(r, o.maxLates))
	in.Rate = uint32(Pick(r, []int{1, 8, 1024, 65536}))
	if r.Chance(o.delayChance, 10) {
		in.DelayMs = Pick(r, []int{0, 1000, 5000, 40000, 400000})
	}
	in.HeadHandler = r.Chance(1, 3)
	in.RTPHeaders = r.Chance(2, 3)
	// ground-truth stream
	seq := uint16(r.Intn(65536))
	if r.Chance(3, 10) {
		seq = uint16(65536 - 1 - r.Intn(40)) // wrap soon
	}
	ts := uint32(r.U64())
	if r.Chance(1, 4) {
		ts = uint32(0xffffffff - uint32(r.Intn(20000))) // wrap soon
	}
	nf := r.Range(o.nFramesLo, o.nFrames)
	if o.small {
		nf = r.Range(1, 4)
	}
	var stream []c31SP
	for f := 0; f < nf; f++ {
		n := r.Range(1, 6)
		if r.Chance(1, 3) {
			n = 1
		}
		if f == nf-1 && n == 2 && !r.Chance(1, 4) {
			// a final two-packet frame makes Flush walk the whole 65536-slot ring (see the
			// "witness-ring-walk" corpus case): 1 s of model evaluation each, so keep only a quarter
			n = 3
		}
		var fr []int
		noTail := r.Chance(o.noTailChance, 100)
		for i := 0; i < n; i++ {
			var fl byte
			if i == 0 || o.multiHead {
				fl |= 1
			}
			if i == n-1 && !noTail {
				fl |= 2
			}
			sp := c31SP{seq: seq, ts: ts, flags: fl, frame: f, extra: r.Bytes(c31ExtraLen(r))}
			if o.randomFlags {
				switch {
				case r.Chance(1, 6):
					sp.flags = byte(r.Intn(4))
				case r.Chance(1, 25):
					sp.flags |= 4
				case r.Chance(1, 30):
					sp.emptyPacket = true
				case r.Chance(1, 25):
					sp.ts += uint32(r.Intn(3))
				}
			}
			fr = append(fr, len(stream))
			stream = append(stream, sp)
			seq++
		}
		in.Frames = append(in.Frames, fr)
		ts += uint32(r.Range(1, 3000))
		if o.jumps && r.Chance(1, 15) {
			seq += uint16(r.Range(1, 6000)) // packets the sender never made (or a burst loss)
			ts += uint32(r.Intn(2000000))
		}
	}
	// delivery schedule
	type dl struct {
		key  int
		g    int
		copy int
	}
	disp := o.disp
	if disp < 0 {
		disp = int(in.MaxLate)/2 - 2
		if disp < 0 {
			disp = 0
		}
	}
	var sched []dl
	burstLeft := 0
	for g := range stream {
		if burstLeft > 0 {
			burstLeft--
			continue
		}
		if o.burst && r.Chance(1, 60) {
			burstLeft = r.Range(1, 80)
			continue
		}
		if r.Chance(o.lossPct, 100) {
			continue
		}
		d := 0
		if disp > 0 && r.Chance(1, 3) {
			d = r.Range(1, disp)
		}
		sched = append(sched, dl{key: g*2 + d*2 + 1, g: g})
		if r.Chance(o.dupPct, 100) {
			late := r.Range(0, 3*disp+4)
			if r.Chance(1, 4) {
				late = r.Range(10, 120)
			}
			sched = append(sched, dl{key: (g+late)*2 + 1, g: g, copy: 1})
		}
	}
	sort.SliceStable(sched, func(i, j int) bool { return sched[i].key < sched[j].key })
	pop := func() { in.Ops = append(in.Ops, c31Op{K: 1}) }
	for _, d := range sched {
		sp := stream[d.g]
		in.Ops = append(in.Ops, c31Op{K: 0, Seq: sp.seq, TS: sp.ts, Marker: sp.flags&2 != 0,
			Payload: c31Payload(sp, d.g, d.copy), G: d.g, Copy: d.copy})
		switch o.popMode {
		case 0:
			pop()
			if r.Chance(1, 8) {
				pop()
			}
		case 1:
			if r.Bool() {
				pop()
			}
		case 2:
			if r.Chance(1, 12) {
				for i := r.Range(1, 4); i > 0; i-- {
					pop()
				}
			}
		}
		if r.Chance(o.midFlushPct, 100) {
			in.Ops = append(in.Ops, c31Op{K: 2})
			for i := r.Range(0, 3); i > 0; i-- {
				pop()
			}
		}
	}
	in.Ops = append(in.Ops, c31Op{K: 2})
	npop := nf + 6
	if o.popMode != 3 && o.popMode != 2 {
		npop = 10
	}
	if o.multiHead || o.randomFlags {
		npop += 12
	}
	for i := 0; i < npop; i++ {
		pop()
	}
	in.Complete = o.complete
	return in
}

var c31Classes = []c31GenOpt{
	// loss-free, reordered within the bound: the completeness clause applies
	{class: "complete-inorder", maxLates: []int{50, 16, 100}, nFramesLo: 2, nFrames: 28, wellFormed: true, disp: 0, popMode: 0, complete: true},
	{class: "complete-reorder", maxLates: []int{50, 16, 24, 100}, nFramesLo: 2, nFrames: 28, wellFormed: true, disp: -1, popMode: 0, complete: true},
	{class: "complete-reorder-fewpops", maxLates: []int{50, 16, 100}, nFramesLo: 2, nFrames: 28, wellFormed: true, disp: -1, popMode: 2, complete: true},
	{class: "complete-reorder-popsatend", maxLates: []int{50, 24}, nFramesLo: 2, nFrames: 24, wellFormed: true, disp: -1, popMode: 3, complete: true},
	// loss, duplication, bursts, time delay
	{class: "lossy-dup", maxLates: []int{50, 10, 5, 100}, delayChance: 3, nFramesLo: 3, nFrames: 24, wellFormed: true, lossPct: 6, dupPct: 6, disp: 6, popMode: 0},
	{class: "lossy-burst-jumps", maxLates: []int{50, 10, 200}, delayChance: 4, nFramesLo: 3, nFrames: 24, wellFormed: true, lossPct: 3, dupPct: 3, burst: true, jumps: true, disp: 4, popMode: 1},
	{class: "timestamp-delimited", maxLates: []int{50, 10}, delayChance: 2, nFramesLo: 3, nFrames: 28, noTailChance: 60, lossPct: 3, dupPct: 2, disp: 3, popMode: 0},
	{class: "multi-head-frames", maxLates: []int{50, 10, 3}, delayChance: 2, nFramesLo: 2, nFrames: 24, multiHead: true, lossPct: 3, dupPct: 3, disp: 3, popMode: 1},
	{class: "mid-stream-flush", maxLates: []int{50, 10}, delayChance: 2, nFramesLo: 3, nFrames: 24, wellFormed: true, lossPct: 2, dupPct: 8, disp: 5, popMode: 1, midFlushPct: 6},
	{class: "tiny-maxlate", maxLates: []int{0, 1, 2}, nFramesLo: 2, nFrames: 12, wellFormed: true, lossPct: 2, dupPct: 5, disp: 2, popMode: 0},
	{class: "malformed-flags", maxLates: []int{50, 10, 4}, delayChance: 2, nFramesLo: 2, nFrames: 24, randomFlags: true, lossPct: 4, dupPct: 4, disp: 4, popMode: 1, midFlushPct: 1},
}

func c31GenCase(small bool) func(r *Rand, i int) c31In {
	return func(r *Rand, i int) c31In {
		o := c31PickClass(r)
		o.small = small
		return c31Gen(r, o)
	}
}

func c31PickClass(r *Rand) c31GenOpt {
	weights := []int{2, 4, 2, 1, 4, 3, 2, 2, 2, 1, 3}
	tot := 0
	for _, w := range weights {
		tot += w
	}
	x := r.Intn(tot)
	for k, w := range weights {
		if x < w {
			return c31Classes[k]
		}
		x -= w
	}
	return c31Classes[0]
}

// ---------- corpus: the witnesses ----------

func c31Push(g int, seq uint16, ts uint32, flags byte) c31Op {
	sp := c31SP{seq: seq, ts: ts, flags: flags}
	return c31Op{K: 0, Seq: seq, TS: ts, Marker: flags&2 != 0, Payload: c31Payload(sp, g, 0), G: g}
}

func c31Corpus() []c31In {
	pop, fl := c31Op{K: 1}, c31Op{K: 2}
	base := func(class string, maxLate uint16) c31In {
		return c31In{Class: class, MaxLate: maxLate, DelayMs: -1, Rate: 1, RTPHeaders: true}
	}
	// 1. design probe: loss-free, arrival order 11, 10, 12, 13, pop after every push: frame [10] never emitted
	w1 := base("witness-below-first", 50)
	w1.Complete = true
	w1.Frames = [][]int{{0}, {1}, {2}, {3}}
	w1.Ops = []c31Op{c31Push(1, 11, 1100, 3), pop, c31Push(0, 10, 1000, 3), pop, c31Push(2, 12, 1200, 3), pop,
		c31Push(3, 13, 1300, 3), pop, fl, pop, pop, pop, pop}
	// 2. the same packets without the early Pop: every frame is emitted
	w2 := base("witness-below-first-no-early-pop", 50)
	w2.Complete = true
	w2.Frames = w1.Frames
	w2.Ops = []c31Op{c31Push(1, 11, 1100, 3), c31Push(0, 10, 1000, 3), pop, c31Push(2, 12, 1200, 3), pop,
		c31Push(3, 13, 1300, 3), pop, fl, pop, pop, pop, pop}
	// 3. tail flag tested before the timestamp change: seq 10 (ts 1, head, unflagged end), 11 (ts 2, head+tail)
	w3 := base("witness-tail-before-timestamp", 50)
	w3.Frames = [][]int{{0}, {1}, {2}}
	w3.Ops = []c31Op{c31Push(0, 10, 1, 1), c31Push(1, 11, 2, 3), c31Push(2, 12, 3, 3), pop, pop}
	// 4. access unit of three partition heads (H.264 SPS, PPS, IDR), Flush: emitted three times
	w4 := base("witness-rebuilt-after-drain", 50)
	w4.Frames = [][]int{{0, 1, 2}}
	w4.Ops = []c31Op{c31Push(0, 10, 1, 1), c31Push(1, 11, 1, 1), c31Push(2, 12, 1, 3), fl, pop, pop, pop, pop}
	// 5. maxLate 0: seq 20 then seq 10: emitted in arrival order
	w5 := base("witness-stale-after-drain-order", 0)
	w5.Frames = [][]int{{0}, {1}}
	w5.Ops = []c31Op{c31Push(1, 20, 2000, 3), pop, c31Push(0, 10, 1000, 3), pop, pop}
	// 6. Flush, then a duplicate of an emitted packet: emitted again
	w6 := base("witness-stale-after-drain-duplicate", 50)
	w6.Frames = [][]int{{0}}
	d := c31Push(0, 20, 2000, 3)
	d.Copy = 1
	d.Payload = c31Payload(c31SP{seq: 20, ts: 2000, flags: 3}, 0, 1)
	w6.Ops = []c31Op{c31Push(0, 20, 2000, 3), fl, pop, d, fl, pop, pop}
	// 7. Flush on a stream ending in a two-packet frame, with WithMaxTimeDelay: the purge loop walks the whole ring
	w7 := base("witness-ring-walk", 50)
	w7.DelayMs = 1000
	w7.Frames = [][]int{{0, 1}, {2}, {3}}
	w7.Ops = []c31Op{c31Push(0, 18, 1, 1), c31Push(1, 19, 1, 2), fl, pop, c31Push(2, 20, 2, 3), c31Push(3, 21, 3, 3), pop, pop}
	// 8. sequence and timestamp wrap, in order, three-packet frames
	w8 := base("witness-wrap", 50)
	w8.Complete = true
	w8.HeadHandler = true
	g := 0
	seq, ts := uint16(65531), uint32(0xfffffff0)
	for f := 0; f < 5; f++ {
		var fr []int
		for i := 0; i < 3; i++ {
			var flg byte
			if i == 0 {
				flg = 1
			}
			if i == 2 {
				flg |= 2
			}
			w8.Ops = append(w8.Ops, c31Push(g, seq, ts, flg), pop)
			fr = append(fr, g)
			g++
			seq++
		}
		w8.Frames = append(w8.Frames, fr)
		ts += 10
	}
	w8.Ops = append(w8.Ops, fl, pop, pop, pop)
	// 9. forced build drops a headless run and skips the next frame's first packet: frames [0..5], [6];
	//    first pushed is packet 2, a Pop anchors the window there; Flush drops [2..5] and never emits [6]
	w9 := base("witness-skip-after-headless-run", 16)
	w9.Complete = true
	w9.Frames = [][]int{{0, 1, 2, 3, 4, 5}, {6}}
	fl6 := func(g int) byte {
		switch g {
		case 0:
			return 1
		case 5:
			return 2
		}
		return 0
	}
	for _, g := range []int{2, -1, 0, 4, 1, 5, 3} {
		if g < 0 {
			w9.Ops = append(w9.Ops, pop)
			continue
		}
		w9.Ops = append(w9.Ops, c31Push(g, uint16(35420+g), 2068359564, fl6(g)))
	}
	w9.Ops = append(w9.Ops, c31Push(6, 35426, 2068359807, 3), fl, pop, pop, pop)
	// 10. WithMaxTimeDelay, maxLate 50: Flush drops the headless run [10 11] and leaves active = [13, 12);
	//     the headless run [13 14] (timestamps further apart than the delay) is force-built: buildSample
	//     releases both, purgeBuffers increments filled.head once more: filled = [16, 15).  Seq 15 then wraps
	//     filled to empty; 16 and 17 stay buffered outside it; the last Pop builds [16] over an emptied
	//     window: PacketTimestamp 0 instead of 5000
	dupOf := func(g int, seq uint16, ts uint32, flags byte) c31Op {
		d := c31Push(g, seq, ts, flags)
		d.Copy = 1
		d.Payload = c31Payload(c31SP{seq: seq, ts: ts, flags: flags}, g, 1)
		return d
	}
	w10 := base("witness-filled-head-past-tail-delay", 50)
	w10.DelayMs = 10000
	w10.Rate = 1024
	w10.Frames = [][]int{{0, 1}, {2, 3}, {6}, {4}, {5}}
	w10.Ops = []c31Op{c31Push(0, 10, 1, 0), c31Push(1, 11, 1, 2), fl,
		c31Push(2, 13, 1000, 0), c31Push(3, 14, 900000, 2), pop,
		c31Push(4, 16, 5000, 3), c31Push(5, 17, 6000, 3), c31Push(6, 15, 7000, 3), dupOf(6, 15, 7000, 3), pop, pop}
	// 11. the same with maxLate 1 and no max-time-delay
	w11 := base("witness-filled-head-past-tail-maxlate1", 1)
	w11.Frames = w10.Frames
	w11.Ops = []c31Op{c31Push(0, 10, 1, 0), c31Push(1, 11, 1, 2),
		c31Push(2, 13, 1000, 0), c31Push(3, 14, 1000, 2), pop,
		c31Push(4, 16, 5000, 3), c31Push(5, 17, 6000, 3), c31Push(6, 15, 7000, 3), dupOf(6, 15, 7000, 3), pop, pop}
	// 12. maxLate 21845: filled.count() is the shorter arc, so the window is never purged once it is longer
	//     than 65536 - maxLate; it grows to 65535 slots, seq 65535 wraps it to empty with 20 packets buffered;
	//     the last Pop builds [0 1] (timestamp 5000) over an emptied window: PacketTimestamp 0
	w12 := base("witness-filled-wraps-ring-large-maxlate", 21845)
	w12.Ops = []c31Op{c31Push(0, 0, 5000, 1), c31Push(1, 1, 5000, 2)}
	w12.Frames = [][]int{{0, 1}}
	for i, q := range []uint16{21844, 43690, 54613, 60074, 62805, 64170, 64853, 65194, 65365, 65450, 65493, 65514, 65525, 65530, 65533, 65534} {
		w12.Ops = append(w12.Ops, c31Push(2+i, q, uint32(6000+i), 3))
		w12.Frames = append(w12.Frames, []int{2 + i})
	}
	w12.Ops = append(w12.Ops, pop, c31Push(18, 2, 7000, 3), c31Push(19, 65535, 8000, 3), dupOf(19, 65535, 8000, 3), pop, pop)
	w12.Frames = append(w12.Frames, []int{18}, []int{19})
	// 13. a frame longer than maxLate: six packets in order, maxLate 4, Pop after every Push
	w13 := base("witness-frame-longer-than-maxlate", 4)
	w13.Complete = true
	w13.Frames = [][]int{{0, 1, 2, 3, 4, 5}, {6}}
	for g := 0; g < 6; g++ {
		w13.Ops = append(w13.Ops, c31Push(g, uint16(10+g), 1000, fl6(g)), pop)
	}
	w13.Ops = append(w13.Ops, c31Push(6, 16, 2000, 3), pop, fl, pop, pop)
	return []c31In{w1, w2, w3, w4, w5, w6, w7, w8, w9, w10, w11, w12, w13}
}

func c31Shrink(in c31In) []c31In {
	var out []c31In
	if c31Hung.Load() {
		return nil
	}
	n := len(in.Ops)
	del := func(keep func(i int, op c31Op) bool, frames [][]int) {
		c := in
		c.Ops = nil
		for i, op := range in.Ops {
			if keep(i, op) {
				c.Ops = append(c.Ops, op)
			}
		}
		c.Frames = frames
		if len(c.Ops) < n {
			out = append(out, c)
		}
	}
	if in.Complete {
		// stay inside the class: drop a whole frame at either end of the stream, or single Pops
		if len(in.Frames) > 1 {
			for _, side := range []int{len(in.Frames) - 1, 0} {
				gone := map[int]bool{}
				for _, g := range in.Frames[side] {
					gone[g] = true
				}
				var fr [][]int
				for i, f := range in.Frames {
					if i != side {
						fr = append(fr, f)
					}
				}
				del(func(_ int, op c31Op) bool { return !(op.K == 0 && gone[op.G]) }, fr)
			}
		}
		for i := 0; i < n && len(out) < 100; i++ {
			if in.Ops[i].K == 1 {
				j := i
				del(func(k int, _ c31Op) bool { return k != j }, in.Frames)
			}
		}
		return out
	}
	for _, w := range []int{n / 2, n / 4, 8, 2, 1} {
		if w < 1 {
			continue
		}
		for i := 0; i+w <= n && len(out) < 150; i += w {
			lo, hi := i, i+w
			del(func(k int, _ c31Op) bool { return k < lo || k >= hi }, in.Frames)
		}
	}
	return out
}

func init() {
	// witnesses and short histories: the whole observation (released packets, sample,
	// bookkeeping after every op) is compared with the model term by term
	Register(Spec[c31In]{
		ID: "C31", Suite: "detail", CoqImports: []string{"Check.C31"},
		CoqType: "list Z", CoqRun: "Check.C31.run_full",
		Quick: 20, Thorough: 600, Parallel: 16, Timeout: 120 * time.Second,
		Corpus: c31Corpus, Gen: c31GenCase(true), Run: c31Run, Coq: c31Coq, Shrink: c31Shrink,
	})
	// long histories: the same observation compared through its digest
	Register(Spec[c31In]{
		ID: "C31", Suite: "streams", CoqImports: []string{"Check.C31"},
		CoqType: "list Z", CoqRun: "Check.C31.run_digest",
		Quick: 120, Thorough: 3000, Parallel: 16, Timeout: 120 * time.Second,
		Gen: c31GenCase(false), Run: c31RunDigest, Coq: c31Coq, Shrink: c31Shrink,
	})
}
