//go:build verif_c27 || verif_c24 || verif_c20

package main

import (
	"strings"
	"time"
)

// stepPatient is Sched.Step for threads that never block in the model: when
// the grace period ends with the thread still "running" (machine load, GC
// pause) it keeps waiting, up to limit, for the thread to park or finish.
// Only a thread that is still running after that is reported as blocked.
func stepPatient(s *Sched, tid int, limit time.Duration) string {
	st := s.Step(tid)
	if st != "running" {
		return st
	}
	deadline := time.Now().Add(limit)
	for time.Now().Before(deadline) {
		if cur := s.Status(tid); cur != "running" {
			return cur
		}
		time.Sleep(200 * time.Microsecond)
	}
	return "running"
}

// waitParked waits until a spawned participant has reached a yield point.
func waitParked(s *Sched, tid int, limit time.Duration) bool {
	deadline := time.Now().Add(limit)
	for time.Now().Before(deadline) {
		if strings.HasPrefix(s.Status(tid), "parked") {
			return true
		}
		time.Sleep(20 * time.Microsecond)
	}
	return false
}
