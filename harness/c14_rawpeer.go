//go:build verif_c14

package main

// C14, suite rawpeer: a regular pion DTLSTransport (ORTC objects of the public
// API, real ICE over loopback) against a peer that is NOT a pion
// PeerConnection: a bare pion/ice agent with a bare pion/dtls endpoint on top,
// which authenticates with the key of its own certificate and is free to put
// further certificates into the chain of its Certificate message.  The victim
// was signalled the fingerprint of one pool certificate.  It may reach the
// DTLS connected state only if the certificate the handshake authenticated --
// the leaf of the chain -- is the signalled one (or verification was
// explicitly disabled).

import (
	"context"
	"crypto/tls"
	"fmt"
	"net"
	"strings"
	"sync"
	"time"

	"github.com/pion/dtls/v3"
	"github.com/pion/ice/v4"
	"github.com/pion/webrtc/v4"
)

type c14RawIn struct {
	Chain     []int  `json:"chain"`     // what the raw peer presents; it owns the key of Chain[0]
	Signalled int    `json:"signalled"` // pool certificate whose SHA-256 fingerprint the victim was given
	PeerRole  string `json:"peer_role"` // DTLS role of the raw peer: client | server
	Disabled  bool   `json:"disabled"`
}

// ice.Conn is a net.Conn; pion/dtls wants a net.PacketConn
type c14PacketConn struct{ *ice.Conn }

func (c c14PacketConn) ReadFrom(p []byte) (int, net.Addr, error) {
	n, err := c.Conn.Read(p)
	return n, c.Conn.RemoteAddr(), err
}
func (c c14PacketConn) WriteTo(p []byte, _ net.Addr) (int, error) { return c.Conn.Write(p) }

func c14RawRun(in c14RawIn) (V, Verdict) {
	certs := c14Certs()
	leaf := certs[in.Chain[0]]
	desc := fmt.Sprintf("%+v", in)

	// ---- victim: ORTC stack of the library
	se := webrtc.SettingEngine{}
	se.SetICEMulticastDNSMode(ice.MulticastDNSModeDisabled)
	se.SetNetworkTypes([]webrtc.NetworkType{webrtc.NetworkTypeUDP4})
	se.SetInterfaceFilter(func(name string) bool { return name == "lo" })
	se.SetIncludeLoopbackCandidate(true)
	se.DisableCertificateFingerprintVerification(in.Disabled)
	api := webrtc.NewAPI(webrtc.WithSettingEngine(se))
	gatherer, err := api.NewICEGatherer(webrtc.ICEGatherOptions{})
	if err != nil {
		panic(err)
	}
	vICE := api.NewICETransport(gatherer)
	vDTLS, err := api.NewDTLSTransport(vICE, nil)
	if err != nil {
		panic(err)
	}
	var mu sync.Mutex
	var states []webrtc.DTLSTransportState
	vDTLS.OnStateChange(func(s webrtc.DTLSTransportState) {
		mu.Lock()
		states = append(states, s)
		mu.Unlock()
	})
	gathered := make(chan struct{})
	gatherer.OnLocalCandidate(func(c *webrtc.ICECandidate) {
		if c == nil {
			close(gathered)
		}
	})
	if err = gatherer.Gather(); err != nil {
		panic(err)
	}
	<-gathered
	vCands, err := gatherer.GetLocalCandidates()
	if err != nil {
		panic(err)
	}
	vParams, err := gatherer.GetLocalParameters()
	if err != nil {
		panic(err)
	}

	// ---- raw peer: pion/ice agent
	agent, err := ice.NewAgent(&ice.AgentConfig{
		NetworkTypes:     []ice.NetworkType{ice.NetworkTypeUDP4},
		MulticastDNSMode: ice.MulticastDNSModeDisabled,
		IncludeLoopback:  true,
		InterfaceFilter:  func(name string) bool { return name == "lo" },
	})
	if err != nil {
		panic(err)
	}
	pGathered := make(chan struct{})
	var pCands []webrtc.ICECandidate
	if err = agent.OnCandidate(func(c ice.Candidate) {
		if c == nil {
			close(pGathered)
			return
		}
		proto, _ := webrtc.NewICEProtocol(c.NetworkType().NetworkShort())
		pCands = append(pCands, webrtc.ICECandidate{
			Foundation: c.Foundation(), Priority: c.Priority(), Address: c.Address(), Protocol: proto,
			Port: uint16(c.Port()), Typ: webrtc.ICECandidateTypeHost, Component: c.Component(),
		})
	}); err != nil {
		panic(err)
	}
	if err = agent.GatherCandidates(); err != nil {
		panic(err)
	}
	<-pGathered
	pUfrag, pPwd, err := agent.GetLocalUserCredentials()
	if err != nil {
		panic(err)
	}
	defer func() {
		_ = vDTLS.Stop()
		_ = vICE.Stop()
		_ = agent.Close()
	}()

	// ---- ICE both ways (victim controlling)
	ctx, cancel := context.WithTimeout(context.Background(), 15*time.Second)
	defer cancel()
	iceErr := make(chan error, 2)
	var pConn *ice.Conn
	go func() {
		role := webrtc.ICERoleControlling
		if e := vICE.SetRemoteCandidates(pCands); e != nil {
			iceErr <- e
			return
		}
		iceErr <- vICE.Start(nil, webrtc.ICEParameters{UsernameFragment: pUfrag, Password: pPwd}, &role)
	}()
	go func() {
		for _, c := range vCands {
			ic, e := c.ToICE()
			if e != nil {
				iceErr <- e
				return
			}
			if e = agent.AddRemoteCandidate(ic); e != nil {
				iceErr <- e
				return
			}
		}
		var e error
		pConn, e = agent.Accept(ctx, vParams.UsernameFragment, vParams.Password)
		iceErr <- e
	}()
	for i := 0; i < 2; i++ {
		if e := <-iceErr; e != nil {
			return VL{VB(false), VB(false)}, Fail("rawpeer-ice-failed", e.Error())
		}
	}

	// ---- raw peer's DTLS endpoint: own key, chain as requested
	chain := make([][]byte, len(in.Chain))
	for i, k := range in.Chain {
		chain[i] = certs[k].der
	}
	opts := []dtls.Option{
		dtls.WithCertificates(tls.Certificate{Certificate: chain, PrivateKey: leaf.key}),
		dtls.WithInsecureSkipVerify(true),
		dtls.WithExtendedMasterSecret(dtls.RequireExtendedMasterSecret),
		dtls.WithSRTPProtectionProfiles(dtls.SRTP_AEAD_AES_128_GCM, dtls.SRTP_AES128_CM_HMAC_SHA1_80),
	}
	peerDone := make(chan error, 1)
	go func() {
		pc := c14PacketConn{pConn}
		var conn *dtls.Conn
		var e error
		if in.PeerRole == "client" {
			copts := make([]dtls.ClientOption, len(opts))
			for i, o := range opts {
				copts[i] = o
			}
			conn, e = dtls.ClientWithOptions(pc, pConn.RemoteAddr(), copts...)
		} else {
			sopts := make([]dtls.ServerOption, len(opts), len(opts)+1)
			for i, o := range opts {
				sopts[i] = o
			}
			sopts = append(sopts, dtls.WithClientAuth(dtls.RequireAnyClientCert))
			conn, e = dtls.ServerWithOptions(pc, pConn.RemoteAddr(), sopts...)
		}
		if e != nil {
			peerDone <- e
			return
		}
		hctx, hcancel := context.WithTimeout(context.Background(), 10*time.Second)
		defer hcancel()
		e = conn.HandshakeContext(hctx)
		if e == nil {
			time.Sleep(300 * time.Millisecond) // let the victim settle before the close alert
		}
		_ = conn.Close()
		peerDone <- e
	}()

	// ---- victim's DTLS, told the signalled certificate's fingerprint
	d, _ := c14Digest("sha-256", certs[in.Signalled].der)
	remoteRole := webrtc.DTLSRoleClient
	if in.PeerRole == "server" {
		remoteRole = webrtc.DTLSRoleServer
	}
	sctx, scancel := context.WithTimeout(context.Background(), 10*time.Second)
	defer scancel()
	startErr := vDTLS.StartContext(sctx, webrtc.DTLSParameters{
		Role:         remoteRole,
		Fingerprints: []webrtc.DTLSFingerprint{{Algorithm: "sha-256", Value: strings.ToUpper(d)}},
	})
	remote := vDTLS.GetRemoteCertificate()
	peerErr := <-peerDone
	mu.Lock()
	connected := false
	for _, s := range states {
		connected = connected || s == webrtc.DTLSTransportStateConnected
	}
	seen := fmt.Sprint(states)
	mu.Unlock()
	obs := VL{VB(startErr == nil), VB(connected)}
	detail := fmt.Sprintf("%s: victim Start: %v; raw peer handshake: %v; victim DTLS states %s", desc, startErr, peerErr, seen)

	authentic := in.Chain[0] == in.Signalled
	later := false
	for _, k := range in.Chain[1:] {
		later = later || k == in.Signalled
	}
	switch {
	case !authentic && !in.Disabled && (connected || startErr == nil):
		if later {
			return obs, Fail("dtls-connected-on-non-leaf-chain-certificate", detail)
		}
		return obs, Fail("dtls-connected-despite-fingerprint-mismatch", detail)
	case (authentic || in.Disabled) && (!connected || startErr != nil):
		return obs, Fail("rawpeer-control-did-not-connect", detail)
	case connected && string(remote) != string(leaf.der):
		return obs, Fail("remote-certificate-is-not-the-leaf", detail)
	}
	cl := fmt.Sprintf("peer-%s/len%d/", in.PeerRole, len(in.Chain))
	switch {
	case in.Disabled:
		cl += "verification-disabled"
	case authentic:
		cl += "leaf-signalled/connected"
	case later:
		cl += "signalled-later-in-chain/refused"
	default:
		cl += "signalled-absent/refused"
	}
	return obs, Pass(cl, connected)
}

// model view: the fingerprint list the victim holds and the hash tables of the
// chain; under the assumed DTLS contract the victim connects iff the callback
// accepts
func c14RawCoq(in c14RawIn) string {
	certs := c14Certs()
	d, _ := c14Digest("sha-256", certs[in.Signalled].der)
	chain := make([]string, len(in.Chain))
	for i, k := range in.Chain {
		v, ok := c14LibFingerprint("sha-256", certs[k].x509)
		chain[i] = "Some [(" + CoqString("sha-256") + ", " + CoqOpt(ok, CoqString(v)) + ")]"
	}
	return "(" + CoqBool(in.Disabled) + ", [(" + CoqString("sha-256") + ", " + CoqString(strings.ToUpper(d)) + ")], " + CoqList(chain) + ")"
}

func c14RawCorpus() []c14RawIn {
	return []c14RawIn{
		{[]int{3, 0}, 0, "client", false}, // own certificate first, the signalled (public) one appended
		{[]int{0}, 0, "client", false},    // control
		{[]int{2, 0}, 0, "server", false},
		{[]int{0, 3}, 0, "server", false}, // control with a chain
	}
}

func c14RawGen(r *Rand, _ int) c14RawIn {
	in := c14RawIn{Signalled: r.Intn(4), PeerRole: Pick(r, []string{"client", "server"}), Disabled: r.Chance(1, 10)}
	other := func() int { return (in.Signalled + 1 + r.Intn(3)) % 4 }
	n := r.Range(1, 3)
	switch r.Intn(3) {
	case 0: // the signalled certificate is the leaf
		in.Chain = []int{in.Signalled}
		for len(in.Chain) < n {
			in.Chain = append(in.Chain, r.Intn(4))
		}
	case 1: // later
		if n < 2 {
			n = 2
		}
		in.Chain = []int{other()}
		for len(in.Chain) < n-1 {
			in.Chain = append(in.Chain, r.Intn(4))
		}
		in.Chain = append(in.Chain, in.Signalled)
	default: // absent
		for len(in.Chain) < n {
			in.Chain = append(in.Chain, other())
		}
	}
	return in
}

func init() {
	Register(Spec[c14RawIn]{
		ID: "C14", Suite: "rawpeer", CoqImports: []string{"Check.C14"},
		CoqType: "bool * list (string * string) * list (option (list (string * option string)))", CoqRun: "Check.C14.run_chain_conn",
		Quick: 8, Thorough: 100, Parallel: 6, Timeout: 45 * time.Second,
		Corpus: c14RawCorpus, Gen: c14RawGen, Run: c14RawRun, Coq: c14RawCoq,
	})
}
