//go:build verif_c11

package main

// C11, suite "recompute": histories of CreateOffer / CreateAnswer on one real
// PeerConnection in which CreateOffer is forced through its recompute loop
// ("offer changed while being generated") by public-API means only: the
// transceivers carry TrackLocals whose StreamID()/ID() accessors - called by
// CreateOffer while it writes a media section - let ANOTHER goroutine stop a
// transceiver, take its sending track away or give it back, and return before
// the generation goes on.  Whether a change leads to a recomputation depends on
// where the trigger sits relative to the victim's m= section; the harness does
// not predict it, it counts the generations of every call with a probe track
// on the last transceiver (accessor calls per call / accessor calls per
// generation).  Direct oracle: the o= line of every returned description against
// all earlier ones.  Model: Model/Origin.v calls / offer_loop (c11_recompute).

import (
	"fmt"
	"sync"
	"sync/atomic"

	"github.com/pion/webrtc/v4"
)

type c11Interf struct {
	Trigger int `json:"trigger"` // transceiver whose track's accessor fires the change
	After   int `json:"after"`   // accessor calls on that track, counted from arming, that pass first
	Victim  int `json:"victim"`  // transceiver that is changed
	Action  int `json:"action"`  // 0 Stop(), 1 take the sending track away, 2 give sender and track back
}

type c11ReOp struct {
	Answer bool        `json:"answer,omitempty"` // CreateAnswer (only in have-remote-offer; otherwise CreateOffer)
	Interf []c11Interf `json:"interf,omitempty"` // changes made while this call generates, armed one after the other
	Flip   int         `json:"flip,omitempty"`   // 1+victim: toggle the victim's sending track once per generation (never settles)
}

type c11Re struct {
	Setup int       `json:"setup"` // 0 new, 1 negotiated once (matched SDP path), 2 have-remote-offer
	Kinds []int     `json:"kinds"` // per transceiver: 0 audio track, 1 video track, 2 audio recvonly, 3 video recvonly
	Ops   []c11ReOp `json:"ops"`   // after an implicit first plain CreateOffer
}

type c11Env struct {
	active     atomic.Bool
	trs        []*webrtc.RTPTransceiver
	tracks     []webrtc.TrackLocal
	senders    []*webrtc.RTPSender
	probe      int
	probeCalls int
	perGen     int // probe accessor calls per generation (from the first, plain, offer)
	queue      []c11Interf
	sinceArm   int
	flip       int // victim index or -1
	fired      int
}

type c11Track struct {
	*webrtc.TrackLocalStaticRTP
	env *c11Env
	idx int
}

func (t *c11Track) StreamID() string { t.env.accessor(t.idx); return t.TrackLocalStaticRTP.StreamID() }
func (t *c11Track) ID() string       { t.env.accessor(t.idx); return t.TrackLocalStaticRTP.ID() }

// the change itself is made by another goroutine; the accessor (and with it the
// generation, which holds pc.mu) goes on only after that goroutine has returned
func (e *c11Env) elsewhere(f func()) {
	done := make(chan struct{})
	go func() { defer close(done); f() }()
	<-done
}

func (e *c11Env) apply(action, victim int) {
	if victim < 0 || victim >= len(e.trs) || victim == e.probe {
		return
	}
	tr := e.trs[victim]
	switch action {
	case 0:
		_ = tr.Stop()
	case 1:
		if s := tr.Sender(); s != nil {
			_ = tr.SetSender(s, nil)
		}
	case 2:
		if tr.Sender() == nil && e.senders[victim] != nil {
			_ = tr.SetSender(e.senders[victim], e.tracks[victim])
		}
	}
}

func (e *c11Env) accessor(idx int) {
	if !e.active.Load() {
		return
	}
	e.active.Store(false) // accessor calls made by the change itself do not count
	defer e.active.Store(true)
	if idx == e.probe {
		e.probeCalls++
		if e.flip >= 0 && e.perGen > 0 && (e.probeCalls-1)%e.perGen == 0 {
			v := e.flip
			e.elsewhere(func() {
				if e.trs[v].Sender() != nil {
					e.apply(1, v)
				} else {
					e.apply(2, v)
				}
			})
			e.fired++
		}
		return
	}
	if len(e.queue) == 0 || e.queue[0].Trigger != idx {
		return
	}
	if e.sinceArm < e.queue[0].After {
		e.sinceArm++
		return
	}
	it := e.queue[0]
	e.queue, e.sinceArm = e.queue[1:], 0
	e.elsewhere(func() { e.apply(it.Action, it.Victim) })
	e.fired++
}

func c11MediaAPI() *webrtc.API {
	me := &webrtc.MediaEngine{}
	if err := me.RegisterDefaultCodecs(); err != nil {
		panic(err)
	}
	return newQuietAPI(me)
}

var c11ReCoq sync.Map // input -> Gallina term of the model input (needs the first observed origin)

const c11ExcessiveText = "excessive retries in CreateOffer"

func c11ReRun(in c11Re) (V, Verdict) {
	signalOnly(true)
	pc, err := c11MediaAPI().NewPeerConnection(webrtc.Configuration{})
	if err != nil {
		panic(err)
	}
	defer pc.Close() //nolint
	env := &c11Env{flip: -1}
	kinds := append(append([]int{}, in.Kinds...), 1) // the probe: one more video track, never touched
	env.probe = len(kinds) - 1
	for i, k := range kinds {
		kind := webrtc.RTPCodecTypeAudio
		mime := webrtc.MimeTypeOpus
		if k == 1 || k == 3 {
			kind, mime = webrtc.RTPCodecTypeVideo, webrtc.MimeTypeVP8
		}
		var tr *webrtc.RTPTransceiver
		var track webrtc.TrackLocal
		if k >= 2 {
			tr, err = pc.AddTransceiverFromKind(kind, webrtc.RTPTransceiverInit{Direction: webrtc.RTPTransceiverDirectionRecvonly})
		} else {
			st, e := webrtc.NewTrackLocalStaticRTP(webrtc.RTPCodecCapability{MimeType: mime}, fmt.Sprintf("t%d", i), fmt.Sprintf("s%d", i))
			if e != nil {
				panic(e)
			}
			track = &c11Track{TrackLocalStaticRTP: st, env: env, idx: i}
			tr, err = pc.AddTransceiverFromTrack(track)
		}
		if err != nil {
			panic(err)
		}
		env.trs = append(env.trs, tr)
		env.tracks = append(env.tracks, track)
		env.senders = append(env.senders, tr.Sender())
	}
	var other *webrtc.PeerConnection
	if in.Setup != 0 {
		if other, err = c11MediaAPI().NewPeerConnection(webrtc.Configuration{}); err != nil {
			panic(err)
		}
		defer other.Close() //nolint
	}
	if in.Setup == 2 {
		if _, err = other.CreateDataChannel("x", nil); err != nil {
			panic(err)
		}
		off, e := other.CreateOffer(nil)
		if e != nil {
			panic(e)
		}
		if err = pc.SetRemoteDescription(off); err != nil {
			panic(err)
		}
	}

	type rec struct {
		sid, ver  uint64
		returned  bool
		excessive bool
		gens      int
	}
	var hist []rec
	var failure *Verdict
	gensUnknown := false
	// one CreateOffer / CreateAnswer with its interference; gens < 0: take it from the probe
	call := func(op c11ReOp, calibrate bool) (webrtc.SessionDescription, bool) {
		env.queue, env.sinceArm, env.probeCalls = append([]c11Interf{}, op.Interf...), 0, 0
		env.flip = op.Flip - 1
		if env.flip >= env.probe || (env.flip >= 0 && env.tracks[env.flip] == nil) {
			env.flip = -1
		}
		answer := op.Answer && in.Setup == 2
		var d webrtc.SessionDescription
		var e error
		env.active.Store(true)
		if answer {
			d, e = pc.CreateAnswer(nil)
		} else {
			d, e = pc.CreateOffer(nil)
		}
		env.active.Store(false)
		r := rec{gens: 1}
		if !answer {
			if calibrate {
				env.perGen = env.probeCalls
			}
			if env.perGen <= 0 || env.probeCalls%env.perGen != 0 || env.probeCalls == 0 {
				// the probe cannot tell how many generations this call took (an interference changed how
				// often the probe's own accessors are consulted): the o= lines are still judged by the
				// direct oracle, but the history is not handed to the model
				gensUnknown = true
				r.gens = 1
				if env.perGen > 0 && env.probeCalls > env.perGen {
					r.gens = (env.probeCalls + env.perGen - 1) / env.perGen
				}
			} else {
				r.gens = env.probeCalls / env.perGen
			}
		}
		switch {
		case e == nil:
			var ok bool
			r.sid, r.ver, ok = c11Origin(d.SDP)
			r.returned = true
			if !ok && failure == nil {
				v := Fail("no-origin-line", "a generated description has no parsable o= line")
				failure = &v
			}
		case e.Error() == c11ExcessiveText:
			r.excessive = true
		default:
			if failure == nil {
				v := Fail("create-offer-or-answer-failed", e.Error())
				failure = &v
			}
		}
		hist = append(hist, r)
		return d, e == nil
	}

	first, ok := call(c11ReOp{}, true)
	if !ok {
		return VS("error"), *failure
	}
	if in.Setup == 1 {
		if err = other.SetRemoteDescription(first); err != nil {
			panic(err)
		}
		ans, e := other.CreateAnswer(nil)
		if e != nil {
			panic(e)
		}
		if err = other.SetLocalDescription(ans); err != nil {
			panic(err)
		}
		if err = pc.SetLocalDescription(first); err != nil {
			panic(err)
		}
		if err = pc.SetRemoteDescription(ans); err != nil {
			panic(err)
		}
		drain(pc)
	}
	for _, op := range in.Ops {
		call(op, false)
	}
	if failure != nil {
		return VS("error"), *failure
	}

	// direct oracle: every returned description against all earlier ones
	obs := VL{}
	retries := []string{}
	verdict := Verdict{}
	recomputes, excessive := 0, 0
	for j, r := range hist {
		switch {
		case r.excessive:
			obs = append(obs, VS("excessive"))
			retries = append(retries, fmt.Sprint(r.gens))
			excessive++
			continue
		default:
			obs = append(obs, VL{vU64(r.sid), vU64(r.ver)})
			retries = append(retries, fmt.Sprint(r.gens-1))
		}
		if r.gens >= 2 {
			recomputes++
		}
		if (r.sid == 0 || r.ver == 0) && verdict.Sig == "" {
			verdict = Fail("zero-origin", fmt.Sprintf("call %d carries a zero session id or version", j))
		}
		for i := 0; i < j && verdict.Sig == ""; i++ {
			p := hist[i]
			if !p.returned {
				continue
			}
			how := ""
			if r.gens >= 2 {
				how = "-by-recomputed-offer"
			}
			if r.sid != p.sid {
				verdict = Fail("session-id-changed"+how, fmt.Sprintf("call %d (%d generations) carries id %d, call %d carried %d", j, r.gens, r.sid, i, p.sid))
			} else if r.ver <= p.ver {
				verdict = Fail("session-version-not-increasing"+how, fmt.Sprintf("call %d (%d generations) carries version %d, earlier call %d carried %d", j, r.gens, r.ver, i, p.ver))
			}
		}
	}
	if gensUnknown {
		c11ReCoq.Delete(fmt.Sprintf("%+v", in))
	} else {
		c11ReCoq.Store(fmt.Sprintf("%+v", in), fmt.Sprintf("((%d, %d), %s)", hist[0].sid, hist[0].ver, CoqList(retries)))
	}
	if verdict.Sig != "" {
		return obs, verdict
	}
	class := fmt.Sprintf("setup%d/recomputed-calls=%d", in.Setup, min(recomputes, 3))
	if excessive > 0 {
		class += "/gave-up"
	}
	return obs, Pass(class, recomputes+excessive >= 1)
}

func c11ReGen(r *Rand, i int) c11Re {
	in := c11Re{Setup: r.Intn(3)}
	n := r.Range(2, 5)
	var withTrack []int
	for k := 0; k < n; k++ {
		kind := r.Intn(2)
		if r.Chance(1, 5) {
			kind += 2
		} else {
			withTrack = append(withTrack, k)
		}
		in.Kinds = append(in.Kinds, kind)
	}
	if len(withTrack) == 0 {
		in.Kinds[n-1] = 1
		withTrack = []int{n - 1}
	}
	for k, m := 0, r.Range(1, 6); k < m; k++ {
		op := c11ReOp{Answer: r.Chance(1, 4)}
		switch {
		case r.Chance(1, 25):
			op.Flip = 1 + Pick(r, withTrack)
		case r.Chance(3, 4):
			for q, nq := 0, r.Range(1, 3); q < nq; q++ {
				it := c11Interf{Trigger: Pick(r, withTrack), After: r.Intn(5), Action: r.Intn(3)}
				if it.Trigger > 0 && r.Chance(3, 4) {
					it.Victim = r.Intn(it.Trigger) // its m= section is already written
				} else {
					it.Victim = r.Intn(n)
				}
				op.Interf = append(op.Interf, it)
			}
		}
		in.Ops = append(in.Ops, op)
	}
	return in
}

func init() {
	Register(Spec[c11Re]{
		ID: "C11", Suite: "recompute", CoqImports: []string{"Check.C11"},
		CoqType: "(Z * Z) * list Z", CoqRun: "Check.C11.run_recompute",
		Quick: 250, Thorough: 6000, Parallel: 4,
		Corpus: func() []c11Re {
			stop := c11Interf{Trigger: 1, After: 0, Victim: 0, Action: 0}
			take := c11Interf{Trigger: 1, After: 2, Victim: 0, Action: 1}
			give := c11Interf{Trigger: 1, After: 0, Victim: 0, Action: 2}
			return []c11Re{
				// the seeded change's witness: three plain offers, then Stop() of the first
				// transceiver while the second one's section is written, then a plain offer
				{Setup: 0, Kinds: []int{0, 1}, Ops: []c11ReOp{{}, {}, {Interf: []c11Interf{stop}}, {}}},
				// two recomputations within one call, then one more call with one
				{Setup: 0, Kinds: []int{0, 1}, Ops: []c11ReOp{{Interf: []c11Interf{take, give}}, {Interf: []c11Interf{take}}, {}}},
				// the same on the matched-SDP path and in have-remote-offer with answers in between
				{Setup: 1, Kinds: []int{1, 0, 2}, Ops: []c11ReOp{{Interf: []c11Interf{take}}, {}, {Interf: []c11Interf{give, stop}}}},
				{Setup: 2, Kinds: []int{0, 1}, Ops: []c11ReOp{{Answer: true}, {Interf: []c11Interf{stop}}, {Answer: true}, {}}},
				// a change after the victim's own section only: no recomputation
				{Setup: 0, Kinds: []int{0, 1}, Ops: []c11ReOp{{Interf: []c11Interf{{Trigger: 0, After: 0, Victim: 1, Action: 0}}}, {}}},
				// never settles: CreateOffer gives up after 128 generations; the next offer follows on
				{Setup: 0, Kinds: []int{0, 1}, Ops: []c11ReOp{{Flip: 1}, {}}},
			}
		},
		Gen: c11ReGen,
		Run: c11ReRun,
		Coq: func(in c11Re) string {
			s, ok := c11ReCoq.Load(fmt.Sprintf("%+v", in))
			if !ok {
				return ""
			}
			return s.(string)
		},
		Shrink: func(in c11Re) []c11Re {
			var out []c11Re
			for i := range in.Ops {
				c := in
				c.Ops = append(append([]c11ReOp{}, in.Ops[:i]...), in.Ops[i+1:]...)
				out = append(out, c)
				if len(in.Ops[i].Interf) > 1 {
					for q := range in.Ops[i].Interf {
						c := in
						c.Ops = append([]c11ReOp{}, in.Ops...)
						c.Ops[i].Interf = append(append([]c11Interf{}, in.Ops[i].Interf[:q]...), in.Ops[i].Interf[q+1:]...)
						out = append(out, c)
					}
				}
			}
			return out
		},
	})
}
