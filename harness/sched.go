package main

// Deterministic schedule control over the verifhook yield points
// (DESIGN.md section 4.2). Each participant (thread of the interleaving model)
// runs in its own goroutine; at every verifhook.Point it parks until the
// controller releases it. Goroutines the code under test spawns itself are
// attributed to a participant by point-name prefix.

import (
	"bytes"
	"runtime"
	"strconv"
	"strings"
	"sync"
	"time"

	"github.com/pion/webrtc/v4/internal/verifhook"
)

type pstate int

const (
	psIdle     pstate = iota // not started
	psRunning                // released, has not reached a point yet (maybe blocked)
	psParked                 // waiting at a point
	psFinished               // participant function returned
)

type participant struct {
	name    string
	fn      func()
	state   pstate
	at      string // point name when parked
	release chan struct{}
}

type Sched struct {
	mu       sync.Mutex
	cond     *sync.Cond
	parts    []*participant
	byGoid   map[uint64]int
	byPrefix []struct {
		prefix string
		tid    int
	}
	Grace time.Duration
	Trace []string
	only  []string // when set, points outside these prefixes are not yield points of this run
	free  bool // after Release(): points no longer park
}

func goid() uint64 {
	var buf [64]byte
	n := runtime.Stack(buf[:], false)
	f := bytes.Fields(buf[:n])
	id, _ := strconv.ParseUint(string(f[1]), 10, 64)
	return id
}

var schedMu sync.Mutex // one controlled run at a time per process

// NewSched installs the hook handler. Call Close when done.
func NewSched() *Sched {
	schedMu.Lock()
	s := &Sched{byGoid: map[uint64]int{}, Grace: 15 * time.Millisecond}
	s.cond = sync.NewCond(&s.mu)
	verifhook.Install(s.point)
	return s
}

// Only restricts the yield points of this run to names with one of the given
// prefixes: other families' hooks in the same code paths pass straight through.
func (s *Sched) Only(prefixes ...string) *Sched {
	s.mu.Lock()
	s.only = prefixes
	s.mu.Unlock()
	return s
}

// Close lets every parked goroutine run free and removes the handler.
func (s *Sched) Close() {
	s.mu.Lock()
	s.free = true
	for _, p := range s.parts {
		if p.state == psParked {
			p.state = psRunning
			close(p.release)
		}
	}
	s.mu.Unlock()
	verifhook.Install(nil)
	schedMu.Unlock()
}

// Add registers a participant whose body is fn; returns its thread id.
func (s *Sched) Add(name string, fn func()) int {
	s.mu.Lock()
	defer s.mu.Unlock()
	s.parts = append(s.parts, &participant{name: name, fn: fn})
	return len(s.parts) - 1
}

// AddSpawned registers a participant for goroutines the code under test
// starts itself: every point whose name has the prefix belongs to it.
func (s *Sched) AddSpawned(name, prefix string) int {
	s.mu.Lock()
	defer s.mu.Unlock()
	s.parts = append(s.parts, &participant{name: name, state: psFinished})
	tid := len(s.parts) - 1
	s.byPrefix = append(s.byPrefix, struct {
		prefix string
		tid    int
	}{prefix, tid})
	return tid
}

func (s *Sched) point(name string) {
	s.mu.Lock()
	if s.free {
		s.mu.Unlock()
		return
	}
	if len(s.only) > 0 {
		mine := false
		for _, p := range s.only {
			if strings.HasPrefix(name, p) {
				mine = true
				break
			}
		}
		if !mine {
			s.mu.Unlock()
			return
		}
	}
	tid, ok := -1, false
	for _, bp := range s.byPrefix {
		if strings.HasPrefix(name, bp.prefix) {
			tid, ok = bp.tid, true
			break
		}
	}
	if !ok {
		tid, ok = s.byGoid[goid()]
	}
	if !ok { // a goroutine nobody controls: let it through
		s.mu.Unlock()
		return
	}
	p := s.parts[tid]
	if strings.HasSuffix(name, ".exit") { // a spawned goroutine announcing its end
		p.state = psFinished
		s.cond.Broadcast()
		s.mu.Unlock()
		return
	}
	p.state = psParked
	p.at = name
	p.release = make(chan struct{})
	ch := p.release
	s.cond.Broadcast()
	s.mu.Unlock()
	<-ch
}

// Status of a participant: "idle", "running" (released and not yet at a point:
// blocked or computing), "parked:<point>", "finished".
func (s *Sched) Status(tid int) string {
	s.mu.Lock()
	defer s.mu.Unlock()
	return s.status(tid)
}

func (s *Sched) status(tid int) string {
	p := s.parts[tid]
	switch p.state {
	case psIdle:
		return "idle"
	case psRunning:
		return "running"
	case psParked:
		return "parked:" + p.at
	}
	return "finished"
}

// Step lets participant tid run to its next point (or to completion).
// It returns the status afterwards; "running" means it did not get anywhere
// within the grace period (blocked on a channel, a lock or a WaitGroup);
// "disabled" means there was nothing to release (finished, or still blocked
// from an earlier step).
func (s *Sched) Step(tid int) string {
	s.mu.Lock()
	p := s.parts[tid]
	switch p.state {
	case psIdle:
		p.state = psRunning
		go func() {
			s.mu.Lock()
			s.byGoid[goid()] = tid
			s.mu.Unlock()
			p.fn()
			s.mu.Lock()
			p.state = psFinished
			s.cond.Broadcast()
			s.mu.Unlock()
		}()
	case psParked:
		p.state = psRunning
		close(p.release)
	default:
		st := s.status(tid)
		s.mu.Unlock()
		s.Trace = append(s.Trace, p.name+":disabled("+st+")")
		return "disabled"
	}
	deadline := time.Now().Add(s.Grace)
	for p.state == psRunning {
		remaining := time.Until(deadline)
		if remaining <= 0 {
			break
		}
		t := time.AfterFunc(remaining, func() { s.mu.Lock(); s.cond.Broadcast(); s.mu.Unlock() })
		s.cond.Wait()
		t.Stop()
	}
	st := s.status(tid)
	s.mu.Unlock()
	s.Trace = append(s.Trace, p.name+":"+st)
	return st
}

// Settle waits (up to the grace period) for every running participant to park
// or finish and returns all statuses.
func (s *Sched) Settle() []string {
	s.mu.Lock()
	defer s.mu.Unlock()
	deadline := time.Now().Add(s.Grace)
	for {
		busy := false
		for _, p := range s.parts {
			if p.state == psRunning {
				busy = true
			}
		}
		remaining := time.Until(deadline)
		if !busy || remaining <= 0 {
			break
		}
		t := time.AfterFunc(remaining, func() { s.mu.Lock(); s.cond.Broadcast(); s.mu.Unlock() })
		s.cond.Wait()
		t.Stop()
	}
	out := make([]string, len(s.parts))
	for i := range s.parts {
		out[i] = s.status(i)
	}
	return out
}
