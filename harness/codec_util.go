//go:build verif_codec

package main

import (
	"fmt"
	"strings"

	"github.com/pion/sdp/v3"
	"github.com/pion/webrtc/v4"
)

// Helpers shared by the codec family (C10 C15 C16 C17).

// coqStr renders any byte string for Gallina: a literal when printable ASCII,
// else (unhex "…") (coq/Common/CodecUtil.v).
func coqStr(s string) string {
	for i := 0; i < len(s); i++ {
		if s[i] < 32 || s[i] > 126 {
			return fmt.Sprintf("(unhex \"%x\")", s)
		}
	}
	return CoqString(s)
}

func coqN(n uint64) string { return fmt.Sprintf("%d%%N", n) }

func coqStrList(xs []string) string {
	parts := make([]string, len(xs))
	for i, x := range xs {
		parts[i] = coqStr(x)
	}
	return CoqList(parts)
}

func isASCII(s string) bool {
	for i := 0; i < len(s); i++ {
		if s[i] >= 0x80 {
			return false
		}
	}
	return true
}

// vsx is the observation of a string as lowercase hex (VSx in CodecUtil.v).
func vsx(s string) V { return VS(fmt.Sprintf("%x", s)) }

// flipCase changes the case of ASCII letters at random.
func flipCase(r *Rand, s string) string {
	b := []byte(s)
	for i, c := range b {
		if r.Chance(1, 3) {
			switch {
			case c >= 'a' && c <= 'z':
				b[i] = c - 32
			case c >= 'A' && c <= 'Z':
				b[i] = c + 32
			}
		}
	}
	return string(b)
}

func upperASCII(s string) string { return strings.ToUpper(s) }

// ---------- codecs at the harness boundary ----------

type cdc struct {
	Mime  string      `json:"mime"`
	Clock uint32      `json:"clock"`
	Ch    uint16      `json:"ch"`
	Line  string      `json:"line"`
	FB    [][2]string `json:"fb"`
	PT    uint8       `json:"pt"`
}

func (c cdc) params() webrtc.RTPCodecParameters {
	var fb []webrtc.RTCPFeedback
	for _, f := range c.FB {
		fb = append(fb, webrtc.RTCPFeedback{Type: f[0], Parameter: f[1]})
	}
	return webrtc.RTPCodecParameters{
		RTPCodecCapability: webrtc.RTPCodecCapability{MimeType: c.Mime, ClockRate: c.Clock, Channels: c.Ch, SDPFmtpLine: c.Line, RTCPFeedback: fb},
		PayloadType:        webrtc.PayloadType(c.PT),
	}
}

func cdcOf(p webrtc.RTPCodecParameters) cdc {
	c := cdc{Mime: p.MimeType, Clock: p.ClockRate, Ch: p.Channels, Line: p.SDPFmtpLine, PT: uint8(p.PayloadType)}
	for _, f := range p.RTCPFeedback {
		c.FB = append(c.FB, [2]string{f.Type, f.Parameter})
	}
	return c
}

func cdcsOf(ps []webrtc.RTPCodecParameters) []cdc {
	out := make([]cdc, len(ps))
	for i, p := range ps {
		out[i] = cdcOf(p)
	}
	return out
}

func paramsOf(cs []cdc) []webrtc.RTPCodecParameters {
	out := make([]webrtc.RTPCodecParameters, len(cs))
	for i, c := range cs {
		out[i] = c.params()
	}
	return out
}

func (c cdc) ascii() bool {
	if !isASCII(c.Mime) || !isASCII(c.Line) {
		return false
	}
	for _, f := range c.FB {
		if !isASCII(f[0]) || !isASCII(f[1]) {
			return false
		}
	}
	return true
}

func cdcsASCII(cs []cdc) bool {
	for _, c := range cs {
		if !c.ascii() {
			return false
		}
	}
	return true
}

// same codec apart from the feedback list
func (c cdc) sameButFB(d cdc) bool {
	return c.Mime == d.Mime && c.Clock == d.Clock && c.Ch == d.Ch && c.Line == d.Line && c.PT == d.PT
}

// vstr mirrors Vstr of coq/Check/CodecIO.v
func vstr(s string) V {
	for i := 0; i < len(s); i++ {
		if s[i] < 32 || s[i] > 126 || s[i] == '\\' {
			return VS(fmt.Sprintf("\\x%x", s))
		}
	}
	return VS(s)
}

func vcodec(c cdc) V {
	fb := make(VL, len(c.FB))
	for i, f := range c.FB {
		fb[i] = VL{vstr(f[0]), vstr(f[1])}
	}
	return VL{vstr(c.Mime), VZ(int64(c.Clock)), VZ(int64(c.Ch)), vstr(c.Line), fb, VZ(int64(c.PT))}
}

func vcodecs(cs []cdc) V {
	out := make(VL, len(cs))
	for i, c := range cs {
		out[i] = vcodec(c)
	}
	return out
}

func coqCodec(c cdc) string {
	fb := make([]string, len(c.FB))
	for i, f := range c.FB {
		fb[i] = "(" + coqStr(f[0]) + ", " + coqStr(f[1]) + ")"
	}
	return fmt.Sprintf("(%s, %s, %s, %s, %s, %s)", coqStr(c.Mime), coqN(uint64(c.Clock)), coqN(uint64(c.Ch)),
		coqStr(c.Line), CoqList(fb), coqN(uint64(c.PT)))
}

func coqCodecs(cs []cdc) string {
	parts := make([]string, len(cs))
	for i, c := range cs {
		parts[i] = coqCodec(c)
	}
	return CoqList(parts)
}

func kindZ(kind string) int {
	switch {
	case strings.EqualFold(kind, "audio"):
		return 1
	case strings.EqualFold(kind, "video"):
		return 2
	}
	return 0
}

func kindType(k int) webrtc.RTPCodecType {
	switch k {
	case 1:
		return webrtc.RTPCodecTypeAudio
	case 2:
		return webrtc.RTPCodecTypeVideo
	}
	return webrtc.RTPCodecType(0)
}

// ---------- remote media sections ----------

// an offered codec as the generator means it: the encoding name of the
// rtpmap (the mime type is "<media>/<name>")
type rcodec struct {
	Name  string      `json:"name"`
	Clock uint32      `json:"clock"`
	Ch    uint16      `json:"ch"`
	Line  string      `json:"line"`
	FB    [][2]string `json:"fb"`
	PT    uint8       `json:"pt"`
}

type rext struct {
	ID  int    `json:"id"`
	URI string `json:"uri"`
}

type rsec struct {
	Kind   string   `json:"kind"`
	Codecs []rcodec `json:"codecs"`
	Exts   []rext   `json:"exts,omitempty"`
	Dir    int      `json:"dir,omitempty"` // PeerConnection suites: 0/2 sendrecv, 1 recvonly, 3 sendonly, 4 inactive
}

// attribute lines of a section's codecs, in offer order
func (s rsec) media() *sdp.MediaDescription {
	md := &sdp.MediaDescription{MediaName: sdp.MediaName{Media: s.Kind, Port: sdp.RangedPort{Value: 9},
		Protos: []string{"UDP", "TLS", "RTP", "SAVPF"}}}
	for _, c := range s.Codecs {
		md.MediaName.Formats = append(md.MediaName.Formats, fmt.Sprint(c.PT))
		rtpmap := fmt.Sprintf("%d %s/%d", c.PT, c.Name, c.Clock)
		if c.Ch > 0 {
			rtpmap += fmt.Sprintf("/%d", c.Ch)
		}
		md.Attributes = append(md.Attributes, sdp.Attribute{Key: "rtpmap", Value: rtpmap})
		if c.Line != "" {
			md.Attributes = append(md.Attributes, sdp.Attribute{Key: "fmtp", Value: fmt.Sprintf("%d %s", c.PT, c.Line)})
		}
		for _, f := range c.FB {
			v := fmt.Sprintf("%d %s", c.PT, f[0])
			if f[1] != "" {
				v += " " + f[1]
			}
			md.Attributes = append(md.Attributes, sdp.Attribute{Key: "rtcp-fb", Value: v})
		}
	}
	for _, e := range s.Exts {
		md.Attributes = append(md.Attributes, sdp.Attribute{Key: "extmap", Value: fmt.Sprintf("%d %s", e.ID, e.URI)})
	}
	if len(md.MediaName.Formats) == 0 {
		md.MediaName.Formats = []string{"0"}
	}
	return md
}

// what the generator meant, as a parsed codec list (valid when the payload
// types are distinct and none of them is a static one)
func (s rsec) intended() []cdc {
	out := make([]cdc, len(s.Codecs))
	for i, c := range s.Codecs {
		out[i] = cdc{Mime: s.Kind + "/" + c.Name, Clock: c.Clock, Ch: c.Ch, Line: c.Line, FB: c.FB, PT: c.PT}
	}
	return out
}

func (s rsec) clean() bool {
	if len(s.Codecs) == 0 {
		return false
	}
	seen := map[uint8]bool{}
	for _, c := range s.Codecs {
		if seen[c.PT] || c.PT == 0 || c.PT == 8 || c.PT == 9 || c.Clock == 0 {
			return false
		}
		seen[c.PT] = true
	}
	return true
}

// ---------- vocabulary for local tables and offers ----------

var fbPool = [][2]string{{"nack", ""}, {"nack", "pli"}, {"ccm", "fir"}, {"goog-remb", ""}, {"transport-cc", ""}}

func genFB(r *Rand) [][2]string {
	var out [][2]string
	for _, f := range fbPool {
		if r.Chance(2, 5) {
			out = append(out, f)
		}
	}
	if r.Chance(1, 10) && len(out) > 1 { // order differs between the two sides
		out[0], out[len(out)-1] = out[len(out)-1], out[0]
	}
	return out
}

type famEntry struct {
	name  string
	clock uint32
	ch    uint16
	lines []string
}

var videoFams = []famEntry{
	{"VP8", 90000, 0, []string{"", "", "max-fs=12288;max-fr=60"}},
	{"VP9", 90000, 0, []string{"profile-id=0", "profile-id=2", "", "profile-id=1"}},
	{"H264", 90000, 0, []string{
		"level-asymmetry-allowed=1;packetization-mode=1;profile-level-id=42001f",
		"level-asymmetry-allowed=1;packetization-mode=0;profile-level-id=42001f",
		"level-asymmetry-allowed=1;packetization-mode=1;profile-level-id=42e01f",
		"packetization-mode=1;profile-level-id=640032",
		"profile-level-id=4d001f;packetization-mode=1",
		"packetization-mode=1", ""}},
	{"AV1", 90000, 0, []string{"", "profile=0", "profile=1;level-idx=5"}},
	{"H265", 90000, 0, []string{"", "profile-id=1"}},
	{"flexfec-03", 90000, 0, []string{"repair-window=10000000"}},
	{"ulpfec", 90000, 0, []string{""}},
	{"red", 90000, 0, []string{""}},
}
var audioFams = []famEntry{
	{"opus", 48000, 2, []string{"minptime=10;useinbandfec=1", "minptime=10;useinbandfec=1;stereo=1", ""}},
	{"PCMU", 8000, 0, []string{""}},
	{"PCMA", 8000, 0, []string{""}},
	{"G722", 8000, 0, []string{""}},
	{"telephone-event", 8000, 0, []string{"0-16", ""}},
	{"red", 48000, 2, []string{"111/111", ""}},
}

func famsOf(kind string) []famEntry {
	if kind == "audio" {
		return audioFams
	}
	return videoFams
}

func genPT(r *Rand, used map[uint8]bool, collide bool) uint8 {
	for tries := 0; tries < 50; tries++ {
		var p uint8
		switch r.Intn(10) {
		case 0:
			p = uint8(r.Range(35, 65))
		case 1:
			p = uint8(r.Range(1, 34))
		default:
			p = uint8(r.Range(96, 127))
		}
		if p == 0 || p == 8 || p == 9 {
			continue // static payload types: pion/sdp does not let an rtpmap rename them
		}
		if collide || !used[p] {
			used[p] = true
			return p
		}
	}
	return uint8(r.Range(96, 127))
}

// genLocalTable builds a registration list of one kind: primaries, RTX entries
// whose apt names a registered / missing payload type, occasional PT clashes,
// zero clock rate / channels (the "use defaults" convention)
func genLocalTable(r *Rand, kind string, maxPrim int) []cdc {
	fams := famsOf(kind)
	used := map[uint8]bool{}
	var out []cdc
	n := r.Range(1, maxPrim)
	for i := 0; i < n; i++ {
		f := Pick(r, fams)
		c := cdc{Mime: kind + "/" + f.name, Clock: f.clock, Ch: f.ch, Line: Pick(r, f.lines), PT: genPT(r, used, r.Chance(1, 25))}
		if r.Chance(1, 8) { // letter case of the subtype; of the "video/" prefix only rarely
			c.Mime = kind + "/" + flipCase(r, f.name)
			if r.Chance(1, 6) {
				c.Mime = flipCase(r, c.Mime)
			}
		}
		if r.Chance(1, 10) {
			c.Clock = 0
		}
		if r.Chance(1, 10) {
			c.Ch = 0
		}
		if kind == "video" || r.Chance(1, 4) {
			c.FB = genFB(r)
		}
		out = append(out, c)
		if kind == "video" && r.Chance(2, 5) {
			apt := int(c.PT)
			if r.Chance(1, 6) {
				apt = r.Range(96, 127) // probably dangling
			}
			x := cdc{Mime: "video/rtx", Clock: 90000, Line: fmt.Sprintf("apt=%d", apt), PT: genPT(r, used, false)}
			if r.Chance(1, 12) {
				x.Line += ";rtx-time=3000"
			}
			if r.Chance(1, 8) && len(out) > 0 { // RTX registered before its primary
				out = append(out[:len(out)-1], x, c)
			} else {
				out = append(out, x)
			}
		}
	}
	return out
}

func splitMime(m string) (string, string) {
	if i := strings.IndexByte(m, '/'); i >= 0 {
		return m[:i], m[i+1:]
	}
	return "", m
}

// genOffer derives an offered section of the given kind from a local table:
// the same codecs under other payload types, with changed parameters (partial
// matches), letter case, defaults left out, unknown codecs, RTX entries whose
// apt is correct, dangling, forward, or names another RTX, clashing payload
// types, feedback sub- and supersets.
func genOffer(r *Rand, kind string, local []cdc, remap bool) []rcodec {
	fams := famsOf(kind)
	partialOnly := r.Chance(1, 7) // no codec keeps its registered parameters
	used := map[uint8]bool{}
	var out []rcodec
	ptOf := map[uint8]uint8{} // local primary pt -> offered pt
	for _, l := range local {
		_, name := splitMime(l.Mime)
		if strings.EqualFold(name, "rtx") || r.Chance(1, 5) {
			continue
		}
		c := rcodec{Name: name, Clock: l.Clock, Ch: l.Ch, Line: l.Line, PT: l.PT}
		if c.Clock == 0 {
			c.Clock = fmtpDefaultClockFor(kind + "/" + name)
		}
		if remap || used[c.PT] {
			c.PT = genPT(r, used, false)
		}
		used[c.PT] = true
		mode := r.Intn(8)
		if partialOnly {
			mode = -1
			if n := len(c.Line); n > 0 && strings.Contains(c.Line, "=") {
				// same keys, another value in the last parameter: conflicts with the registered line
				c.Line = c.Line[:n-1] + string("9z"[r.Intn(2)])
			}
		}
		switch mode {
		case 0: // other parameters: partial match at best
			for _, f := range fams {
				if strings.EqualFold(f.name, name) {
					c.Line = Pick(r, f.lines)
				}
			}
		case 1:
			c.Name = flipCase(r, c.Name)
		case 2:
			if c.Line != "" {
				c.Line = strings.ReplaceAll(c.Line, ";", " ; ")
			}
		case 3:
			c.Line = upperKeys(c.Line)
		}
		if r.Chance(1, 12) {
			c.Ch = Pick(r, []uint16{0, 1, 2})
		}
		if r.Chance(1, 15) {
			c.Clock = Pick(r, []uint32{8000, 48000, 90000})
		}
		c.FB = genFB(r)
		ptOf[l.PT] = c.PT
		out = append(out, c)
	}
	// unknown codecs
	for n := r.Intn(3); n > 0; n-- {
		f := Pick(r, fams)
		c := rcodec{Name: f.name, Clock: f.clock, Ch: f.ch, Line: Pick(r, f.lines), PT: genPT(r, used, r.Chance(1, 15)), FB: genFB(r)}
		if r.Chance(1, 3) {
			c.Name = Pick(r, []string{"VP10", "EVS", "G729", "theora"})
		}
		out = append(out, c)
	}
	// RTX
	if kind == "video" {
		prim := append([]rcodec{}, out...)
		for _, p := range prim {
			if !r.Chance(1, 2) {
				continue
			}
			apt := fmt.Sprint(p.PT)
			switch r.Intn(14) {
			case 0:
				apt = fmt.Sprint(r.Range(96, 127)) // maybe dangling
			case 1:
				apt = "0" + apt
			case 2:
				apt = Pick(r, []string{"", "x", "256", "-1", "+96", "96 "})
			}
			x := rcodec{Name: "rtx", Clock: 90000, Line: "apt=" + apt, PT: genPT(r, used, r.Chance(1, 20))}
			if r.Chance(1, 10) {
				x.Line = "apt=" + apt + ";rtx-time=3000"
			}
			if r.Chance(1, 12) {
				x.Line = "rtx-time=3000;APT=" + apt
			}
			if r.Chance(1, 10) {
				x.Name = "RTX"
			}
			if r.Chance(1, 5) { // forward reference: RTX before its primary
				out = append([]rcodec{x}, out...)
			} else {
				out = append(out, x)
			}
			if r.Chance(1, 12) { // RTX of the RTX
				out = append(out, rcodec{Name: "rtx", Clock: 90000, Line: fmt.Sprintf("apt=%d", x.PT), PT: genPT(r, used, false)})
			}
		}
	}
	if len(out) > 1 && r.Chance(1, 6) {
		i, j := r.Intn(len(out)), r.Intn(len(out))
		out[i], out[j] = out[j], out[i]
	}
	if len(out) > 9 {
		out = out[:9]
	}
	return out
}

func fmtpDefaultClockFor(m string) uint32 {
	switch strings.ToLower(m) {
	case "audio/opus":
		return 48000
	case "audio/pcmu", "audio/pcma":
		return 8000
	}
	return 90000
}

func upperKeys(line string) string {
	parts := strings.Split(line, ";")
	for i, p := range parts {
		if j := strings.IndexByte(p, '='); j > 0 {
			parts[i] = strings.ToUpper(p[:j]) + p[j:]
		}
	}
	return strings.Join(parts, ";")
}

// the oracle's own reading of an fmtp line's apt parameter (last one wins)
func c15HasApt(c cdc) (string, bool) {
	val, ok := "", false
	for _, p := range strings.Split(c.Line, ";") {
		kv := strings.SplitN(strings.TrimSpace(p), "=", 2)
		if strings.ToLower(kv[0]) == "apt" {
			val, ok = "", true
			if len(kv) > 1 {
				val = kv[1]
			}
		}
	}
	return val, ok
}

