//go:build verif_codec

package main

import (
	"fmt"
	"strings"
)

// Helpers shared by the codec family (C10 C15 C16 C17).

// coqStr renders any byte string for Gallina: a literal when printable ASCII,
// else (unhex "…") (coq/Common/CodecUtil.v).
func coqStr(s string) string {
	for i := 0; i < len(s); i++ {
		if s[i] < 32 || s[i] > 126 {
			return fmt.Sprintf("(unhex \"%x\")", s)
		}
	}
	return CoqString(s)
}

func coqN(n uint64) string { return fmt.Sprintf("%d%%N", n) }

func coqStrList(xs []string) string {
	parts := make([]string, len(xs))
	for i, x := range xs {
		parts[i] = coqStr(x)
	}
	return CoqList(parts)
}

func isASCII(s string) bool {
	for i := 0; i < len(s); i++ {
		if s[i] >= 0x80 {
			return false
		}
	}
	return true
}

// vsx is the observation of a string as lowercase hex (VSx in CodecUtil.v).
func vsx(s string) V { return VS(fmt.Sprintf("%x", s)) }

// flipCase changes the case of ASCII letters at random.
func flipCase(r *Rand, s string) string {
	b := []byte(s)
	for i, c := range b {
		if r.Chance(1, 3) {
			switch {
			case c >= 'a' && c <= 'z':
				b[i] = c - 32
			case c >= 'A' && c <= 'Z':
				b[i] = c + 32
			}
		}
	}
	return string(b)
}

func upperASCII(s string) string { return strings.ToUpper(s) }
