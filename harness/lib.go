// Shared runtime of the correspondence harness: registry of suites, seeded
// generation, Gallina printing of cases, direct-oracle bookkeeping, shrinking.
package main

import (
	"encoding/json"
	"flag"
	"fmt"
	"os"
	"path/filepath"
	"sort"
	"strings"
	"sync"
	"time"
)

// ---------- universal observation values (coq/Common/V.v) ----------

type V interface{ Coq() string }
type VZ int64
type VS string
type VB bool
type VL []V

func (v VZ) Coq() string {
	if v < 0 {
		return fmt.Sprintf("VZ (%d)", int64(v))
	}
	return fmt.Sprintf("VZ %d", int64(v))
}
func (v VS) Coq() string { return "VS " + CoqString(string(v)) }
func (v VB) Coq() string {
	if v {
		return "VB true"
	}
	return "VB false"
}
func (v VL) Coq() string {
	parts := make([]string, len(v))
	for i, x := range v {
		parts[i] = x.Coq()
	}
	return "VL [" + strings.Join(parts, "; ") + "]"
}

// CoqString renders a Go string as a Gallina string literal. Only printable
// ASCII may be passed; anything else must be hex-encoded by the caller.
func CoqString(s string) string {
	for i := 0; i < len(s); i++ {
		if s[i] < 32 || s[i] > 126 {
			panic(fmt.Sprintf("CoqString: non printable byte %d in %q", s[i], s))
		}
	}
	return "\"" + strings.ReplaceAll(s, "\"", "\"\"") + "\""
}

func CoqZ(z int64) string {
	if z < 0 {
		return fmt.Sprintf("(%d)", z)
	}
	return fmt.Sprintf("%d", z)
}
func CoqBool(b bool) string {
	if b {
		return "true"
	}
	return "false"
}
func CoqList(items []string) string { return "[" + strings.Join(items, "; ") + "]" }
func CoqHex(b []byte) string        { return fmt.Sprintf("\"%x\"", b) }
func CoqOpt(present bool, s string) string {
	if !present {
		return "None"
	}
	return "(Some " + s + ")"
}
func VHex(b []byte) V { return VS(fmt.Sprintf("%x", b)) }
func VInts[T ~int | ~int64 | ~uint16 | ~uint32 | ~uint8 | ~uint64 | ~int32](xs []T) V {
	out := make(VL, len(xs))
	for i, x := range xs {
		out[i] = VZ(int64(x))
	}
	return out
}

// ---------- PRNG: splitmix64, one stream per (seed, suite, case) ----------

type Rand struct{ s uint64 }

func NewRand(seed uint64) *Rand { return &Rand{s: seed} }
func (r *Rand) U64() uint64 {
	r.s += 0x9e3779b97f4a7c15
	z := r.s
	z = (z ^ (z >> 30)) * 0xbf58476d1ce4e5b9
	z = (z ^ (z >> 27)) * 0x94d049bb133111eb
	return z ^ (z >> 31)
}
func (r *Rand) Intn(n int) int {
	if n <= 0 {
		return 0
	}
	return int(r.U64() % uint64(n))
}
func (r *Rand) Range(lo, hi int) int { return lo + r.Intn(hi-lo+1) }
func (r *Rand) Bool() bool          { return r.U64()&1 == 1 }
func (r *Rand) Chance(num, den int) bool {
	return r.Intn(den) < num
}
func (r *Rand) Bytes(n int) []byte {
	b := make([]byte, n)
	for i := range b {
		b[i] = byte(r.U64())
	}
	return b
}
func Pick[T any](r *Rand, xs []T) T { return xs[r.Intn(len(xs))] }
func hashStr(s string) uint64 {
	h := uint64(1469598103934665603)
	for i := 0; i < len(s); i++ {
		h ^= uint64(s[i])
		h *= 1099511628211
	}
	return h
}

// ---------- verdict of the direct oracle ----------

type Verdict struct {
	OK         bool   `json:"ok"`
	Sig        string `json:"sig,omitempty"`  // finding signature when !OK (cause, not symptom)
	What       string `json:"what,omitempty"` // human text
	NonTrivial bool   `json:"nontrivial"`
	Key        string `json:"key,omitempty"`   // dedup key; default: JSON of input
	Class      string `json:"class,omitempty"` // bucket for the input distribution
}

func Pass(class string, nontrivial bool) Verdict {
	return Verdict{OK: true, Class: class, NonTrivial: nontrivial}
}
func Fail(sig, what string) Verdict {
	return Verdict{OK: false, Sig: sig, What: what, NonTrivial: true, Class: "fail:" + sig}
}

// ---------- suites ----------

type Spec[I any] struct {
	ID         string // property id, e.g. "C22"
	Suite      string // suite name within the property
	CoqImports []string
	CoqType    string // Gallina type of one model input
	CoqRun     string // Gallina function : CoqType -> V
	Quick      int    // generated cases per tier
	Thorough   int
	Parallel   int // workers for Run (0/1 = sequential)
	Timeout    time.Duration
	Corpus     func() []I
	Exhaustive func() []I // finite domain, enumerated completely when non-nil
	Gen        func(r *Rand, i int) I
	Run        func(in I) (V, Verdict)
	Coq        func(in I) string // "" = case outside the model (direct oracle only)
	Shrink     func(in I) []I
}

type suite interface {
	id() string
	name() string
	execute(c *ctx) suiteResult
	replay(raw json.RawMessage) (V, Verdict, error)
}

type caseRec struct {
	I       int             `json:"i"`
	Suite   string          `json:"suite"`
	Origin  string          `json:"origin"` // corpus | exhaustive | gen | shrunk
	Input   json.RawMessage `json:"input"`
	Obs     string          `json:"obs"`
	Verdict Verdict         `json:"verdict"`
	InModel bool            `json:"in_model"`
}

type suiteResult struct {
	Suite       string         `json:"suite"`
	Evaluations int            `json:"evaluations"`
	Distinct    int            `json:"distinct_nontrivial"`
	Exhaustive  bool           `json:"exhaustive"`
	InModel     int            `json:"in_model"`
	Classes     map[string]int `json:"classes"`
	Failures    []caseRec      `json:"failures"`
	Samples     []caseRec      `json:"samples"`
	CaseFiles   []string       `json:"case_files"`
	WallS       float64        `json:"wall_s"`
}

type ctx struct {
	seed   uint64
	tier   string
	outDir string
	scale  float64
}

var registry []suite

func Register[I any](s Spec[I]) { registry = append(registry, &specSuite[I]{s}) }

type specSuite[I any] struct{ s Spec[I] }

func (p *specSuite[I]) id() string   { return p.s.ID }
func (p *specSuite[I]) name() string { return p.s.Suite }

func (p *specSuite[I]) runOne(in I) (obs V, v Verdict) {
	type res struct {
		o V
		v Verdict
	}
	ch := make(chan res, 1)
	go func() {
		defer func() {
			if r := recover(); r != nil {
				ch <- res{VS("PANIC"), Fail("panic", fmt.Sprintf("panic: %v", r))}
			}
		}()
		o, v := p.s.Run(in)
		ch <- res{o, v}
	}()
	to := p.s.Timeout
	if to == 0 {
		to = 60 * time.Second
	}
	select {
	case r := <-ch:
		return r.o, r.v
	case <-time.After(to):
		return VS("TIMEOUT"), Fail("timeout", fmt.Sprintf("no result within %s", to))
	}
}

func (p *specSuite[I]) replay(raw json.RawMessage) (V, Verdict, error) {
	var in I
	if err := json.Unmarshal(raw, &in); err != nil {
		return nil, Verdict{}, err
	}
	o, v := p.runOne(in)
	return o, v, nil
}

func (p *specSuite[I]) execute(c *ctx) suiteResult {
	start := time.Now()
	type item struct {
		in     I
		origin string
	}
	var items []item
	if p.s.Corpus != nil {
		for _, in := range p.s.Corpus() {
			items = append(items, item{in, "corpus"})
		}
	}
	exhaustive := false
	if p.s.Exhaustive != nil {
		exhaustive = true
		for _, in := range p.s.Exhaustive() {
			items = append(items, item{in, "exhaustive"})
		}
	}
	n := p.s.Quick
	if c.tier == "thorough" {
		n = p.s.Thorough
	}
	n = int(float64(n) * c.scale)
	if p.s.Gen != nil {
		base := c.seed*0x9e3779b97f4a7c15 ^ hashStr(p.s.ID+"/"+p.s.Suite)
		for i := 0; i < n; i++ {
			r := NewRand(base + uint64(i)*0x2545f4914f6cdd1d)
			items = append(items, item{p.s.Gen(r, i), "gen"})
		}
	}
	recs := make([]caseRec, len(items))
	coqIn := make([]string, len(items))
	workers := p.s.Parallel
	if workers < 1 {
		workers = 1
	}
	var wg sync.WaitGroup
	idx := make(chan int, len(items))
	for i := range items {
		idx <- i
	}
	close(idx)
	for w := 0; w < workers; w++ {
		wg.Add(1)
		go func() {
			defer wg.Done()
			for i := range idx {
				in := items[i].in
				obs, v := p.runOne(in)
				raw, err := json.Marshal(in)
				if err != nil {
					panic(err)
				}
				if v.Key == "" {
					v.Key = string(raw)
				}
				ci := ""
				if p.s.Coq != nil {
					ci = p.s.Coq(in)
				}
				coqIn[i] = ci
				recs[i] = caseRec{I: i, Suite: p.s.Suite, Origin: items[i].origin, Input: raw,
					Obs: obs.Coq(), Verdict: v, InModel: ci != ""}
			}
		}()
	}
	wg.Wait()

	res := suiteResult{Suite: p.s.Suite, Evaluations: len(items), Exhaustive: exhaustive && n == 0 || exhaustive,
		Classes: map[string]int{}, CaseFiles: []string{}, Failures: []caseRec{}, Samples: []caseRec{}}
	keys := map[string]bool{}
	seenSig := map[string]int{}
	for i := range recs {
		v := recs[i].Verdict
		res.Classes[v.Class]++
		if v.NonTrivial && !keys[v.Key] {
			keys[v.Key] = true
		}
		if recs[i].InModel {
			res.InModel++
		}
		if !v.OK {
			seenSig[v.Sig]++
			if seenSig[v.Sig] <= 3 { // keep (and shrink) the first few per signature
				rec := recs[i]
				if p.s.Shrink != nil {
					rec = p.shrink(items[i].in, rec)
				}
				res.Failures = append(res.Failures, rec)
			}
		}
	}
	res.Distinct = len(keys)
	// samples: a few corpus + a few generated
	for i := range recs {
		if len(res.Samples) < 3 || (recs[i].Origin == "gen" && len(res.Samples) < 6) {
			res.Samples = append(res.Samples, recs[i])
		}
	}
	// case files for the model side, sharded
	const shard = 400
	var lines []string
	flush := func(k int) {
		if len(lines) == 0 {
			return
		}
		name := fmt.Sprintf("%s_%s_%03d.v", p.s.ID, p.s.Suite, k)
		var b strings.Builder
		b.WriteString("From Coq Require Import List ZArith NArith String Bool.\nImport ListNotations.\n")
		b.WriteString("From Verif Require Import Common.V")
		for _, im := range p.s.CoqImports {
			b.WriteString(" " + im)
		}
		b.WriteString(".\nOpen Scope string_scope.\nOpen Scope Z_scope.\n")
		b.WriteString("Definition cases : list (Z * (" + p.s.CoqType + ") * V) := [\n")
		b.WriteString(strings.Join(lines, ";\n"))
		b.WriteString("\n].\nDefinition M := Eval vm_compute in mismatches " + p.s.CoqRun + " cases.\nPrint M.\n")
		path := filepath.Join(c.outDir, name)
		if err := os.WriteFile(path, []byte(b.String()), 0o644); err != nil {
			panic(err)
		}
		res.CaseFiles = append(res.CaseFiles, name)
		lines = nil
	}
	k := 0
	for i := range recs {
		if coqIn[i] == "" {
			continue
		}
		lines = append(lines, fmt.Sprintf(" (%d, %s, %s)", i, coqIn[i], recs[i].Obs))
		if len(lines) >= shard {
			flush(k)
			k++
		}
	}
	flush(k)
	// all records, for the driver (mismatch lookup, replay files)
	f, err := os.Create(filepath.Join(c.outDir, fmt.Sprintf("%s_%s_cases.jsonl", p.s.ID, p.s.Suite)))
	if err != nil {
		panic(err)
	}
	enc := json.NewEncoder(f)
	for i := range recs {
		_ = enc.Encode(recs[i])
	}
	f.Close()
	res.WallS = time.Since(start).Seconds()
	return res
}

func (p *specSuite[I]) shrink(in I, rec caseRec) caseRec {
	sig := rec.Verdict.Sig
	cur := in
	budget := 400
	for progress := true; progress && budget > 0; {
		progress = false
		for _, cand := range p.s.Shrink(cur) {
			budget--
			if budget <= 0 {
				break
			}
			obs, v := p.runOne(cand)
			if !v.OK && v.Sig == sig {
				cur = cand
				raw, _ := json.Marshal(cand)
				if v.Key == "" {
					v.Key = string(raw)
				}
				ci := ""
				if p.s.Coq != nil {
					ci = p.s.Coq(cand)
				}
				rec = caseRec{I: rec.I, Suite: rec.Suite, Origin: "shrunk", Input: raw, Obs: obs.Coq(),
					Verdict: v, InModel: ci != ""}
				progress = true
				break
			}
		}
	}
	return rec
}

func main() {
	if len(os.Args) < 2 {
		fmt.Fprintln(os.Stderr, "usage: harness <property> [--seed n] [--tier quick|thorough] [--out dir] [--replay file]")
		os.Exit(2)
	}
	prop := os.Args[1]
	fs := flag.NewFlagSet("harness", flag.ExitOnError)
	seed := fs.Uint64("seed", 1, "seed")
	tier := fs.String("tier", "quick", "tier")
	out := fs.String("out", ".", "output directory")
	replay := fs.String("replay", "", "replay file (JSON with suite and input)")
	scale := fs.Float64("scale", 1.0, "multiply generated case counts")
	_ = fs.Parse(os.Args[2:])

	var mine []suite
	for _, s := range registry {
		if s.id() == prop {
			mine = append(mine, s)
		}
	}
	if len(mine) == 0 {
		fmt.Fprintf(os.Stderr, "no suites registered for %s (built with the right tags?)\n", prop)
		os.Exit(2)
	}
	sort.SliceStable(mine, func(i, j int) bool { return mine[i].name() < mine[j].name() })

	if *replay != "" {
		raw, err := os.ReadFile(*replay)
		if err != nil {
			panic(err)
		}
		var rf struct {
			Suite string          `json:"suite"`
			Input json.RawMessage `json:"input"`
		}
		if err := json.Unmarshal(raw, &rf); err != nil {
			panic(err)
		}
		for _, s := range mine {
			if s.name() == rf.Suite {
				obs, v, err := s.replay(rf.Input)
				if err != nil {
					panic(err)
				}
				o, _ := json.Marshal(map[string]any{"suite": rf.Suite, "obs": obs.Coq(), "verdict": v})
				fmt.Println(string(o))
				if !v.OK {
					os.Exit(1)
				}
				return
			}
		}
		fmt.Fprintf(os.Stderr, "suite %q not found\n", rf.Suite)
		os.Exit(2)
	}

	if err := os.MkdirAll(*out, 0o755); err != nil {
		panic(err)
	}
	c := &ctx{seed: *seed, tier: *tier, outDir: *out, scale: *scale}
	var results []suiteResult
	for _, s := range mine {
		results = append(results, s.execute(c))
	}
	f, err := os.Create(filepath.Join(*out, "summary.json"))
	if err != nil {
		panic(err)
	}
	enc := json.NewEncoder(f)
	enc.SetIndent("", " ")
	_ = enc.Encode(map[string]any{"property": prop, "seed": *seed, "tier": *tier, "suites": results})
	f.Close()
}
