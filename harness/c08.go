//go:build verif_c08

package main

import (
	"fmt"
	"strings"

	"github.com/pion/webrtc/v4"
)

// C08: answer directions are legal responses (RFC 3264 6.1).
//
// A history is run on one real PeerConnection (signalling-only mode): local
// transceiver/track operations and complete remote-offer exchanges
// (SetRemoteDescription(offer) -> local operations -> CreateAnswer ->
// SetLocalDescription(answer)).  Offers are synthetic SDP: section i has mid
// "i", a kind and one of the four directions.

// directions and kinds use pion's numeric values
const (
	dSendrecv = 1
	dSendonly = 2
	dRecvonly = 3
	dInactive = 4
	kAudio    = 1
	kVideo    = 2
)

var c08DirNames = []string{"unknown", "sendrecv", "sendonly", "recvonly", "inactive"}

// local operation kinds
const (
	lAddTransceiver = 0 // AddTransceiverFromKind(Kind, Dir)
	lAddTrack       = 1 // AddTrack(new track of Kind)
	lRemoveTrack    = 2 // RemoveTrack(sender of transceiver I)
	lStop           = 3 // transceiver I .Stop()
	lSetSender      = 4 // transceiver I .SetSender(new sender, new track)
)

type c08Lop struct {
	K    int `json:"k"`
	Kind int `json:"kind,omitempty"`
	Dir  int `json:"dir,omitempty"`
	I    int `json:"i,omitempty"`
}

type c08Op struct {
	L    *c08Lop  `json:"l,omitempty"`    // a local operation, or
	Secs [][2]int `json:"secs,omitempty"` // a remote offer: (kind, direction) per section
	Mid  []c08Lop `json:"mid,omitempty"`  // local operations between SetRemoteDescription and CreateAnswer
}

func c08Offer(secs [][2]int, version int) string {
	var b strings.Builder
	w := func(s string) { b.WriteString(s + "\r\n") }
	w("v=0")
	w(fmt.Sprintf("o=- 4596489990601351948 %d IN IP4 0.0.0.0", version))
	w("s=-")
	w("t=0 0")
	w("a=fingerprint:sha-256 0F:74:31:25:CB:A2:13:EC:28:6F:6D:2C:61:FF:5D:C2:BC:B9:DB:3D:98:14:8D:1A:BB:EA:33:0C:A4:60:A8:8E")
	mids := make([]string, len(secs))
	for i := range secs {
		mids[i] = fmt.Sprint(i)
	}
	w("a=group:BUNDLE " + strings.Join(mids, " "))
	for i, s := range secs {
		if s[0] == kAudio {
			w("m=audio 9 UDP/TLS/RTP/SAVPF 111")
		} else {
			w("m=video 9 UDP/TLS/RTP/SAVPF 96")
		}
		w("c=IN IP4 0.0.0.0")
		w("a=setup:actpass")
		w("a=mid:" + mids[i])
		w("a=ice-ufrag:1uEe")
		w("a=ice-pwd:yalgzFhhuEpLc3FBoxdFRNeG")
		w("a=rtcp-mux")
		if s[0] == kAudio {
			w("a=rtpmap:111 opus/48000/2")
			w("a=fmtp:111 minptime=10;useinbandfec=1")
		} else {
			w("a=rtpmap:96 VP8/90000")
		}
		w("a=" + c08DirNames[s[1]])
		if s[1] == dSendrecv || s[1] == dSendonly {
			w(fmt.Sprintf("a=msid:rs rt%d", i))
			w(fmt.Sprintf("a=ssrc:%d cname:rc", 1000+i))
		}
	}
	return b.String()
}

// second transcription of RFC 3264 6.1: the answerer may send only if the
// offerer receives, and receive only if the offerer sends
func c08Legal(offered, answered int) bool {
	offSends := offered == dSendrecv || offered == dSendonly
	offRecvs := offered == dSendrecv || offered == dRecvonly
	ansSends := answered == dSendrecv || answered == dSendonly
	ansRecvs := answered == dSendrecv || answered == dRecvonly
	return (!ansSends || offRecvs) && (!ansRecvs || offSends)
}

type c08State struct {
	api *webrtc.API
	pc  *webrtc.PeerConnection
	n   int
}

func (s *c08State) track(kind int) webrtc.TrackLocal {
	s.n++
	mime := webrtc.MimeTypeOpus
	if kind == kVideo {
		mime = webrtc.MimeTypeVP8
	}
	t, err := webrtc.NewTrackLocalStaticSample(webrtc.RTPCodecCapability{MimeType: mime},
		fmt.Sprintf("t%d", s.n), fmt.Sprintf("s%d", s.n))
	if err != nil {
		panic(err)
	}
	return t
}

// returns 0 ok, 1 error, 2 skipped (no such transceiver / nothing to remove)
func (s *c08State) local(op c08Lop) (code int, touched *webrtc.RTPTransceiver) {
	trs := s.pc.GetTransceivers()
	switch op.K {
	case lAddTransceiver:
		_, err := s.pc.AddTransceiverFromKind(webrtc.RTPCodecType(op.Kind),
			webrtc.RTPTransceiverInit{Direction: webrtc.RTPTransceiverDirection(op.Dir)})
		if err != nil {
			return 1, nil
		}
		return 0, nil
	case lAddTrack:
		if _, err := s.pc.AddTrack(s.track(op.Kind)); err != nil {
			return 1, nil
		}
		return 0, nil
	case lRemoveTrack:
		if op.I >= len(trs) || trs[op.I].Sender() == nil {
			return 2, nil
		}
		if err := s.pc.RemoveTrack(trs[op.I].Sender()); err != nil {
			return 1, trs[op.I]
		}
		return 0, trs[op.I]
	case lStop:
		if op.I >= len(trs) {
			return 2, nil
		}
		if err := trs[op.I].Stop(); err != nil {
			return 1, trs[op.I]
		}
		return 0, trs[op.I]
	case lSetSender:
		if op.I >= len(trs) {
			return 2, nil
		}
		tr := trs[op.I]
		track := s.track(int(tr.Kind()))
		sender, err := s.api.NewRTPSender(track, s.pc.SCTP().Transport())
		if err != nil {
			panic(err)
		}
		if err := tr.SetSender(sender, track); err != nil {
			return 1, tr
		}
		return 0, tr
	}
	panic("bad local op")
}

func c08AnswerDirs(sd webrtc.SessionDescription, n int) []int {
	p, err := sd.Unmarshal()
	if err != nil {
		panic(err)
	}
	out := make([]int, n)
	for i := range out {
		out[i] = -1 // no section with that mid
	}
	for _, m := range p.MediaDescriptions {
		mid, _ := m.Attribute("mid")
		var idx int
		if _, err := fmt.Sscanf(mid, "%d", &idx); err != nil || idx < 0 || idx >= n || fmt.Sprint(idx) != mid {
			continue
		}
		d := 0 // section without a direction attribute (a rejected section)
		for _, a := range m.Attributes {
			if nd := webrtc.NewRTPTransceiverDirection(a.Key); nd != webrtc.RTPTransceiverDirectionUnknown {
				d = int(nd)
				break
			}
		}
		out[idx] = d
	}
	return out
}

func c08Run(ops []c08Op) (V, Verdict) {
	me := &webrtc.MediaEngine{}
	if err := me.RegisterDefaultCodecs(); err != nil {
		panic(err)
	}
	api := newQuietAPI(me)
	pc, err := api.NewPeerConnection(webrtc.Configuration{})
	if err != nil {
		panic(err)
	}
	defer pc.Close() //nolint
	st := &c08State{api: api, pc: pc}
	verdict := Pass("", false)
	fail := func(v Verdict) {
		if verdict.OK {
			verdict = v
		}
	}
	var obs VL
	exchanges, answeredSecs, reoffers, locals := 0, 0, 0, 0
	pairs := map[string]bool{}
	for k, op := range ops {
		if op.L != nil {
			code, _ := st.local(*op.L)
			locals++
			obs = append(obs, VZ(code))
			continue
		}
		// ---- a remote offer ----
		n := len(op.Secs)
		before := make([]int, n) // direction of the transceiver bound to mid i before the offer (0 = none)
		for _, tr := range pc.GetTransceivers() {
			var idx int
			if _, err := fmt.Sscanf(tr.Mid(), "%d", &idx); err == nil && idx < n && fmt.Sprint(idx) == tr.Mid() && before[idx] == 0 {
				before[idx] = int(tr.Direction())
			}
		}
		offer := webrtc.SessionDescription{Type: webrtc.SDPTypeOffer, SDP: c08Offer(op.Secs, k+2)}
		if err := pc.SetRemoteDescription(offer); err != nil {
			obs = append(obs, VL{VZ(1), VL{}, VL{}, VZ(0)})
			fail(Fail("set-remote-rejects-synthetic-offer", fmt.Sprintf("op %d: %v", k, err)))
			break
		}
		drain(pc)
		afterSRD := make([]int, n)
		byMid := make([]*webrtc.RTPTransceiver, n)
		for _, tr := range pc.GetTransceivers() {
			var idx int
			if _, err := fmt.Sscanf(tr.Mid(), "%d", &idx); err == nil && idx < n && fmt.Sprint(idx) == tr.Mid() && byMid[idx] == nil {
				byMid[idx] = tr
				afterSRD[idx] = int(tr.Direction())
			}
		}
		setSenderOn := map[*webrtc.RTPTransceiver]bool{}
		var midCodes VL
		for _, l := range op.Mid {
			code, tr := st.local(l)
			locals++
			if l.K == lSetSender && tr != nil {
				setSenderOn[tr] = true
			}
			midCodes = append(midCodes, VZ(code))
		}
		answer, err := pc.CreateAnswer(nil)
		if err != nil {
			obs = append(obs, VL{VZ(0), midCodes, VL{}, VZ(2)})
			fail(Fail("create-answer-fails", fmt.Sprintf("op %d: %v", k, err)))
			break
		}
		dirs := c08AnswerDirs(answer, n)
		sldCode := 0
		if err := pc.SetLocalDescription(answer); err != nil {
			sldCode = 1
			fail(Fail("set-local-answer-fails", fmt.Sprintf("op %d: %v", k, err)))
		}
		drain(pc)
		obs = append(obs, VL{VZ(0), midCodes, VInts(dirs), VZ(sldCode)})
		exchanges++
		// ---- direct oracle ----
		for i, sec := range op.Secs {
			answeredSecs++
			if before[i] != 0 {
				reoffers++
			}
			pairs[fmt.Sprintf("%d/%d", sec[1], before[i])] = true
			switch {
			case dirs[i] == -1:
				fail(Fail("answer-section-missing", fmt.Sprintf("op %d: no answer section for mid %d", k, i)))
			case dirs[i] == 0:
				// rejected section: no media flows, nothing to check
			case !c08Legal(sec[1], dirs[i]):
				what := fmt.Sprintf("op %d mid %d: offered %s, local direction before %s, after set-remote %s, answered %s",
					k, i, c08DirNames[sec[1]], c08DirNames[before[i]], c08DirNames[afterSRD[i]], c08DirNames[dirs[i]])
				switch {
				case !c08Legal(sec[1], afterSRD[i]):
					// SetRemoteDescription itself left an illegal direction
					fail(Fail(fmt.Sprintf("set-remote-%s-leaves-local-%s-at-%s", c08DirNames[sec[1]],
						c08DirNames[before[i]], c08DirNames[afterSRD[i]]), what))
				case byMid[i] != nil && setSenderOn[byMid[i]]:
					fail(Fail("setsender-after-set-remote-adds-send-to-"+c08DirNames[sec[1]]+"-offer", what))
				default:
					fail(Fail("local-operation-after-set-remote-makes-answer-illegal", what))
				}
			}
		}
	}
	// final transceiver states
	var trs VL
	for _, tr := range pc.GetTransceivers() {
		trs = append(trs, VL{VS(tr.Mid()), VZ(int64(tr.Kind())), VZ(int64(tr.Direction())),
			VZ(int64(tr.VerifCurrentDirection())), VZ(int64(tr.VerifCurrentRemoteDirection())), VB(tr.Sender() != nil)})
	}
	out := VL{obs, trs}
	if verdict.OK {
		verdict.NonTrivial = reoffers >= 1 || (exchanges >= 1 && locals >= 1)
		verdict.Class = fmt.Sprintf("exch%d/reoffered%d/locals%d", min(exchanges, 4), min(reoffers, 6), min(locals, 8)/2*2)
	}
	return out, verdict
}

func c08LopCoq(l c08Lop) string {
	switch l.K {
	case lAddTransceiver:
		return fmt.Sprintf("LAddTr %d %d", l.Kind, l.Dir)
	case lAddTrack:
		return fmt.Sprintf("LAddTrack %d", l.Kind)
	case lRemoveTrack:
		return fmt.Sprintf("LRmTrack %d", l.I)
	case lStop:
		return fmt.Sprintf("LStop %d", l.I)
	case lSetSender:
		return fmt.Sprintf("LSetSender %d", l.I)
	}
	panic("bad lop")
}

func c08Coq(ops []c08Op) string {
	parts := make([]string, len(ops))
	for i, op := range ops {
		if op.L != nil {
			parts[i] = "IL (" + c08LopCoq(*op.L) + ")"
			continue
		}
		secs := make([]string, len(op.Secs))
		for j, s := range op.Secs {
			secs[j] = fmt.Sprintf("(%d, %d)", s[0], s[1])
		}
		mids := make([]string, len(op.Mid))
		for j, l := range op.Mid {
			mids[j] = c08LopCoq(l)
		}
		parts[i] = "IX " + CoqList(secs) + " " + CoqList(mids)
	}
	return CoqList(parts)
}

func c08GenLop(r *Rand, ntr int, allowSetSender bool) c08Lop {
	idx := func() int {
		if ntr == 0 || r.Chance(1, 12) {
			return r.Intn(ntr + 2)
		}
		return r.Intn(ntr)
	}
	kind := Pick(r, []int{kAudio, kAudio, kVideo})
	switch x := r.Intn(20); {
	case x < 5:
		return c08Lop{K: lAddTransceiver, Kind: kind, Dir: Pick(r, []int{1, 1, 2, 3, 3, 4})}
	case x < 11:
		return c08Lop{K: lAddTrack, Kind: kind}
	case x < 15:
		return c08Lop{K: lRemoveTrack, I: idx()}
	case x < 17:
		return c08Lop{K: lStop, I: idx()}
	default:
		if allowSetSender {
			return c08Lop{K: lSetSender, I: idx()}
		}
		return c08Lop{K: lAddTrack, Kind: kind}
	}
}

func c08Gen(r *Rand, withSetSender bool) []c08Op {
	var ops []c08Op
	var kinds []int // kind of offered section i, fixed over the history
	ntr := 0
	n := r.Range(2, 9)
	for k := 0; k < n; k++ {
		if r.Chance(2, 5) {
			l := c08GenLop(r, ntr, withSetSender)
			if l.K == lAddTransceiver || l.K == lAddTrack {
				ntr++
			}
			ops = append(ops, c08Op{L: &l})
			continue
		}
		// offer: keep the sections seen so far, sometimes add one or two
		if len(kinds) == 0 || (len(kinds) < 4 && r.Chance(1, 3)) {
			kinds = append(kinds, Pick(r, []int{kAudio, kAudio, kVideo}))
			if r.Chance(1, 4) && len(kinds) < 4 {
				kinds = append(kinds, Pick(r, []int{kAudio, kVideo}))
			}
		}
		secs := make([][2]int, len(kinds))
		for i, kd := range kinds {
			secs[i] = [2]int{kd, r.Range(1, 4)}
		}
		if ntr < len(kinds) {
			ntr = len(kinds)
		}
		var mid []c08Lop
		for r.Chance(1, 3) && len(mid) < 3 {
			l := c08GenLop(r, ntr, withSetSender)
			if l.K == lAddTransceiver || l.K == lAddTrack {
				ntr++
			}
			mid = append(mid, l)
		}
		ops = append(ops, c08Op{Secs: secs, Mid: mid})
	}
	return ops
}

func c08Shrink(ops []c08Op) [][]c08Op {
	var out [][]c08Op
	for i := range ops {
		out = append(out, append(append([]c08Op{}, ops[:i]...), ops[i+1:]...))
	}
	for i, op := range ops {
		if op.L != nil {
			continue
		}
		for j := range op.Mid {
			c := append([]c08Op{}, ops...)
			c[i].Mid = append(append([]c08Lop{}, op.Mid[:j]...), op.Mid[j+1:]...)
			out = append(out, c)
		}
		if len(op.Secs) > 1 {
			c := append([]c08Op{}, ops...)
			c[i].Secs = op.Secs[:len(op.Secs)-1]
			out = append(out, c)
		}
	}
	return out
}

func c08L(k, kind, dir, i int) *c08Lop { return &c08Lop{K: k, Kind: kind, Dir: dir, I: i} }

func init() {
	signalOnly(true)
	// every (offered direction, local direction before) pair on a transceiver
	// already bound to the mid, with and without a sender: first exchange binds
	// mid 0 and brings the local transceiver to the wanted direction, the second
	// offer is the one under test
	Register(Spec[[]c08Op]{
		ID: "C08", Suite: "pairs", CoqImports: []string{"Check.C08"},
		CoqType: "list iop", CoqRun: "Check.C08.run",
		Parallel: 8,
		Corpus: func() [][]c08Op {
			return [][]c08Op{
				// design-phase witnesses: bound sendrecv (resp. sendonly) transceiver, re-offer sendonly
				{{L: c08L(lAddTrack, kAudio, 0, 0)}, {Secs: [][2]int{{kAudio, dSendrecv}}}, {Secs: [][2]int{{kAudio, dSendonly}}}},
				{{L: c08L(lAddTrack, kAudio, 0, 0)}, {Secs: [][2]int{{kAudio, dRecvonly}}}, {Secs: [][2]int{{kAudio, dSendonly}}}},
				// SetSender between set-remote and create-answer
				{{Secs: [][2]int{{kAudio, dSendonly}}, Mid: []c08Lop{{K: lSetSender, I: 0}}}},
				{{Secs: [][2]int{{kVideo, dInactive}}, Mid: []c08Lop{{K: lSetSender, I: 0}}}},
			}
		},
		Exhaustive: func() [][]c08Op {
			var out [][]c08Op
			for _, kind := range []int{kAudio, kVideo} {
				for first := 1; first <= 4; first++ { // first offer
					for local := 0; local < 4; local++ { // local preparation before the first offer
						for second := 1; second <= 4; second++ { // the re-offer
							for between := 0; between < 3; between++ { // local op between the exchanges
								var ops []c08Op
								switch local {
								case 1:
									ops = append(ops, c08Op{L: c08L(lAddTrack, kind, 0, 0)})
								case 2:
									ops = append(ops, c08Op{L: c08L(lAddTransceiver, kind, dRecvonly, 0)})
								case 3:
									ops = append(ops, c08Op{L: c08L(lAddTransceiver, kind, dSendonly, 0)})
								}
								ops = append(ops, c08Op{Secs: [][2]int{{kind, first}}})
								switch between {
								case 1:
									ops = append(ops, c08Op{L: c08L(lAddTrack, kind, 0, 0)})
								case 2:
									ops = append(ops, c08Op{L: c08L(lRemoveTrack, 0, 0, 0)})
								}
								ops = append(ops, c08Op{Secs: [][2]int{{kind, second}}})
								out = append(out, ops)
							}
						}
					}
				}
			}
			return out
		},
		Run: c08Run, Coq: c08Coq, Shrink: c08Shrink,
	})
	Register(Spec[[]c08Op]{
		ID: "C08", Suite: "hist", CoqImports: []string{"Check.C08"},
		CoqType: "list iop", CoqRun: "Check.C08.run",
		Quick: 700, Thorough: 30000, Parallel: 8,
		Gen: func(r *Rand, i int) []c08Op { return c08Gen(r, false) },
		Run: c08Run, Coq: c08Coq, Shrink: c08Shrink,
	})
	Register(Spec[[]c08Op]{
		ID: "C08", Suite: "histsetsender", CoqImports: []string{"Check.C08"},
		CoqType: "list iop", CoqRun: "Check.C08.run",
		Quick: 300, Thorough: 10000, Parallel: 8,
		Gen: func(r *Rand, i int) []c08Op { return c08Gen(r, true) },
		Run: c08Run, Coq: c08Coq, Shrink: c08Shrink,
	})
}
