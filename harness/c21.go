//go:build verif_c21

package main

// C21: Close is idempotent, concurrency-safe and final.
//
// suites
//   sched     hook-forced schedules of Close / GracefulClose / updateConnectionState
//             threads on a real, never-connected PeerConnection, compared step by
//             step with Model/Close.v
//   tree      every maximal schedule of small configurations, discovered on the
//             real code (stateless depth-first exploration) and compared with the
//             model's own enumeration
//   guard     every API that changes negotiation state, before / after Close
//   connected real loopback pairs closed by 1-4 concurrent callers (c21_conn.go)

import (
	"fmt"
	"sort"
	"strings"
	"time"

	"github.com/pion/webrtc/v4"
)

type c21Thread struct {
	Kind int `json:"k"` // 0 Close, 1 GracefulClose, 2 updateConnectionState(ice, dtls)
	Ice  int `json:"i"`
	Dtls int `json:"d"`
}

type c21Case struct {
	Setup   int         `json:"setup"`
	Threads []c21Thread `json:"threads"`
	Sched   []int       `json:"sched"`
}

// ---------- one controlled execution ----------

type c21Exec struct {
	env      *c21Env
	r        *c21Runner
	threads  []c21Thread
	returned []bool // closer returned (direct oracle)
	// state seen when a GracefulClose caller returned: teardown runs, graceful passes
	gracefulSaw [][2]int
}

func c21Start(setup int, threads []c21Thread) *c21Exec {
	x := &c21Exec{env: c21NewEnv(false), threads: threads, returned: make([]bool, len(threads))}
	x.env.setup(setup)
	x.r = c21NewRunner()
	x.gracefulSaw = make([][2]int, len(threads))
	pc := x.env.pc
	for i, t := range threads {
		i, t := i, t
		switch t.Kind {
		case 0:
			x.r.add(fmt.Sprintf("close%d", i), func() { _ = pc.Close(); x.returned[i] = true })
		case 1:
			x.r.add(fmt.Sprintf("graceful%d", i), func() {
				_ = pc.GracefulClose()
				x.gracefulSaw[i] = [2]int{int(x.env.closes.Load()), x.r.gracefulOps}
				x.returned[i] = true
			})
		default:
			x.r.add(fmt.Sprintf("update%d", i), func() {
				pc.VerifC21UpdateConnectionState(webrtc.ICEConnectionState(t.Ice), webrtc.DTLSTransportState(t.Dtls))
				x.returned[i] = true
			})
		}
	}
	x.r.ucsLocked = func() bool { return c21UcsLocked(pc) }
	x.r.needsUcsLock = func(tid int, st string) bool {
		if st == "parked:pc.close.torndown" {
			return true
		}
		return threads[tid].Kind == 2 && st == "idle"
	}
	return x
}

// finish lets everything run free, waits for all participants and for the
// handler goroutines, and closes the PeerConnection for good.
func (x *c21Exec) finish() (allReturned bool) {
	x.r.close()
	deadline := time.Now().Add(10 * time.Second)
	for {
		allReturned = true
		for tid := range x.threads {
			st := x.r.s.Status(tid)
			if st != "finished" && st != "idle" {
				allReturned = false
			}
		}
		if allReturned || time.Now().After(deadline) {
			break
		}
		time.Sleep(100 * time.Microsecond)
	}
	_ = x.env.pc.Close()
	return allReturned
}

func c21StatusV(ss []string) V {
	out := make(VL, len(ss))
	for i, s := range ss {
		out[i] = VS(s)
	}
	return out
}

// observation of the shared state, in the order of Check/C21.v final_obs
func (x *c21Exec) finalObs(statuses []string) VL {
	isClosed, gflag, closeDone, gracefulDone := x.env.pc.VerifC21CloseFlags()
	return VL{c21StatusV(statuses), VB(isClosed), VB(gflag), VB(closeDone), VB(gracefulDone),
		VB(x.env.pc.SignalingState() == webrtc.SignalingStateClosed),
		VZ(int64(x.env.pc.ConnectionState())), VInts(x.env.logger.snapshot()),
		VZ(int64(x.r.teardowns)), VZ(int64(x.r.gracefulOps)), VB(len(x.r.panicked()) > 0)}
}

// direct oracle on a finished (or abandoned) controlled execution: the
// property's clauses restated on what the real PeerConnection shows.
func (x *c21Exec) oracle(statuses []string, complete bool) Verdict {
	anyCloser, anyGraceful, closersBack := false, false, true
	for tid, t := range x.threads {
		if t.Kind == 2 {
			continue
		}
		anyCloser = true
		if t.Kind == 1 {
			anyGraceful = true
		}
		if statuses[tid] != "finished" {
			closersBack = false
		}
	}
	if p := x.r.panicked(); len(p) > 0 {
		return Fail("close-panics", "panic in a participant: "+p[0])
	}
	if complete && !closersBack {
		return Fail("closer-never-returns", fmt.Sprintf("no thread can move but a Close/GracefulClose caller has not returned: %v", statuses))
	}
	dispatch := x.env.logger.snapshot()
	if !c21ClosedIsFinal(dispatch) {
		return Fail("stale-connection-state-after-closed",
			fmt.Sprintf("connection states handed to the handler, in order: %v (6 = closed)", dispatch))
	}
	if n := int(x.env.closes.Load()); n > 1 || x.r.teardowns > 1 {
		return Fail("teardown-more-than-once", fmt.Sprintf("interceptor closed %d times, %d passes through the teardown block", n, x.r.teardowns))
	}
	if x.r.gracefulOps > 1 {
		return Fail("graceful-ops-more-than-once", fmt.Sprintf("%d passes through doGracefulCloseOps", x.r.gracefulOps))
	}
	for tid, t := range x.threads {
		if t.Kind == 1 && x.returned[tid] && x.gracefulSaw[tid] != [2]int{1, 1} {
			return Fail("graceful-close-returned-early",
				fmt.Sprintf("GracefulClose caller %d returned with teardown runs=%d graceful passes=%d",
					tid, x.gracefulSaw[tid][0], x.gracefulSaw[tid][1]))
		}
	}
	if anyCloser && closersBack {
		isClosed, _, closeDone, gracefulDone := x.env.pc.VerifC21CloseFlags()
		cs, ss := x.env.pc.ConnectionState(), x.env.pc.SignalingState()
		switch {
		case !isClosed || !closeDone || (anyGraceful && !gracefulDone):
			return Fail("close-flags-not-final", fmt.Sprintf("isClosed=%v closeDone=%v gracefulDone=%v", isClosed, closeDone, gracefulDone))
		case ss != webrtc.SignalingStateClosed:
			return Fail("signaling-state-not-closed-after-close", ss.String())
		case cs != webrtc.PeerConnectionStateClosed:
			return Fail("connection-state-not-closed-after-close", cs.String())
		case x.env.closes.Load() != 1 || x.r.teardowns != 1 || x.env.pc.SCTP().Transport().State() != webrtc.DTLSTransportStateClosed:
			return Fail("teardown-not-run", "all closers returned, but the teardown did not run (interceptor / DTLS transport not closed)")
		case anyGraceful && x.r.gracefulOps != 1:
			return Fail("graceful-ops-not-run", "a GracefulClose returned, doGracefulCloseOps never ran")
		}
	}
	return Pass("", false)
}

func c21Class(c c21Case, statuses []string, x *c21Exec) string {
	nc, ng, nu := 0, 0, 0
	for _, t := range c.Threads {
		switch t.Kind {
		case 0:
			nc++
		case 1:
			ng++
		default:
			nu++
		}
	}
	return fmt.Sprintf("close%d/graceful%d/update%d/setup%d", nc, ng, nu, c.Setup)
}

func c21RunSched(c c21Case) (V, Verdict) {
	x := c21Start(c.Setup, c.Threads)
	steps := make(VL, 0, len(c.Sched))
	blockedSeen, lockWait := false, false
	var fail *Verdict
	for _, tid := range c.Sched {
		if tid < 0 || tid >= len(c.Threads) {
			steps = append(steps, VS("disabled"))
			continue
		}
		before, _ := x.r.status(tid)
		st, err := x.r.step(tid)
		if err != nil {
			v := Fail("participant-stuck", err.Error())
			fail = &v
			break
		}
		if st == "blocked" {
			blockedSeen = true
		}
		if st == "disabled" && (before == "idle" || before == "parked:pc.close.torndown") {
			lockWait = true
		}
		steps = append(steps, VS(st))
	}
	statuses, err := x.r.statuses()
	if err != nil && fail == nil {
		v := Fail("participant-stuck", err.Error())
		fail = &v
	}
	x.env.waitArrivals(2 * time.Second)
	complete := true
	for tid, st := range statuses {
		if x.r.enabledNow(tid, st) {
			complete = false
		}
	}
	obs := append(VL{steps}, x.finalObs(statuses)...)
	verdict := x.oracle(statuses, complete)
	if fail != nil {
		verdict = *fail
	}
	arr := x.env.arrived()
	back := x.finish()
	if verdict.OK && !back {
		verdict = Fail("closer-never-returns", "participants still running 10 s after every yield point was opened")
	}
	if verdict.OK {
		verdict.Class = c21Class(c, statuses, x)
		if blockedSeen {
			verdict.Class += "/waited"
		}
		if lockWait {
			verdict.Class += "/lockwait"
		}
		if !c21ClosedIsFinal(arr) {
			verdict.Class += "/handler-goroutines-reordered"
		}
		// non-trivial: at least two threads and the schedule made them overlap
		// (some thread started before another one finished)
		verdict.NonTrivial = len(c.Threads) >= 2 && c21Overlaps(c)
	}
	return obs, verdict
}

// two different threads appear interleaved in the schedule (a b a)
func c21Overlaps(c c21Case) bool {
	first := map[int]int{}
	last := map[int]int{}
	for i, t := range c.Sched {
		if _, ok := first[t]; !ok {
			first[t] = i
		}
		last[t] = i
	}
	for a := range first {
		for b := range first {
			if a != b && first[a] < first[b] && first[b] < last[a] {
				return true
			}
		}
	}
	return false
}

func c21ThreadsCoq(ts []c21Thread) string {
	parts := make([]string, len(ts))
	for i, t := range ts {
		parts[i] = fmt.Sprintf("(%d, %d, %d)", t.Kind, t.Ice, t.Dtls)
	}
	return CoqList(parts)
}

func c21CoqSched(c c21Case) string {
	sc := make([]string, len(c.Sched))
	for i, t := range c.Sched {
		sc[i] = CoqZ(int64(t))
	}
	return "(" + c21ThreadsCoq(c.Threads) + ", " + CoqList(sc) + ")"
}

// round-robin tail long enough to finish every thread (7 blocks per thread at most)
func c21Tail(n int) []int {
	var out []int
	for round := 0; round < 7*n; round++ {
		for t := 0; t < n; t++ {
			out = append(out, t)
		}
	}
	return out
}

// ---------- stateless exploration of all maximal schedules on the real code ----------

type c21Leaf struct {
	sched []int
	key   string
}

func c21Explore(setup int, threads []c21Thread, limit int, stopOnOracle bool) (leaves []c21Leaf, err error) {
	stack := [][]int{{}}
	for len(stack) > 0 {
		prefix := stack[len(stack)-1]
		stack = stack[:len(stack)-1]
		x := c21Start(setup, threads)
		var done []int
		bad := false
		for _, tid := range prefix {
			if st, e := x.r.step(tid); e != nil || st == "disabled" {
				err = fmt.Errorf("prefix %v not replayable at %v (%v %v)", prefix, done, st, e)
				bad = true
				break
			}
			done = append(done, tid)
		}
		var statuses []string
		for !bad {
			var e error
			statuses, e = x.r.statuses()
			if e != nil {
				err, bad = e, true
				break
			}
			var en []int
			for tid, st := range statuses {
				if x.r.enabledNow(tid, st) {
					en = append(en, tid)
				}
			}
			if len(en) == 0 {
				break
			}
			for _, alt := range en[1:] {
				stack = append(stack, append(append([]int{}, done...), alt))
			}
			if _, e := x.r.step(en[0]); e != nil {
				err, bad = e, true
				break
			}
			done = append(done, en[0])
		}
		if bad {
			x.finish()
			return leaves, err
		}
		x.env.waitArrivals(2 * time.Second)
		allDone := 1
		for _, st := range statuses {
			if st != "finished" {
				allDone = 0
			}
		}
		pan := 0
		if len(x.r.panicked()) > 0 {
			pan = 1
		}
		key := []int{allDone, int(x.env.pc.ConnectionState()), x.r.teardowns, x.r.gracefulOps, pan}
		key = append(key, x.env.logger.snapshot()...)
		v := x.oracle(statuses, true)
		x.finish()
		if !v.OK && stopOnOracle {
			return leaves, fmt.Errorf("oracle: %s: %s (schedule %v)", v.Sig, v.What, done)
		}
		leaves = append(leaves, c21Leaf{done, fmt.Sprint(key)})
		if len(leaves) > limit {
			return leaves, fmt.Errorf("more than %d maximal schedules", limit)
		}
	}
	return leaves, nil
}

type c21TreeCase struct {
	Setup   int         `json:"setup"`
	Threads []c21Thread `json:"threads"`
}

func c21RunTree(c c21TreeCase) (V, Verdict) {
	leaves, err := c21Explore(c.Setup, c.Threads, 200000, true)
	if err != nil {
		sig := "exploration-failed"
		if strings.HasPrefix(err.Error(), "oracle: ") {
			sig = strings.SplitN(strings.TrimPrefix(err.Error(), "oracle: "), ":", 2)[0]
		}
		return VS("error"), Fail(sig, err.Error())
	}
	hist := map[string]int{}
	keys := map[string][]int{}
	for _, l := range leaves {
		hist[l.key]++
	}
	for k := range hist {
		var ints []int
		for _, f := range strings.Fields(strings.Trim(k, "[]")) {
			var n int
			fmt.Sscan(f, &n)
			ints = append(ints, n)
		}
		keys[k] = ints
	}
	ordered := make([]string, 0, len(hist))
	for k := range hist {
		ordered = append(ordered, k)
	}
	sort.Slice(ordered, func(i, j int) bool { // lexicographic, shorter prefix first
		a, b := keys[ordered[i]], keys[ordered[j]]
		for k := 0; k < len(a) && k < len(b); k++ {
			if a[k] != b[k] {
				return a[k] < b[k]
			}
		}
		return len(a) < len(b)
	})
	rows := make(VL, len(ordered))
	for i, k := range ordered {
		rows[i] = VL{VInts(keys[k]), VZ(int64(hist[k]))}
	}
	v := Pass(fmt.Sprintf("threads%d/leaves%d", len(c.Threads), len(leaves)), len(c.Threads) >= 2)
	return VL{VZ(int64(len(leaves))), rows}, v
}

// ---------- suites ----------

func c21Configs(quick bool) []c21TreeCase {
	cl, gr := c21Thread{Kind: 0}, c21Thread{Kind: 1}
	up := func(i, d int) c21Thread { return c21Thread{2, i, d} }
	out := []c21TreeCase{
		{0, []c21Thread{cl}}, {0, []c21Thread{gr}},
		{0, []c21Thread{cl, cl}}, {1, []c21Thread{cl, gr}}, {2, []c21Thread{gr, cl}}, {0, []c21Thread{gr, gr}},
		{0, []c21Thread{cl, up(2, 1)}}, {1, []c21Thread{gr, up(3, 3)}},
		{0, []c21Thread{up(2, 1), up(3, 3)}},
		{0, []c21Thread{cl, gr, up(2, 1)}},
	}
	if !quick {
		out = append(out,
			c21TreeCase{2, []c21Thread{gr, gr, up(2, 1)}},
			c21TreeCase{1, []c21Thread{cl, cl, gr}},
			c21TreeCase{0, []c21Thread{cl, gr, gr}},
			c21TreeCase{0, []c21Thread{gr, cl, up(2, 1), up(6, 3)}},
		)
	}
	return out
}

func init() {
	Register(Spec[c21Case]{
		ID: "C21", Suite: "sched", CoqImports: []string{"Check.C21"},
		CoqType: "list (Z * Z * Z) * list Z", CoqRun: "Check.C21.run",
		Quick: 150, Thorough: 6000, Parallel: 1, Timeout: 120 * time.Second,
		Corpus: func() []c21Case {
			u := c21Thread{2, 2, 1}  // ice checking, dtls new: computes "connecting"
			un := c21Thread{2, 1, 1} // computes "new" (the initial value)
			cl, gr := c21Thread{Kind: 0}, c21Thread{Kind: 1}
			return []c21Case{
				// the design probe: update parked after computing connecting, Close, release.
				// On the unrepaired code the handler saw [closed connecting].
				{0, []c21Thread{u, cl}, append([]int{0, 1, 1, 1, 1, 0}, c21Tail(2)...)},
				{0, []c21Thread{un, gr}, append([]int{0, 1, 1, 1, 1, 1, 0}, c21Tail(2)...)},
				// the same value stored by the updater between close's two update blocks
				{1, []c21Thread{cl, u}, append([]int{0, 0, 1, 0, 0, 1}, c21Tail(2)...)},
				// graceful after plain close: waits for isCloseDone, then runs the graceful ops
				{2, []c21Thread{cl, gr, gr}, append([]int{0, 1, 2, 1, 2, 0, 0, 0}, c21Tail(3)...)},
				// graceful first, plain Close returns at once, second graceful waits
				{1, []c21Thread{gr, cl, gr}, append([]int{0, 1, 2, 1, 2}, c21Tail(3)...)},
				// incomplete schedule: observation taken mid-way, waiter still blocked
				{0, []c21Thread{gr, gr, cl}, []int{0, 1, 1, 2, 0}},
			}
		},
		Exhaustive: func() []c21Case {
			// every maximal schedule of the two smallest two-closer configurations
			var out []c21Case
			for _, cfg := range []c21TreeCase{
				{0, []c21Thread{{Kind: 0}, {Kind: 1}}},
				{0, []c21Thread{{Kind: 1}, {2, 2, 1}}},
			} {
				leaves, err := c21Explore(cfg.Setup, cfg.Threads, 5000, false)
				if err != nil {
					panic(err)
				}
				for _, l := range leaves {
					out = append(out, c21Case{cfg.Setup, cfg.Threads, append(l.sched, c21Tail(len(cfg.Threads))...)})
				}
			}
			return out
		},
		Gen: func(r *Rand, i int) c21Case {
			n := r.Range(2, 4)
			ts := make([]c21Thread, n)
			for k := range ts {
				switch {
				case r.Chance(1, 3):
					ts[k] = c21Thread{2, r.Range(1, 7), r.Range(1, 5)}
				case r.Bool():
					ts[k] = c21Thread{Kind: 1}
				default:
					ts[k] = c21Thread{Kind: 0}
				}
			}
			if ts[0].Kind == 2 && ts[1].Kind == 2 {
				ts[r.Intn(2)] = c21Thread{Kind: r.Intn(2)}
			}
			var sc []int
			for k := r.Range(0, 5*n); k > 0; k-- {
				sc = append(sc, r.Intn(n))
			}
			if !r.Chance(1, 6) { // mostly complete schedules; some observed mid-way
				sc = append(sc, c21Tail(n)...)
			}
			return c21Case{r.Intn(3), ts, sc}
		},
		Shrink: func(c c21Case) []c21Case {
			var out []c21Case
			for i := range c.Sched {
				s := append(append([]int{}, c.Sched[:i]...), c.Sched[i+1:]...)
				out = append(out, c21Case{c.Setup, c.Threads, s})
			}
			if c.Setup > 0 {
				out = append(out, c21Case{0, c.Threads, c.Sched})
			}
			return out
		},
		Run: c21RunSched, Coq: c21CoqSched,
	})
	Register(Spec[c21TreeCase]{
		ID: "C21", Suite: "tree", CoqImports: []string{"Check.C21"},
		CoqType: "list (Z * Z * Z)", CoqRun: "Check.C21.run_tree",
		Parallel: 1, Timeout: 1200 * time.Second,
		Exhaustive: func() []c21TreeCase { return c21Configs(!c21Thorough()) },
		Run:        c21RunTree,
		Coq:        func(c c21TreeCase) string { return c21ThreadsCoq(c.Threads) },
	})
}
