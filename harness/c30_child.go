//go:build verif_c30

package main

// Crash isolation for the C30 mutation search.  A panic on a goroutine the
// library spawns (operations queue, repair-stream reader, ...) kills the whole
// process, so every case of the search suites runs in a child: the harness
// binary re-executes itself ("c30-child"), the parent streams cases to it and
// reads one reply per case.  A child that dies is the failing batch; the case
// in flight is re-run alone in a fresh child (then the cases before it, newest
// first) until the single crashing input is confirmed.

import (
	"bufio"
	"bytes"
	"encoding/json"
	"fmt"
	"io"
	"os"
	"os/exec"
	"runtime"
	"strings"
	"sync"
	"time"
)

type c30Job struct {
	Suite string          `json:"suite"`
	Input json.RawMessage `json:"input"`
}

type c30Reply struct {
	Obs     string  `json:"obs"` // Gallina term of type V
	Verdict Verdict `json:"verdict"`
}

// c30VRaw is an observation already rendered by the child.
type c30VRaw string

func (v c30VRaw) Coq() string { return string(v) }

// handlers executed inside the child, by suite name.  The table is a
// package-level variable (c30_search.go) so that it is complete before any
// init function runs: the child never returns from its init.
func c30ChildHandler[I any](f func(in I) (V, Verdict)) func(raw json.RawMessage) (V, Verdict) {
	return func(raw json.RawMessage) (V, Verdict) {
		var in I
		if err := json.Unmarshal(raw, &in); err != nil {
			panic(err)
		}
		return f(in)
	}
}

func init() {
	if len(os.Args) > 1 && os.Args[1] == "c30-child" {
		c30ChildMain()
		os.Exit(0)
	}
}

// c30Settle waits until the goroutines of the finished case are gone (or a
// short deadline passes), so that a delayed panic is attributed to its case.
func c30Settle(baseline int) {
	deadline := time.Now().Add(60 * time.Millisecond)
	for runtime.NumGoroutine() > baseline && time.Now().Before(deadline) {
		time.Sleep(200 * time.Microsecond)
	}
}

func c30ChildMain() {
	signalOnly(true)
	out := os.NewFile(3, "replies")
	w := bufio.NewWriter(out)
	sc := bufio.NewScanner(os.Stdin)
	sc.Buffer(make([]byte, 1<<20), 1<<26)
	baseline := runtime.NumGoroutine()
	for sc.Scan() {
		var job c30Job
		if err := json.Unmarshal(sc.Bytes(), &job); err != nil {
			panic(err)
		}
		f := c30ChildRun[job.Suite]
		if f == nil {
			panic("c30-child: unknown suite " + job.Suite)
		}
		obs, v := f(job.Input)
		c30Settle(baseline)
		b, _ := json.Marshal(c30Reply{Obs: obs.Coq(), Verdict: v})
		_, _ = w.Write(append(b, '\n'))
		_ = w.Flush()
	}
}

type c30Worker struct {
	cmd     *exec.Cmd
	in      io.WriteCloser
	out     *bufio.Reader
	outFile *os.File
	stderr  *bytes.Buffer
	history []c30Job
}

func c30Spawn() (*c30Worker, error) {
	pr, pw, err := os.Pipe()
	if err != nil {
		return nil, err
	}
	cmd := exec.Command(os.Args[0], "c30-child")
	cmd.ExtraFiles = []*os.File{pw}
	stdin, err := cmd.StdinPipe()
	if err != nil {
		return nil, err
	}
	var errb bytes.Buffer
	cmd.Stderr = &errb
	cmd.Stdout = io.Discard
	if err = cmd.Start(); err != nil {
		return nil, err
	}
	_ = pw.Close()
	return &c30Worker{cmd: cmd, in: stdin, out: bufio.NewReaderSize(pr, 1<<20), outFile: pr, stderr: &errb}, nil
}

func (w *c30Worker) stop() {
	_ = w.in.Close()
	done := make(chan struct{})
	go func() { _ = w.cmd.Wait(); close(done) }()
	select {
	case <-done:
	case <-time.After(2 * time.Second):
		_ = w.cmd.Process.Kill()
		<-done
	}
	_ = w.outFile.Close()
}

// one case through one worker; died = the child exited before replying
func (w *c30Worker) do(job c30Job, timeout time.Duration) (rep c30Reply, died, hung bool, trace string) {
	b, _ := json.Marshal(job)
	if _, err := w.in.Write(append(b, '\n')); err != nil {
		_ = w.cmd.Wait()
		return rep, true, false, w.stderr.String()
	}
	type res struct {
		line []byte
		err  error
	}
	ch := make(chan res, 1)
	go func() {
		line, err := w.out.ReadBytes('\n')
		ch <- res{line, err}
	}()
	select {
	case r := <-ch:
		if r.err != nil {
			_ = w.cmd.Wait()
			return rep, true, false, w.stderr.String()
		}
		if err := json.Unmarshal(r.line, &rep); err != nil {
			panic(fmt.Sprintf("c30: bad reply %q: %v", r.line, err))
		}
		return rep, false, false, ""
	case <-time.After(timeout):
		_ = w.cmd.Process.Signal(os.Interrupt)
		time.Sleep(50 * time.Millisecond)
		_ = w.cmd.Process.Kill()
		_ = w.cmd.Wait()
		return rep, false, true, w.stderr.String()
	}
}

var (
	c30PoolMu sync.Mutex
	c30Idle   []*c30Worker
)

func c30Get() *c30Worker {
	c30PoolMu.Lock()
	if n := len(c30Idle); n > 0 {
		w := c30Idle[n-1]
		c30Idle = c30Idle[:n-1]
		c30PoolMu.Unlock()
		return w
	}
	c30PoolMu.Unlock()
	w, err := c30Spawn()
	if err != nil {
		panic(err)
	}
	return w
}

func c30Put(w *c30Worker) {
	c30PoolMu.Lock()
	c30Idle = append(c30Idle, w)
	c30PoolMu.Unlock()
}

// the crash line and the first pion frame of a Go crash dump
func c30CrashSummary(trace string) (site, head string) {
	head = "no panic message on stderr"
	for _, l := range strings.Split(trace, "\n") {
		if strings.HasPrefix(l, "panic:") || strings.HasPrefix(l, "fatal error:") {
			head = l
			break
		}
	}
	i := strings.Index(trace, "goroutine ")
	if i < 0 {
		i = 0
	}
	return c30Site(trace[i:]), head
}

func c30Alone(job c30Job) (died bool, trace string) {
	w, err := c30Spawn()
	if err != nil {
		panic(err)
	}
	_, died, hung, trace := w.do(job, 30*time.Second)
	if !died && !hung {
		// give late goroutines of this single case a last chance
		time.Sleep(150 * time.Millisecond)
		w.stop()
		if w.cmd.ProcessState != nil && !w.cmd.ProcessState.Success() {
			return true, w.stderr.String()
		}
		return false, ""
	}
	return died || hung, trace
}

// c30Exec runs one case of a search suite in a child process.
func c30Exec[I any](suite string, in I) (V, Verdict) {
	raw, err := json.Marshal(in)
	if err != nil {
		panic(err)
	}
	job := c30Job{Suite: suite, Input: raw}
	w := c30Get()
	rep, died, hung, trace := w.do(job, 30*time.Second)
	if !died && !hung {
		w.history = append(w.history, job)
		if len(w.history) > 12 {
			w.history = w.history[len(w.history)-12:]
		}
		c30Put(w)
		return c30VRaw(rep.Obs), rep.Verdict
	}
	if hung {
		// a loaded machine can starve a child; only a hang that repeats alone,
		// with a longer deadline, counts
		w2, err := c30Spawn()
		if err != nil {
			panic(err)
		}
		rep2, died2, hung2, trace2 := w2.do(job, 120*time.Second)
		switch {
		case !died2 && !hung2:
			c30Put(w2)
			return c30VRaw(rep2.Obs), rep2.Verdict
		case hung2:
			site, _ := c30CrashSummary(trace2)
			return VS("HANG"), Fail("hang-at-"+site, "no reply from the child within 120s, alone in a fresh process")
		}
		trace = trace2
	}
	if strings.Contains(trace, "c30-child:") {
		panic("c30: harness error in the child process:\n" + c30Tail(trace, 2000))
	}
	// the batch died: bisect to the single input
	site, head := c30CrashSummary(trace)
	if again, tr2 := c30Alone(job); again {
		site, head = c30CrashSummary(tr2)
		return VS("CRASH"), Fail("crash-at-"+site, head+" (process died; reproduced with this input alone)")
	}
	for i := len(w.history) - 1; i >= 0; i-- {
		if again, tr2 := c30Alone(w.history[i]); again {
			s2, h2 := c30CrashSummary(tr2)
			return VS("CRASH"), Fail("late-crash-at-"+s2,
				h2+" (process died while a later case ran; culprit reproduced alone: "+string(w.history[i].Input)+")")
		}
	}
	return VS("CRASH"), Fail("crash-not-reproduced-at-"+site, head+" (child died, no single case reproduced it)\n"+c30Tail(trace, 1500))
}

func c30Tail(s string, n int) string {
	if len(s) > n {
		return s[:n]
	}
	return s
}
