package main

import (
	"github.com/pion/webrtc/v4"
)

// newQuietAPI builds an API whose PeerConnections are cheap to create: no
// mDNS, UDP4 only, no interfaces, no interceptors unless asked for.
func newQuietAPI(me *webrtc.MediaEngine) *webrtc.API {
	se := webrtc.SettingEngine{}
	se.SetICEMulticastDNSMode(0 + 1) // ice.MulticastDNSModeDisabled
	se.SetNetworkTypes([]webrtc.NetworkType{webrtc.NetworkTypeUDP4})
	se.SetInterfaceFilter(func(string) bool { return false })
	se.SetIncludeLoopbackCandidate(false)
	opts := []func(*webrtc.API){webrtc.WithSettingEngine(se)}
	if me != nil {
		opts = append(opts, webrtc.WithMediaEngine(me))
	}
	return webrtc.NewAPI(opts...)
}
