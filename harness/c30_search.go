//go:build verif_c30

package main

// C30 mutation search on real PeerConnections (signalling-only mode) and on the
// receive-side entry points that need no network.  Every case runs in a child
// process (c30_child.go).  Direct oracle only: no panic anywhere (including the
// operations goroutine and goroutines the library spawns), and every call
// returned an error or succeeded.

import (
	"bytes"
	"encoding/hex"
	"encoding/json"
	"fmt"
	"strings"
	"sync/atomic"
	"time"

	"github.com/pion/rtcp"
	"github.com/pion/rtp"
	"github.com/pion/webrtc/v4"
)

// ---------- suite sdp ----------

type c30SDPIn struct {
	Sem          int      `json:"sem"`
	Codecs       int      `json:"codecs"` // bit 0 audio, bit 1 video
	Interceptors bool     `json:"interceptors"`
	PreOffer     bool     `json:"pre_offer"` // we offered first, so a remote answer is legal
	Type         string   `json:"type"`
	Text         []byte   `json:"text"`
	Answer       bool     `json:"answer"` // CreateAnswer + SetLocalDescription afterwards
	Second       []byte   `json:"second,omitempty"`
	SecondType   string   `json:"second_type,omitempty"`
	Cands        []string `json:"cands,omitempty"`
	// Deferred: the transports come up only after all signalling, so the
	// startRTP work captured by each negotiation runs at the end, in order
	// (in production it waits behind startTransports on the operations queue)
	Deferred bool `json:"deferred,omitempty"`
	// AfterClose: the application closes the PeerConnection before the
	// deferred startRTP work runs (Close does not stop the operations queue);
	// AddTransceiverFromKind then fails whatever codecs are registered
	AfterClose bool   `json:"after_close,omitempty"`
	Origin     string `json:"origin,omitempty"`
	Readable   string `json:"readable,omitempty"` // the text again, for humans reading replays
}

func c30SDPType(s string) webrtc.SDPType {
	switch s {
	case "answer":
		return webrtc.SDPTypeAnswer
	case "pranswer":
		return webrtc.SDPTypePranswer
	case "rollback":
		return webrtc.SDPTypeRollback
	}
	return webrtc.SDPTypeOffer
}

type c30Steps struct {
	log      []string
	sig      string
	what     string
	accepted int
	lastErr  string
}

// step runs one API call; a panic on the calling goroutine is a finding
func (s *c30Steps) step(name string, f func() error) bool {
	var err error
	if p, site, msg := c30Catch(func() { err = f() }); p {
		s.log = append(s.log, name+":panic")
		if s.sig == "" {
			s.sig, s.what = "panic-in-"+name+"-at-"+site, msg
		}
		return false
	}
	if err != nil {
		s.log = append(s.log, name+":err")
		s.lastErr = name + ": " + err.Error()
		return false
	}
	s.log = append(s.log, name+":ok")
	s.accepted++
	return true
}

func c30SDPChild(in c30SDPIn) (V, Verdict) {
	api := c30API(in.Codecs&1 != 0, in.Codecs&2 != 0, in.Interceptors)
	pc, err := api.NewPeerConnection(webrtc.Configuration{SDPSemantics: c30Sem(in.Sem)})
	if err != nil {
		panic(err)
	}
	st := &c30Steps{}
	if in.PreOffer {
		st.step("pre-offer", func() error {
			if in.Codecs&2 != 0 {
				if _, e := pc.AddTransceiverFromKind(webrtc.RTPCodecTypeVideo); e != nil {
					return e
				}
			}
			if in.Codecs&1 != 0 {
				if _, e := pc.AddTransceiverFromKind(webrtc.RTPCodecTypeAudio); e != nil {
					return e
				}
			}
			if _, e := pc.CreateDataChannel("d", nil); e != nil {
				return e
			}
			offer, e := pc.CreateOffer(nil)
			if e != nil {
				return e
			}
			return pc.SetLocalDescription(offer)
		})
	}
	srdOK := st.step("srd", func() error {
		return pc.SetRemoteDescription(webrtc.SessionDescription{Type: c30SDPType(in.Type), SDP: string(in.Text)})
	})
	if in.Answer && srdOK {
		st.step("answer", func() error {
			ans, e := pc.CreateAnswer(nil)
			if e != nil {
				return e
			}
			return pc.SetLocalDescription(ans)
		})
	}
	// what startRTP does once the transports are up, on the operations queue:
	// captured where the library captures it, queued now or after all signalling
	var deferred []func()
	startReceivers := func(name string) {
		run := pc.VerifC30PrepareStartRTPReceivers()
		if in.Deferred {
			deferred = append(deferred, run)
			return
		}
		st.step(name, func() error { run(); drain(pc); return nil })
	}
	startReceivers("start-receivers")
	if srdOK {
		st.step("undeclared-ssrc", func() error {
			_, e := pc.VerifC30UndeclaredOnRemote(0x7777, 96)
			return e
		})
	}
	for _, c := range in.Cands {
		c := c
		st.step("cand", func() error { return pc.AddICECandidate(webrtc.ICECandidateInit{Candidate: c}) })
	}
	if len(in.Second) > 0 {
		ok2 := st.step("srd2", func() error {
			return pc.SetRemoteDescription(webrtc.SessionDescription{Type: c30SDPType(in.SecondType), SDP: string(in.Second)})
		})
		if ok2 && in.SecondType == "offer" {
			st.step("answer2", func() error {
				ans, e := pc.CreateAnswer(nil)
				if e != nil {
					return e
				}
				return pc.SetLocalDescription(ans)
			})
		}
		startReceivers("start-receivers2")
	}
	if in.AfterClose {
		st.step("close", func() error { return pc.Close() })
	}
	for i, run := range deferred {
		run := run
		st.step(fmt.Sprintf("deferred-start-receivers%d", i+1), func() error { run(); drain(pc); return nil })
	}
	st.step("drain", func() error { drain(pc); return nil })
	// goroutines started by the receivers (first-packet peek) run now
	st.step("settle", func() error { time.Sleep(300 * time.Microsecond); return nil })
	st.step("close", func() error { return pc.Close() })
	obs := VS(strings.Join(st.log, " "))
	if st.sig != "" {
		return obs, Fail(st.sig, st.what)
	}
	class := fmt.Sprintf("sem%d/%s/srd:%v", in.Sem, in.Type, srdOK)
	if in.Answer && srdOK {
		class += "/answered"
	}
	// non-trivial: the description got past pion/sdp and the signalling checks
	return obs, Pass(class, srdOK)
}

// text-level mutations of a rendered description
func c30TextMutate(r *Rand, text []byte) ([]byte, string) {
	lines := bytes.Split(text, []byte("\r\n"))
	switch r.Intn(9) {
	case 0: // truncate at an offset
		return append([]byte{}, text[:r.Intn(len(text)+1)]...), "truncate"
	case 1: // corrupt one byte
		out := append([]byte{}, text...)
		if len(out) > 0 {
			out[r.Intn(len(out))] = Pick(r, []byte{0, '\n', '\r', ' ', ':', '=', 0xff, 0x80, '9', '-', ';', '~', '/'})
		}
		return out, "corrupt-byte"
	case 2: // delete a line
		if len(lines) > 1 {
			i := r.Intn(len(lines))
			lines = append(lines[:i:i], lines[i+1:]...)
		}
		return bytes.Join(lines, []byte("\r\n")), "delete-line"
	case 3: // duplicate a line somewhere else
		i, j := r.Intn(len(lines)), r.Intn(len(lines)+1)
		l := lines[i]
		lines = append(lines[:j:j], append([][]byte{l}, lines[j:]...)...)
		return bytes.Join(lines, []byte("\r\n")), "duplicate-line"
	case 4: // swap two lines
		i, j := r.Intn(len(lines)), r.Intn(len(lines))
		lines[i], lines[j] = lines[j], lines[i]
		return bytes.Join(lines, []byte("\r\n")), "swap-lines"
	case 5: // swap the type letters of two lines
		i, j := r.Intn(len(lines)), r.Intn(len(lines))
		if len(lines[i]) > 0 && len(lines[j]) > 0 {
			a, b := append([]byte{}, lines[i]...), append([]byte{}, lines[j]...)
			a[0], b[0] = b[0], a[0]
			lines[i], lines[j] = a, b
		}
		return bytes.Join(lines, []byte("\r\n")), "swap-types"
	case 6: // cut a line short
		i := r.Intn(len(lines))
		if len(lines[i]) > 0 {
			lines[i] = lines[i][:r.Intn(len(lines[i]))]
		}
		return bytes.Join(lines, []byte("\r\n")), "cut-line"
	case 7: // hostile number: replace a run of digits
		out := append([]byte{}, text...)
		var runs [][2]int
		for i := 0; i < len(out); {
			if out[i] >= '0' && out[i] <= '9' {
				j := i
				for j < len(out) && out[j] >= '0' && out[j] <= '9' {
					j++
				}
				runs = append(runs, [2]int{i, j})
				i = j
			} else {
				i++
			}
		}
		if len(runs) > 0 {
			k := runs[r.Intn(len(runs))]
			num := Pick(r, []string{"4294967296", "-1", "0", "65536", "256", "99999999999999999999", "18446744073709551615", "2147483648", ""})
			out = append(append(append([]byte{}, out[:k[0]]...), num...), out[k[1]:]...)
		}
		return out, "hostile-number"
	default: // line endings
		return bytes.ReplaceAll(text, []byte("\r\n"), []byte("\n")), "lf-only"
	}
}

func c30GenSDP(r *Rand, i int) c30SDPIn {
	in := c30SDPIn{Sem: i % 3, Codecs: Pick(r, []int{3, 3, 3, 1, 2, 0}), Interceptors: r.Chance(1, 4), Type: "offer", Answer: r.Chance(2, 3)}
	d, _ := c30GenValid(r)
	origin := "valid"
	if r.Chance(1, 4) {
		in.PreOffer = true
		in.Type = Pick(r, []string{"answer", "answer", "pranswer"})
		in.Answer = false
	} else if r.Chance(1, 20) {
		in.Type = Pick(r, []string{"rollback", "pranswer", "answer"})
	}
	switch i % 5 {
	case 0: // valid
	case 1, 2: // attribute-level mutations
		var names []string
		d, names = c30Mutate(r, d, r.Range(1, 3))
		origin = "attr:" + strings.Join(names, ",")
	}
	text := []byte(d.Text())
	if i%5 >= 3 { // text-level mutations
		var names []string
		for k, n := 0, r.Range(1, 2); k < n; k++ {
			var nm string
			text, nm = c30TextMutate(r, text)
			names = append(names, nm)
		}
		origin = "text:" + strings.Join(names, ",")
	}
	in.Text = text
	if r.Chance(1, 3) {
		for k, n := 0, r.Range(1, 3); k < n; k++ {
			in.Cands = append(in.Cands, c30GenCandidate(r))
		}
	}
	if r.Chance(1, 4) { // renegotiation with another (possibly mutated) description
		d2, _ := c30GenValid(r)
		if r.Bool() {
			d2, _ = c30Mutate(r, d2, r.Range(1, 3))
		}
		t2 := []byte(d2.Text())
		if r.Chance(1, 3) {
			t2, _ = c30TextMutate(r, t2)
		}
		in.Second, in.SecondType = t2, "offer"
		in.Deferred = r.Bool()
		origin += "+second"
	}
	if !in.Deferred && r.Chance(1, 5) {
		in.Deferred = true
	}
	if in.Deferred && r.Chance(1, 2) {
		in.AfterClose = true
		origin += "+close-first"
	}
	in.Origin = origin
	in.Readable = strings.ToValidUTF8(string(in.Text), "?")
	return in
}

func c30ShrinkSDP(in c30SDPIn) []c30SDPIn {
	var out []c30SDPIn
	if len(in.Second) > 0 {
		c := in
		c.Second, c.SecondType = nil, ""
		out = append(out, c)
	}
	if len(in.Cands) > 0 {
		c := in
		c.Cands = nil
		out = append(out, c)
	}
	if in.Answer {
		c := in
		c.Answer = false
		out = append(out, c)
	}
	if in.Interceptors {
		c := in
		c.Interceptors = false
		out = append(out, c)
	}
	if in.AfterClose {
		c := in
		c.AfterClose = false
		out = append(out, c)
	}
	lines := bytes.Split(in.Text, []byte("\r\n"))
	if len(lines) <= 80 {
		for i := len(lines) - 1; i >= 0; i-- {
			c := in
			c.Text = bytes.Join(append(append([][]byte{}, lines[:i]...), lines[i+1:]...), []byte("\r\n"))
			c.Readable = strings.ToValidUTF8(string(c.Text), "?")
			out = append(out, c)
		}
	}
	return out
}

// truncation at every offset of one valid description per semantics
func c30TruncationSweep(step int) []c30SDPIn {
	r := NewRand(30)
	var out []c30SDPIn
	d, _ := c30GenValid(r)
	for len(d.Media) < 2 {
		d, _ = c30GenValid(r)
	}
	text := []byte(d.Text())
	for sem := 0; sem < 3; sem++ {
		for n := 0; n <= len(text); n += step {
			out = append(out, c30SDPIn{Sem: sem, Codecs: 3, Type: "offer", Text: text[:n], Answer: true,
				Origin: fmt.Sprintf("truncate@%d", n), Readable: strings.ToValidUTF8(string(text[:n]), "?")})
		}
	}
	return out
}

// ---------- suite cand ----------

type c30CandIn struct {
	Sem        int     `json:"sem"`
	HaveRemote bool    `json:"have_remote"`
	Cand       string  `json:"cand"`
	Mid        *string `json:"mid,omitempty"`
	MLine      *uint16 `json:"mline,omitempty"`
	Ufrag      *string `json:"ufrag,omitempty"`
}

func c30GenCandidate(r *Rand) string {
	if r.Chance(1, 3) {
		return Pick(r, c30Candidates)
	}
	found := Pick(r, []string{"1", "842163049", "", "a+/", "99999999999999999999999999999999999"})
	comp := Pick(r, []string{"1", "2", "0", "256", "-1", "x", ""})
	proto := Pick(r, []string{"udp", "tcp", "UDP", "TCP", "sctp", "ssltcp", ""})
	prio := Pick(r, []string{"2122260223", "0", "4294967295", "4294967296", "-1", "x", ""})
	addr := Pick(r, []string{"192.168.1.5", "203.0.113.7", "::1", "fe80::1%eth0", "[::1]", "abcd.local", "a b", "999.1.1.1", "", "1.2.3.4.5", "::ffff:1.2.3.4"})
	port := Pick(r, []string{"53987", "0", "9", "65535", "65536", "-1", "x", ""})
	typ := Pick(r, []string{"host", "srflx", "prflx", "relay", "bogus", "HOST", ""})
	s := strings.Join([]string{found, comp, proto, prio, addr, port, "typ", typ}, " ")
	if typ != "host" || r.Chance(1, 4) {
		switch r.Intn(4) {
		case 0:
			s += " raddr 10.0.0.1 rport 5000"
		case 1:
			s += " raddr"
		case 2:
			s += " raddr 10.0.0.1 rport"
		default:
			s += " rport 5 raddr x"
		}
	}
	if proto == "tcp" || r.Chance(1, 5) {
		s += " tcptype " + Pick(r, []string{"active", "passive", "so", "bogus", ""})
	}
	for _, ext := range []string{"generation 0", "ufrag ab12", "ufrag zz", "network-id 1", "network-cost 10", "ufrag", "x y", "generation"} {
		if r.Chance(1, 4) {
			s += " " + ext
		}
	}
	switch r.Intn(8) {
	case 0:
		s = "candidate:" + s
	case 1:
		s = s[:r.Intn(len(s)+1)]
	case 2:
		b := []byte(s)
		if len(b) > 0 {
			b[r.Intn(len(b))] = Pick(r, []byte{' ', 0, 0xff, ':', '\t', '\n'})
		}
		s = string(b)
	case 3:
		s = strings.ReplaceAll(s, " ", "  ")
	}
	return s
}

func c30CandChild(in c30CandIn) (V, Verdict) {
	pc, err := c30API(true, true, false).NewPeerConnection(webrtc.Configuration{SDPSemantics: c30Sem(in.Sem)})
	if err != nil {
		panic(err)
	}
	st := &c30Steps{}
	if in.HaveRemote {
		r := NewRand(uint64(len(in.Cand)) + 7)
		d, _ := c30GenValid(r)
		if !st.step("srd", func() error {
			return pc.SetRemoteDescription(webrtc.SessionDescription{Type: webrtc.SDPTypeOffer, SDP: d.Text()})
		}) {
			_ = pc.Close()
			return VS("valid-offer-rejected"), Fail("generator-valid-offer-rejected", d.Text())
		}
	}
	okc := st.step("cand", func() error {
		return pc.AddICECandidate(webrtc.ICECandidateInit{Candidate: in.Cand, SDPMid: in.Mid, SDPMLineIndex: in.MLine, UsernameFragment: in.Ufrag})
	})
	st.step("drain", func() error { drain(pc); return nil })
	st.step("close", func() error { return pc.Close() })
	obs := VS(strings.Join(st.log, " "))
	if st.sig != "" {
		return obs, Fail(st.sig, st.what)
	}
	if !in.HaveRemote && okc {
		return obs, Fail("candidate-accepted-without-remote-description", in.Cand)
	}
	return obs, Pass(fmt.Sprintf("remote:%v/cand:%v", in.HaveRemote, okc), in.HaveRemote)
}

// ---------- suite rtp: byte strings into the receive-side entry points ----------

type c30RTPIn struct {
	Pkt    string `json:"pkt"` // hex
	Kind   int    `json:"kind"`
	Origin string `json:"origin,omitempty"`
}

func c30GenRTPBytes(r *Rand) ([]byte, string) {
	h := rtp.Header{Version: 2, PayloadType: Pick(r, []uint8{96, 97, 111, 0, 127, 102}), SequenceNumber: uint16(r.U64()),
		Timestamp: uint32(r.U64()), SSRC: uint32(r.U64()), Marker: r.Bool()}
	for i, n := 0, r.Intn(4); i < n; i++ {
		h.CSRC = append(h.CSRC, uint32(r.U64()))
	}
	if r.Chance(2, 3) {
		h.Extension = true
		if r.Bool() {
			h.ExtensionProfile = 0xBEDE
			for _, id := range []uint8{1, 2, 3, 4, 14} {
				if r.Bool() {
					_ = h.SetExtension(id, r.Bytes(r.Range(1, 16)))
				}
			}
		} else {
			h.ExtensionProfile = 0x1000
			for _, id := range []uint8{1, 2, 3, 200} {
				if r.Bool() {
					_ = h.SetExtension(id, r.Bytes(r.Range(0, 40)))
				}
			}
		}
		if len(h.Extensions) == 0 {
			_ = h.SetExtension(1, []byte("0"))
		}
	}
	p := rtp.Packet{Header: h, Payload: r.Bytes(r.Intn(40))}
	if r.Chance(1, 4) {
		p.Header.Padding = true
		p.PaddingSize = uint8(r.Range(1, 20))
	}
	b, err := p.Marshal()
	if err != nil {
		b = r.Bytes(r.Intn(40))
		return b, "random"
	}
	origin := "valid"
	for k, n := 0, r.Intn(4); k < n; k++ {
		origin = "mutated"
		switch r.Intn(5) {
		case 0:
			b = b[:r.Intn(len(b)+1)]
		case 1:
			if len(b) > 0 {
				b[r.Intn(len(b))] = byte(r.U64())
			}
		case 2:
			if len(b) > 0 {
				b[r.Intn(min(len(b), 20))] ^= 1 << r.Intn(8)
			}
		case 3: // hostile length fields: extension length, last byte (padding count)
			if len(b) > 16 {
				b[14+4*(int(b[0])&15)%max(1, len(b)-15)] = 0xff
			}
			if len(b) > 0 {
				b[len(b)-1] = byte(r.U64())
			}
		default:
			b = append(b, r.Bytes(r.Intn(8))...)
		}
	}
	return b, origin
}

func c30GenRTCPBytes(r *Rand) []byte {
	pkts := []rtcp.Packet{
		&rtcp.ReceiverReport{SSRC: 1, Reports: []rtcp.ReceptionReport{{SSRC: 2, LastSequenceNumber: 3}}},
		&rtcp.PictureLossIndication{SenderSSRC: 1, MediaSSRC: 2},
		&rtcp.TransportLayerNack{SenderSSRC: 1, MediaSSRC: 2, Nacks: []rtcp.NackPair{{PacketID: 5, LostPackets: 3}}},
		&rtcp.SourceDescription{Chunks: []rtcp.SourceDescriptionChunk{{Source: 1, Items: []rtcp.SourceDescriptionItem{{Type: rtcp.SDESCNAME, Text: "x"}}}}},
		&rtcp.Goodbye{Sources: []uint32{1}, Reason: "bye"},
		&rtcp.ReceiverEstimatedMaximumBitrate{SenderSSRC: 1, Bitrate: 1e6, SSRCs: []uint32{2}},
	}
	var sel []rtcp.Packet
	for i, n := 0, r.Range(1, 3); i < n; i++ {
		sel = append(sel, Pick(r, pkts))
	}
	b, err := rtcp.Marshal(sel)
	if err != nil {
		return r.Bytes(r.Intn(30))
	}
	for k, n := 0, r.Intn(4); k < n; k++ {
		switch r.Intn(4) {
		case 0:
			b = b[:r.Intn(len(b)+1)]
		case 1:
			if len(b) > 0 {
				b[r.Intn(len(b))] = byte(r.U64())
			}
		case 2:
			if len(b) > 3 {
				b[2+r.Intn(2)] = byte(r.U64()) // length field
			}
		default:
			b = append(b, r.Bytes(r.Intn(8))...)
		}
	}
	return b
}

func c30RTPChild(in c30RTPIn) (V, Verdict) {
	pkt, _ := hex.DecodeString(in.Pkt)
	st := &c30Steps{}
	if in.Kind == 1 { // RTCP bytes into the unmarshaller the receivers use
		ok := st.step("rtcp.Unmarshal", func() error { _, e := rtcp.Unmarshal(pkt); return e })
		if st.sig != "" {
			return VS(strings.Join(st.log, " ")), Fail(st.sig, st.what)
		}
		return VS(strings.Join(st.log, " ")), Pass(fmt.Sprintf("rtcp:%v", ok), ok)
	}
	pc, err := c30API(true, true, false).NewPeerConnection(webrtc.Configuration{})
	if err != nil {
		panic(err)
	}
	okU := st.step("handleUnknownRTPPacket", func() error {
		_, _, _, _, e := webrtc.VerifC30HandleUnknownRTPPacket(pkt, 1, 2, 3)
		return e
	})
	st.step("incoming-guard", func() error { _, e := pc.VerifC30IncomingGuard(pkt); return e })
	st.step("checkAndUpdateTrack", func() error { return pc.VerifC30CheckAndUpdateTrack(webrtc.RTPCodecTypeVideo, pkt) })
	// the same bytes as an RTX packet: only packets that srtp would have let
	// through (a parseable RTP header) reach the repair reader
	if okU && len(pkt) <= 1460 {
		st.step("rtx-unwrap", func() error {
			_, e := pc.VerifC30RTXUnwrap([][]byte{pkt}, []int{len(pkt)}, 96, 0x01020304)
			return e
		})
	}
	st.step("close", func() error { return pc.Close() })
	obs := VS(strings.Join(st.log, " "))
	if st.sig != "" {
		return obs, Fail(st.sig, st.what)
	}
	return obs, Pass(fmt.Sprintf("rtp:%s/parsed:%v", in.Origin, okU), okU)
}

// ---------- suite media: RTP/RTCP from a "connected" peer ----------

// The PeerConnection gets SRTP sessions over in-memory pipes instead of
// ICE+DTLS; from pion/srtp upwards the receive path is the production one:
// AcceptStream, handleIncomingSSRC (peek, payload-type lookup, simulcast
// probing, receiveForRid / receiveForRtx), declared receivers, RTX readers,
// TrackRemote reads, interceptors.
type c30MediaIn struct {
	Sem       int      `json:"sem"`
	Simulcast bool     `json:"simulcast"` // remote offer: rid section (true) or ssrc-declared sections (false)
	RTP       []string `json:"rtp"`       // hex
	RTCP      []string `json:"rtcp,omitempty"`
}

func c30MediaOffer(simulcast, planb bool) c30Desc {
	vmid, amid := "0", "1"
	if planb {
		vmid, amid = "video", "audio"
	}
	sess := []c30Attr{{"group", "BUNDLE " + vmid + " " + amid}, {"fingerprint", "sha-256 " + c30FP}, {"ice-ufrag", "ab12"}, {"ice-pwd", "abcdefghijklmnopqrstuv"}}
	ext := []c30Attr{{"extmap", "1 " + "urn:ietf:params:rtp-hdrext:sdes:mid"}, {"extmap", "2 urn:ietf:params:rtp-hdrext:sdes:rtp-stream-id"},
		{"extmap", "3 urn:ietf:params:rtp-hdrext:sdes:repaired-rtp-stream-id"}}
	video := append([]c30Attr{{"mid", vmid}, {"setup", "actpass"}, {"sendonly", ""}, {"rtcp-mux", ""}}, ext...)
	video = append(video, c30Attr{"rtpmap", "96 VP8/90000"}, c30Attr{"rtcp-fb", "96 nack"}, c30Attr{"rtpmap", "97 rtx/90000"}, c30Attr{"fmtp", "97 apt=96"},
		c30Attr{"msid", "s t"})
	if simulcast {
		video = append(video, c30Attr{"rid", "hi send"}, c30Attr{"rid", "lo send"}, c30Attr{"simulcast", "send hi;lo"})
	} else {
		video = append(video, c30Attr{"ssrc-group", "FID 3000 3001"}, c30Attr{"ssrc", "3000 cname:x"}, c30Attr{"ssrc", "3001 cname:x"})
	}
	audio := append([]c30Attr{{"mid", amid}, {"setup", "actpass"}, {"sendonly", ""}, {"rtcp-mux", ""}}, ext[:1]...)
	audio = append(audio, c30Attr{"rtpmap", "111 opus/48000/2"}, c30Attr{"msid", "s a"})
	if !simulcast {
		audio = append(audio, c30Attr{"ssrc", "4000 cname:x"})
	}
	return c30Desc{Session: sess, Media: []c30Media{
		{Kind: "video", Port: 9, Proto: "UDP/TLS/RTP/SAVPF", Formats: []string{"96", "97"}, Attrs: video},
		{Kind: "audio", Port: 9, Proto: "UDP/TLS/RTP/SAVPF", Formats: []string{"111"}, Attrs: audio},
	}}
}

func c30MediaChild(in c30MediaIn) (V, Verdict) {
	pc, err := c30API(true, true, true).NewPeerConnection(webrtc.Configuration{SDPSemantics: c30Sem(in.Sem)})
	if err != nil {
		panic(err)
	}
	var ntracks atomic.Int32
	pc.OnTrack(func(t *webrtc.TrackRemote, _ *webrtc.RTPReceiver) {
		ntracks.Add(1)
		go func() { // the application reads what arrives
			b := make([]byte, 1500)
			for {
				if _, _, e := t.Read(b); e != nil {
					return
				}
			}
		}()
	})
	st := &c30Steps{}
	ok := st.step("srd", func() error {
		return pc.SetRemoteDescription(webrtc.SessionDescription{Type: webrtc.SDPTypeOffer, SDP: c30MediaOffer(in.Simulcast, in.Sem == 1).Text()})
	}) && st.step("answer", func() error {
		ans, e := pc.CreateAnswer(nil)
		if e != nil {
			return e
		}
		return pc.SetLocalDescription(ans)
	})
	if !ok {
		_ = pc.Close()
		return VS(strings.Join(st.log, " ")), Fail("generator-valid-offer-rejected", "media offer: "+st.lastErr)
	}
	run := pc.VerifC30PrepareStartRTPReceivers()
	var peer *webrtc.VerifC30Media
	st.step("connect-media", func() error {
		var e error
		peer, e = pc.VerifC30ConnectMedia()
		return e
	})
	if peer == nil {
		_ = pc.Close()
		return VS(strings.Join(st.log, " ")), Fail("media-setup", "no srtp sessions")
	}
	st.step("start-receivers", func() error { run(); drain(pc); return nil })
	sent := 0
	for _, h := range in.RTP {
		raw, _ := hex.DecodeString(h)
		if p, site, msg := c30Catch(func() {
			if peer.SendRTP(raw) == nil {
				sent++
			}
		}); p && st.sig == "" {
			st.sig, st.what = "panic-in-sender-at-"+site, msg // the sending side is pion/srtp too
		}
	}
	for _, h := range in.RTCP {
		raw, _ := hex.DecodeString(h)
		if p, site, msg := c30Catch(func() { _ = peer.SendRTCP(raw) }); p && st.sig == "" {
			st.sig, st.what = "panic-in-sender-at-"+site, msg
		}
	}
	time.Sleep(4 * time.Millisecond) // accept loop, probing goroutines, readers
	st.step("drain", func() error { drain(pc); return nil })
	peer.Close()
	st.step("close", func() error { return pc.Close() })
	obs := VS(fmt.Sprintf("%s sent=%d/%d", strings.Join(st.log, " "), sent, len(in.RTP)))
	if st.sig != "" {
		return obs, Fail(st.sig, st.what)
	}
	return obs, Pass(fmt.Sprintf("simulcast:%v/sent%d/tracks%d", in.Simulcast, min(sent, 4), min(int(ntracks.Load()), 3)), sent > 0)
}

func c30GenMediaRTP(r *Rand) []byte {
	h := rtp.Header{Version: 2, PayloadType: Pick(r, []uint8{96, 96, 97, 111, 0, 127, 35}), SequenceNumber: uint16(r.Intn(70000)),
		Timestamp: uint32(r.U64()), SSRC: Pick(r, []uint32{3000, 3001, 4000, 5555, 5556, 0, 0x7777}), Marker: r.Bool()}
	for i, n := 0, r.Intn(3); i < n; i++ {
		h.CSRC = append(h.CSRC, uint32(r.U64()))
	}
	if r.Chance(3, 4) {
		h.Extension = true
		h.ExtensionProfile = Pick(r, []uint16{0xBEDE, 0xBEDE, 0x1000})
		if r.Chance(3, 4) {
			_ = h.SetExtension(1, []byte(Pick(r, []string{"0", "0", "1", "video", "x", "0000000000000000"})))
		}
		if r.Bool() {
			_ = h.SetExtension(2, []byte(Pick(r, []string{"hi", "lo", "zz", "h"})))
		}
		if r.Chance(1, 4) {
			_ = h.SetExtension(3, []byte(Pick(r, []string{"hi", "lo", "zz"})))
		}
		if len(h.Extensions) == 0 {
			_ = h.SetExtension(5, r.Bytes(3))
		}
	}
	payload := r.Bytes(r.Intn(30))
	if h.PayloadType == 97 && r.Chance(2, 3) { // RTX: OSN + payload, or a bare probe
		payload = append([]byte{byte(r.U64()), byte(r.U64())}, payload...)
	}
	p := rtp.Packet{Header: h, Payload: payload}
	if r.Chance(1, 4) {
		p.Header.Padding, p.PaddingSize = true, uint8(r.Range(1, 30))
		if r.Chance(1, 3) {
			p.Payload = nil // padding-only probe
		}
	}
	b, err := p.Marshal()
	if err != nil {
		return r.Bytes(r.Range(12, 40))
	}
	for k, n := 0, r.Intn(3); k < n && r.Chance(1, 2); k++ {
		switch r.Intn(4) {
		case 0:
			b = b[:r.Range(min(12, len(b)), len(b))]
		case 1:
			b[r.Intn(len(b))] = byte(r.U64())
		case 2:
			b[len(b)-1] = byte(r.U64()) // padding count
		default:
			if len(b) > 16 {
				b[14], b[15] = byte(r.U64()), byte(r.U64()) // extension length
			}
		}
	}
	return b
}

// ---------- suite rtx: the repair-stream rewrite, compared with the model ----------

const c30RTXMTU = 100

type c30RTXIn struct {
	Fill   string `json:"fill"` // hex, exactly c30RTXMTU bytes: what the reader leaves in the pool buffer
	N      int    `json:"n"`    // bytes the reader reports, 1..c30RTXMTU
	PT     uint8  `json:"pt"`
	SSRC   uint32 `json:"ssrc"`
	Expect string `json:"expect,omitempty"` // hex of the original packet when Fill is an unmutated RTX packet
}

func c30RTXChild(in c30RTXIn) (V, Verdict) {
	fill, _ := hex.DecodeString(in.Fill)
	pc, err := c30API(true, true, false, c30RTXMTU).NewPeerConnection(webrtc.Configuration{})
	if err != nil {
		panic(err)
	}
	defer func() { _ = pc.Close() }()
	res, err := pc.VerifC30RTXUnwrap([][]byte{fill}, []int{in.N}, in.PT, in.SSRC)
	if err != nil {
		return c30Err("setup"), Fail("rtx-setup", err.Error())
	}
	if len(res) == 0 {
		return c30Ok(VL{}), Pass("dropped", false)
	}
	r := res[0]
	obs := c30Ok(VL{VL{VHex(r.Packet), VZ(int64(r.RTXPT)), VZ(int64(r.RTXSeq)), VZ(int64(r.RTXSSRC))}})
	// direct oracle (RFC 4588): an unmutated RTX packet comes out as the
	// original packet; anything delivered is two bytes shorter than what was read
	if len(r.Packet) != in.N-2 {
		return obs, Fail("rtx-length", fmt.Sprintf("read %d bytes, delivered %d", in.N, len(r.Packet)))
	}
	if in.Expect != "" && hex.EncodeToString(r.Packet) != in.Expect {
		return obs, Fail("rtx-unwrap-differs-from-original", hex.EncodeToString(r.Packet)+" want "+in.Expect)
	}
	class := "delivered-mutated"
	if in.Expect != "" {
		class = "delivered-valid"
	}
	return obs, Pass(class, true)
}

func c30GenRTX(r *Rand, i int) c30RTXIn {
	in := c30RTXIn{PT: Pick(r, []uint8{96, 102, 0, 127}), SSRC: uint32(r.U64())}
	h := rtp.Header{Version: 2, PayloadType: 97, SequenceNumber: uint16(r.U64()), Timestamp: uint32(r.U64()), SSRC: 77, Marker: r.Bool()}
	for k, n := 0, r.Intn(3); k < n; k++ {
		h.CSRC = append(h.CSRC, uint32(r.U64()))
	}
	if r.Bool() {
		h.Extension, h.ExtensionProfile = true, 0xBEDE
		_ = h.SetExtension(1, []byte("0"))
		if r.Bool() {
			_ = h.SetExtension(3, []byte("hi"))
		}
	}
	osn := uint16(r.U64())
	body := r.Bytes(r.Intn(20))
	p := rtp.Packet{Header: h, Payload: append([]byte{byte(osn >> 8), byte(osn)}, body...)}
	if r.Chance(1, 4) {
		p.Header.Padding, p.PaddingSize = true, uint8(r.Range(1, 8))
	}
	raw, err := p.Marshal()
	if err != nil || len(raw) > c30RTXMTU {
		raw = []byte{0x80, 97, 0, 1, 0, 0, 0, 2, 0, 0, 0, 77, 0x12, 0x34, 1, 2, 3}
		p = rtp.Packet{}
		_ = p.Unmarshal(raw)
		osn, body = 0x1234, []byte{1, 2, 3}
	}
	fill := append(append([]byte{}, raw...), r.Bytes(c30RTXMTU-len(raw))...) // stale bytes behind the packet
	in.N = len(raw)
	if i%3 != 0 {
		// the original packet the sender retransmitted
		o := p
		o.Header.PayloadType, o.Header.SSRC, o.Header.SequenceNumber = in.PT, in.SSRC, osn
		o.Payload = body
		if exp, e := o.Marshal(); e == nil && !p.Header.Padding {
			in.Expect = hex.EncodeToString(exp)
		}
	} else {
		for k, n := 0, r.Range(1, 4); k < n; k++ {
			switch r.Intn(5) {
			case 0:
				in.N = r.Range(1, c30RTXMTU)
			case 1:
				fill[r.Intn(len(raw))] = byte(r.U64())
			case 2:
				fill[0] = byte(r.U64()) // version, padding, extension, CSRC count
			case 3: // hostile extension length (uint16 wrap) where the header says the extension starts
				off := 12 + 4*int(fill[0]&15)
				fill[0] |= 0x10
				v := Pick(r, []uint16{0xffff, 0x3ffc, 0x3ffd, 0x3ffb, 0x4000, 0x7fff, 0x8000, 1, 0, 20})
				fill[off+2], fill[off+3] = byte(v>>8), byte(v)
			default:
				fill[0] |= 0x20 // padding bit, count taken from the last byte read
				fill[in.N-1] = byte(r.U64())
			}
		}
	}
	in.Fill = hex.EncodeToString(fill)
	return in
}

// ---------- suite guard: peeked-packet guard, compared with the model ----------

type c30GuardIn struct {
	Pkt string `json:"pkt"`
	MTU int    `json:"mtu"`
}

func c30GuardRun(in c30GuardIn) (V, Verdict) {
	pkt, _ := hex.DecodeString(in.Pkt)
	pc, err := c30API(true, true, false, uint(in.MTU)).NewPeerConnection(webrtc.Configuration{})
	if err != nil {
		panic(err)
	}
	defer func() { _ = pc.Close() }()
	var pt uint8
	var gerr error
	if p, site, msg := c30Catch(func() { pt, gerr = pc.VerifC30IncomingGuard(pkt) }); p {
		return c30PanicV(), Fail("panic-incoming-guard-at-"+site, msg)
	}
	if gerr != nil {
		return c30Err(webrtc.VerifC30ErrClass(gerr)), Pass("too-short", false)
	}
	return c30Ok(VZ(int64(pt))), Pass("payload-type", true)
}

var c30ChildRun = map[string]func(raw json.RawMessage) (V, Verdict){
	"rtx":   c30ChildHandler(c30RTXChild),
	"media": c30ChildHandler(c30MediaChild),
	"sdp":   c30ChildHandler(c30SDPChild),
	"cand":  c30ChildHandler(c30CandChild),
	"rtp":   c30ChildHandler(c30RTPChild),
}

func init() {

	Register(Spec[c30SDPIn]{
		ID: "C30", Suite: "sdp", Quick: 2400, Thorough: 30000, Parallel: 8, Timeout: 400 * time.Second,
		Corpus: func() []c30SDPIn {
			// the Plan-B witness end to end, on the operations goroutine
			w := []byte(c30Desc{
				Session: []c30Attr{{"fingerprint", "sha-256 " + c30FP}, {"ice-ufrag", "ab12"}, {"ice-pwd", "abcdefghijklmnopqrstuv"}},
				Media: []c30Media{{Kind: "video", Port: 9, Proto: "UDP/TLS/RTP/SAVPF", Formats: []string{"96"},
					Attrs: []c30Attr{{"mid", "video"}, {"setup", "actpass"}, {"sendonly", ""}, {"rtpmap", "96 VP8/90000"},
						{"msid", "s t"}, {"rid", "hi send"}, {"simulcast", "send hi"}}}},
			}.Text())
			var out []c30SDPIn
			for sem := 0; sem < 3; sem++ {
				out = append(out, c30SDPIn{Sem: sem, Codecs: 3, Type: "offer", Text: []byte{}, Answer: true, Origin: "empty"})
			}
			for sem := 0; sem < 3; sem++ {
				out = append(out, c30SDPIn{Sem: sem, Codecs: 1, Type: "offer", Text: w, Answer: true, Origin: "planb-witness", Readable: string(w)})
				// same section, all codecs registered, but the connection is closed
				// before the queued startRTP work runs
				out = append(out, c30SDPIn{Sem: sem, Codecs: 3, Type: "offer", Text: w, Answer: true, Deferred: true, AfterClose: true,
					Origin: "planb-witness-closed", Readable: string(w)})
			}
			// a renegotiation that replaces a simulcast (rid) section by an
			// SSRC-declared one before the transports are up: the startRTP work
			// captured for the first offer then runs against the new receiver
			sess := []c30Attr{{"fingerprint", "sha-256 " + c30FP}, {"ice-ufrag", "ab12"}, {"ice-pwd", "abcdefghijklmnopqrstuv"}}
			common := []c30Attr{{"mid", "0"}, {"setup", "actpass"}, {"sendonly", ""}, {"rtpmap", "96 VP8/90000"}, {"msid", "s t"}}
			o1 := []byte(c30Desc{Session: sess, Media: []c30Media{{Kind: "video", Port: 9, Proto: "UDP/TLS/RTP/SAVPF", Formats: []string{"96"},
				Attrs: append(append([]c30Attr{}, common...), c30Attr{"rid", "hi send"}, c30Attr{"simulcast", "send hi"})}}}.Text())
			o2 := []byte(c30Desc{Session: sess, Media: []c30Media{{Kind: "video", Port: 9, Proto: "UDP/TLS/RTP/SAVPF", Formats: []string{"96"},
				Attrs: append(append([]c30Attr{}, common...), c30Attr{"ssrc", "3000 cname:x"})}}}.Text())
			for sem := 0; sem < 3; sem++ {
				out = append(out, c30SDPIn{Sem: sem, Codecs: 3, Type: "offer", Text: o1, Answer: true, Second: o2, SecondType: "offer",
					Deferred: true, Origin: "stale-startrtp-witness", Readable: string(o1)})
			}
			out = append(out, c30TruncationSweep(97)...)
			return out
		},
		Gen: c30GenSDP, Shrink: c30ShrinkSDP,
		Run:        func(in c30SDPIn) (V, Verdict) { return c30Exec("sdp", in) },
		CoqImports: []string{"Check.C30"}, CoqType: "Z", CoqRun: "Check.C30.run_fixed",
		Coq: func(in c30SDPIn) string {
			if in.Origin == "empty" && len(in.Text) == 0 {
				return "0"
			}
			return ""
		},
	})

	Register(Spec[c30CandIn]{
		ID: "C30", Suite: "cand", Quick: 1500, Thorough: 20000, Parallel: 8, Timeout: 400 * time.Second,
		Corpus: func() []c30CandIn {
			var out []c30CandIn
			for _, c := range c30Candidates {
				out = append(out, c30CandIn{HaveRemote: true, Cand: c}, c30CandIn{HaveRemote: false, Cand: c})
				out = append(out, c30CandIn{HaveRemote: true, Cand: "candidate:" + c})
			}
			return out
		},
		Gen: func(r *Rand, i int) c30CandIn {
			in := c30CandIn{Sem: i % 3, HaveRemote: r.Chance(4, 5), Cand: c30GenCandidate(r)}
			if r.Chance(1, 4) {
				m := Pick(r, c30Mids)
				in.Mid = &m
			}
			if r.Chance(1, 4) {
				l := uint16(r.Intn(70000))
				in.MLine = &l
			}
			if r.Chance(1, 4) {
				u := Pick(r, []string{"ab12", "", "zz"})
				in.Ufrag = &u
			}
			return in
		},
		Shrink: func(in c30CandIn) []c30CandIn {
			var out []c30CandIn
			f := strings.Split(in.Cand, " ")
			for i := range f {
				c := in
				c.Cand = strings.Join(append(append([]string{}, f[:i]...), f[i+1:]...), " ")
				out = append(out, c)
			}
			return out
		},
		Run:        func(in c30CandIn) (V, Verdict) { return c30Exec("cand", in) },
		CoqImports: []string{"Check.C30"}, CoqType: "Z", CoqRun: "Check.C30.run_fixed",
		Coq: func(in c30CandIn) string {
			if !in.HaveRemote {
				return "1"
			}
			return ""
		},
	})

	Register(Spec[c30MediaIn]{
		ID: "C30", Suite: "media", Quick: 300, Thorough: 3000, Parallel: 8, Timeout: 400 * time.Second,
		Corpus: func() []c30MediaIn {
			return []c30MediaIn{
				{Sem: 0}, {Sem: 1, Simulcast: true}, {Sem: 2},
				// declared SSRC, its RTX stream, an undeclared SSRC with mid+rid, SSRC 0 probe
				{Simulcast: false, RTP: []string{
					"80600001000000010000" + "0bb8" + "aabb", "80610002000000010000" + "0bb9" + "0001aabb",
					"90600003000000010000" + "15b3" + "bede0001" + "10302168", "80600004000000010000" + "0000" + "00",
				}, RTCP: []string{"80c90001000015b3"}},
				{Simulcast: true, Sem: 1, RTP: []string{
					"90600003000000010000" + "15b3" + "bede0002" + "1030" + "216869" + "000000",
					"90600004000000010000" + "15b3" + "bede0002" + "1030" + "216869" + "000000",
					"90610005000000010000" + "15b4" + "bede0002" + "1030" + "316869" + "000000",
					"b0600006000000010000" + "15b5" + "bede0001" + "10300000" + "0004",
				}},
			}
		},
		Gen: func(r *Rand, i int) c30MediaIn {
			in := c30MediaIn{Sem: i % 3, Simulcast: r.Bool()}
			for k, n := 0, r.Range(1, 8); k < n; k++ {
				in.RTP = append(in.RTP, hex.EncodeToString(c30GenMediaRTP(r)))
			}
			for k, n := 0, r.Intn(3); k < n; k++ {
				in.RTCP = append(in.RTCP, hex.EncodeToString(c30GenRTCPBytes(r)))
			}
			return in
		},
		Shrink: func(in c30MediaIn) []c30MediaIn {
			var out []c30MediaIn
			for i := range in.RTP {
				c := in
				c.RTP = append(append([]string{}, in.RTP[:i]...), in.RTP[i+1:]...)
				out = append(out, c)
			}
			if len(in.RTCP) > 0 {
				c := in
				c.RTCP = nil
				out = append(out, c)
			}
			return out
		},
		Run:        func(in c30MediaIn) (V, Verdict) { return c30Exec("media", in) },
		CoqImports: []string{"Check.C30"}, CoqType: "Z", CoqRun: "Check.C30.run_fixed",
		Coq: func(in c30MediaIn) string {
			if len(in.RTP) == 0 && len(in.RTCP) == 0 {
				return "2"
			}
			return ""
		},
	})

	Register(Spec[c30RTXIn]{
		ID: "C30", Suite: "rtx", CoqImports: []string{"Check.C30"},
		CoqType: "string * Z * Z * Z", CoqRun: "Check.C30.run_rtx",
		Quick: 300, Thorough: 3000, Parallel: 8, Timeout: 400 * time.Second,
		Corpus: func() []c30RTXIn {
			pad := func(h string) string { return h + strings.Repeat("00", c30RTXMTU-len(h)/2) }
			return []c30RTXIn{
				{Fill: pad("80e10007000000640000004d1234aabb"), N: 16, PT: 96, SSRC: 0x01020304, Expect: "80e012340000006401020304aabb"},
				{Fill: pad("80e10007000000640000004d12"), N: 13, PT: 96, SSRC: 1},       // probe: dropped
				{Fill: pad("90e10007000000640000004dbede3ffc"), N: 16, PT: 96, SSRC: 1}, // header length wraps to 0
				{Fill: pad("90e10007000000640000004dbedeffff"), N: 100, PT: 96, SSRC: 1},
				{Fill: pad("bfe10007000000640000004d"), N: 100, PT: 96, SSRC: 1}, // 15 CSRCs, padding, extension
				{Fill: pad("a0e10007000000640000004d1234aabbccdd03"), N: 19, PT: 96, SSRC: 1},
			}
		},
		Gen: c30GenRTX,
		Run: func(in c30RTXIn) (V, Verdict) { return c30Exec("rtx", in) },
		Coq: func(in c30RTXIn) string {
			return fmt.Sprintf("(%s, %d, %d, %d)", CoqString(in.Fill), in.N, in.PT, in.SSRC)
		},
	})

	Register(Spec[c30GuardIn]{
		ID: "C30", Suite: "guard", CoqImports: []string{"Check.C30"},
		CoqType: "string * Z", CoqRun: "Check.C30.run_guard",
		Exhaustive: func() []c30GuardIn {
			var out []c30GuardIn
			for _, mtu := range []int{4, 8, 1460} {
				for n := 0; n <= 10; n++ {
					out = append(out, c30GuardIn{Pkt: strings.Repeat("e1", n), MTU: mtu})
				}
			}
			return out
		},
		Run: c30GuardRun,
		Coq: func(in c30GuardIn) string { return fmt.Sprintf("(%s, %d)", CoqString(in.Pkt), in.MTU) },
	})

	Register(Spec[c30RTPIn]{
		ID: "C30", Suite: "rtp", Quick: 1500, Thorough: 30000, Parallel: 8, Timeout: 400 * time.Second,
		Corpus: func() []c30RTPIn {
			return []c30RTPIn{
				{Pkt: ""}, {Pkt: "80"}, {Pkt: "8060"}, {Pkt: "806000"},
				{Pkt: "90600001000000010000000abede0001"}, // extension announced, body missing
				{Pkt: "b0e00001000000010000000a" + "bede0000" + "00"},
				{Pkt: "a0600001000000010000000a" + "ff"}, // padding count beyond the packet
				{Pkt: "a0600001000000010000000a" + "00"}, // padding bit, zero count
				{Pkt: "9f600001000000010000000a"},        // 15 CSRCs announced, none present
				{Pkt: "80c80006", Kind: 1}, {Pkt: "81c90001", Kind: 1}, {Pkt: "", Kind: 1},
			}
		},
		Gen: func(r *Rand, i int) c30RTPIn {
			if i%5 == 4 {
				return c30RTPIn{Pkt: hex.EncodeToString(c30GenRTCPBytes(r)), Kind: 1, Origin: "rtcp"}
			}
			b, o := c30GenRTPBytes(r)
			return c30RTPIn{Pkt: hex.EncodeToString(b), Origin: o}
		},
		Shrink: func(in c30RTPIn) []c30RTPIn {
			var out []c30RTPIn
			for n := len(in.Pkt) - 2; n >= 0; n -= 2 {
				out = append(out, c30RTPIn{Pkt: in.Pkt[:n], Kind: in.Kind, Origin: in.Origin})
			}
			return out
		},
		Run:        func(in c30RTPIn) (V, Verdict) { return c30Exec("rtp", in) },
		CoqImports: []string{"Check.C30"}, CoqType: "Z", CoqRun: "Check.C30.run_fixed",
		Coq: func(in c30RTPIn) string {
			if in.Pkt == "" {
				return fmt.Sprint(3 + in.Kind)
			}
			return ""
		},
	})
}
