//go:build verif_c32 || verif_c33 || verif_c35

package main

import (
	"bytes"

	"github.com/pion/rtp"
)

// Packet feeding shared by the media-writer checks (C32, C33, C35).
//
// fresh: every packet handed to WriteRTP owns a newly allocated payload.
// reuse: the usual receive loop - the datagram lands in ONE buffer (shared by
// everything fed through this feeder, e.g. all tracks of a multi-track
// writer), rtp.Packet.Unmarshal makes Payload a sub-slice of that buffer, and
// as soon as WriteRTP has returned the whole buffer is overwritten (the next
// datagram arrives; here a filler byte that changes with every packet).  A
// writer that keeps a reference into the caller's payload instead of a copy
// then writes something else than the packet it was given.  This is an
// aliasing property: the functional Coq models cannot express it, the direct
// oracles (read-back equals what was written) observe it.
type mfFeeder struct {
	reuse bool
	buf   []byte
	n     int
}

func (f *mfFeeder) feed(write func(*rtp.Packet) error, h rtp.Header, payload []byte) error {
	f.n++
	if !f.reuse {
		return write(&rtp.Packet{Header: h, Payload: append([]byte(nil), payload...)})
	}
	h.Version = 2
	src := rtp.Packet{Header: h, Payload: payload}
	need := src.MarshalSize()
	if len(f.buf) < need {
		f.buf = make([]byte, need+need/2+64) // grown rarely; afterwards the same memory serves every packet
	}
	n, err := src.MarshalTo(f.buf)
	if err != nil {
		panic(err)
	}
	var pkt rtp.Packet
	if err := pkt.Unmarshal(f.buf[:n]); err != nil {
		panic(err)
	}
	if !bytes.Equal(pkt.Payload, payload) || pkt.Timestamp != h.Timestamp || pkt.Marker != h.Marker || pkt.SSRC != h.SSRC {
		panic("mfFeeder: packet changed in transit")
	}
	res := write(&pkt)
	fill := byte(0xee) ^ byte(f.n)
	for i := range f.buf {
		f.buf[i] = fill
	}
	return res
}
